(* LfnProofs.v: the long-name builder (both buffer variants) never panics and returns exactly the name
   demanded by Spec/LfnSpec.v; consequences for C17 and C19. *)
From Coq Require Import NArith ZArith Lia List Bool.
From FatVerif Require Import Model.Base Model.Str Model.Slot Model.Time Model.Lfn Spec.LfnSpec Proofs.TimeProofs.
Import ListNotations.
Open Scope N_scope.
Ltac Zify.zify_post_hook ::= Z.to_euclidean_division_equations.

(* ------------------------------------------------------------------ lists *)
Lemma repeat_N_length {A} (x : A) n : length (repeat_N x n) = n.
Proof. induction n; cbn; congruence. Qed.

Lemma skipn_app_exact {A} (l1 l2 : list A) n : length l1 = n -> skipn n (l1 ++ l2) = l2.
Proof.
  intros <-. induction l1; cbn; auto.
Qed.

Lemma firstn_app_exact {A} (l1 l2 : list A) n : length l1 = n -> firstn n (l1 ++ l2) = l1.
Proof.
  intros <-. induction l1; cbn; [destruct l2; reflexivity|congruence].
Qed.

Lemma firstn_splice (u part : list N) (p L : nat) :
  length part = 13%nat -> (p + 13 <= L)%nat -> (L <= length u)%nat ->
  firstn L (firstn p u ++ part ++ skipn (p + 13) u)
  = firstn p (firstn L u) ++ part ++ skipn (p + 13) (firstn L u).
Proof.
  intros Hp H1 H2.
  assert (Hl : length (firstn p u) = p) by (rewrite firstn_length; lia).
  rewrite firstn_app, Hl.
  rewrite (firstn_all2 (n := L) (firstn p u)) by lia.
  rewrite firstn_app, Hp.
  rewrite (firstn_all2 (n := (L - p)%nat) part) by lia.
  rewrite firstn_firstn. replace (Nat.min p L) with p by lia.
  rewrite skipn_firstn_comm.
  replace (L - p - 13)%nat with (L - (p + 13))%nat by lia. reflexivity.
Qed.

(* ------------------------------------------------------------------ the buffer, seen through as_ucs2_units *)
Definition visible (v : variant) (b : lfn_buf) : list N :=
  match v with VecBuf => lb_units b | FixedBuf => firstn (N.to_nat (lb_len b)) (lb_units b) end.

Definition buf_wf (v : variant) (b : lfn_buf) : Prop :=
  match v with VecBuf => True | FixedBuf => length (lb_units b) = 260%nat /\ lb_len b <= 260 end.

Lemma buf_new_wf v : buf_wf v (buf_new v).
Proof. destruct v; cbn; [exact I|]. split; [reflexivity|lia]. Qed.

Lemma buf_new_len v : buf_len v (buf_new v) = 0.
Proof. destruct v; reflexivity. Qed.

Lemma visible_length v b : buf_wf v b -> length (visible v b) = N.to_nat (buf_len v b).
Proof.
  destruct v; cbn; intros H.
  - unfold len_N. now rewrite Nat2N.id.
  - destruct H as [H1 H2]. rewrite firstn_length. lia.
Qed.

Lemma as_units_ok v b : buf_wf v b -> buf_as_units v b = Ok (visible v b).
Proof.
  destruct v; cbn; intros H; [reflexivity|].
  destruct H as [H1 H2]. unfold len_N. rewrite H1.
  destruct (lb_len b <=? N.of_nat 260) eqn:E; [reflexivity|].
  apply N.leb_gt in E. lia.
Qed.

Lemma set_len_spec v b n : buf_wf v b -> n <= 260 ->
  buf_wf v (buf_set_len v b n) /\ buf_len v (buf_set_len v b n) = n /\
  (n <= buf_len v b -> visible v (buf_set_len v b n) = firstn (N.to_nat n) (visible v b)).
Proof.
  destruct v; cbn; intros H Hn.
  - split; [exact I|]. split.
    + unfold len_N, resize0. rewrite app_length, firstn_length, repeat_N_length. lia.
    + unfold len_N, resize0. intros Hle.
      replace (N.to_nat n - length (lb_units b))%nat with 0%nat by lia. cbn. apply app_nil_r.
  - destruct H as [H1 H2]. split; [split; [assumption|lia]|]. split; [reflexivity|].
    intros Hle. rewrite firstn_firstn. f_equal. lia.
Qed.

Lemma write13_spec v b pos part : buf_wf v b -> pos + 13 <= buf_len v b -> length part = 13%nat ->
  exists b', buf_write13 b pos part = Ok b' /\ buf_wf v b' /\ buf_len v b' = buf_len v b /\
    visible v b' = firstn (N.to_nat pos) (visible v b) ++ part ++ skipn (N.to_nat pos + 13) (visible v b).
Proof.
  intros Hwf Hpos Hp. unfold buf_write13.
  assert (Hchk : pos + 13 <=? len_N (lb_units b) = true).
  { apply N.leb_le. destruct v; cbn in *; [assumption|]. destruct Hwf as [H1 H2]. unfold len_N. lia. }
  rewrite Hchk. eexists; split; [reflexivity|].
  assert (Hlen : length (firstn (N.to_nat pos) (lb_units b) ++ part ++ skipn (N.to_nat pos + 13) (lb_units b))
                 = length (lb_units b)).
  { apply N.leb_le in Hchk. unfold len_N in Hchk.
    rewrite !app_length, firstn_length, skipn_length. lia. }
  destruct v; cbn in *.
  - split; [exact I|]. split; [|reflexivity]. unfold len_N. now rewrite Hlen.
  - destruct Hwf as [H1 H2]. split; [split; [now rewrite Hlen|assumption]|]. split; [reflexivity|].
    apply firstn_splice; [assumption|lia|lia].
Qed.

(* ------------------------------------------------------------------ spec side *)
Definition dead (hist : list slot) : Prop := forall ck k acc, run_back ck k hist acc = None.

Lemma dead_nil : dead [].
Proof. intros ck k acc. reflexivity. Qed.

Lemma dead_sfile e hist : dead (SFile e :: hist).
Proof. intros ck k acc. reflexivity. Qed.

Lemma dead_deleted e hist : lfn_is_deleted e = true -> dead (SLfn e :: hist).
Proof. intros H ck k acc. cbn. now rewrite H. Qed.

(* the entries of a run in progress, nearest first: indices i, i+1, ..., n; only the n-th carries the flag *)
Fixpoint run_shape (c i n : N) (run : list lfn_entry) : Prop :=
  match run with
  | [] => False
  | e :: more =>
    lfn_is_deleted e = false /\ order_index (le_order e) = i /\ 1 <= i /\ le_checksum e = c /\
    length (le_name e) = 13%nat /\
    if order_is_last (le_order e) then more = [] /\ i = n /\ n <= 20 else run_shape c (i + 1) n more
  end.

Lemma run_shape_bounds c run : forall i n, run_shape c i n run ->
  1 <= i /\ i <= n /\ n <= 20 /\ n + 1 = i + N.of_nat (length run).
Proof.
  induction run as [|e more IH]; intros i n H; [destruct H|].
  cbn [run_shape] in H. destruct H as (_ & _ & Hi & _ & _ & H).
  destruct (order_is_last (le_order e)).
  - destruct H as (-> & -> & Hn). cbn. lia.
  - apply IH in H. cbn [length]. lia.
Qed.

Lemma run_back_run c run : forall i n older acc, run_shape c i n run ->
  run_back c i (map SLfn run ++ older) acc = Some (acc ++ concat (map le_name run)).
Proof.
  induction run as [|e more IH]; intros i n older acc H; [destruct H|].
  pose proof (run_shape_bounds _ _ _ _ H) as (B1 & B2 & B3 & _).
  cbn [run_shape] in H. destruct H as (Hd & Hi & _ & Hc & _ & H).
  cbn [map app run_back concat]. rewrite Hd, Hi, Hc.
  assert ((1 <=? i) && (i <=? 20) && (i =? i) && (c =? c) = true) as ->.
  { rewrite !andb_true_iff. repeat split; [apply N.leb_le; lia|apply N.leb_le; lia|apply N.eqb_refl|apply N.eqb_refl]. }
  destruct (order_is_last (le_order e)).
  - destruct H as (-> & _). cbn. now rewrite app_nil_r.
  - rewrite (IH _ _ _ _ H). now rewrite app_assoc.
Qed.

Lemma run_back_mismatch c run i n older ck k acc : run_shape c i n run -> (k <> i \/ ck <> c) ->
  run_back ck k (map SLfn run ++ older) acc = None.
Proof.
  destruct run as [|e more]; intros H Hne; [destruct H|].
  cbn [run_shape] in H. destruct H as (Hd & Hi & _ & Hc & _ & _).
  cbn [map app run_back]. rewrite Hd, Hi, Hc.
  destruct Hne as [Hne|Hne].
  - assert (i =? k = false) as -> by (apply N.eqb_neq; congruence).
    now rewrite andb_false_r.
  - assert (c =? ck = false) as -> by (apply N.eqb_neq; congruence).
    now rewrite andb_false_r.
Qed.

Lemma until_nul_firstn us :
  until_nul us = firstn (match position_zero us with Some p => p | None => length us end) us.
Proof.
  induction us as [|u r IH]; [reflexivity|].
  cbn [until_nul position_zero]. destruct (u =? 0); [reflexivity|].
  rewrite IH. destruct (position_zero r); reflexivity.
Qed.

Lemma position_zero_lt us p : position_zero us = Some p -> (p < length us)%nat.
Proof.
  revert p. induction us as [|u r IH]; intros p H; [discriminate|].
  cbn [position_zero] in H. destruct (u =? 0).
  - injection H as <-. cbn. lia.
  - destruct (position_zero r) as [q|]; [|discriminate]. injection H as <-.
    specialize (IH q eq_refl). cbn. lia.
Qed.

(* ------------------------------------------------------------------ the invariant of LongNameBuilder *)
Definition Inv (v : variant) (st : builder) (hist : list slot) : Prop :=
  buf_wf v (b_buf st) /\
  ((b_index st = 0 /\ buf_len v (b_buf st) = 0 /\ dead hist) \/
   (exists run older n,
      hist = map SLfn run ++ older /\ run_shape (b_chksum st) (b_index st) n run /\
      buf_len v (b_buf st) = 13 * n /\
      skipn (N.to_nat (13 * (b_index st - 1))) (visible v (b_buf st)) = concat (map le_name run))).

Lemma Inv_new v hist : dead hist -> Inv v (builder_new v) hist.
Proof.
  intros H. split; [apply buf_new_wf|]. left. cbn. split; [reflexivity|]. split; [apply buf_new_len|assumption].
Qed.

Lemma Inv_clear v st hist : dead hist -> Inv v (builder_clear v st) hist.
Proof.
  intros H. split; [apply buf_new_wf|]. left. cbn. split; [reflexivity|]. split; [apply buf_new_len|assumption].
Qed.

Lemma process_inv v st hist e :
  Inv v st hist -> lfn_is_deleted e = false -> length (le_name e) = 13%nat ->
  exists st', process v st e = Ok st' /\ Inv v st' (SLfn e :: hist).
Proof.
  intros [Hwf HI] Hdel Hlen. unfold process, MAX_LONG_DIR_ENTRIES, LFN_PART_LEN.
  set (idx := order_index (le_order e)).
  destruct ((idx =? 0) || (20 <? idx)) eqn:Hbad.
  { (* index out of range: clear *)
    eexists; split; [reflexivity|]. apply Inv_clear.
    intros ck k acc. cbn [run_back]. rewrite Hdel. fold idx.
    destruct ((1 <=? k) && (k <=? 20) && (idx =? k) && (le_checksum e =? ck)) eqn:E; [|reflexivity].
    rewrite !andb_true_iff in E. destruct E as (((E1 & E2) & E3) & _).
    apply N.leb_le in E1, E2. apply N.eqb_eq in E3.
    apply orb_true_iff in Hbad. destruct Hbad as [Hb|Hb]; [apply N.eqb_eq in Hb|apply N.ltb_lt in Hb]; lia. }
  apply orb_false_iff in Hbad. destruct Hbad as [Hb1 Hb2].
  apply N.eqb_neq in Hb1. apply N.ltb_ge in Hb2.
  destruct (order_is_last (le_order e)) eqn:Hlast.
  { (* first slot of a run *)
    destruct (set_len_spec v (b_buf st) (idx * 13) Hwf ltac:(lia)) as (W1 & L1 & _).
    destruct (write13_spec v _ (13 * (idx - 1)) (le_name e) W1 ltac:(lia) Hlen) as (b' & Hw & W2 & L2 & V2).
    cbn [b_buf b_chksum b_index]. rewrite Hw. cbn [bind].
    eexists; split; [reflexivity|]. split; [exact W2|]. right.
    exists [e], hist, idx. cbn [b_buf b_chksum b_index]. split; [reflexivity|]. split.
    - cbn [run_shape]. fold idx. rewrite Hlast. repeat split; try assumption; try reflexivity; lia.
    - split; [lia|]. rewrite V2.
      assert (Hv1 : length (visible v (buf_set_len v (b_buf st) (idx * 13))) = N.to_nat (idx * 13))
        by (rewrite visible_length by assumption; now rewrite L1).
      rewrite skipn_app_exact by (rewrite firstn_length; lia).
      rewrite (skipn_all2 (n := (N.to_nat (13 * (idx - 1)) + 13)%nat)) by lia.
      cbn. reflexivity. }
  (* a continuation slot *)
  destruct HI as [(Hi0 & Hl0 & Hdead)|(run & older & n & Hh & Hrun & Hl & Hvis)].
  { rewrite Hi0. cbn [N.eqb orb]. eexists; split; [reflexivity|]. apply Inv_clear.
    intros ck k acc. cbn [run_back]. rewrite Hdel, Hlast.
    destruct ((1 <=? k) && (k <=? 20) && (order_index (le_order e) =? k) && (le_checksum e =? ck)); [apply Hdead|reflexivity]. }
  pose proof (run_shape_bounds _ _ _ _ Hrun) as (B1 & B2 & B3 & B4).
  destruct ((b_index st =? 0) || negb (idx =? b_index st - 1) || negb (le_checksum e =? b_chksum st)) eqn:Hmis.
  { (* does not continue the run: clear *)
    eexists; split; [reflexivity|]. apply Inv_clear.
    intros ck k acc. cbn [run_back]. rewrite Hdel, Hlast. fold idx.
    destruct ((1 <=? k) && (k <=? 20) && (idx =? k) && (le_checksum e =? ck)) eqn:E; [|reflexivity].
    rewrite !andb_true_iff in E. destruct E as (((E1 & E2) & E3) & E4).
    apply N.eqb_eq in E3, E4. rewrite Hh. eapply run_back_mismatch; [exact Hrun|].
    rewrite !orb_true_iff in Hmis. destruct Hmis as [[Hm|Hm]|Hm].
    - apply N.eqb_eq in Hm. lia.
    - apply negb_true_iff, N.eqb_neq in Hm. left. lia.
    - apply negb_true_iff, N.eqb_neq in Hm. right. congruence. }
  rewrite !orb_false_iff in Hmis. destruct Hmis as [[Hm1 Hm2] Hm3].
  apply N.eqb_neq in Hm1. apply negb_false_iff, N.eqb_eq in Hm2, Hm3.
  cbn [b_buf b_chksum b_index].
  destruct (write13_spec v (b_buf st) (13 * (idx - 1)) (le_name e) Hwf ltac:(lia) Hlen) as (b' & Hw & W2 & L2 & V2).
  rewrite Hw. cbn [bind]. eexists; split; [reflexivity|]. split; [exact W2|]. right.
  exists (e :: run), older, n. cbn [b_buf b_chksum b_index]. split; [now rewrite Hh|]. split.
  - cbn [run_shape]. fold idx. rewrite Hlast. repeat split; try assumption; try lia.
    replace (b_index st - 1 + 1) with (b_index st) by lia. exact Hrun.
  - split; [lia|]. rewrite V2.
    assert (Hv : length (visible v (b_buf st)) = N.to_nat (13 * n)) by (rewrite visible_length by assumption; now rewrite Hl).
    rewrite skipn_app_exact by (rewrite firstn_length; lia).
    cbn [map concat]. f_equal. rewrite <- Hvis. f_equal. lia.
Qed.

(* the short entry: validate_chksum, into_buf, long_file_name_as_ucs2_units *)
Lemma finish_spec v st hist name : Inv v st hist ->
  exists buf, into_buf v (validate_chksum v st name) = Ok buf /\
              buf_long_name v buf = Ok (lfn_spec hist name).
Proof.
  intros [Hwf HI].
  assert (Hnew : buf_long_name v (buf_new v) = Ok []).
  { unfold buf_long_name. now rewrite buf_new_len. }
  destruct HI as [(Hi0 & Hl0 & Hdead)|(run & older & n & Hh & Hrun & Hl & Hvis)].
  { unfold validate_chksum, builder_is_empty. rewrite Hi0. cbn [N.eqb].
    unfold into_buf, builder_is_empty. rewrite Hi0. cbn [N.eqb negb].
    eexists; split; [reflexivity|]. unfold buf_long_name. rewrite Hl0. cbn [N.ltb N.compare].
    unfold lfn_spec. now rewrite Hdead. }
  pose proof (run_shape_bounds _ _ _ _ Hrun) as (B1 & B2 & B3 & B4).
  unfold validate_chksum, builder_is_empty.
  assert (b_index st =? 0 = false) as -> by (apply N.eqb_neq; lia).
  destruct (lfn_checksum name =? b_chksum st) eqn:Hck.
  2:{ apply N.eqb_neq in Hck. unfold into_buf, builder_is_empty. cbn [builder_clear buf_clear b_index N.eqb negb b_buf].
      eexists; split; [reflexivity|]. unfold buf_clear. rewrite Hnew. unfold lfn_spec. rewrite Hh.
      rewrite (run_back_mismatch _ _ _ _ _ _ _ _ Hrun); [reflexivity|]. right. assumption. }
  apply N.eqb_eq in Hck. unfold into_buf, builder_is_empty.
  destruct (b_index st =? 1) eqn:H1.
  2:{ apply N.eqb_neq in H1. assert (b_index st =? 0 = false) as -> by (apply N.eqb_neq; lia).
      cbn [negb builder_clear buf_clear b_buf]. eexists; split; [reflexivity|]. unfold buf_clear. rewrite Hnew. unfold lfn_spec. rewrite Hh.
      rewrite (run_back_mismatch _ _ _ _ _ _ _ _ Hrun); [reflexivity|]. left. congruence. }
  apply N.eqb_eq in H1. rewrite H1 in Hvis, Hrun. cbn in Hvis.
  unfold truncate, MAX_LONG_NAME_LEN. rewrite (as_units_ok _ _ Hwf). cbn [bind].
  unfold lfn_spec. rewrite Hh, Hck. rewrite (run_back_run _ _ _ _ _ _ Hrun). cbn [app].
  rewrite <- Hvis. set (vis := visible v (b_buf st)).
  assert (Hvl : length vis = N.to_nat (13 * n)) by (unfold vis; rewrite visible_length by assumption; now rewrite Hl).
  rewrite until_nul_firstn.
  set (p := match position_zero vis with Some p => p | None => length vis end).
  assert (Hp : (p <= length vis)%nat).
  { unfold p. destruct (position_zero vis) eqn:E; [apply position_zero_lt in E; lia|lia]. }
  assert (Hnl : match position_zero vis with Some p => N.of_nat p | None => len_N vis end = N.of_nat p).
  { unfold p, len_N. destruct (position_zero vis); reflexivity. }
  rewrite Hnl.
  assert (Hfl : len_N (firstn p vis) = N.of_nat p) by (unfold len_N; rewrite firstn_length; lia).
  rewrite Hfl.
  destruct (255 <? N.of_nat p) eqn:Hbig.
  - apply N.ltb_lt in Hbig. cbn [bind builder_clear buf_clear b_buf]. eexists; split; [reflexivity|]. unfold buf_clear. rewrite Hnew.
    assert (N.of_nat p <=? 255 = false) as -> by (apply N.leb_gt; lia). reflexivity.
  - apply N.ltb_ge in Hbig. cbn [bind b_buf]. eexists; split; [reflexivity|].
    assert (N.of_nat p <=? 255 = true) as -> by (apply N.leb_le; lia).
    destruct (set_len_spec v (b_buf st) (N.of_nat p) Hwf ltac:(lia)) as (W1 & L1 & V1).
    unfold buf_long_name. rewrite L1, (as_units_ok _ _ W1), V1 by (rewrite Hl; lia).
    rewrite Nat2N.id. fold vis.
    destruct (0 <? N.of_nat p) eqn:Hz; [reflexivity|].
    apply N.ltb_ge in Hz. replace p with 0%nat by lia. reflexivity.
Qed.

(* ------------------------------------------------------------------ slot decoding facts *)
Lemma slot_decode_lfn_len bs e : slot_decode bs = SLfn e -> length (le_name e) = 13%nat.
Proof.
  unfold slot_decode. destruct (N.land (attrs_truncate (byte_at bs 11)) ATTR_LFN =? ATTR_LFN); [|discriminate].
  intros H. injection H as <-. reflexivity.
Qed.

Lemma slot_is_deleted_lfn e : slot_is_deleted (SLfn e) = lfn_is_deleted e.
Proof. reflexivity. Qed.

(* ------------------------------------------------------------------ the directory loop *)
Lemma take_while_len_le {A} (f : A -> bool) l : (length (take_while f l) <= length l)%nat.
Proof. induction l; cbn; [lia|]. destruct (f a); cbn; lia. Qed.

Lemma read_dir_go_spec v oem sv slots : forall st hist,
  Inv v st hist ->
  read_dir_go v oem sv slots st (32 * (len_N hist - len_N (take_while is_live_lfn hist))) (32 * len_N hist)
  = Ok (spec_list oem sv hist slots).
Proof.
  induction slots as [|bs rest IH]; intros st hist HI; [reflexivity|].
  cbn [read_dir_go spec_list]. unfold DIR_ENTRY_SIZE.
  destruct (slot_is_end (slot_decode bs)) eqn:Hend; [reflexivity|].
  assert (Hoff : 32 * len_N hist + 32 = 32 * len_N (slot_decode bs :: hist)) by (unfold len_N; cbn [length]; lia).
  destruct (slot_decode bs) as [e|e] eqn:Hdec.
  - (* short slot *)
    unfold should_skip, is_entry.
    destruct (slot_is_deleted (SFile e) || (sv && sfn_is_volume e)) eqn:Hskip.
    + assert (negb (slot_is_deleted (SFile e)) && negb (sv && sfn_is_volume e) = false) as ->.
      { apply orb_true_iff in Hskip. destruct Hskip as [->| ->]; [reflexivity|apply andb_false_r]. }
      rewrite Hoff.
      replace (32 * len_N (SFile e :: hist)) with
        (32 * (len_N (SFile e :: hist) - len_N (take_while is_live_lfn (SFile e :: hist)))) at 1
        by (cbn [take_while is_live_lfn]; unfold len_N; cbn [length]; lia).
      apply IH. apply Inv_clear. apply dead_sfile.
    + apply orb_false_iff in Hskip. destruct Hskip as [-> ->]. cbn [negb andb].
      destruct (finish_spec v st hist (se_name e) HI) as (buf & Hb & Hl).
      rewrite Hb. cbn [bind]. rewrite Hl. cbn [bind]. rewrite Hoff.
      replace (32 * len_N (SFile e :: hist)) with
        (32 * (len_N (SFile e :: hist) - len_N (take_while is_live_lfn (SFile e :: hist)))) at 1
        by (cbn [take_while is_live_lfn]; unfold len_N; cbn [length]; lia).
      rewrite IH by (apply Inv_new, dead_sfile). cbn [bind].
      do 2 f_equal. f_equal. unfold len_N. cbn [length]. lia.
  - (* long-name slot *)
    unfold should_skip. rewrite slot_is_deleted_lfn, orb_false_r.
    destruct (lfn_is_deleted e) eqn:Hdel.
    + rewrite Hoff.
      replace (32 * len_N (SLfn e :: hist)) with
        (32 * (len_N (SLfn e :: hist) - len_N (take_while is_live_lfn (SLfn e :: hist)))) at 1
        by (cbn [take_while is_live_lfn]; rewrite Hdel; unfold len_N; cbn [length negb]; lia).
      apply IH. apply Inv_clear. now apply dead_deleted.
    + destruct (process_inv v st hist e HI Hdel (slot_decode_lfn_len _ _ Hdec)) as (st' & Hp & HI').
      rewrite Hp. cbn [bind]. rewrite Hoff.
      replace (32 * (len_N hist - len_N (take_while is_live_lfn hist))) with
        (32 * (len_N (SLfn e :: hist) - len_N (take_while is_live_lfn (SLfn e :: hist)))).
      * apply IH. exact HI'.
      * cbn [take_while is_live_lfn]. rewrite Hdel. cbn [negb]. unfold len_N. cbn [length]. lia.
Qed.

(* C17 lfn_sound (and totality): for EVERY list of slots and both buffer variants the listing is the spec's *)
Theorem read_dir_sound v oem sv slots : read_dir v oem sv slots = Ok (spec_dir oem sv slots).
Proof.
  unfold read_dir, spec_dir.
  exact (read_dir_go_spec v oem sv slots (builder_new v) [] (Inv_new v [] dead_nil)).
Qed.

Theorem read_dir_total v oem sv slots : exists l, read_dir v oem sv slots = Ok l.
Proof. eexists. apply read_dir_sound. Qed.

(* C19 builder_equiv *)
Theorem builder_equiv oem sv slots : read_dir VecBuf oem sv slots = read_dir FixedBuf oem sv slots.
Proof. now rewrite !read_dir_sound. Qed.

(* ------------------------------------------------------------------ names never exceed 255 units *)
Lemma lfn_spec_len back name : len_N (lfn_spec back name) <= 255.
Proof.
  unfold lfn_spec. destruct (run_back (lfn_checksum name) 1 back []) as [us|]; [|cbn; lia].
  cbn zeta. destruct (len_N (until_nul us) <=? 255) eqn:E; [now apply N.leb_le in E|cbn; lia].
Qed.

Lemma spec_list_lfn_len oem sv slots : forall before,
  Forall (fun e => len_N (ev_lfn e) <= 255) (spec_list oem sv before slots).
Proof.
  induction slots as [|bs rest IH]; intros before; [constructor|].
  cbn [spec_list]. destruct (slot_is_end (slot_decode bs)); [constructor|].
  destruct (slot_decode bs) as [e|e]; [|apply IH].
  destruct (is_entry sv (SFile e)); [|apply IH].
  constructor; [apply lfn_spec_len|apply IH].
Qed.

Theorem lfn_len_le_255 v oem sv slots l : read_dir v oem sv slots = Ok l ->
  Forall (fun e => len_N (ev_lfn e) <= 255) l.
Proof.
  rewrite read_dir_sound. intros H. injection H as <-. apply spec_list_lfn_len.
Qed.

(* ------------------------------------------------------------------ what run_back / lfn_spec accept, relationally *)
Lemma run_back_iff ck back : forall k acc us,
  run_back ck k back acc = Some us <->
  exists run older, back = map SLfn run ++ older /\ run_ok ck k run = true /\ us = acc ++ concat (map le_name run).
Proof.
  induction back as [|s more IH]; intros k acc us.
  - split; [discriminate|]. intros (run & older & H & Hok & _).
    destruct run; [discriminate Hok|discriminate H].
  - destruct s as [e|e].
    + split; [discriminate|]. intros (run & older & H & Hok & _).
      destruct run; [discriminate Hok|discriminate H].
    + cbn [run_back]. split.
      * destruct (lfn_is_deleted e) eqn:Hd; [discriminate|].
        destruct ((1 <=? k) && (k <=? 20) && (order_index (le_order e) =? k) && (le_checksum e =? ck)) eqn:Hc; [|discriminate].
        destruct (order_is_last (le_order e)) eqn:Hl.
        -- intros H. injection H as <-. exists [e], more. split; [reflexivity|]. split.
           ++ cbn [run_ok]. rewrite Hd, Hl. rewrite !andb_true_iff in Hc. destruct Hc as (((-> & ->) & ->) & ->). reflexivity.
           ++ cbn. now rewrite app_nil_r.
        -- intros H. apply IH in H. destruct H as (run & older & -> & Hok & ->).
           exists (e :: run), older. split; [reflexivity|]. split.
           ++ cbn [run_ok]. rewrite Hd, Hl. rewrite !andb_true_iff in Hc. destruct Hc as (((-> & ->) & ->) & ->). exact Hok.
           ++ cbn [map concat]. now rewrite app_assoc.
      * intros (run & older & H & Hok & ->).
        destruct run as [|e' run']; [discriminate Hok|]. cbn [map app] in H. injection H as <- ->.
        cbn [run_ok] in Hok. rewrite !andb_true_iff in Hok.
        destruct Hok as (((((Hd & H1) & H2) & H3) & H4) & H5).
        apply negb_true_iff in Hd. rewrite Hd, H1, H2, H3, H4. cbn [andb].
        destruct (order_is_last (le_order e)).
        -- destruct run'; [|discriminate]. cbn. now rewrite app_nil_r.
        -- apply IH. exists run', older. split; [reflexivity|]. split; [exact H5|].
           cbn [map concat]. now rewrite app_assoc.
Qed.


Theorem lfn_spec_iff back name us :
  lfn_spec back name = us <->
  (exists run older, back = map SLfn run ++ older /\ run_ok (lfn_checksum name) 1 run = true /\
                     us = cut_name (concat (map le_name run)))
  \/ ((forall run older, back = map SLfn run ++ older -> run_ok (lfn_checksum name) 1 run = false) /\ us = []).
Proof.
  unfold lfn_spec. destruct (run_back (lfn_checksum name) 1 back []) as [l|] eqn:E.
  - apply run_back_iff in E as E'. destruct E' as (run & older & Hb & Hok & Hl). cbn [app] in Hl. subst l.
    split.
    + intros <-. left. exists run, older. auto.
    + intros [(run2 & older2 & Hb2 & Hok2 & ->)|(Hno & _)].
      * assert (E2 : run_back (lfn_checksum name) 1 back [] = Some ([] ++ concat (map le_name run2)))
          by (apply run_back_iff; exists run2, older2; auto).
        rewrite E in E2. injection E2 as E2. cbn [app] in E2. unfold cut_name. now rewrite E2.
      * rewrite (Hno run older Hb) in Hok. discriminate.
  - split.
    + intros <-. right. split; [|reflexivity]. intros run older Hb.
      destruct (run_ok (lfn_checksum name) 1 run) eqn:Hok; [|reflexivity].
      assert (E2 : run_back (lfn_checksum name) 1 back [] = Some ([] ++ concat (map le_name run)))
        by (apply run_back_iff; exists run, older; auto).
      rewrite E in E2. discriminate.
    + intros [(run2 & older2 & Hb2 & Hok2 & _)|(_ & ->)]; [|reflexivity].
      assert (E2 : run_back (lfn_checksum name) 1 back [] = Some ([] ++ concat (map le_name run2)))
        by (apply run_back_iff; exists run2, older2; auto).
      rewrite E in E2. discriminate.
Qed.

(* ------------------------------------------------------------------ the listing, by slot position *)


Lemma entry_at_shift oem before bs0 pre se :
  entry_at oem (slot_decode bs0 :: before) pre se = entry_at oem before (bs0 :: pre) se.
Proof. unfold entry_at. cbn [map rev]. now rewrite <- app_assoc. Qed.

Lemma spec_list_in oem sv slots : forall before e,
  In e (spec_list oem sv before slots) <-> listed_at oem sv before slots e.
Proof.
  induction slots as [|bs0 rest IH]; intros before e.
  { cbn [spec_list In]. split; [intros []|]. intros (pre & bs & post & se & H & _). destruct pre; discriminate. }
  cbn [spec_list]. destruct (slot_is_end (slot_decode bs0)) eqn:Hend.
  { split; [intros []|]. intros (pre & bs & post & se & H & Hpre & Hdec & Hne & _).
    destruct pre as [|p pre]; cbn [app] in H; injection H as <- _.
    - rewrite Hdec in Hend. congruence.
    - inversion Hpre; subst. congruence. }
  assert (Htail : In e (spec_list oem sv (slot_decode bs0 :: before) rest) ->
                  listed_at oem sv before (bs0 :: rest) e).
  { intros H. apply IH in H. destruct H as (pre & bs & post & se & -> & Hpre & Hdec & Hne & Hent & ->).
    exists (bs0 :: pre), bs, post, se. split; [reflexivity|]. split; [constructor; assumption|].
    repeat split; try assumption. apply entry_at_shift. }
  assert (Hback : listed_at oem sv before (bs0 :: rest) e ->
                  (exists se, slot_decode bs0 = SFile se /\ is_entry sv (SFile se) = true /\ e = entry_at oem before [] se)
                  \/ In e (spec_list oem sv (slot_decode bs0 :: before) rest)).
  { intros (pre & bs & post & se & H & Hpre & Hdec & Hne & Hent & ->).
    destruct pre as [|p pre]; cbn [app] in H; injection H as <- ->.
    - left. exists se. auto.
    - right. apply IH. inversion Hpre; subst. exists pre, bs, post, se. repeat split; try assumption.
      symmetry. apply entry_at_shift. }
  assert (Hhead : forall se, slot_decode bs0 = SFile se -> is_entry sv (SFile se) = true ->
                  listed_at oem sv before (bs0 :: rest) (entry_at oem before [] se)).
  { intros se Hd He. exists [], bs0, rest, se. repeat split; try assumption; [constructor|].
    now rewrite Hd in Hend. }
  destruct (slot_decode bs0) as [se0|le0] eqn:Hdec0.
  - destruct (is_entry sv (SFile se0)) eqn:Hent0.
    + split.
      * intros [<-|H]; [|now apply Htail]. apply (Hhead se0 eq_refl Hent0).
      * intros H. apply Hback in H. destruct H as [(se & Hs & _ & ->)|H]; [|now right].
        injection Hs as <-. left. reflexivity.
    + split; [exact Htail|]. intros H. apply Hback in H. destruct H as [(se & Hs & He & _)|H]; [|exact H].
      injection Hs as <-. congruence.
  - split; [exact Htail|]. intros H. apply Hback in H. destruct H as [(se & Hs & _)|H]; [discriminate|exact H].
Qed.

Theorem read_dir_listed v oem sv slots l : read_dir v oem sv slots = Ok l ->
  forall e, In e l <-> listed_at oem sv [] slots e.
Proof.
  rewrite read_dir_sound. intros H. injection H as <-. intros e. apply spec_list_in.
Qed.

(* ------------------------------------------------------------------ accessors: every decoded field is in its machine range *)

Lemma byte_at_lt bs i : bytes_ok bs -> byte_at bs i < 256.
Proof.
  intros H. unfold byte_at. destruct (nth_in_or_default i bs 0) as [Hin| ->]; [|lia].
  unfold bytes_ok in H. rewrite Forall_forall in H. now apply H.
Qed.
Lemma u16_at_lt bs i : bytes_ok bs -> u16_at bs i < 65536.
Proof. intros H. unfold u16_at. pose proof (byte_at_lt bs i H). pose proof (byte_at_lt bs (S i) H). lia. Qed.
Lemma u32_at_lt bs i : bytes_ok bs -> u32_at bs i < 4294967296.
Proof. intros H. unfold u32_at. pose proof (u16_at_lt bs i H). pose proof (u16_at_lt bs (S (S i)) H). lia. Qed.


Lemma time_decode_total w hi : w < 65536 -> hi < 256 -> time_in_range (time_decode w hi).
Proof.
  intros Hw Hh. unfold time_in_range, time_decode; cbn [hour min sec millis].
  split; [lia|]. split; [lia|]. split; lia.
Qed.



(* ShortName::new: at most 8 + 1 + 3 bytes, all taken from the raw name or '.' or 0xE5 *)
Lemma short_name_bytes_len raw : (length (short_name_bytes raw) <= 12)%nat.
Proof.
  unfold short_name_bytes.
  set (base := firstn 8 raw). set (ext := firstn 3 (skipn 8 raw)).
  assert (Hb : (length (firstn (trim_len base) base) <= 8)%nat).
  { rewrite firstn_length. unfold base. rewrite firstn_length. lia. }
  assert (He : (length (firstn (trim_len ext) ext) <= 3)%nat).
  { rewrite firstn_length. unfold ext. rewrite firstn_length. lia. }
  destruct (Nat.ltb 0 (trim_len ext)).
  - destruct (firstn (trim_len base) base ++ [46] ++ firstn (trim_len ext) ext) eqn:E; [cbn; lia|].
    assert (Hl : length (n :: l) = length (firstn (trim_len base) base ++ [46] ++ firstn (trim_len ext) ext)) by now rewrite E.
    rewrite !app_length in Hl. cbn [length] in *. lia.
  - destruct (firstn (trim_len base) base) eqn:E; cbn [length] in *; lia.
Qed.


Lemma Forall_firstn' {A} (P : A -> Prop) l : forall n, Forall P l -> Forall P (firstn n l).
Proof.
  induction l as [|x r IH]; intros n H; [destruct n; constructor|].
  destruct n; [constructor|]. inversion H; subst. cbn. constructor; auto.
Qed.
Lemma Forall_skipn' {A} (P : A -> Prop) l : forall n, Forall P l -> Forall P (skipn n l).
Proof.
  induction l as [|x r IH]; intros n H; [destruct n; constructor|].
  destruct n; [exact H|]. inversion H; subst. cbn. auto.
Qed.

Lemma short_name_bytes_ok raw : bytes_ok raw -> bytes_ok (short_name_bytes raw).
Proof.
  intros H. unfold short_name_bytes.
  set (base := firstn 8 raw). set (ext := firstn 3 (skipn 8 raw)).
  assert (Hb : bytes_ok (firstn (trim_len base) base)) by (apply Forall_firstn', Forall_firstn', H).
  assert (He : bytes_ok (firstn (trim_len ext) ext)) by (apply Forall_firstn', Forall_firstn', Forall_skipn', H).
  assert (Hfix : forall l, bytes_ok l -> bytes_ok (match l with c :: r => (if c =? 5 then 229 else c) :: r | [] => [] end)).
  { intros l Hl. destruct l as [|c r]; [constructor|]. inversion Hl; subst. constructor; [|assumption].
    destruct (c =? 5); [lia|assumption]. }
  destruct (Nat.ltb 0 (trim_len ext)); apply Hfix; [|exact Hb].
  apply Forall_app. split; [exact Hb|]. apply Forall_app. split; [|exact He]. constructor; [lia|constructor].
Qed.

Lemma lowercase_name_bytes_ok e : bytes_ok (se_name e) -> bytes_ok (lowercase_name_bytes e).
Proof.
  intros H. unfold lowercase_name_bytes. apply short_name_bytes_ok.
  assert (Hm : forall l, bytes_ok l -> bytes_ok (map byte_ascii_lower l)).
  { intros l Hl. induction Hl; cbn; constructor; [|assumption].
    unfold byte_ascii_lower. destruct ((65 <=? x) && (x <=? 90)) eqn:E; [|assumption].
    apply andb_true_iff in E. destruct E as [_ E]. apply N.leb_le in E. lia. }
  apply Forall_app. split.
  - destruct (_ =? 1); [apply Hm|]; apply Forall_firstn', H.
  - destruct (_ =? 1); [apply Hm|]; apply Forall_skipn', H.
Qed.

(* String::from_utf16_lossy yields scalar values only *)
Lemma utf16_decode_lossy_ok us : units_ok us -> str_ok (utf16_decode_lossy us).
Proof.
  unfold utf16_decode_lossy, str_ok.
  assert (H : forall n us, (length us <= n)%nat -> units_ok us ->
            Forall (fun c => is_scalar c = true) (map (fun o => match o with Some c => c | None => 65533 end) (utf16_decode us))).
  { clear us. induction n as [|n IH]; intros us Hn Hu.
    - destruct us; [constructor|cbn in Hn; lia].
    - destruct us as [|u r]; [constructor|]. cbn [length] in Hn. inversion Hu as [|? ? Hu1 Hu2]; subst.
      cbn [utf16_decode]. destruct (is_high_surrogate u) eqn:Hh.
      + unfold is_high_surrogate in Hh. apply andb_true_iff in Hh. destruct Hh as [Hh1 Hh2].
        apply N.leb_le in Hh1, Hh2.
        destruct r as [|w r']; [cbn; constructor; [reflexivity|constructor]|].
        inversion Hu2 as [|? ? Hw1 Hw2]; subst.
        destruct (is_low_surrogate w) eqn:Hl.
        * unfold is_low_surrogate in Hl. apply andb_true_iff in Hl. destruct Hl as [Hl1 Hl2].
          apply N.leb_le in Hl1, Hl2. cbn [map]. constructor.
          -- unfold is_scalar. apply orb_true_iff. right. apply andb_true_iff. split; [apply N.ltb_lt|apply N.leb_le]; lia.
          -- apply IH; [cbn [length] in Hn; lia|assumption].
        * cbn [map]. constructor; [reflexivity|]. apply IH; [lia|assumption].
      + destruct (is_low_surrogate u) eqn:Hl.
        * cbn [map]. constructor; [reflexivity|]. apply IH; [lia|assumption].
        * cbn [map]. constructor; [|apply IH; [lia|assumption]].
          unfold is_high_surrogate in Hh. unfold is_low_surrogate in Hl. unfold is_scalar.
          apply andb_false_iff in Hh. apply andb_false_iff in Hl.
          apply orb_true_iff.
          destruct (u <? 55296) eqn:E; [now left|right]. apply N.ltb_ge in E.
          destruct Hh as [Hh|Hh]; [apply N.leb_gt in Hh; lia|]. apply N.leb_gt in Hh.
          destruct Hl as [Hl|Hl]; [apply N.leb_gt in Hl; lia|]. apply N.leb_gt in Hl.
          apply andb_true_iff. split; [apply N.ltb_lt|apply N.leb_le]; lia. }
  intros Hu. exact (H (length us) us (le_n _) Hu).
Qed.

(* the units of the spec's name are units of the slots looked at *)
Definition slot_units_ok (s : slot) : Prop := match s with SLfn e => units_ok (le_name e) | SFile _ => True end.

Lemma run_back_units ck back : forall k acc us, Forall slot_units_ok back -> units_ok acc ->
  run_back ck k back acc = Some us -> units_ok us.
Proof.
  induction back as [|s more IH]; intros k acc us Hb Ha H; [discriminate|].
  inversion Hb as [|? ? Hs Hm]; subst. destruct s as [e|e]; [discriminate|]. cbn [run_back] in H.
  destruct (lfn_is_deleted e); [discriminate|].
  destruct (_ && _); [|discriminate].
  assert (Hacc : units_ok (acc ++ le_name e)) by (apply Forall_app; split; assumption).
  destruct (order_is_last (le_order e)); [injection H as <-; exact Hacc|].
  eapply IH; eauto.
Qed.

Lemma until_nul_units us : units_ok us -> units_ok (until_nul us).
Proof.
  intros H. induction H; cbn; [constructor|]. destruct (x =? 0); constructor; assumption.
Qed.

Lemma lfn_spec_units back name : Forall slot_units_ok back -> units_ok (lfn_spec back name).
Proof.
  intros H. unfold lfn_spec. destruct (run_back _ 1 back []) as [us|] eqn:E; [|constructor].
  cbn zeta. destruct (_ <=? 255); [|constructor].
  apply until_nul_units. eapply run_back_units; eauto. constructor.
Qed.

Lemma slot_decode_units_ok bs : bytes_ok bs -> slot_units_ok (slot_decode bs).
Proof.
  intros H. unfold slot_decode. destruct (_ =? ATTR_LFN); [|exact I].
  cbn [slot_units_ok le_name]. repeat (constructor; [apply u16_at_lt, H|]). constructor.
Qed.

Local Opaque firstn.
Lemma mk_view_in_range oem bs se lfn b en : slot_ok bs -> slot_decode bs = SFile se ->
  units_ok lfn -> len_N lfn <= 255 -> view_in_range (mk_view oem se lfn b en).
Proof.
  intros [Hlen Hb] Hdec Hu Hl. unfold slot_decode in Hdec.
  destruct (_ =? ATTR_LFN); [discriminate|]. injection Hdec as <-.
  unfold view_in_range, mk_view, datetime_decode.
  cbn [ev_lfn ev_raw_name ev_short ev_attrs ev_size ev_cluster_hi ev_cluster_lo ev_created ev_modified ev_accessed ev_is_dir
       se_name se_attrs se_size se_first_cluster_hi se_first_cluster_lo se_create_date se_create_time_1 se_create_time_0
       se_modify_date se_modify_time se_access_date dt_date dt_time].
  pose proof (byte_at_lt bs 11 Hb) as H11. pose proof (byte_at_lt bs 13 Hb) as H13.
  pose proof (u16_at_lt bs 14 Hb). pose proof (u16_at_lt bs 16 Hb). pose proof (u16_at_lt bs 18 Hb).
  pose proof (u16_at_lt bs 20 Hb). pose proof (u16_at_lt bs 22 Hb). pose proof (u16_at_lt bs 24 Hb).
  pose proof (u16_at_lt bs 26 Hb). pose proof (u32_at_lt bs 28 Hb).
  assert (Hraw : bytes_ok (firstn 11 bs)) by (apply Forall_firstn', Hb).
  split; [exact Hu|]. split; [exact Hl|].
  split; [rewrite firstn_length; lia|]. split; [exact Hraw|].
  split; [apply short_name_bytes_len|]. split; [apply short_name_bytes_ok, Hraw|].
  split; [unfold attrs_truncate; lia|]. split; [assumption|]. split; [assumption|]. split; [assumption|].
  split; [apply date_decode_total; assumption|]. split; [apply time_decode_total; assumption|].
  split; [apply date_decode_total; assumption|]. split; [apply time_decode_total; [assumption|lia]|].
  split; [apply date_decode_total; assumption|].
  unfold sfn_is_dir, ATTR_DIRECTORY. cbn [se_attrs]. set (a := attrs_truncate (byte_at bs 11)).
  assert (Ha : a < 64) by (unfold a, attrs_truncate; lia).
  assert (Hand : N.land a 16 = 16 * ((a / 16) mod 2)).
  { clear - Ha. assert (Hall : forallb (fun x => N.land x 16 =? 16 * ((x / 16) mod 2)) (map N.of_nat (seq 0 64)) = true) by (vm_compute; reflexivity).
    rewrite forallb_forall in Hall. apply N.eqb_eq, Hall. apply in_map_iff. exists (N.to_nat a). split; [lia|]. apply in_seq. lia. }
  rewrite Hand. split.
  - intros Hd. apply negb_true_iff, N.eqb_neq in Hd. lia.
  - intros ->. reflexivity.
Qed.

Local Transparent firstn.

Theorem accessors_total v oem sv slots l : Forall slot_ok slots -> read_dir v oem sv slots = Ok l ->
  Forall view_in_range l.
Proof.
  intros Hs Hr. apply Forall_forall. intros e He.
  apply (read_dir_listed _ _ _ _ _ Hr) in He.
  destruct He as (pre & bs & post & se & -> & _ & Hdec & _ & _ & ->).
  apply Forall_app in Hs. destruct Hs as [Hpre Hs]. inversion Hs as [|? ? Hbs _]; subst.
  unfold entry_at. eapply mk_view_in_range; eauto; [|apply lfn_spec_len].
  apply lfn_spec_units. rewrite app_nil_r. apply Forall_rev. apply Forall_map.
  eapply Forall_impl; [|exact Hpre]. intros a [_ Ha]. now apply slot_decode_units_ok.
Qed.

(* file_name() / short_file_name() are well-formed strings whenever the OEM decoder yields chars *)
Theorem file_names_valid v oem sv slots l :
  (forall b, b < 256 -> is_scalar (oem b) = true) ->
  Forall slot_ok slots -> read_dir v oem sv slots = Ok l ->
  Forall (fun e => str_ok (ev_file_name e) /\ str_ok (ev_short_file_name e)) l.
Proof.
  intros Hoem Hs Hr. pose proof (accessors_total _ _ _ _ _ Hs Hr) as Hacc.
  apply Forall_forall. intros e He. rewrite Forall_forall in Hacc. specialize (Hacc e He).
  apply (read_dir_listed _ _ _ _ _ Hr) in He.
  destruct He as (pre & bs & post & se & -> & _ & Hdec & _ & _ & ->).
  destruct Hacc as (Hu & _ & _ & Hraw & _ & Hshort & _).
  unfold entry_at in *. cbn [mk_view ev_file_name ev_short_file_name ev_lfn ev_raw_name ev_short] in *.
  assert (Hmap : forall l, bytes_ok l -> str_ok (map oem l)).
  { intros l0 H0. unfold str_ok. apply Forall_map. eapply Forall_impl; [|exact H0]. intros a Ha. now apply Hoem. }
  split; [|apply Hmap, Hshort].
  destruct (lfn_spec _ _) eqn:E; [apply Hmap, lowercase_name_bytes_ok, Hraw|].
  apply utf16_decode_lossy_ok, Hu.
Qed.

Lemma oem_lossy_scalar b : b < 256 -> is_scalar (oem_lossy b) = true.
Proof.
  intros H. unfold oem_lossy. destruct (b <=? 127) eqn:E; [|reflexivity].
  apply N.leb_le in E. unfold is_scalar. apply orb_true_iff. left. apply N.ltb_lt. lia.
Qed.

(* ------------------------------------------------------------------ C19: LfnBuffer::from_ucs2_units *)
Theorem from_units_equiv us : len_N us <= 260 ->
  exists bv bf, buf_from_units VecBuf us = Ok bv /\ buf_from_units FixedBuf us = Ok bf /\
    buf_as_units VecBuf bv = Ok us /\ buf_as_units FixedBuf bf = Ok us /\
    buf_len VecBuf bv = len_N us /\ buf_len FixedBuf bf = len_N us.
Proof.
  intros H. unfold buf_from_units, LONG_NAME_BUFFER_LEN.
  assert (len_N us <=? 260 = true) as -> by now apply N.leb_le.
  eexists; eexists. split; [reflexivity|]. split; [reflexivity|]. cbn [buf_as_units buf_len lb_units lb_len].
  split; [reflexivity|]. split; [|split; reflexivity].
  unfold len_N in *. rewrite app_length, repeat_N_length.
  assert (N.of_nat (length us) <=? N.of_nat (length us + (260 - length us)) = true) as -> by (apply N.leb_le; lia).
  rewrite Nat2N.id. f_equal. apply firstn_app_exact. reflexivity.
Qed.

Theorem from_units_beyond us : 260 < len_N us ->
  buf_from_units FixedBuf us = Panic /\
  exists bv, buf_from_units VecBuf us = Ok bv /\ buf_as_units VecBuf bv = Ok us.
Proof.
  intros H. unfold buf_from_units, LONG_NAME_BUFFER_LEN.
  assert (len_N us <=? 260 = false) as -> by now apply N.leb_gt.
  split; [reflexivity|]. eexists. split; reflexivity.
Qed.

(* the only caller (Dir::write_entry) validates first: name.len() <= 255 bytes of UTF-8 *)
Lemma utf16_char_len_le c : N.of_nat (length (utf16_encode_char c)) <= utf8_char_len c.
Proof.
  unfold utf16_encode_char, utf8_char_len.
  destruct (c <? 65536) eqn:E.
  - cbn [length]. destruct (c <? 128), (c <? 2048); cbv iota; lia.
  - apply N.ltb_ge in E. cbn [length].
    assert (c <? 128 = false) as -> by (apply N.ltb_ge; lia).
    assert (c <? 2048 = false) as -> by (apply N.ltb_ge; lia). cbv iota. lia.
Qed.

Lemma utf16_len_le_utf8 s : len_N (utf16_encode s) <= utf8_len s.
Proof.
  unfold len_N, utf16_encode. induction s as [|c r IH]; [cbn; lia|].
  cbn [flat_map utf8_len]. rewrite app_length. pose proof (utf16_char_len_le c). lia.
Qed.

Theorem encode_lfn_equiv name : utf8_len name <= 255 ->
  exists bv bf, buf_from_units VecBuf (utf16_encode name) = Ok bv /\ buf_from_units FixedBuf (utf16_encode name) = Ok bf /\
    buf_as_units VecBuf bv = Ok (utf16_encode name) /\ buf_as_units FixedBuf bf = Ok (utf16_encode name) /\
    buf_len VecBuf bv = buf_len FixedBuf bf.
Proof.
  intros H. pose proof (utf16_len_le_utf8 name).
  destruct (from_units_equiv (utf16_encode name) ltac:(lia)) as (bv & bf & A & B & C & D & E & F).
  exists bv, bf. repeat split; try assumption. congruence.
Qed.

(* ------------------------------------------------------------------ C19: case folding *)

Section Fold.
  Variable upper_u : N -> list N.      (* char::to_uppercase *)
  Variable upper_a : N -> N.           (* char::to_ascii_uppercase *)
  Hypothesis upper_agree : forall c, c < 128 -> upper_u c = [upper_a c].

  Lemma flat_map_ascii s : ascii s -> flat_map upper_u s = flat_map (fun c => [upper_a c]) s.
  Proof. intros H. induction H; cbn; [reflexivity|]. now rewrite upper_agree, IHForall. Qed.

  Theorem ascii_fold_equiv a b : ascii a -> ascii b ->
    fold_eq upper_u a b = fold_eq (fun c => [upper_a c]) a b.
  Proof. intros Ha Hb. unfold fold_eq. now rewrite !flat_map_ascii. Qed.

  Lemma utf16_decode_ascii us : ascii us -> utf16_decode us = map Some us.
  Proof.
    intros H. induction H as [|u r Hu Hr IH]; [reflexivity|]. cbn [utf16_decode map].
    assert (is_high_surrogate u = false) as ->.
    { unfold is_high_surrogate. apply andb_false_iff. left. apply N.leb_gt. lia. }
    assert (is_low_surrogate u = false) as ->.
    { unfold is_low_surrogate. apply andb_false_iff. left. apply N.leb_gt. lia. }
    now rewrite IH.
  Qed.

  Theorem eq_name_ascii_equiv oem ev name :
    ascii (ev_lfn ev) -> ascii (map oem (ev_short ev)) -> ascii name ->
    eq_name upper_u oem ev name = eq_name (fun c => [upper_a c]) oem ev name.
  Proof.
    intros Hl Hs Hn. unfold eq_name. f_equal; [|now apply ascii_fold_equiv].
    unfold eq_name_lfn. destruct (ev_lfn ev) as [|u r] eqn:E; [reflexivity|].
    rewrite (utf16_decode_ascii _ Hl). f_equal. apply ascii_fold_equiv; [|assumption].
    clear - Hl. induction Hl; cbn; [constructor|]. constructor; assumption.
  Qed.
End Fold.
