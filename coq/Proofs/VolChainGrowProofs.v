(* VolChainGrowProofs.v: create_file in a chain-backed directory of a FAT12/16 volume INCLUDING its growth, on whole images
   (Model/VolChainGrow.v), decoded by the independent decoder Spec/Abs.abs and judged by Spec/Wf.wf_issues.
   1. one slot written at its device offset = set_nth on the decoder's slots of the chain
   2. FileSystem::alloc_cluster(Some(prev), zero) on the image: FAT values, zeroed cluster, frame, accounting
   3. vol_write_run refines the slot-layer write_run with [free] = the number of clusters the allocator delivered
   4. the decoded volume after a change confined to the FAT copies and the clusters of ONE depth-1 directory (abs / wf bridge)
   5. the theorems: success (tree, chain, frame, accounting, wf kept) and the NotEnoughSpace residue (known class) *)
From Coq Require Import NArith ZArith Lia List Bool Arith FMapPositive.
From FatVerif Require Import Model.Base Model.Str Model.Slot Model.Time Model.Table Model.Fat Model.FileM Model.Name
  Model.ShortName Model.DirSlots Model.VolDir Model.VolFile Model.VolChainDir Model.VolChainGrow
  Spec.Image Spec.Abs Spec.WfFold
  Proofs.ImageProofs Proofs.TableProofs Proofs.FatProofs Proofs.CrossProofs Proofs.RegionsProofs Proofs.NameProofs
  Proofs.ShortNameProofs Proofs.DirSlotsProofs Proofs.VolDirProofs Proofs.VolDirFormat Proofs.VolFileProofs Proofs.VolSessionProofs
  Proofs.VolRemoveProofs Proofs.VolChainDirProofs Proofs.DupLongProofs.
From FatVerif Require Spec.Wf Model.Lfn Proofs.TimeProofs Proofs.LfnProofs Proofs.FormatImageAbs Proofs.FileProofs.
Import ListNotations.
Open Scope N_scope.
Ltac Zify.zify_post_hook ::= Z.to_euclidean_division_equations.

(* ================================================================ 1. one slot at its device offset *)
Lemma cluster_slots_pos g : chain_geom g -> (0 < cluster_slots g)%nat.
Proof.
  intros [Hf Hm]. pose proof (fg_bps g Hf). pose proof (fg_spc g Hf). unfold cluster_slots, g_cluster_size in *.
  assert (512 <= g_bps g * g_spc g) by nia. lia.
Qed.

Lemma nth_set_nth_same {A} (d x : A) : forall l i, (i < length l)%nat -> nth i (set_nth i x l) d = x.
Proof. induction l as [|y l IH]; intros i H; cbn [length] in H; [lia|]. destruct i; cbn [set_nth nth]; [reflexivity|apply IH; lia]. Qed.

Lemma nth_set_nth_other {A} (d x : A) : forall l i j, i <> j -> nth j (set_nth i x l) d = nth j l d.
Proof.
  induction l as [|y l IH]; intros i j H; [destruct i; reflexivity|]. destruct i, j; cbn [set_nth nth]; try reflexivity; [lia|apply IH; lia].
Qed.

Lemma chain_dir_slots_ext g im im' l : (forall o, img_get im' o = img_get im o) -> chain_dir_slots g im' l = chain_dir_slots g im l.
Proof.
  intros H. unfold chain_dir_slots. f_equal. unfold chain_bytes. induction l as [|c r IH]; cbn [flat_map]; [reflexivity|].
  rewrite IH. f_equal. unfold cluster_bytes. apply VolDirProofs.img_read_ext. intros i _. apply H.
Qed.

(* the decomposition of a slot index *)
Lemma slot_index_split g k : chain_geom g ->
  k = (cluster_slots g * (k / cluster_slots g) + k mod cluster_slots g)%nat /\ (k mod cluster_slots g < cluster_slots g)%nat.
Proof.
  intros Hg. pose proof (cluster_slots_pos g Hg) as Hp. split; [apply Nat.div_mod; lia|apply Nat.mod_upper_bound; lia].
Qed.

Lemma slot_div_lt g k n : chain_geom g -> (k < cluster_slots g * n)%nat -> (k / cluster_slots g < n)%nat.
Proof. intros Hg H. pose proof (cluster_slots_pos g Hg). apply Nat.div_lt_upper_bound; lia. Qed.

Theorem slot_write_slots g im l k s : chain_geom g -> chain_ok g l -> (k < cluster_slots g * length l)%nat -> len32 s ->
  chain_dir_slots g (img_write im (slot_off g l k) s) l = set_nth k s (chain_dir_slots g im l).
Proof.
  intros Hg Hl Hk Hs.
  destruct (chain_dir_shape g im l Hg) as [Hsh _].
  pose proof (set_nth_shape _ s Hs _ k Hsh) as Hsh2.
  set (ss := chain_dir_slots g im l) in *. set (ss2 := set_nth k s ss) in *.
  rewrite <- (chain_dir_put g im l ss2 Hg Hl Hsh2).
  apply chain_dir_slots_ext. intros o.
  destruct (slot_index_split g k Hg) as [Ek Hr]. pose proof (slot_div_lt g k _ Hg Hk) as Hq.
  set (i := (k / cluster_slots g)%nat) in *. set (r := (k mod cluster_slots g)%nat) in *.
  assert (slot_off g l k = g_cluster_off g (nth i l 0) + N.of_nat (32 * r)) as Eoff by (unfold slot_off, i, r; rewrite Nat2N.inj_mul; reflexivity).
  assert (length s = 32%nat) as Ls by exact Hs.
  destruct (N.lt_ge_cases o (slot_off g l k)) as [Lo|Lo]; [|destruct (N.lt_ge_cases o (slot_off g l k + 32)) as [Hi|Hi]].
  - (* below the slot *)
    rewrite img_write_outside by (left; exact Lo).
    destruct (N.eq_dec (img_get (put_chain_slots g im l ss2) o) (img_get im o)) as [E|E]; [symmetry; exact E|exfalso].
    destruct (put_chain_slots_changes g im l ss2 o Hg Hl Hsh2 E) as (i' & s' & j & Hi' & Hs' & Hj & Ho & Hd).
    destruct (Nat.eq_dec (cluster_slots g * i' + s') k) as [Ekk|Ne].
    + assert (i' = i /\ s' = r) as [-> ->].
      { rewrite Ek in Ekk. exact (Nat.div_mod_unique (cluster_slots g) i' i s' r Hs' Hr Ekk). }
      rewrite Eoff in Lo. lia.
    + apply Hd. unfold ss2. apply nth_set_nth_other. lia.
  - (* inside *)
    assert (exists j, (j < 32)%nat /\ o = slot_off g l k + N.of_nat j) as (j & Hj & ->)
      by (exists (N.to_nat (o - slot_off g l k)); split; lia).
    rewrite img_write_inside by lia.
    rewrite Eoff. replace (g_cluster_off g (nth i l 0) + N.of_nat (32 * r) + N.of_nat j)
      with (g_cluster_off g (nth i l 0) + N.of_nat (32 * r + j)) by lia.
    rewrite <- (chain_slot_bytes g (put_chain_slots g im l ss2) l i r j Hg Hq Hr Hj).
    rewrite (chain_dir_put g im l ss2 Hg Hl Hsh2). rewrite <- Ek. unfold ss2.
    rewrite nth_set_nth_same by (rewrite (proj1 Hsh); exact Hk). reflexivity.
  - (* above *)
    rewrite img_write_outside by (right; lia).
    destruct (N.eq_dec (img_get (put_chain_slots g im l ss2) o) (img_get im o)) as [E|E]; [symmetry; exact E|exfalso].
    destruct (put_chain_slots_changes g im l ss2 o Hg Hl Hsh2 E) as (i' & s' & j & Hi' & Hs' & Hj & Ho & Hd).
    destruct (Nat.eq_dec (cluster_slots g * i' + s') k) as [Ekk|Ne].
    + assert (i' = i /\ s' = r) as [-> ->].
      { rewrite Ek in Ekk. exact (Nat.div_mod_unique (cluster_slots g) i' i s' r Hs' Hr Ekk). }
      rewrite Eoff in Hi. lia.
    + apply Hd. unfold ss2. apply nth_set_nth_other. lia.
Qed.

(* a slot write stays inside the cluster it addresses *)
Lemma slot_off_in_cluster g l k : chain_geom g -> (k < cluster_slots g * length l)%nat ->
  exists c, In c l /\ g_cluster_off g c <= slot_off g l k /\ slot_off g l k + 32 <= g_cluster_off g c + g_cluster_size g.
Proof.
  intros Hg Hk. destruct (slot_index_split g k Hg) as [Ek Hr]. pose proof (slot_div_lt g k _ Hg Hk) as Hq.
  exists (nth (k / cluster_slots g) l 0). split; [apply nth_In; exact Hq|]. unfold slot_off.
  pose proof (cluster_size_slots g Hg). lia.
Qed.

(* ================================================================ 2. alloc_cluster(Some(prev), zero = true) on the image *)
Lemma fs_alloc_is_alloc {T} get set (t : T) fi prev total t' fi' c :
  fs_alloc T get set t fi prev total = Ok (t', fi', c) -> alloc_cluster T get set t prev (fi_next fi) total = Ok (t', c).
Proof.
  unfold fs_alloc. destruct (alloc_cluster T get set t prev (fi_next fi) total) as [[t1 c1]|e| |]; cbn [bind]; try discriminate.
  cbn [fi_free]. destruct (fi_free fi) as [[|p]|]; try discriminate; intros E; injection E as <- _ <-; reflexivity.
Qed.

Lemma repeat_N_length {A} (x : A) n : length (repeat_N x n) = n.
Proof. induction n; cbn [repeat_N length]; [reflexivity|rewrite IHn; reflexivity]. Qed.
Lemma nth_repeat_N {A} (x : A) n i : nth i (repeat_N x n) x = x.
Proof. revert i. induction n; intros [|i]; cbn [repeat_N nth]; try reflexivity. apply IHn. Qed.

Section Alloc.
Variable g : geom.
Hypothesis Hg : fixed_root_geom g.
Let ft := ft_of g.
Let total := g_clusters g.

(* what the decoder reads of the table depends only on the bytes of the store area *)
Lemma fat_val_same_store im im' x : 2 <= x < total + 2 ->
  (forall a, in_store_area g a -> img_get im' a = img_get im a) -> fat_val g im' x = fat_val g im x.
Proof.
  intros R H. pose proof (fixed_root_vgeom_ok g Hg) as Hok. apply fatv_of_inj.
  rewrite (fat_val_store g im' x (range_small g x Hok R)), (fat_val_store g im x (range_small g x Hok R)).
  destruct (Hrange g Hok) as [Hokc _].
  apply val_ft_ext; [reflexivity|exact (Hokc x R)|]. cbn [store_of fs_base fs_size fs_img]. intros o Ho. apply H.
  unfold in_store_area. pose proof (vol_mirrors_pos g Hok). nia.
Qed.

Lemma in_cluster_not_store c a : 2 <= c -> in_cluster g c a -> ~ in_store_area g a.
Proof. intros Hc. exact (cluster_above_area g c a (fixed_root_vgeom_ok g Hg) Hc). Qed.

Theorem vol_alloc_dir_cluster_spec im fi prev :
  FatProofs.bytes_ok im -> fi_inv fstore (val_ft ft) (store_of g im) fi total ->
  2 <= prev < total + 2 -> fat_val g im prev <> FFree ->
  match vol_alloc_dir_cluster g im fi prev with
  | Ok (im1, fi1, c) =>
    2 <= c < total + 2 /\ fat_val g im c = FFree /\ c <> prev /\
    fat_val g im1 c = FEoc /\ fat_val g im1 prev = FNext c /\
    (forall x, 2 <= x < total + 2 -> x <> c -> x <> prev -> fat_val g im1 x = fat_val g im x) /\
    (forall a, ~ in_store_area g a -> ~ in_cluster g c a -> img_get im1 a = img_get im a) /\
    cluster_bytes g im1 c = repeat_N 0 (N.to_nat (g_cluster_size g)) /\
    FatProofs.bytes_ok im1 /\ fi_inv fstore (val_ft ft) (store_of g im1) fi1 total /\
    count_free g im1 + 1 = count_free g im
  | Err e => e = ENotEnoughSpace /\ (forall x, 2 <= x < total + 2 -> fat_val g im x <> FFree)
  | Panic => False
  | OutOfFuel => False
  end.
Proof.
  intros Hb Hfi Hp Hpnf. pose proof (fixed_root_vgeom_ok g Hg) as Hok.
  pose proof (vol_mirrors_pos g Hok) as Hm. destruct (Hrange g Hok) as (Hokc & Hokd). fold ft total in Hokc, Hokd.
  set (s0 := store_of g im).
  assert (inv_step ft (vol_base g) (g_fat_bytes g) (vol_mirrors g) s0 s0) as Hinv0.
  { apply inv_step_refl. unfold inv_g, s0, store_of. cbn [fs_base fs_size fs_mirrors fs_img]. repeat split. exact Hb. }
  assert (forall x, 2 <= x < total + 2 -> fatv_of (fat_val g im x) = val_ft ft s0 x) as Hv0
    by (intros x R; exact (fat_val_store g im x (range_small g x Hok R))).
  assert (okcg ft (g_fat_bytes g) prev /\ (forall n, 2 <= n < total + 2 -> okv_step ft (Data n)) /\ val_ft ft s0 prev <> Free) as Hprev.
  { split; [exact (Hokc prev Hp)|]. split; [intros n Hn; split; [exact (Hokd n Hn)|discriminate]|].
    rewrite <- (Hv0 prev Hp). destruct (fat_val g im prev); cbn [fatv_of]; try discriminate. contradiction. }
  pose proof (fs_alloc_inv fstore (fat_get ft) (fat_set ft) (val_ft ft) (okcg ft (g_fat_bytes g)) (okv_step ft)
                (inv_step ft (vol_base g) (g_fat_bytes g) (vol_mirrors g) s0)
                (law_step_get ft (vol_base g) (g_fat_bytes g) (vol_mirrors g) s0)
                (law_step_set ft (vol_base g) (g_fat_bytes g) (vol_mirrors g) Hm s0) (okv_step_eoc ft)
                s0 fi (Some prev) total Hinv0 Hfi Hokc Hprev) as HA.
  unfold vol_alloc_dir_cluster. fold ft total s0.
  destruct (fs_alloc fstore (fat_get ft) (fat_set ft) s0 fi (Some prev) total) as [[[t' fi'] c]|e| |] eqn:Ea; cbn [bind];
    [|destruct HA as [-> HA]; split; [reflexivity|]|exact HA|exact HA].
  2:{ intros x R E. apply (HA x R). rewrite <- (Hv0 x R), E. reflexivity. }
  destruct HA as (Hinv' & Hfi' & Hc & Hfree & _).
  destruct (alloc_ok fstore (fat_get ft) (fat_set ft) (val_ft ft) (okcg ft (g_fat_bytes g)) (okv_step ft)
              (inv_step ft (vol_base g) (g_fat_bytes g) (vol_mirrors g) s0)
              (law_step_get ft (vol_base g) (g_fat_bytes g) (vol_mirrors g) s0)
              (law_step_set ft (vol_base g) (g_fat_bytes g) (vol_mirrors g) Hm s0) (okv_step_eoc ft)
              s0 (Some prev) (fi_next fi) total t' c Hinv0 (proj2 Hfi) Hokc (conj (proj1 Hprev) (proj1 (proj2 Hprev)))
              (fs_alloc_is_alloc _ _ _ _ _ _ _ _ _ Ea)) as (_ & _ & _ & Hpv & Hcv & Hfr).
  assert (prev <> c) as Hne by (intros ->; apply (proj2 (proj2 Hprev)); exact Hfree).
  destruct Hinv' as ((B & S & M & Hb1) & Hout & _).
  pose proof (store_of_img g t' B S M) as Est.
  set (zs := repeat_N 0 (N.to_nat (g_cluster_size g))).
  set (im1 := img_write (fs_img t') (g_cluster_off g c) zs).
  assert (length zs = N.to_nat (g_cluster_size g)) as Lz by apply repeat_N_length.
  (* the zero fill lies in cluster c, outside the store area *)
  assert (forall a, in_store_area g a -> img_get im1 a = img_get (fs_img t') a) as Hin1.
  { intros a Ha. unfold im1. apply img_write_outside. rewrite Lz, N2Nat.id.
    destruct (N.lt_ge_cases a (g_cluster_off g c)) as [L|L]; [left; exact L|].
    destruct (N.lt_ge_cases a (g_cluster_off g c + g_cluster_size g)) as [L2|L2]; [|right; exact L2].
    exfalso. apply (in_cluster_not_store c a ltac:(lia)); [unfold in_cluster; lia|exact Ha]. }
  assert (forall x, 2 <= x < total + 2 -> fatv_of (fat_val g im1 x) = val_ft ft t' x) as Hv1.
  { intros x R. rewrite (fat_val_same_store (fs_img t') im1 x R Hin1).
    rewrite (fat_val_store g (fs_img t') x (range_small g x Hok R)). fold ft. rewrite Est. reflexivity. }
  split; [exact Hc|]. split.
  { pose proof (Hv0 c Hc) as E. rewrite Hfree in E. destruct (fat_val g im c); cbn [fatv_of] in E; try discriminate. reflexivity. }
  split; [intros E; apply Hne; symmetry; exact E|]. split.
  { pose proof (Hv1 c Hc) as E. rewrite (Hcv Hne) in E. destruct (fat_val g im1 c); cbn [fatv_of] in E; try discriminate. reflexivity. }
  split.
  { pose proof (Hv1 prev Hp) as E. rewrite Hpv in E. destruct (fat_val g im1 prev); cbn [fatv_of] in E; try discriminate.
    injection E as ->. reflexivity. }
  split.
  { intros x R X1 X2. apply fatv_of_inj. rewrite (Hv1 x R), (Hfr x X1 X2 (Hokc x R)). symmetry. exact (Hv0 x R). }
  split.
  { intros a Hns Hnc. unfold im1. rewrite img_write_outside.
    - apply Hout. unfold in_store_area in Hns. lia.
    - rewrite Lz, N2Nat.id. unfold in_cluster in Hnc. lia. }
  split.
  { unfold cluster_bytes, im1. rewrite <- Lz. apply VolFileProofs.img_read_write_same. }
  assert (FatProofs.bytes_ok im1) as Hb1'.
  { unfold im1. apply img_write_bytes_ok; [exact Hb1|]. intros b Hin. unfold zs in Hin.
    destruct (In_nth _ _ 0 Hin) as (i & _ & <-). rewrite nth_repeat_N. lia. }
  split; [exact Hb1'|]. split.
  { destruct Hfi' as [F1 F2]. split; [|exact F2]. destruct (fi_free fi') as [n|]; [|exact I]. rewrite F1.
    unfold count_spec. apply (cnt_ext g). intros x Hx. assert (2 <= x < total + 2) as R by (unfold total; lia).
    rewrite <- (Hv1 x R). exact (fat_val_store g im1 x (range_small g x Hok R)). }
  (* the count: one entry went from free to allocated *)
  rewrite !(VolRemoveProofs.count_free_store g Hok). fold ft total.
  assert (count_spec fstore (val_ft ft) (store_of g im1) 2 (N.to_nat total) = count_spec fstore (val_ft ft) t' 2 (N.to_nat total)) as ->.
  { unfold count_spec. apply (cnt_ext g). intros x Hx. assert (2 <= x < total + 2) as R by lia.
    rewrite <- (Hv1 x R). symmetry. exact (fat_val_store g im1 x (range_small g x Hok R)). }
  fold s0. unfold count_spec.
  set (tm := fun x => if x =? c then Eoc else val_ft ft s0 x).
  assert (cnt tm 2 (N.to_nat total) + 1 = cnt (val_ft ft s0) 2 (N.to_nat total)) as H1.
  { pose proof (cnt_update (val_ft ft s0) tm c (N.to_nat total) 2 ltac:(lia)) as Hu.
    assert (forall y, y <> c -> tm y = val_ft ft s0 y) as Hy.
    { intros y Hy. unfold tm. destruct (N.eqb_spec y c); [contradiction|reflexivity]. }
    specialize (Hu Hy). assert (tm c = Eoc) as Htc by (unfold tm; rewrite N.eqb_refl; reflexivity).
    rewrite Htc, Hfree in Hu. cbn [is_free] in Hu. lia. }
  rewrite <- H1. f_equal. apply cnt_ext_free. intros x Hxr. unfold tm.
  assert (2 <= x < total + 2) as R by lia.
  destruct (N.eqb_spec x c) as [->|Hxc]; [rewrite (Hcv Hne); reflexivity|].
  destruct (N.eq_dec x prev) as [->|Hxp].
  - rewrite Hpv. cbn [is_free]. destruct (val_ft ft s0 prev) eqn:E; try reflexivity. exfalso. exact (proj2 (proj2 Hprev) eq_refl).
  - rewrite (Hfr x Hxc Hxp (Hokc x R)). reflexivity.
Qed.
End Alloc.

(* ================================================================ 3. vol_write_run and the slot layer *)
Lemma concat_repeat_zero n : concat (repeat_N zero_slot n) = repeat_N 0 (32 * n).
Proof.
  induction n as [|n IH]; [reflexivity|]. cbn [repeat_N concat]. rewrite IH. unfold zero_slot. rewrite repeat_N_app. f_equal. lia.
Qed.

Lemma set_nth_end {A} (x y : A) a tail : set_nth (length a) x (a ++ y :: tail) = a ++ x :: tail.
Proof. apply set_nth_mid. Qed.

Section Run.
Variable g : geom.
Hypothesis Hg : chain_geom g.
Let total := g_clusters g.
Let ft := ft_of g.
Let cs := cluster_slots g.

(* the decoder's view of a chain: every cluster in range, each linked to the next, the last one marked end of chain *)
Fixpoint linked (im : image) (l : list N) : Prop :=
  match l with
  | [] => False
  | c :: r => in_range g c = true /\
              match r with [] => fat_val g im c = FEoc | d :: _ => fat_val g im c = FNext d /\ linked im r end
  end.

Lemma linked_in im : forall l x, linked im l -> In x l -> 2 <= x < total + 2 /\ fat_val g im x <> FFree.
Proof.
  induction l as [|c r IH]; intros x H Hin; [contradiction|]. cbn [linked] in H. destruct H as [R H].
  destruct Hin as [<-|Hin].
  - split; [apply in_range_iff; exact R|]. destruct r; [rewrite H|rewrite (proj1 H)]; discriminate.
  - destruct r as [|d r']; [contradiction|]. exact (IH x (proj2 H) Hin).
Qed.

Lemma linked_last im : forall l, linked im l -> In (last l 0) l /\ fat_val g im (last l 0) = FEoc.
Proof.
  induction l as [|c r IH]; intros H; [contradiction|]. cbn [linked] in H. destruct H as [R H]. destruct r as [|d r'].
  - cbn [last]. split; [left; reflexivity|exact H].
  - destruct (IH (proj2 H)) as [I1 I2]. change (last (c :: d :: r') 0) with (last (d :: r') 0). split; [right; exact I1|exact I2].
Qed.

Lemma linked_frame im im' : forall l, linked im l -> (forall x, In x l -> fat_val g im' x = fat_val g im x) -> linked im' l.
Proof.
  induction l as [|c r IH]; intros H Hf; [contradiction|]. cbn [linked] in H |- *. destruct H as [R H]. split; [exact R|].
  rewrite (Hf c (or_introl eq_refl)). destruct r as [|d r']; [exact H|]. split; [exact (proj1 H)|].
  apply IH; [exact (proj2 H)|]. intros x Hx. apply Hf. right. exact Hx.
Qed.

Lemma linked_extend im im1 c : forall l, linked im l -> NoDup l -> in_range g c = true ->
  fat_val g im1 (last l 0) = FNext c -> fat_val g im1 c = FEoc ->
  (forall x, In x l -> x <> last l 0 -> fat_val g im1 x = fat_val g im x) -> linked im1 (l ++ [c]).
Proof.
  induction l as [|a r IH]; intros H Hnd Rc Hl Hc Hfr; [contradiction|]. cbn [linked] in H. destruct H as [R H].
  destruct r as [|d r'].
  - cbn [app linked last] in *. split; [exact R|]. split; [exact Hl|]. split; [exact Rc|exact Hc].
  - change (last (a :: d :: r') 0) with (last (d :: r') 0) in *. inversion Hnd as [|? ? Na Nd]; subst.
    change ((a :: d :: r') ++ [c]) with (a :: ((d :: r') ++ [c])). cbn [linked]. split; [exact R|].
    change ((d :: r') ++ [c]) with (d :: (r' ++ [c])). split.
    + rewrite Hfr; [exact (proj1 H)|left; reflexivity|]. intros E. apply Na. rewrite E.
      exact (proj1 (linked_last im (d :: r') (proj2 H))).
    + change (d :: r' ++ [c]) with ((d :: r') ++ [c]). apply IH; [exact (proj2 H)|exact Nd|exact Rc|exact Hl|exact Hc|].
      intros x Hx Hne. apply Hfr; [right; exact Hx|exact Hne].
Qed.

Lemma linked_chain_from im : forall l f, linked im l -> (length l <= f)%nat -> chain_from g im (hd 0 l) f = Some l.
Proof.
  induction l as [|c r IH]; intros f H Hf; [contradiction|]. destruct f as [|f]; [cbn [length] in Hf; lia|].
  cbn [linked] in H. destruct H as [R H]. cbn [hd chain_from]. rewrite R. destruct r as [|d r'].
  - rewrite H. reflexivity.
  - rewrite (proj1 H). change d with (hd 0 (d :: r')). rewrite (IH f (proj2 H)) by (cbn [length] in *; lia). reflexivity.
Qed.

Lemma chain_from_linked im : forall f c l, chain_from g im c f = Some l -> linked im l /\ hd 0 l = c.
Proof.
  induction f as [|f IH]; intros c l H; cbn [chain_from] in H; [discriminate|].
  destruct (in_range g c) eqn:R; [|discriminate]. destruct (fat_val g im c) as [| | |n] eqn:E; try discriminate.
  - injection H as <-. cbn [linked hd]. split; [split; [exact R|exact E]|reflexivity].
  - destruct (chain_from g im n f) as [l0|] eqn:C; [|discriminate]. injection H as <-.
    destruct (IH n l0 C) as [L Hh]. split; [|reflexivity]. destruct l0 as [|d r']; [contradiction|]. cbn [hd] in Hh. subst d.
    cbn [linked]. split; [exact R|]. split; [exact E|exact L].
Qed.

(* the state between two slot writes *)
Record GInv (im : image) (fi : fsinfo) (l : list N) : Prop := {
  gi_bytes : FatProofs.bytes_ok im;
  gi_fi : fi_inv fstore (val_ft ft) (store_of g im) fi total;
  gi_chain : chain_ok g l;
  gi_linked : linked im l }.

Lemma fi_inv_same_store im im' fi : (forall a, in_store_area g a -> img_get im' a = img_get im a) ->
  fi_inv fstore (val_ft ft) (store_of g im) fi total -> fi_inv fstore (val_ft ft) (store_of g im') fi total.
Proof.
  intros H [F1 F2]. split; [|exact F2]. destruct (fi_free fi) as [n|]; [|exact I]. rewrite F1.
  pose proof (fixed_root_vgeom_ok g (proj1 Hg)) as Hok.
  unfold count_spec. apply (cnt_ext g). intros x Hx. assert (2 <= x < total + 2) as R by (unfold total; lia).
  unfold ft. rewrite <- (fat_val_store g im x (range_small g x Hok R)), <- (fat_val_store g im' x (range_small g x Hok R)).
  rewrite (fat_val_same_store g (proj1 Hg) im im' x R H). reflexivity.
Qed.

Lemma count_free_same_store im im' : (forall a, in_store_area g a -> img_get im' a = img_get im a) -> count_free g im' = count_free g im.
Proof.
  intros H. rewrite !count_free_cnt. apply (cnt_ext g). intros x Hx. fold total in Hx.
  rewrite (fat_val_same_store g (proj1 Hg) im im' x ltac:(lia) H). reflexivity.
Qed.

(* bytes inside a cluster of the chain are not bytes of the FAT copies *)
Lemma chain_cluster_not_store l c a : chain_ok g l -> In c l -> in_cluster g c a -> ~ in_store_area g a.
Proof.
  intros [_ Hr] Hc. rewrite Forall_forall in Hr. specialize (Hr c Hc). apply (in_cluster_not_store g (proj1 Hg) c a). lia.
Qed.

Lemma chain_dir_slots_app im l c : chain_dir_slots g im (l ++ [c]) = chain_dir_slots g im l ++ chain_dir_slots g im [c].
Proof.
  destruct (chain_dir_shape g im l Hg) as [[_ S1] E1]. destruct (chain_dir_shape g im [c] Hg) as [[_ S2] E2].
  unfold chain_dir_slots at 1. unfold chain_bytes. rewrite flat_map_app. fold (chain_bytes g im l) (chain_bytes g im [c]).
  rewrite <- E1, <- E2, <- concat_app. apply slots_of_concat. apply Forall_app. split; assumption.
Qed.

Lemma chain_dir_slots_zero im c : cluster_bytes g im c = repeat_N 0 (N.to_nat (g_cluster_size g)) ->
  chain_dir_slots g im [c] = repeat_N zero_slot cs.
Proof.
  intros H. unfold chain_dir_slots, chain_bytes. cbn [flat_map]. rewrite app_nil_r, H, (cluster_size_slots g Hg). fold cs.
  rewrite <- concat_repeat_zero. apply slots_of_concat. apply DirSlotsProofs.Forall_repeat_N. unfold len32, zero_slot. apply repeat_N_length.
Qed.

(* the slots of a chain depend only on the bytes of its clusters *)
Lemma chain_dir_slots_same im im' l : (forall c a, In c l -> in_cluster g c a -> img_get im' a = img_get im a) ->
  chain_dir_slots g im' l = chain_dir_slots g im l.
Proof.
  intros H. unfold chain_dir_slots. f_equal. unfold chain_bytes. induction l as [|c r IH]; cbn [flat_map]; [reflexivity|].
  rewrite IH by (intros c' a Hc' Ha; apply (H c' a); [right; exact Hc'|exact Ha]). f_equal.
  unfold cluster_bytes. apply VolDirProofs.img_read_ext. intros i Hi. apply (H c); [left; reflexivity|]. unfold in_cluster. lia.
Qed.

Theorem vol_write_run_refines : forall run im fi l i r im' fi' l',
  GInv im fi l -> (i <= cs * length l)%nat -> Forall len32 run -> Forall (Forall (fun b : N => b < 256)) run ->
  vol_write_run g im fi l i run = (r, (im', fi', l')) ->
  exists news,
    l' = l ++ news /\ GInv im' fi' l' /\
    NoDup news /\ (forall x, In x news -> 2 <= x < total + 2 /\ fat_val g im x = FFree) /\
    (forall x, 2 <= x < total + 2 -> ~ In x news -> (news = [] \/ x <> last l 0) -> fat_val g im' x = fat_val g im x) /\
    (forall a, ~ in_store_area g a -> (forall c, In c l' -> ~ in_cluster g c a) -> img_get im' a = img_get im a) /\
    (news = [] -> fi' = fi /\ forall a, (forall c, In c l -> ~ in_cluster g c a) -> img_get im' a = img_get im a) /\
    count_free g im' + N.of_nat (length news) = count_free g im /\
    write_run (Chained cs) (length news) (chain_dir_slots g im l) i run = (r, chain_dir_slots g im' l') /\
    (r = Ok tt \/ (r = Err ENotEnoughSpace /\ forall x, 2 <= x < total + 2 -> fat_val g im' x <> FFree)).
Proof.
  induction run as [|s run IH]; intros im fi l i r im' fi' l' HI Hi Hlen Hby H; cbn [vol_write_run] in H.
  { injection H as <- <- <- <-. exists []. rewrite app_nil_r. cbn [length write_run N.of_nat].
    split; [reflexivity|]. split; [exact HI|]. split; [constructor|]. split; [intros x []|].
    split; [reflexivity|]. split; [reflexivity|]. split; [split; reflexivity|]. split; [lia|]. split; [reflexivity|left; reflexivity]. }
  inversion Hlen as [|? ? Ls Hlen']; subst. inversion Hby as [|? ? Bs Hby']; subst.
  pose proof (fixed_root_vgeom_ok g (proj1 Hg)) as Hok.
  destruct HI as [Hb Hfi Hch Hlk].
  destruct (chain_dir_shape g im l Hg) as [[Lss _] _]. fold cs in Lss.
  fold cs in H. destruct (Nat.ltb i (cs * length l)) eqn:Elt.
  - (* the slot lies inside the chain *)
    apply Nat.ltb_lt in Elt.
    set (im2 := img_write im (slot_off g l i) s) in *.
    destruct (slot_off_in_cluster g l i Hg Elt) as (c0 & Hc0 & Lo & Hi0).
    assert (forall a, (a < slot_off g l i \/ slot_off g l i + 32 <= a) -> img_get im2 a = img_get im a) as Hout2.
    { intros a Ha. unfold im2. apply img_write_outside. rewrite Ls. exact Ha. }
    assert (forall a, in_store_area g a -> img_get im2 a = img_get im a) as Hst2.
    { intros a Ha. apply Hout2. destruct (N.lt_ge_cases a (slot_off g l i)) as [L|L]; [left; exact L|].
      destruct (N.lt_ge_cases a (slot_off g l i + 32)) as [L2|L2]; [|right; exact L2].
      exfalso. apply (chain_cluster_not_store l c0 a Hch Hc0); [unfold in_cluster; lia|exact Ha]. }
    assert (GInv im2 fi l) as HI2.
    { split; [|exact (fi_inv_same_store im im2 fi Hst2 Hfi)|exact Hch|].
      - unfold im2. apply img_write_bytes_ok; [exact Hb|]. intros b Hin. rewrite Forall_forall in Bs. exact (Bs b Hin).
      - apply (linked_frame im im2 l Hlk). intros x Hx.
        exact (fat_val_same_store g (proj1 Hg) im im2 x (proj1 (linked_in im l x Hlk Hx)) Hst2). }
    destruct (IH im2 fi l (S i) r im' fi' l' HI2 ltac:(lia) Hlen' Hby' H)
      as (news & E1 & HI' & Nn & Hfree & Hfat & Hfr & Hfr0 & Hcnt & Hwr & Hr).
    exists news. split; [exact E1|]. split; [exact HI'|]. split; [exact Nn|]. split.
    { intros x Hx. destruct (Hfree x Hx) as [R F]. split; [exact R|]. rewrite <- F. symmetry.
      exact (fat_val_same_store g (proj1 Hg) im im2 x R Hst2). }
    split.
    { intros x R Hn Hl. rewrite (Hfat x R Hn Hl). exact (fat_val_same_store g (proj1 Hg) im im2 x R Hst2). }
    split.
    { intros a Hns Hnc. rewrite (Hfr a Hns Hnc). apply Hout2.
      destruct (N.lt_ge_cases a (slot_off g l i)) as [L|L]; [left; exact L|].
      destruct (N.lt_ge_cases a (slot_off g l i + 32)) as [L2|L2]; [|right; exact L2].
      exfalso. apply (Hnc c0); [rewrite E1; apply in_or_app; left; exact Hc0|unfold in_cluster; lia]. }
    split.
    { intros En. split; [exact (proj1 (Hfr0 En))|]. intros a Hnc. rewrite (proj2 (Hfr0 En) a Hnc). apply Hout2.
      destruct (N.lt_ge_cases a (slot_off g l i)) as [L|L]; [left; exact L|].
      destruct (N.lt_ge_cases a (slot_off g l i + 32)) as [L2|L2]; [|right; exact L2].
      exfalso. apply (Hnc c0 Hc0). unfold in_cluster. lia. }
    split; [rewrite <- (count_free_same_store im im2 Hst2); exact Hcnt|].
    split; [|exact Hr].
    cbn [write_run]. rewrite Lss. replace (Nat.ltb i (cs * length l)) with true by (symmetry; apply Nat.ltb_lt; exact Elt).
    rewrite <- (slot_write_slots g im l i s Hg Hch Elt Ls). exact Hwr.
  - (* the write position is the end of the chain: allocate *)
    apply Nat.ltb_ge in Elt. assert (i = (cs * length l)%nat) as -> by lia.
    destruct (linked_last im l Hlk) as [Hlast Hleoc].
    destruct (linked_in im l _ Hlk Hlast) as [Rl Nl].
    pose proof (vol_alloc_dir_cluster_spec g (proj1 Hg) im fi (last l 0) Hb Hfi Rl Nl) as HA. fold total in HA.
    destruct (vol_alloc_dir_cluster g im fi (last l 0)) as [[[im1 fi1] c]|e| |]; [| |contradiction|contradiction].
    2:{ destruct HA as [-> Hfull]. injection H as <- <- <- <-. exists []. rewrite app_nil_r. cbn [length N.of_nat].
        split; [reflexivity|]. split; [split; assumption|]. split; [constructor|]. split; [intros x []|].
        split; [reflexivity|]. split; [reflexivity|]. split; [split; reflexivity|]. split; [lia|]. split.
        - cbn [write_run]. rewrite Lss. replace (Nat.ltb (cs * length l) (cs * length l)) with false by (symmetry; apply Nat.ltb_ge; lia).
          reflexivity.
        - right. split; [reflexivity|exact Hfull]. }
    destruct HA as (Rc & Fc & Ncl & Fc1 & Fl1 & Ffr & Hout1 & Hz & Hb1 & Hfi1 & Hcnt1).
    assert (~ In c l) as Hcl.
    { intros Hin. destruct (linked_in im l c Hlk Hin) as [_ X]. contradiction. }
    assert (chain_ok g (l ++ [c])) as Hch1.
    { destruct Hch as [Nd Hr]. split.
      - rewrite <- (app_nil_r (l ++ [c])). rewrite <- app_assoc. apply NoDup_insert; rewrite app_nil_r; assumption.
      - apply Forall_app. split; [exact Hr|]. constructor; [exact Rc|constructor]. }
    assert (linked im1 (l ++ [c])) as Hlk1.
    { apply (linked_extend im im1 c l Hlk (proj1 Hch)); [apply in_range_iff; exact Rc|exact Fl1|exact Fc1|].
      intros x Hx Hne. apply Ffr; [exact (proj1 (linked_in im l x Hlk Hx))|intros ->; contradiction|exact Hne]. }
    (* the slots after the allocation: the old ones and one cluster of zero slots *)
    assert (chain_dir_slots g im1 (l ++ [c]) = chain_dir_slots g im l ++ repeat_N zero_slot cs) as Ess1.
    { rewrite chain_dir_slots_app, (chain_dir_slots_zero im1 c Hz). f_equal.
      apply chain_dir_slots_same. intros c' a Hc' Ha. apply Hout1.
      - exact (chain_cluster_not_store l c' a Hch Hc' Ha).
      - intros Hca. destruct Hch as [_ Hr]. rewrite Forall_forall in Hr. specialize (Hr c' Hc').
        apply (clusters_disjoint g c' c a ltac:(lia) ltac:(lia)); [intros ->; contradiction|exact Ha|exact Hca]. }
    assert (cs * length l < cs * length (l ++ [c]))%nat as Elt1.
    { rewrite app_length. cbn [length]. pose proof (cluster_slots_pos g Hg). fold cs in H0. nia. }
    set (im2 := img_write im1 (slot_off g (l ++ [c]) (cs * length l)) s) in *.
    destruct (slot_off_in_cluster g (l ++ [c]) (cs * length l) Hg Elt1) as (c0 & Hc0 & Lo & Hi0).
    assert (forall a, (a < slot_off g (l ++ [c]) (cs * length l) \/ slot_off g (l ++ [c]) (cs * length l) + 32 <= a) ->
                      img_get im2 a = img_get im1 a) as Hout2.
    { intros a Ha. unfold im2. apply img_write_outside. rewrite Ls. exact Ha. }
    assert (forall a, (forall c', In c' (l ++ [c]) -> ~ in_cluster g c' a) -> img_get im2 a = img_get im1 a) as Hout2'.
    { intros a Hnc. apply Hout2.
      destruct (N.lt_ge_cases a (slot_off g (l ++ [c]) (cs * length l))) as [L|L]; [left; exact L|].
      destruct (N.lt_ge_cases a (slot_off g (l ++ [c]) (cs * length l) + 32)) as [L2|L2]; [|right; exact L2].
      exfalso. apply (Hnc c0 Hc0). unfold in_cluster. lia. }
    assert (forall a, in_store_area g a -> img_get im2 a = img_get im1 a) as Hst2.
    { intros a Ha. apply Hout2'. intros c' Hc' Hin. exact (chain_cluster_not_store _ c' a Hch1 Hc' Hin Ha). }
    assert (GInv im2 fi1 (l ++ [c])) as HI2.
    { split; [|exact (fi_inv_same_store im1 im2 fi1 Hst2 Hfi1)|exact Hch1|].
      - unfold im2. apply img_write_bytes_ok; [exact Hb1|]. intros b Hin. rewrite Forall_forall in Bs. exact (Bs b Hin).
      - apply (linked_frame im1 im2 _ Hlk1). intros x Hx.
        exact (fat_val_same_store g (proj1 Hg) im1 im2 x (proj1 (linked_in im1 _ x Hlk1 Hx)) Hst2). }
    destruct (IH im2 fi1 (l ++ [c]) (S (cs * length l)) r im' fi' l' HI2 ltac:(lia) Hlen' Hby' H)
      as (news & E1 & HI' & Nn & Hfree & Hfat & Hfr & _ & Hcnt & Hwr & Hr).
    assert (forall x, 2 <= x < total + 2 -> fat_val g im2 x = fat_val g im1 x) as Hf21
      by (intros x R; exact (fat_val_same_store g (proj1 Hg) im1 im2 x R Hst2)).
    assert (last (l ++ [c]) 0 = c) as Elast by apply last_last.
    exists (c :: news). rewrite <- app_assoc in E1. cbn [app] in E1.
    split; [exact E1|]. split; [exact HI'|].
    assert (~ In c news) as Hcn.
    { intros Hin. destruct (Hfree c Hin) as [_ F]. rewrite (Hf21 c Rc), Fc1 in F. discriminate. }
    split; [constructor; assumption|]. split.
    { intros x [<-|Hx]; [split; [exact Rc|exact Fc]|]. destruct (Hfree x Hx) as [R F]. split; [exact R|].
      rewrite (Hf21 x R) in F. rewrite <- F. symmetry. apply Ffr; [exact R|intros ->; contradiction|].
      intros ->. rewrite Fl1 in F. discriminate. }
    split.
    { intros x R Hn [En|Hl]; [discriminate|].
      assert (x <> c) as Hxc by (intros ->; apply Hn; left; reflexivity).
      assert (x <> last (l ++ [c]) 0) as Hxl by (rewrite Elast; exact Hxc).
      rewrite (Hfat x R (fun Hin => Hn (or_intror Hin)) (or_intror Hxl)).
      rewrite (Hf21 x R). exact (Ffr x R Hxc Hl). }
    split.
    { intros a Hns Hnc. rewrite (Hfr a Hns Hnc). rewrite Hout2'.
      - apply Hout1; [exact Hns|]. apply Hnc. rewrite E1. apply in_or_app. right. left. reflexivity.
      - intros c' Hc'. apply Hnc. rewrite E1. apply in_app_or in Hc'. apply in_or_app.
        destruct Hc' as [Hc'|[<-|[]]]; [left; exact Hc'|right; left; reflexivity]. }
    split; [discriminate|]. split.
    { rewrite (count_free_same_store im1 im2 Hst2) in Hcnt. cbn [length]. lia. }
    split; [|destruct Hr as [Hr|[Hr1 Hr2]]; [left; exact Hr|right; split; [exact Hr1|exact Hr2]]].
    cbn [write_run length]. rewrite Lss. replace (Nat.ltb (cs * length l) (cs * length l)) with false by (symmetry; apply Nat.ltb_ge; lia).
    rewrite <- Hwr. f_equal. unfold im2.
    rewrite (slot_write_slots g im1 (l ++ [c]) (cs * length l) s Hg Hch1 Elt1 Ls), Ess1.
    rewrite <- Lss. pose proof (cluster_slots_pos g Hg) as Hp. fold cs in Hp.
    destruct cs as [|k]; [lia|]. cbn [repeat_N]. rewrite set_nth_end. replace (S k - 1)%nat with k by lia. reflexivity.
Qed.
End Run.

(* ================================================================ 4. the decoded volume around one depth-1 directory *)
(* ---- 4a. helpers *)
Lemma nodes_chains_dots es : Wf.nodes_chains (map (fun e => NDot e) es) = [].
Proof. unfold Wf.nodes_chains. induction es as [|e r IH]; cbn [map flat_map Wf.node_chains app]; [reflexivity|exact IH]. Qed.

(* every cluster of every chain the decoder followed is allocated *)
Lemma chain_from_nonfree_in g im f c l x : chain_from g im c f = Some l -> In x l -> fat_val g im x <> FFree.
Proof. intros H Hx. exact (proj2 (linked_in g im l x (proj1 (chain_from_linked g im f c l H)) Hx)). Qed.

Lemma decoded_chains_nonfree g im : forall d es x,
  In x (concat (Wf.nodes_chains (decode_entries g im d es))) -> fat_val g im x <> FFree.
Proof.
  induction d as [|d IH]; intros es x Hx.
  - cbn [decode_entries] in Hx. rewrite nodes_chains_dots in Hx. contradiction.
  - rewrite decode_entries_S in Hx. apply in_concat in Hx. destruct Hx as (ch & Hch & Hx).
    unfold Wf.nodes_chains in Hch. apply in_flat_map in Hch. destruct Hch as (n & Hn & Hch).
    apply in_map_iff in Hn. destruct Hn as (e & <- & _). unfold node_of in Hch.
    destruct (e_is_dot e); [contradiction|].
    destruct (e_cluster e =? 0).
    + destruct (e_is_dir e); cbn [Wf.node_chains app] in Hch; contradiction.
    + destruct (chain_from g im (e_cluster e) (chain_fuel g)) as [l0|] eqn:C.
      * destruct (e_is_dir e).
        -- destruct (dir_scan (slots_of (chain_bytes g im l0)) 0 [] (g_bits g =? 32)) as [[ces lb] is0].
           rewrite VolRemoveProofs.node_chains_dir in Hch. cbn [app] in Hch. destruct Hch as [<-|Hch].
           ++ exact (chain_from_nonfree_in g im _ _ _ x C Hx).
           ++ apply (IH ces x). apply in_concat. exists ch. split; assumption.
        -- cbn [Wf.node_chains] in Hch. destruct Hch as [<-|[]]. exact (chain_from_nonfree_in g im _ _ _ x C Hx).
      * destruct (e_is_dir e); cbn [Wf.node_chains app] in Hch; contradiction.
Qed.

(* the issues of a directory node, clause by clause *)
Definition dot_issues (dc pc : N) (children : list node) : list Wf.issue :=
  match children with
  | NDot d1 :: rest =>
    (if list_eqb (e_sfn d1) DOT && (e_cluster d1 =? dc) && e_is_dir d1 && (e_sfn_slot d1 =? 0) then [] else [Wf.WDot dc])
    ++ (match rest with
        | NDot d2 :: _ => if list_eqb (e_sfn d2) DOTDOT && (e_cluster d2 =? pc) && e_is_dir d2 && (e_sfn_slot d2 =? 1) then [] else [Wf.WDotDot dc]
        | _ => [Wf.WDotDot dc]
        end)
  | _ => [Wf.WDot dc; Wf.WDotDot dc]
  end.

Lemma node_issues_dir fold g pc e l children iss labels : e_cluster e <> 0 ->
  Wf.node_issues fold g pc (NDir e (Some l) children iss labels) =
  map (Wf.dir_issue (e_cluster e)) iss ++ dot_issues (e_cluster e) pc children ++ Wf.names_issues fold (e_cluster e) children
  ++ Wf.nodes_issues fold g (e_cluster e) children.
Proof.
  intros H. apply N.eqb_neq in H. cbn [Wf.node_issues]. rewrite H. reflexivity.
Qed.

Lemma depth_exceeded_S ns k :
  Wf.depth_exceeded ns (S k) = existsb (fun n => match n with NDir _ _ ch _ _ => Wf.depth_exceeded ch k | _ => false end) ns.
Proof. reflexivity. Qed.

Lemma names_issues_dc fold dc ns : Wf.names_issues fold dc ns = [] <-> Wf.names_issues fold 0 ns = [].
Proof.
  unfold Wf.names_issues. cbv zeta.
  destruct (Wf.has_dup list_eqb (map e_sfn (map node_entry ns)));
    destruct (Wf.has_dup list_eqb (map fold (filter (fun l => negb match l with [] => true | _ :: _ => false end) (map e_lfn (map node_entry ns)))));
    cbn [app]; split; intros H; try reflexivity; discriminate.
Qed.

Lemma names_issues_entries fold dc ns ns' : map node_entry ns' = map node_entry ns -> Wf.names_issues fold dc ns' = Wf.names_issues fold dc ns.
Proof. intros H. unfold Wf.names_issues. rewrite H. reflexivity. Qed.

Lemma nodes_issues_insert_pc fold g pc a b e : e_size e = 0 -> e_cluster e = 0 ->
  Wf.nodes_issues fold g pc (a ++ NFile e None [] :: b) = Wf.nodes_issues fold g pc (a ++ b).
Proof.
  intros H1 H2. unfold Wf.nodes_issues. rewrite !flat_map_app. cbn [flat_map Wf.node_issues]. rewrite H1, H2. reflexivity.
Qed.

Lemma NoDup_insert_list {A} (P Q : list A) : forall news, NoDup (P ++ Q) -> NoDup news -> (forall x, In x news -> ~ In x (P ++ Q)) ->
  NoDup (P ++ news ++ Q).
Proof.
  induction news as [|n r IH]; intros H Hn Hd; [exact H|]. inversion Hn as [|? ? N1 N2]; subst. cbn [app].
  apply NoDup_insert.
  - apply IH; [exact H|exact N2|]. intros x Hx. apply Hd. right. exact Hx.
  - intros Hin. apply in_app_or in Hin. destruct Hin as [Hin|Hin].
    + apply (Hd n (or_introl eq_refl)). apply in_or_app. left. exact Hin.
    + apply in_app_or in Hin. destruct Hin as [Hin|Hin]; [contradiction|].
      apply (Hd n (or_introl eq_refl)). apply in_or_app. right. exact Hin.
Qed.

(* the entries of a scan come in ascending order of their short slot *)
Lemma scan_slots_sorted fat32 : forall ss idx pend es ls iss, dir_scan ss idx pend fat32 = (es, ls, iss) ->
  Forall (fun e => idx <= e_sfn_slot e) es /\
  (forall a e b, es = a ++ e :: b -> Forall (fun e' => e_sfn_slot e < e_sfn_slot e') b).
Proof.
  induction ss as [|s r IH]; intros idx pend es ls iss H; cbn [dir_scan] in H.
  - injection H as <- _ _. split; [constructor|]. intros a e b E. destruct a; discriminate.
  - destruct (byte_at s 0 =? 0).
    { injection H as <- _ _. split; [constructor|]. intros a e b E. destruct a; discriminate. }
    assert (forall p es0 ls0 iss0, dir_scan r (idx + 1) p fat32 = (es0, ls0, iss0) ->
              Forall (fun e => idx <= e_sfn_slot e) es0 /\
              (forall a e b, es0 = a ++ e :: b -> Forall (fun e' => e_sfn_slot e < e_sfn_slot e') b)) as Step.
    { intros p es0 ls0 iss0 H0. destruct (IH _ _ _ _ _ H0) as [I1 I2]. split; [|exact I2].
      eapply Forall_impl; [|exact I1]. intros e He. cbv beta in He. lia. }
    destruct (byte_at s 0 =? 229).
    { destruct (dir_scan r (idx + 1) [] fat32) as [[es0 ls0] iss0] eqn:E. injection H as <- _ _. exact (Step _ _ _ _ E). }
    destruct (is_lfn_slot s).
    { destruct (lfn_starts s && match pend with [] => false | _ => true end).
      - destruct (dir_scan r (idx + 1) [s] fat32) as [[es0 ls0] iss0] eqn:E. injection H as <- _ _. exact (Step _ _ _ _ E).
      - exact (Step _ _ _ _ H). }
    destruct (is_label_slot s).
    { destruct (dir_scan r (idx + 1) [] fat32) as [[es0 ls0] iss0] eqn:E. injection H as <- _ _. exact (Step _ _ _ _ E). }
    destruct (dir_scan r (idx + 1) [] fat32) as [[es0 ls0] iss0] eqn:E. injection H as <- _ _.
    destruct (IH _ _ _ _ _ E) as [I1 I2]. split.
    + constructor; [cbn [mk_entry e_sfn_slot]; lia|]. eapply Forall_impl; [|exact I1]. intros e He. cbv beta in He. lia.
    + intros a e b Eq. destruct a as [|x a].
      * cbn [app] in Eq. injection Eq as <- <-. cbn [mk_entry e_sfn_slot]. eapply Forall_impl; [|exact I1]. intros e He. cbv beta in He. lia.
      * cbn [app] in Eq. injection Eq as _ Eq. exact (I2 a e b Eq).
Qed.

(* ---- 4b. what a well-formed volume says about a directory node of its root *)
Record DirFacts (fold : list N -> list N) (im : image) (ra : list node) (ed : entry) (l : list N) (children : list node)
       (labels : list (list N)) (rb : list node) (es : list entry) (ls : list (list N)) (ea eb ces : list entry) : Prop := {
  df_scan : dir_scan (root_region_slots (parse_geom im) im) 0 [] false = (es, ls, []);
  df_abs : abs im = abs_fixed (parse_geom im) im es ls [];
  df_es : es = ea ++ ed :: eb;
  df_ra : ra = map (node_of (parse_geom im) im 23) ea;
  df_rb : rb = map (node_of (parse_geom im) im 23) eb;
  df_dot : e_is_dot ed = false;
  df_dir : e_is_dir ed = true;
  df_cl : e_cluster ed <> 0;
  df_chain : chain_from (parse_geom im) im (e_cluster ed) (chain_fuel (parse_geom im)) = Some l;
  df_cscan : dir_scan (chain_dir_slots (parse_geom im) im l) 0 [] false = (ces, labels, []);
  df_children : children = decode_entries (parse_geom im) im 23 ces;
  df_nodup : NoDup (concat (Wf.nodes_chains ra) ++ (l ++ concat (Wf.nodes_chains children)) ++ concat (Wf.nodes_chains rb));
  df_intact : forallb node_intact (ra ++ NDir ed (Some l) children [] labels :: rb) = true;
  df_names : Wf.names_issues fold 0 (ra ++ NDir ed (Some l) children [] labels :: rb) = [];
  df_ia : Wf.nodes_issues fold (parse_geom im) 0 ra = [];
  df_id : Wf.node_issues fold (parse_geom im) 0 (NDir ed (Some l) children [] labels) = [];
  df_ib : Wf.nodes_issues fold (parse_geom im) 0 rb = [];
  df_lost : forall x, 2 <= x < g_clusters (parse_geom im) + 2 ->
              fat_val (parse_geom im) im x = FFree \/ fat_val (parse_geom im) im x = FBad \/
              In x (concat (Wf.nodes_chains ra) ++ (l ++ concat (Wf.nodes_chains children)) ++ concat (Wf.nodes_chains rb));
  df_depth : Wf.depth_exceeded (ra ++ NDir ed (Some l) children [] labels :: rb) MAX_DEPTH = false }.

Lemma root_chains_split ra e l children iss labels rb :
  concat (Wf.nodes_chains (ra ++ NDir e (Some l) children iss labels :: rb)) =
  concat (Wf.nodes_chains ra) ++ (l ++ concat (Wf.nodes_chains children)) ++ concat (Wf.nodes_chains rb).
Proof.
  rewrite VolRemoveProofs.nodes_chains_app, VolRemoveProofs.nodes_chains_cons, !concat_app, VolRemoveProofs.node_chains_dir.
  cbn [app concat]. reflexivity.
Qed.

Theorem wf_dir_facts fold im ra ed l children labels rb :
  fixed_root_geom (parse_geom im) -> Wf.wf_issues fold im = [] ->
  v_root (abs im) = ra ++ NDir ed (Some l) children [] labels :: rb ->
  exists es ls ea eb ces, DirFacts fold im ra ed l children labels rb es ls ea eb ces.
Proof.
  intros Hf Hwf Hroot. set (g := parse_geom im) in *. pose proof (fg_bits g Hf) as Hbits.
  assert ((g_bits g =? 32) = false) as Hb32 by (apply N.eqb_neq; exact Hbits).
  destruct (wf_session_premises fold im Hbits Hwf) as [Hiss Hint].
  destruct (abs_scan_of im Hbits) as (es & ls & iss & Hscan & Habs). fold g in Hscan, Habs.
  rewrite Habs in Hiss. cbn [abs_fixed v_root_issues] in Hiss. subst iss.
  rewrite (wf_issues_fixed fold im g im es ls [] Hbits Habs) in Hwf. cbv zeta in Hwf.
  rewrite Habs in Hroot, Hint. cbn [abs_fixed v_root] in Hroot, Hint. rewrite Hroot in Hwf, Hint.
  change MAX_DEPTH with (S 23) in Hroot. rewrite decode_entries_S in Hroot.
  apply map_eq_app in Hroot. destruct Hroot as (ea & eb' & -> & Ea & Eb).
  apply map_eq_cons in Eb. destruct Eb as (e0 & eb & -> & Ed & Eb).
  destruct (node_of_dir_inv g im 23 e0 ed l children [] labels Ed) as (-> & D1 & D2 & D3 & D4 & ces & Sc & Ech).
  rewrite Hb32 in Sc. fold (chain_dir_slots g im l) in Sc.
  rewrite root_chains_split in Hwf.
  destruct (Wf.own_clusters (concat (Wf.nodes_chains ra) ++ (l ++ concat (Wf.nodes_chains children)) ++ concat (Wf.nodes_chains rb))
              (PositiveMap.empty unit)) as [owned cross] eqn:Eown.
  cbn [map app] in Hwf.
  apply app_eq_nil in Hwf. destruct Hwf as [Wn Hwf]. apply app_eq_nil in Hwf. destruct Hwf as [Wi Hwf].
  apply app_eq_nil in Hwf. destruct Hwf as [Wc Hwf]. apply app_eq_nil in Hwf. destruct Hwf as [Wl Wd]. subst cross.
  unfold Wf.nodes_issues in Wi. rewrite flat_map_app in Wi. cbn [flat_map] in Wi.
  apply app_eq_nil in Wi. destruct Wi as [Wi1 Wi]. apply app_eq_nil in Wi. destruct Wi as [Wie Wi2].
  destruct (VolRemoveProofs.own_clusters_spec _ _ _ _ Eown) as [Hnd0 Hown]. destruct (Hnd0 eq_refl) as [Hnodup _].
  exists (ea ++ e0 :: eb), ls, ea, eb, ces. split; try assumption; try reflexivity.
  - symmetry; exact Ea.
  - symmetry; exact Eb.
  - intros x Hx. fold g in Hx |- *. destruct (lost_from_nil_inv g im owned (N.to_nat (g_clusters g)) 2 Wl x ltac:(lia)) as [X|[X|X]]; [left; exact X|right; left; exact X|right; right].
    rewrite Hown, PositiveMap.gempty in X.
    destruct (in_dec N.eq_dec x (concat (Wf.nodes_chains ra) ++ (l ++ concat (Wf.nodes_chains children)) ++ concat (Wf.nodes_chains rb)))
      as [Hi|_]; [exact Hi|discriminate].
  - destruct (Wf.depth_exceeded (ra ++ NDir e0 (Some l) children [] labels :: rb) MAX_DEPTH); [discriminate|reflexivity].
Qed.

(* ---- 4c. the bridge: [im'] differs from the well-formed [im] only in the FAT entries of [last l] and of the clusters [news]
   (free before, now appended to the directory's chain) and in the bytes of the clusters of the chain l ++ news *)
Section Bridge.
Variable fold : list N -> list N.
Variables (im im' : image) (ra : list node) (ed : entry) (l : list N) (children : list node) (labels : list (list N))
          (rb : list node) (es : list entry) (ls : list (list N)) (ea eb ces : list entry).
Let g := parse_geom im.
Hypothesis Hg : chain_geom g.
Hypothesis DF : DirFacts fold im ra ed l children labels rb es ls ea eb ces.
Variable news : list N.
Hypothesis Hnn : NoDup news.
Hypothesis Hnf : forall x, In x news -> 2 <= x < g_clusters g + 2 /\ fat_val g im x = FFree.
Hypothesis Hfat : forall x, 2 <= x < g_clusters g + 2 -> ~ In x news -> (news = [] \/ x <> last l 0) -> fat_val g im' x = fat_val g im x.
Hypothesis Hdata : forall a, ~ in_store_area g a -> (forall c, In c (l ++ news) -> ~ in_cluster g c a) -> img_get im' a = img_get im a.
Hypothesis Hlk : linked g im' (l ++ news).
Hypothesis Hck : chain_ok g (l ++ news).
Variables (ces' : list entry) (labels' : list (list N)) (iss' : list dissue).
Hypothesis Hscan' : dir_scan (chain_dir_slots g im' (l ++ news)) 0 [] false = (ces', labels', iss').
Hypothesis Hces' : forall e, In e ces' -> In e ces \/ (e_is_dot e = false /\ e_is_dir e = false /\ e_cluster e = 0).

Let Hf : fixed_root_geom g := proj1 Hg.
Let A := concat (Wf.nodes_chains ra).
Let C := concat (Wf.nodes_chains children).
Let B := concat (Wf.nodes_chains rb).

(* bytes in front of the FAT copies (boot sector) and the root region *)
Lemma B_boot a : a < 512 -> img_get im' a = img_get im a.
Proof.
  intros Ha. apply Hdata.
  - intros Hs. pose proof (store_area_before_root g a Hf Hs). lia.
  - intros c _. apply (root_not_cluster g c a Hf). pose proof (root_off_ge g Hf). lia.
Qed.

Lemma B_rootregion a : g_root_off g <= a < g_root_off g + root_bytes g -> img_get im' a = img_get im a.
Proof.
  intros Ha. apply Hdata.
  - exact (root_not_store g a Hf ltac:(lia)).
  - intros c _. apply (root_not_cluster g c a Hf). lia.
Qed.

Lemma B_geom : parse_geom im' = g.
Proof. apply parse_geom_low. intros o Ho. apply B_boot. lia. Qed.

Lemma B_root : root_region_slots g im' = root_region_slots g im.
Proof. unfold root_region_slots. f_equal. apply VolDirProofs.img_read_ext. intros i Hi. apply B_rootregion. lia. Qed.

Lemma B_lne : l <> [] /\ hd 0 l = e_cluster ed /\ In (last l 0) l /\ linked g im l.
Proof.
  destruct (chain_from_linked g im _ _ _ (df_chain _ _ _ _ _ _ _ _ _ _ _ _ _ DF)) as [L H]. fold g in L.
  split; [intros E; rewrite E in L; exact L|]. split; [exact H|]. split; [exact (proj1 (linked_last g im l L))|exact L].
Qed.

Lemma B_old_nonfree x : In x (A ++ (l ++ C) ++ B) -> fat_val g im x <> FFree.
Proof.
  intros Hx. destruct B_lne as (_ & _ & _ & L).
  apply in_app_or in Hx. destruct Hx as [Hx|Hx]; [|apply in_app_or in Hx; destruct Hx as [Hx|Hx]; [apply in_app_or in Hx; destruct Hx as [Hx|Hx]|]].
  - unfold A in Hx. rewrite (df_ra _ _ _ _ _ _ _ _ _ _ _ _ _ DF) in Hx. fold g in Hx. rewrite <- decode_entries_S in Hx.
    exact (decoded_chains_nonfree g im _ _ x Hx).
  - exact (proj2 (linked_in g im l x L Hx)).
  - unfold C in Hx. rewrite (df_children _ _ _ _ _ _ _ _ _ _ _ _ _ DF) in Hx. exact (decoded_chains_nonfree g im _ _ x Hx).
  - unfold B in Hx. rewrite (df_rb _ _ _ _ _ _ _ _ _ _ _ _ _ DF) in Hx. fold g in Hx. rewrite <- decode_entries_S in Hx.
    exact (decoded_chains_nonfree g im _ _ x Hx).
Qed.

Lemma B_news_new x : In x news -> ~ In x (A ++ (l ++ C) ++ B).
Proof. intros Hx Hin. exact (B_old_nonfree x Hin (proj2 (Hnf x Hx))). Qed.

(* the other chains of the tree avoid the chain of the directory, before and after *)
Lemma B_avoid x : In x (A ++ C ++ B) -> ~ In x (l ++ news).
Proof.
  intros Hx Hin. pose proof (df_nodup _ _ _ _ _ _ _ _ _ _ _ _ _ DF) as Nd. fold A C B in Nd.
  apply in_app_or in Hin. destruct Hin as [Hin|Hin].
  - (* x in l and in another chain: excluded by NoDup *)
    apply in_app_or in Hx. destruct Hx as [Hx|Hx].
    + destruct (FileProofs.NoDup_app_parts _ _ Nd) as (_ & _ & D). apply (D x Hx). apply in_or_app. left. apply in_or_app. left. exact Hin.
    + destruct (FileProofs.NoDup_app_parts _ _ Nd) as (_ & N2 & _). rewrite <- app_assoc in N2.
      destruct (FileProofs.NoDup_app_parts _ _ N2) as (_ & _ & D). exact (D x Hin Hx).
  - apply (B_news_new x Hin). apply in_app_or in Hx. apply in_or_app. destruct Hx as [Hx|Hx]; [left; exact Hx|right].
    apply in_app_or in Hx. apply in_or_app. destruct Hx as [Hx|Hx]; [left; apply in_or_app; right; exact Hx|right; exact Hx].
Qed.

Lemma B_off : same_off g im im' (l ++ news).
Proof.
  intros x R Hn. apply in_range_iff in R. destruct B_lne as (_ & _ & Hlast & _). split.
  - apply Hfat; [exact R|intros Hin; apply Hn; apply in_or_app; right; exact Hin|].
    right. intros ->. apply Hn. apply in_or_app. left. exact Hlast.
  - unfold cluster_bytes. apply VolDirProofs.img_read_ext. intros i Hi. apply Hdata.
    + apply (in_cluster_not_store g Hf x); [lia|unfold in_cluster; lia].
    + intros c Hc Hin. destruct Hck as [_ Hr]. rewrite Forall_forall in Hr. specialize (Hr c Hc).
      apply (clusters_disjoint g c x (g_cluster_off g x + N.of_nat i)); [lia|lia|intros ->; contradiction|exact Hin|unfold in_cluster; lia].
Qed.

Lemma B_ra : map (node_of g im' 23) ea = ra.
Proof.
  rewrite (df_ra _ _ _ _ _ _ _ _ _ _ _ _ _ DF). fold g. rewrite <- !decode_entries_S.
  apply (decode_entries_off g im im' (l ++ news) B_off).
  - rewrite decode_entries_S. pose proof (df_intact _ _ _ _ _ _ _ _ _ _ _ _ _ DF) as I. rewrite forallb_app in I.
    apply andb_true_iff in I. rewrite (df_ra _ _ _ _ _ _ _ _ _ _ _ _ _ DF) in I. exact (proj1 I).
  - intros x Hx. apply B_avoid. apply in_or_app. left. unfold A. rewrite (df_ra _ _ _ _ _ _ _ _ _ _ _ _ _ DF). exact Hx.
Qed.

Lemma B_rb : map (node_of g im' 23) eb = rb.
Proof.
  rewrite (df_rb _ _ _ _ _ _ _ _ _ _ _ _ _ DF). fold g. rewrite <- !decode_entries_S.
  apply (decode_entries_off g im im' (l ++ news) B_off).
  - rewrite decode_entries_S. pose proof (df_intact _ _ _ _ _ _ _ _ _ _ _ _ _ DF) as I. rewrite forallb_app in I.
    apply andb_true_iff in I. destruct I as [_ I]. cbn [forallb] in I. apply andb_true_iff in I.
    rewrite (df_rb _ _ _ _ _ _ _ _ _ _ _ _ _ DF) in I. exact (proj2 I).
  - intros x Hx. apply B_avoid. apply in_or_app. right. apply in_or_app. right. unfold B.
    rewrite (df_rb _ _ _ _ _ _ _ _ _ _ _ _ _ DF). exact Hx.
Qed.

(* every entry of the new scan decodes on [im'] as on [im] *)
Lemma B_child_node e : In e ces' ->
  node_intact (node_of g im 22 e) = true /\ (forall x, In x (concat (Wf.node_chains (node_of g im 22 e))) -> In x C).
Proof.
  intros He. destruct (Hces' e He) as [Hin|(E1 & E2 & E3)].
  - assert (In (node_of g im 22 e) children) as Hn.
    { rewrite (df_children _ _ _ _ _ _ _ _ _ _ _ _ _ DF). fold g. rewrite decode_entries_S. apply in_map. exact Hin. }
    split.
    + pose proof (df_intact _ _ _ _ _ _ _ _ _ _ _ _ _ DF) as I. rewrite forallb_app in I. apply andb_true_iff in I. destruct I as [_ I].
      cbn [forallb] in I. apply andb_true_iff in I. destruct I as [I _]. rewrite node_intact_dir in I. apply andb_true_iff in I.
      destruct I as [_ I]. rewrite forallb_forall in I. exact (I _ Hn).
    + intros x Hx. exact (node_chains_in_nodes _ _ x Hn Hx).
  - rewrite (node_of_empty_file g im 22 e E1 E2 E3). cbn [node_intact Wf.node_chains concat]. rewrite E3. split; [reflexivity|intros x []].
Qed.

Lemma B_children : decode_entries g im' 23 ces' = decode_entries g im 23 ces'.
Proof.
  apply (decode_entries_off g im im' (l ++ news) B_off).
  - rewrite decode_entries_S. apply forallb_forall. intros n Hn. apply in_map_iff in Hn. destruct Hn as (e & <- & He).
    exact (proj1 (B_child_node e He)).
  - intros x Hx. apply B_avoid. apply in_or_app. right. apply in_or_app. left.
    rewrite decode_entries_S in Hx. apply in_concat in Hx. destruct Hx as (ch & Hch & Hx).
    unfold Wf.nodes_chains in Hch. apply in_flat_map in Hch. destruct Hch as (n & Hn & Hch).
    apply in_map_iff in Hn. destruct Hn as (e & <- & He).
    apply (proj2 (B_child_node e He) x). apply in_concat. exists ch. split; assumption.
Qed.

Lemma B_chain' : chain_from g im' (e_cluster ed) (chain_fuel g) = Some (l ++ news).
Proof.
  destruct B_lne as (Hne & Hhd & _ & _).
  assert (hd 0 (l ++ news) = e_cluster ed) as <- by (destruct l; [contradiction|exact Hhd]).
  apply linked_chain_from; [exact Hlk|]. destruct Hck as [Nd Hr]. rewrite Forall_forall in Hr.
  pose proof (FileProofs.nodup_range_length (l ++ news) (g_clusters g) Nd Hr). pose proof (fixed_clusters_small g Hf).
  unfold chain_fuel. lia.
Qed.

Lemma B_dirnode : node_of g im' 23 ed = NDir ed (Some (l ++ news)) (decode_entries g im 23 ces') iss' labels'.
Proof.
  rewrite <- B_children.
  apply (node_of_dir_intro g im' 23 ed (l ++ news) ces' labels' iss' (df_dot _ _ _ _ _ _ _ _ _ _ _ _ _ DF)
           (df_dir _ _ _ _ _ _ _ _ _ _ _ _ _ DF) (df_cl _ _ _ _ _ _ _ _ _ _ _ _ _ DF) B_chain').
  assert ((g_bits g =? 32) = false) as -> by (apply N.eqb_neq; exact (fg_bits g Hf)). exact Hscan'.
Qed.

Let root' := ra ++ NDir ed (Some (l ++ news)) (decode_entries g im 23 ces') iss' labels' :: rb.

Theorem bridge_abs : abs im' = abs_fixed g im' es ls [] /\ decode_entries g im' MAX_DEPTH es = root' /\
  img_get im' (g_status_off g) = img_get im (g_status_off g).
Proof.
  split; [|split].
  - rewrite <- B_geom at 1. apply abs_fixed_root; rewrite B_geom; [exact (fg_bits g Hf)|]. rewrite B_root.
    exact (df_scan _ _ _ _ _ _ _ _ _ _ _ _ _ DF).
  - change MAX_DEPTH with (S 23). rewrite decode_entries_S, (df_es _ _ _ _ _ _ _ _ _ _ _ _ _ DF), map_app. cbn [map].
    rewrite B_ra, B_rb, B_dirnode. reflexivity.
  - rewrite (g_status_off_fixed g (fg_bits g Hf)). apply B_boot. lia.
Qed.

(* the well-formedness verdict afterwards: whatever the directory's own scan reports, and nothing else - provided the children
   pass the clauses about dot entries, names and their own nodes and refer to the same clusters as before *)
Theorem bridge_wf :
  dot_issues (e_cluster ed) 0 (decode_entries g im 23 ces') = [] ->
  Wf.names_issues fold (e_cluster ed) (decode_entries g im 23 ces') = [] ->
  Wf.nodes_issues fold g (e_cluster ed) (decode_entries g im 23 ces') = [] ->
  concat (Wf.nodes_chains (decode_entries g im 23 ces')) = C ->
  (forall d, Wf.depth_exceeded (decode_entries g im 23 ces') d = Wf.depth_exceeded children d) ->
  Wf.wf_issues fold im' = map (Wf.dir_issue (e_cluster ed)) iss'.
Proof.
  intros W1 W2 W3 W4 W5. destruct bridge_abs as (Habs' & Hroot' & _).
  rewrite (wf_issues_fixed fold im' g im' es ls [] (fg_bits g Hf) Habs'). cbv zeta. rewrite Hroot'. unfold root'.
  rewrite root_chains_split, W4. fold A B.
  pose proof (df_nodup _ _ _ _ _ _ _ _ _ _ _ _ _ DF) as Nd. fold A C B in Nd.
  assert (NoDup (A ++ ((l ++ news) ++ C) ++ B)) as Nd'.
  { replace (A ++ ((l ++ news) ++ C) ++ B) with ((A ++ l) ++ news ++ (C ++ B)) by (rewrite <- !app_assoc; reflexivity).
    apply NoDup_insert_list; [rewrite <- !app_assoc in Nd |- *; exact Nd|exact Hnn|].
    intros x Hx Hin. apply (B_news_new x Hx). rewrite <- !app_assoc in Hin |- *. exact Hin. }
  destruct (own_clusters_nodup _ (PositiveMap.empty unit) Nd') as (m' & Em & Hm'); [intros x _; apply PositiveMap.gempty|].
  rewrite Em. cbn [map app].
  (* names of the root: the entries are the same *)
  assert (Wf.names_issues fold 0 (ra ++ NDir ed (Some (l ++ news)) (decode_entries g im 23 ces') iss' labels' :: rb) = []) as ->.
  { rewrite <- (df_names _ _ _ _ _ _ _ _ _ _ _ _ _ DF). apply names_issues_entries. rewrite !map_app. reflexivity. }
  cbn [app]. unfold Wf.nodes_issues at 1. rewrite flat_map_app. cbn [flat_map].
  pose proof (df_ia _ _ _ _ _ _ _ _ _ _ _ _ _ DF) as Ia. pose proof (df_ib _ _ _ _ _ _ _ _ _ _ _ _ _ DF) as Ib.
  unfold Wf.nodes_issues in Ia, Ib. fold g in Ia, Ib. rewrite Ia, Ib. cbn [app]. rewrite app_nil_r.
  rewrite (node_issues_dir fold g 0 ed _ _ iss' labels' (df_cl _ _ _ _ _ _ _ _ _ _ _ _ _ DF)), W1, W2, W3. cbn [app]. rewrite !app_nil_r.
  rewrite (FormatImageAbs.lost_from_nil g im' m').
  - cbn [app]. pose proof (df_depth _ _ _ _ _ _ _ _ _ _ _ _ _ DF) as Dp. change MAX_DEPTH with (S 23) in Dp |- *.
    rewrite depth_exceeded_S in Dp |- *. rewrite existsb_app in Dp |- *. cbn [existsb] in Dp |- *. rewrite W5.
    rewrite Dp. rewrite app_nil_r. reflexivity.
  - intros x Hx. assert (2 <= x < g_clusters g + 2) as R by lia. rewrite Hm', PositiveMap.gempty.
    destruct (in_dec N.eq_dec x (A ++ ((l ++ news) ++ C) ++ B)) as [_|Hn]; [right; right; reflexivity|].
    assert (~ In x news) as Hxn.
    { intros Hin. apply Hn. apply in_or_app. right. apply in_or_app. left. apply in_or_app. left. apply in_or_app. right. exact Hin. }
    assert (x <> last l 0) as Hxl.
    { intros ->. apply Hn. destruct B_lne as (_ & _ & Hlast & _). apply in_or_app. right. apply in_or_app. left. apply in_or_app. left.
      apply in_or_app. left. exact Hlast. }
    rewrite (Hfat x R Hxn (or_intror Hxl)).
    destruct (df_lost _ _ _ _ _ _ _ _ _ _ _ _ _ DF x R) as [X|[X|X]]; [left; exact X|right; left; exact X|exfalso].
    fold A C B in X. apply Hn. apply in_app_or in X. apply in_or_app. destruct X as [X|X]; [left; exact X|right].
    apply in_app_or in X. apply in_or_app. destruct X as [X|X]; [left|right; exact X].
    apply in_app_or in X. apply in_or_app. destruct X as [X|X]; [left; apply in_or_app; left; exact X|right; exact X].
Qed.
End Bridge.

(* ---- the slot layer's NotEnoughSpace of a chain directory that cannot grow, exactly: what was written is the prefix of the run
   that filled the free tail; the decoder finds the same entries and labels; it reports ONE orphan run (at the end of the
   directory) when something was written and nothing otherwise *)
Lemma failed_write_chain_exact cs fat32 ss n e es ls ss' :
  dir_scan ss 0 [] fat32 = (es, ls, []) -> len_N ss < 134217728 ->
  write_entry (Chained cs) 0 ss n e = (Err ENotEnoughSpace, ss') -> length ss' = length ss ->
  (ss' = ss /\ dir_scan ss' 0 [] fat32 = (es, ls, [])) \/
  (ss' <> ss /\ dir_scan ss' 0 [] fat32 = (es, ls, [DOrphanLfn (len_N ss)]) /\ 1 < len_N (entry_run n e) /\
   exists p, find_free_entries (Chained cs) ss (len_N (entry_run n e)) = Ok p /\ p < len_N ss).
Proof.
  intros H0 Hb H Hlen.
  destruct (write_entry_cases (Chained cs) 0 ss n e Hb) as [[rg [s1 E]]|[[x [V E]]|[[K _]|C4]]].
  - rewrite E in H. discriminate.
  - rewrite E in H. injection H as -> <-. left. split; [reflexivity|exact H0].
  - discriminate.
  - destruct C4 as [cs0 [p [pre [mid [post [j [K [V [S [J [_ [Ef E]]]]]]]]]]]]. rewrite E in H. injection H as <-.
    destruct S as [S1 S2 S3 S4 S5].
    set (lf := map lfn_encode (write_entry_lfn_slots n (se_name e))) in *.
    assert (entry_run n e = lf ++ [sfn_encode e]) as Erun by reflexivity.
    destruct (entry_lfn_run_valid n (se_name e) V) as [R1 [_ [_ [_ R5]]]]. fold lf in R1, R5.
    destruct (run_valid_starts lf _ R1) as [Rn _].
    assert (length (entry_run n e) = S (length lf)) as ElenN by (rewrite Erun, app_length; cbn [length]; lia).
    assert (firstn j (entry_run n e) = firstn j lf) as Efj.
    { rewrite Erun, firstn_app. replace (j - length lf)%nat with 0%nat by lia. cbn [firstn]. apply app_nil_r. }
    rewrite Efj in *.
    assert (j = length (mid ++ post)) as Ej.
    { rewrite S1, !app_length, firstn_length in Hlen. rewrite app_length in J |- *. lia. }
    assert (post = [] \/ exists z r, post = z :: r /\ zfirst z) as Hpost.
    { destruct S5 as [C|[_ C]]; [|exact C]. exfalso. rewrite app_length in J. unfold len_N in C. lia. }
    pose proof H0 as H0'. rewrite S1 in H0'. rewrite scan_app in H0' by exact S3.
    destruct (scan_pre pre 0 [] fat32) as [[[es1 ls1] iss1] pd] eqn:Epre.
    destruct (dir_scan (mid ++ post) (0 + len_N pre) pd fat32) as [[es2 ls2] iss2] eqn:E2.
    injection H0' as Q1 Q2 Q3. apply app_eq_nil in Q3. destruct Q3 as [-> ->].
    assert (pd = []) as ->.
    { eapply no_issue_free_head; [exact E2|]. destruct mid as [|m0 mid'].
      - cbn [app]. destruct Hpost as [->|[z [r [-> Hz]]]]; [left; reflexivity|right; exists z, r; split; [reflexivity|left; exact Hz]].
      - right. exists m0, (mid' ++ post). split; [reflexivity|right]. inversion S4; assumption. }
    rewrite scan_deleted in E2 by exact S4.
    assert (Forall zfirst post /\ es2 = [] /\ ls2 = []) as [Hz [-> ->]].
    { destruct Hpost as [->|[z [r [-> Hz]]]].
      - cbn [dir_scan] in E2. inversion E2. repeat split; constructor.
      - eapply no_issue_after_end; [exact Hz|exact E2]. }
    rewrite !app_nil_r in *. subst es1 ls1.
    assert (dir_scan (pre ++ firstn j lf) 0 [] fat32 =
            (es, ls, match rev (firstn j lf) with [] => [] | _ => [DOrphanLfn (0 + len_N pre + len_N (firstn j lf))] end)) as Hscan.
    { rewrite scan_app by exact S3. rewrite Epre. rewrite <- (app_nil_r (firstn j lf)).
      rewrite scan_run by (first [apply lfn_live_like; apply LfnProofs.Forall_firstn'; exact R5|apply Forall_tl_firstn; exact Rn]).
      cbn [dir_scan]. rewrite !app_nil_r. cbn [app]. reflexivity. }
    remember (mid ++ post) as tl0 eqn:Etail in *. symmetry in Etail. destruct tl0 as [|t0 tail].
    + left. cbn [length] in Ej. subst j. cbn [firstn] in *. rewrite app_nil_r in *. subst ss. split; [reflexivity|].
      cbn [rev] in Hscan. exact Hscan.
    + right. cbn [length] in Ej.
      destruct lf as [|f lf']; [cbn [length] in *; lia|]. destruct j as [|j']; [lia|]. cbn [firstn] in *.
      assert (free_slot t0) as Ht0.
      { assert (In t0 (mid ++ post)) as Hin by (rewrite Etail; left; reflexivity). apply in_app_or in Hin. destruct Hin as [Hin|Hin].
        - right. rewrite Forall_forall in S4. exact (S4 _ Hin).
        - left. rewrite Forall_forall in Hz. exact (Hz _ Hin). }
      inversion R5 as [|? ? [_ [F0 [F5 _]]] _]; subst.
      split; [|split; [|split]].
      * intros C. apply app_inv_head in C. injection C as C _. subst t0. destruct Ht0; contradiction.
      * rewrite Hscan. cbn [rev]. destruct (rev (firstn j' lf') ++ [f]) eqn:Er; [destruct (rev (firstn j' lf')); discriminate|].
        f_equal. f_equal. f_equal. unfold len_N. rewrite !app_length. cbn [length]. rewrite firstn_length.
        cbn [length] in *. lia.
      * unfold len_N. rewrite ElenN. cbn [length]. lia.
      * exists (len_N pre). split; [exact Ef|]. unfold len_N. rewrite app_length. cbn [length]. lia.
Qed.

Lemma failed_create_chain_exact upper oem cs ss n now es ls ss' :
  dir_scan ss 0 [] false = (es, ls, []) -> len_N ss < 134217728 -> length ss' = length ss ->
  create_entry upper oem false (Chained cs) 0 ss n 0 None now false = (Err ENotEnoughSpace, ss') ->
  (ss' = ss /\ dir_scan ss' 0 [] false = (es, ls, [])) \/
  (ss' <> ss /\ dir_scan ss' 0 [] false = (es, ls, [DOrphanLfn (len_N ss)]) /\
   exists a st p, check_for_existence upper oem ss n (Some false) = Ok (Fresh a) /\ stamp_create now = Ok st /\
     1 < len_N (entry_run n (create_sfn_entry false a 0 None st)) /\
     find_free_entries (Chained cs) ss (len_N (entry_run n (create_sfn_entry false a 0 None st))) = Ok p /\ p < len_N ss).
Proof.
  intros H0 Hb Hlen H. unfold create_entry, lift in H.
  destruct (check_for_existence upper oem ss n (Some false)) as [[ev|a]| | |] eqn:C; try discriminate;
    try (injection H as _ <-; left; split; [reflexivity|exact H0]).
  destruct (stamp_create now) as [st| | |] eqn:ST; try discriminate; try (injection H as _ <-; left; split; [reflexivity|exact H0]).
  destruct (write_entry (Chained cs) 0 ss n (create_sfn_entry false a 0 None st)) as [w ss1] eqn:W.
  injection H as Hw <-. destruct w as [rg|x| |]; try discriminate. cbn [bind] in Hw. injection Hw as ->.
  destruct (failed_write_chain_exact cs false ss n _ es ls ss1 H0 Hb W Hlen) as [X|(X1 & X2 & X3 & p & X4 & X5)]; [left; exact X|right].
  split; [exact X1|]. split; [exact X2|]. exists a, st, p. repeat split; assumption.
Qed.

Lemma count_free_zero g im : count_free g im = 0 -> forall x, 2 <= x < g_clusters g + 2 -> fat_val g im x <> FFree.
Proof.
  intros H x R E. rewrite count_free_cnt in H.
  pose proof (cnt_pos (fun y => fatv_of (fat_val g im y)) x (N.to_nat (g_clusters g)) 2 ltac:(lia)) as P.
  cbv beta in P. rewrite E in P. specialize (P eq_refl). lia.
Qed.

(* ================================================================ 5. create_file with growth *)
Section GrowThm.
Variable upper : N -> list N.
Variable oem : N -> N.

(* what one call does, in terms of the slot layer and the allocator *)
Definition GrowStep (im : image) (fi : fsinfo) (l : list N) (im' : image) (fi' : fsinfo) (l' news : list N) : Prop :=
  let g := parse_geom im in
  l' = l ++ news /\ GInv g im' fi' l' /\ NoDup news /\
  (forall x, In x news -> 2 <= x < g_clusters g + 2 /\ fat_val g im x = FFree) /\
  (forall x, 2 <= x < g_clusters g + 2 -> ~ In x news -> (news = [] \/ x <> last l 0) -> fat_val g im' x = fat_val g im x) /\
  (forall a, ~ in_store_area g a -> (forall c, In c l' -> ~ in_cluster g c a) -> img_get im' a = img_get im a) /\
  (news = [] -> fi' = fi /\ forall a, (forall c, In c l -> ~ in_cluster g c a) -> img_get im' a = img_get im a) /\
  count_free g im' + N.of_nat (length news) = count_free g im.

Lemma grow_step_refl im fi l : GInv (parse_geom im) im fi l -> GrowStep im fi l im fi l [].
Proof.
  intros HI. unfold GrowStep. cbv zeta. rewrite app_nil_r. cbn [length N.of_nat].
  split; [reflexivity|]. split; [exact HI|]. split; [constructor|]. split; [intros x []|].
  split; [reflexivity|]. split; [reflexivity|]. split; [split; reflexivity|]. lia.
Qed.

Theorem grow_create_unfold im fi l name now r im' fi' l' :
  let g := parse_geom im in
  chain_geom g -> GInv g im fi l -> chain_small g l -> TimeProofs.datetime_valid now = true ->
  vol_create_file_grow upper oem im fi l name now = (r, (im', fi', l')) ->
  exists news,
    GrowStep im fi l im' fi' l' news /\
    create_entry upper oem false (Chained (cluster_slots g)) (length news) (chain_dir_slots g im l) name 0 None now false
      = (r, chain_dir_slots g im' l') /\
    (* NotEnoughSpace behind a passed existence check comes from the allocator alone: no cluster is free *)
    (forall a, check_for_existence upper oem (chain_dir_slots g im l) name (Some false) = Ok (Fresh a) -> r = Err ENotEnoughSpace ->
       forall x, 2 <= x < g_clusters g + 2 -> fat_val g im' x <> FFree).
Proof.
  intros g Hg HI Hsm Hnow H. unfold vol_create_file_grow in H. fold g in H. rewrite (is_fat32_fixed im (proj1 Hg)) in H.
  set (ss := chain_dir_slots g im l) in *.
  assert (forall (x : res (option (N * N))),
            (x, (im, fi, l)) = (r, (im', fi', l')) -> create_entry upper oem false (Chained (cluster_slots g)) 0 ss name 0 None now false = (x, ss) ->
            (forall a, check_for_existence upper oem ss name (Some false) <> Ok (Fresh a)) ->
            exists news, GrowStep im fi l im' fi' l' news /\
              create_entry upper oem false (Chained (cluster_slots g)) (length news) ss name 0 None now false = (r, chain_dir_slots g im' l') /\
              (forall a, check_for_existence upper oem ss name (Some false) = Ok (Fresh a) -> r = Err ENotEnoughSpace ->
                 forall x, 2 <= x < g_clusters g + 2 -> fat_val g im' x <> FFree)) as Same.
  { intros x E C Hx. injection E as <- <- <- <-. exists []. split; [exact (grow_step_refl im fi l HI)|]. split; [exact C|].
    intros a Ha. exfalso. exact (Hx a Ha). }
  unfold create_entry in Same |- *. unfold glift, lift in *.
  destruct (check_for_existence upper oem ss name (Some false)) as [[ev|a]| | |] eqn:C;
    try (apply (Same _ H eq_refl); intros a0; discriminate).
  destruct (check_fresh_inv _ _ _ _ _ _ C) as (V & HL & _).
  destruct (stamp_create_ok now Hnow) as [st ST]. rewrite ST in *.
  set (e := create_sfn_entry false a 0 None st) in *.
  pose proof (create_sfn_entry_live false a 0 None st HL ltac:(lia) eq_refl (stamp_create_ranges now st Hnow ST)) as Hlive. fold e in Hlive.
  unfold vol_write_entry_grow, write_entry, glift, lift in *. rewrite V in *.
  destruct (chain_dir_shape g im l Hg) as [[Lss _] _]. fold ss in Lss.
  destruct (find_free_entries_spec (Chained (cluster_slots g)) ss (len_N (entry_run name e)) (proj1 (entry_run_len name e))
              (chain_len_bound g im l Hg Hsm)) as (p & pre & mid & post & S & Ef).
  cbn [is_fixed andb] in Ef. fold ss in H. rewrite Ef in *.
  destruct (vol_write_run g im fi l (N.to_nat p) (entry_run name e)) as [w [[im2 fi2] l2]] eqn:W.
  cbv beta iota zeta in H. injection H as <- <- <- <-.
  assert (N.to_nat p <= cluster_slots g * length l)%nat as Hp.
  { destruct S as [S1 S2 _ _ _]. rewrite <- Lss, S1, app_length. unfold len_N in S2. lia. }
  destruct (vol_write_run_refines g Hg _ im fi l _ w im2 fi2 l2 HI Hp
              (entry_run_len32 name e (sfn_legal_len a HL)) (entry_run_lt name e (sl_fields e Hlive) (sfn_legal_lt a HL)) W)
    as (news & E1 & HI' & Nn & Hfree & Hfat & Hfr & Hfr0 & Hcnt & Hwr & Hr).
  exists news. split; [unfold GrowStep; cbv zeta; fold g; repeat (split; [assumption|]); exact Hcnt|].
  fold ss in Hwr. rewrite Hwr. split; [destruct w as [[]| | |]; reflexivity|].
  intros _ _ E. destruct Hr as [->|[-> Hfull]]; [discriminate|exact Hfull].
Qed.
End GrowThm.

(* ---- the dot-entry clause looks at the first two children only, and they occupy slots 0 and 1 *)
Lemma dot_issues_two dc pc n1 n2 r r' : dot_issues dc pc (n1 :: n2 :: r) = dot_issues dc pc (n1 :: n2 :: r').
Proof. destruct n1, n2; reflexivity. Qed.

Lemma dot_issues_nil_inv dc pc ns : dot_issues dc pc ns = [] ->
  exists d1 d2 r, ns = NDot d1 :: NDot d2 :: r /\ e_sfn_slot d1 = 0 /\ e_sfn_slot d2 = 1.
Proof.
  unfold dot_issues. destruct ns as [|n1 rest]; [discriminate|]. destruct n1 as [| |d1]; try discriminate.
  destruct (list_eqb (e_sfn d1) DOT && (e_cluster d1 =? dc) && e_is_dir d1 && (e_sfn_slot d1 =? 0)) eqn:B1; [|discriminate].
  cbn [app]. destruct rest as [|n2 r]; [discriminate|]. destruct n2 as [| |d2]; try discriminate.
  destruct (list_eqb (e_sfn d2) DOTDOT && (e_cluster d2 =? pc) && e_is_dir d2 && (e_sfn_slot d2 =? 1)) eqn:B2; [|discriminate].
  intros _. exists d1, d2, r. split; [reflexivity|].
  apply andb_true_iff in B1. destruct B1 as [_ B1]. apply andb_true_iff in B2. destruct B2 as [_ B2].
  apply N.eqb_eq in B1. apply N.eqb_eq in B2. split; assumption.
Qed.

Lemma dot_issues_insert g im dc pc ss' es1 ne es2 labels iss :
  dot_issues dc pc (map (node_of g im 22) (es1 ++ es2)) = [] ->
  dir_scan ss' 0 [] false = (es1 ++ ne :: es2, labels, iss) ->
  dot_issues dc pc (map (node_of g im 22) (es1 ++ ne :: es2)) = [].
Proof.
  intros H Hs. destruct (dot_issues_nil_inv dc pc _ H) as (d1 & d2 & r & E & S1 & S2).
  destruct (scan_slots_sorted false ss' 0 [] _ _ _ Hs) as [_ Hsorted].
  assert (forall e d, node_of g im 22 e = NDot d -> d = e) as Hent.
  { intros e d He. rewrite <- (node_entry_of g im 22 e), He. reflexivity. }
  destruct es1 as [|e1 es1].
  - exfalso. cbn [app map] in E. destruct es2 as [|e1 es2]; [discriminate|]. cbn [map] in E. injection E as E1 _.
    pose proof (Hsorted [] ne (e1 :: es2) eq_refl) as F. inversion F as [|? ? F1 _]; subst.
    rewrite (Hent e1 d1 E1) in S1. lia.
  - destruct es1 as [|e2 es1].
    + exfalso. cbn [app map] in E. destruct es2 as [|e2 es2]; [discriminate|]. cbn [map] in E. injection E as E1 E2 _.
      pose proof (Hsorted [e1] ne (e2 :: es2) eq_refl) as F. inversion F as [|? ? F1 _]; subst.
      pose proof (Hsorted [] e1 (ne :: e2 :: es2) eq_refl) as G. inversion G as [|? ? G1 _]; subst.
      rewrite (Hent e1 d1 E1) in S1. rewrite (Hent e2 d2 E2) in S2. lia.
    + cbn [app map] in H |- *. rewrite (dot_issues_two dc pc _ _ _ (map (node_of g im 22) (es1 ++ es2))). exact H.
Qed.

Section GrowMain.
Variable upper : N -> list N.
Variable oem : N -> N.
Variable fold : list N -> list N.

(* the premises give the facts of section 4 and the state invariant of section 3 *)
Lemma grow_premises im fi l ra ed children labels rb :
  let g := parse_geom im in
  chain_geom g -> FatProofs.bytes_ok im -> fi_inv fstore (val_ft (ft_of g)) (store_of g im) fi (g_clusters g) ->
  Wf.wf_issues fold im = [] -> v_root (abs im) = ra ++ NDir ed (Some l) children [] labels :: rb ->
  GInv g im fi l /\ exists es ls ea eb ces, DirFacts fold im ra ed l children labels rb es ls ea eb ces.
Proof.
  intros g Hg Hb Hfi Hwf Hroot.
  destruct (wf_dir_facts fold im ra ed l children labels rb (proj1 Hg) Hwf Hroot) as (es & ls & ea & eb & ces & DF).
  split; [|exists es, ls, ea, eb, ces; exact DF].
  destruct (chain_from_linked g im _ _ _ (df_chain _ _ _ _ _ _ _ _ _ _ _ _ _ DF)) as [L _].
  split; [exact Hb|exact Hfi| |exact L]. split.
  - pose proof (df_nodup _ _ _ _ _ _ _ _ _ _ _ _ _ DF) as Nd.
    destruct (FileProofs.NoDup_app_parts _ _ Nd) as (_ & N2 & _). destruct (FileProofs.NoDup_app_parts _ _ N2) as (N3 & _ & _).
    destruct (FileProofs.NoDup_app_parts _ _ N3) as (N4 & _ & _). exact N4.
  - apply Forall_forall. intros x Hx. exact (proj1 (linked_in g im l x L Hx)).
Qed.

(* THE SUCCESS THEOREM.  A well-formed FAT12/16 volume whose root holds a directory with chain [l]; create_file(name) in that
   directory made a new entry.  (a) chain: the old chain plus the clusters [news] (none, one or two), pairwise distinct, free before;
   (b) tree: exactly one node - a plain empty file carrying the name - inserted among the children of that directory, every other
   node of the volume as decoded before; (c) every FAT entry outside [news] and the old last cluster, every byte outside the FAT
   copies and the clusters of the new chain, every data cluster outside the new chain as before; (d) count_free drops by exactly
   length news; (e) the volume is still well formed and every premise holds again. *)
Theorem vol_grow_create_decodes im fi l name now range im' fi' l' ra ed children labels rb :
  let g := parse_geom im in
  fold_agrees upper fold ->
  chain_geom g -> FatProofs.bytes_ok im -> fi_inv fstore (val_ft (ft_of g)) (store_of g im) fi (g_clusters g) ->
  Wf.wf_issues fold im = [] -> v_root (abs im) = ra ++ NDir ed (Some l) children [] labels :: rb ->
  chain_small g l -> lfns_ok (map e_lfn (map node_entry children)) -> str_valid name = true ->
  TimeProofs.datetime_valid now = true ->
  vol_create_file_grow upper oem im fi l name now = (Ok (Some range), (im', fi', l')) ->
  exists news c1 c2 ne st,
    l' = l ++ news /\ NoDup news /\
    (forall x, In x news -> 2 <= x < g_clusters g + 2 /\ fat_val g im x = FFree /\ ~ In x l) /\
    children = c1 ++ c2 /\
    v_root (abs im') = ra ++ NDir ed (Some l') (c1 ++ NFile ne None [] :: c2) [] labels :: rb /\
    e_lfn ne = (if is_dot_name name then [] else utf16_encode name) /\ e_lfn_ok ne = true /\
    e_size ne = 0 /\ e_cluster ne = 0 /\ e_attr ne = 0 /\ e_ntres ne = 0 /\
    stamp_create now = Ok st /\
    e_ctime_ms ne = create_time_0 st /\ e_ctime ne = create_time_1 st /\ e_cdate ne = create_date st /\
    e_adate ne = access_date st /\ e_mtime ne = modify_time st /\ e_mdate ne = modify_date st /\
    e_first_slot ne = fst range /\ e_sfn_slot ne + 1 = snd range /\
    sfn_legal_b (e_sfn ne) = true /\ ~ In (e_sfn ne) (map e_sfn (map node_entry children)) /\
    v_root_issues (abs im') = v_root_issues (abs im) /\ v_labels (abs im') = v_labels (abs im) /\
    v_geom (abs im') = v_geom (abs im) /\ v_status (abs im') = v_status (abs im) /\
    (forall x, 2 <= x < g_clusters g + 2 -> ~ In x news -> (news = [] \/ x <> last l 0) -> fat_val g im' x = fat_val g im x) /\
    (forall a, ~ in_store_area g a -> (forall c, In c l' -> ~ in_cluster g c a) -> img_get im' a = img_get im a) /\
    (news = [] -> forall a, (forall c, In c l -> ~ in_cluster g c a) -> img_get im' a = img_get im a) /\
    (forall c, 2 <= c < g_clusters g + 2 -> ~ In c l' -> cluster_bytes g im' c = cluster_bytes g im c) /\
    count_free g im' + N.of_nat (length news) = count_free g im /\
    Wf.wf_issues fold im' = [] /\
    parse_geom im' = g /\ FatProofs.bytes_ok im' /\ fi_inv fstore (val_ft (ft_of g)) (store_of g im') fi' (g_clusters g) /\
    lfns_ok (map e_lfn (map node_entry (c1 ++ NFile ne None [] :: c2))).
Proof.
  intros g FA Hg Hb Hfi Hwf Hroot Hsm Hok Hv Hnow H.
  destruct (grow_premises im fi l ra ed children labels rb Hg Hb Hfi Hwf Hroot) as [HI (es & ls & ea & eb & ces & DF)]. fold g in HI.
  destruct (grow_create_unfold upper oem im fi l name now _ im' fi' l' Hg HI Hsm Hnow H) as (news & GS & CE & _). fold g in CE.
  destruct GS as (E1 & HI' & Nn & Hfree & Hfat & Hfr & Hfr0 & Hcnt). fold g in E1, HI', Hfree, Hfat, Hfr, Hfr0, Hcnt.
  pose proof (df_cscan _ _ _ _ _ _ _ _ _ _ _ _ _ DF) as Sc. fold g in Sc.
  destruct (create_entry_full upper oem (Chained (cluster_slots g)) (length news) _ name 0 None now false ces labels range _ Sc
              (chain_len_bound g im l Hg Hsm) ltac:(lia) eq_refl Hnow CE)
    as (es1 & es2 & ne & a & st & X1 & X2 & XC & ST & X3 & X4 & X5 & HL & HU & X6 & X7 & X8 & X9 & T1 & T2 & T3 & T4 & T5 & T6 & P1 & P2 & _).
  subst l'. destruct HI' as [Hb' Hfi' Hck' Hlk'].
  assert (e_is_dot ne = false /\ e_is_dir ne = false /\ e_cluster ne = 0) as (Nd1 & Nd2 & Nd3).
  { split; [unfold e_is_dot; rewrite X5; destruct (sfn_legal_not_dot a HL) as [-> ->]; reflexivity|].
    split; [unfold e_is_dir; rewrite X6; reflexivity|rewrite X9; reflexivity]. }
  assert (forall e, In e (es1 ++ ne :: es2) -> In e ces \/ (e_is_dot e = false /\ e_is_dir e = false /\ e_cluster e = 0)) as Hces'.
  { intros e He. apply in_app_or in He. rewrite X1. destruct He as [He|[<-|He]]; [left; apply in_or_app; left; exact He| |left; apply in_or_app; right; exact He].
    right. repeat split; assumption. }
  destruct (bridge_abs fold im im' ra ed l children labels rb es ls ea eb ces Hg DF news Hfree Hfat Hfr Hlk' Hck' _ _ _ X2 Hces')
    as (Habs' & Hroot' & Hstat).
  fold g in Habs', Hroot', Hstat.
  (* the children afterwards *)
  set (c1 := map (node_of g im 22) es1). set (c2 := map (node_of g im 22) es2).
  assert (children = c1 ++ c2) as Ech.
  { rewrite (df_children _ _ _ _ _ _ _ _ _ _ _ _ _ DF). fold g. rewrite decode_entries_S, X1, map_app. reflexivity. }
  assert (decode_entries g im 23 (es1 ++ ne :: es2) = c1 ++ NFile ne None [] :: c2) as Ech'.
  { rewrite decode_entries_S, map_app. cbn [map]. rewrite (node_of_empty_file g im 22 ne Nd1 Nd2 Nd3). reflexivity. }
  (* the clauses about the directory, before *)
  pose proof (df_id _ _ _ _ _ _ _ _ _ _ _ _ _ DF) as Wd. fold g in Wd.
  rewrite (node_issues_dir fold g 0 ed l children [] labels (df_cl _ _ _ _ _ _ _ _ _ _ _ _ _ DF)) in Wd. cbn [map app] in Wd.
  apply app_eq_nil in Wd. destruct Wd as [Wdot Wd]. apply app_eq_nil in Wd. destruct Wd as [Wnames Wsub].
  assert (map e_sfn (map node_entry (c1 ++ c2)) = map e_sfn ces) as Esfn.
  { unfold c1, c2. rewrite <- map_app, map_node_entry, X1. reflexivity. }
  assert (Wf.wf_issues fold im' = []) as Hwf'.
  { rewrite (bridge_wf fold im im' ra ed l children labels rb es ls ea eb ces Hg DF news Nn Hfree Hfat Hfr Hlk' Hck' _ _ _ X2 Hces');
      fold g; rewrite ?Ech'; [reflexivity| | | | |].
    - rewrite <- Ech'. rewrite decode_entries_S. apply (dot_issues_insert g im (e_cluster ed) 0 (chain_dir_slots g im' (l ++ news)) es1 ne es2 labels []); [|exact X2].
      rewrite map_app. fold c1 c2. rewrite <- Ech. exact Wdot.
    - apply names_issues_dc. apply names_issues_insert.
      + apply (names_issues_dc fold (e_cluster ed)). rewrite <- Ech. exact Wnames.
      + rewrite Esfn, X5. exact HU.
      + intros Hl. rewrite X3 in Hl |- *. destruct (is_dot_name name); [discriminate|].
        assert (map e_lfn (map node_entry (c1 ++ c2)) = map e_lfn ces) as -> by (unfold c1, c2; rewrite <- map_app, map_node_entry, X1; reflexivity).
        apply (fresh_not_among_folded upper oem fold false _ name (Some false) a ces labels [] FA Hv XC Sc).
        rewrite Ech in Hok. unfold c1, c2 in Hok. rewrite <- map_app, map_node_entry, <- X1 in Hok. exact Hok.
    - rewrite (nodes_issues_insert_pc fold g _ c1 c2 ne X8 Nd3), <- Ech. exact Wsub.
    - rewrite nodes_chains_insert, Ech. reflexivity.
    - intros d. rewrite depth_exceeded_insert, Ech. reflexivity. }
  exists news, c1, c2, ne, st.
  split; [reflexivity|]. split; [exact Nn|]. split.
  { intros x Hx. destruct (Hfree x Hx) as [R F]. split; [exact R|]. split; [exact F|]. intros Hin.
    destruct HI as [_ _ _ L]. exact (proj2 (linked_in g im l x L Hin) F). }
  split; [exact Ech|]. split.
  { rewrite Habs'. cbn [abs_fixed v_root]. rewrite Hroot', Ech'. reflexivity. }
  rewrite X5. do 16 (split; [assumption|]).
  split; [rewrite <- Esfn, <- Ech in HU; exact HU|].
  rewrite Habs', (df_abs _ _ _ _ _ _ _ _ _ _ _ _ _ DF). fold g. cbn [abs_fixed v_root_issues v_labels v_geom v_status].
  split; [reflexivity|]. split; [reflexivity|]. split; [reflexivity|]. split; [exact Hstat|].
  split; [exact Hfat|]. split; [exact Hfr|]. split; [exact (fun En => proj2 (Hfr0 En))|]. split.
  { intros c Rc Hn. unfold cluster_bytes. apply VolDirProofs.img_read_ext. intros i Hi. apply Hfr.
    - apply (in_cluster_not_store g (proj1 Hg) c); [lia|unfold in_cluster; lia].
    - intros c' Hc' Hin. destruct Hck' as [_ Hr]. rewrite Forall_forall in Hr. specialize (Hr c' Hc').
      apply (clusters_disjoint g c' c (g_cluster_off g c + N.of_nat i)); [lia|lia|intros ->; contradiction|exact Hin|unfold in_cluster; lia]. }
  split; [exact Hcnt|]. split; [exact Hwf'|].
  split. { apply parse_geom_low. intros o Ho. apply Hfr.
           - intros Hs. pose proof (store_area_before_root g o (proj1 Hg) Hs). lia.
           - intros c _. apply (root_not_cluster g c o (proj1 Hg)). pose proof (root_off_ge g (proj1 Hg)). lia. }
  split; [exact Hb'|]. split; [exact Hfi'|].
  unfold lfns_ok in *. rewrite Ech in Hok. rewrite !map_app in *. cbn [map node_entry]. apply Forall_app in Hok. destruct Hok as [O1 O2].
  apply Forall_app. split; [exact O1|]. constructor; [|exact O2].
  rewrite X3. destruct (is_dot_name name); [reflexivity|apply utf16_okb_encode; exact Hv].
Qed.

(* THE KNOWN CLASS AS A THEOREM ("nospace-during-entry-write").  The same volume, NO cluster free; create_file answers NotEnoughSpace.
   Chain, FS-info latch, every FAT entry, the free count and every byte outside the directory's own clusters are as before; the
   decoder finds every node of the volume as before; the ONLY finding of Spec/Wf.v afterwards is the issue list of that
   directory: nothing - then no byte of the device changed - or exactly ONE orphan long-name run at the end of the directory -
   then the device did change: the existence check had passed, the name needs long-name slots and the free tail of the last
   cluster took a prefix of them. *)
Theorem vol_grow_nospace_residue im fi l name now im' fi' l' ra ed children labels rb :
  let g := parse_geom im in
  chain_geom g -> FatProofs.bytes_ok im -> fi_inv fstore (val_ft (ft_of g)) (store_of g im) fi (g_clusters g) ->
  Wf.wf_issues fold im = [] -> v_root (abs im) = ra ++ NDir ed (Some l) children [] labels :: rb ->
  chain_small g l -> TimeProofs.datetime_valid now = true ->
  count_free g im = 0 ->
  vol_create_file_grow upper oem im fi l name now = (Err ENotEnoughSpace, (im', fi', l')) ->
  l' = l /\ fi' = fi /\
  (forall a, (forall c, In c l -> ~ in_cluster g c a) -> img_get im' a = img_get im a) /\
  (forall x, 2 <= x < g_clusters g + 2 -> fat_val g im' x = fat_val g im x) /\ count_free g im' = 0 /\
  (forall c, 2 <= c < g_clusters g + 2 -> ~ In c l -> cluster_bytes g im' c = cluster_bytes g im c) /\
  parse_geom im' = g /\ FatProofs.bytes_ok im' /\ fi_inv fstore (val_ft (ft_of g)) (store_of g im') fi (g_clusters g) /\
  exists iss',
    v_root (abs im') = ra ++ NDir ed (Some l) children iss' labels :: rb /\
    v_root_issues (abs im') = [] /\ v_labels (abs im') = v_labels (abs im) /\
    v_geom (abs im') = v_geom (abs im) /\ v_status (abs im') = v_status (abs im) /\
    Wf.wf_issues fold im' = map (Wf.dir_issue (e_cluster ed)) iss' /\
    ((iss' = [] /\ forall o, img_get im' o = img_get im o) \/
     (iss' = [DOrphanLfn (N.of_nat (cluster_slots g * length l))] /\ ~ (forall o, img_get im' o = img_get im o) /\
      exists a st p, check_for_existence upper oem (chain_dir_slots g im l) name (Some false) = Ok (Fresh a) /\ stamp_create now = Ok st /\
        1 < len_N (entry_run name (create_sfn_entry false a 0 None st)) /\
        find_free_entries (Chained (cluster_slots g)) (chain_dir_slots g im l) (len_N (entry_run name (create_sfn_entry false a 0 None st))) = Ok p /\
        p < N.of_nat (cluster_slots g * length l))).
Proof.
  intros g Hg Hb Hfi Hwf Hroot Hsm Hnow Hfull H.
  destruct (grow_premises im fi l ra ed children labels rb Hg Hb Hfi Hwf Hroot) as [HI (es & ls & ea & eb & ces & DF)]. fold g in HI.
  destruct (grow_create_unfold upper oem im fi l name now _ im' fi' l' Hg HI Hsm Hnow H) as (news & GS & CE & _). fold g in CE.
  destruct GS as (E1 & HI' & Nn & Hfree & Hfat & Hfr & Hfr0 & Hcnt). fold g in E1, HI', Hfree, Hfat, Hfr, Hfr0, Hcnt.
  assert (news = []) as ->.
  { destruct news as [|x r]; [reflexivity|]. exfalso. destruct (Hfree x (or_introl eq_refl)) as [R F].
    exact (count_free_zero g im Hfull x R F). }
  rewrite app_nil_r in E1. subst l'. destruct (Hfr0 eq_refl) as [-> Hframe]. cbn [length N.of_nat] in Hcnt, CE.
  destruct HI' as [Hb' Hfi' Hck' Hlk'].
  pose proof (df_cscan _ _ _ _ _ _ _ _ _ _ _ _ _ DF) as Sc. fold g in Sc.
  pose proof (df_children _ _ _ _ _ _ _ _ _ _ _ _ _ DF) as Ech. fold g in Ech.
  destruct (chain_dir_shape g im l Hg) as [[Lss Sss] _]. destruct (chain_dir_shape g im' l Hg) as [[Lss' _] _].
  assert (len_N (chain_dir_slots g im l) = N.of_nat (cluster_slots g * length l)) as Elen by (unfold len_N; rewrite Lss; reflexivity).
  assert (forall x, 2 <= x < g_clusters g + 2 -> fat_val g im' x = fat_val g im x) as Hfat'
    by (intros x R; apply Hfat; [exact R|intros []|left; reflexivity]).
  split; [reflexivity|]. split; [reflexivity|]. split; [exact Hframe|]. split; [exact Hfat'|]. split; [lia|].
  split.
  { intros c Rc Hn. unfold cluster_bytes. apply VolDirProofs.img_read_ext. intros i Hi. apply Hframe.
    intros c' Hc' Hin. destruct Hck' as [_ Hr]. rewrite Forall_forall in Hr. specialize (Hr c' Hc').
    apply (clusters_disjoint g c' c (g_cluster_off g c + N.of_nat i)); [lia|lia|intros ->; contradiction|exact Hin|unfold in_cluster; lia]. }
  split.
  { apply parse_geom_low. intros o Ho. apply Hframe. intros c _. apply (root_not_cluster g c o (proj1 Hg)).
    pose proof (root_off_ge g (proj1 Hg)). lia. }
  split; [exact Hb'|]. split; [exact Hfi'|].
  (* the directory's slots afterwards *)
  destruct (failed_create_chain_exact upper oem _ _ name now ces labels _ Sc (chain_len_bound g im l Hg Hsm) ltac:(rewrite Lss', Lss; reflexivity) CE)
    as [[Ess Hscan']|(Nss & Hscan' & Hwhy)].
  - (* nothing was written *)
    assert (forall o, img_get im' o = img_get im o) as Hsame.
    { intros o. destruct (in_cluster_list_dec g o l) as [(c & Hc & Hin)|Hout]; [|exact (Hframe o Hout)].
      destruct (In_nth l c 0 Hc) as (i & Hi & <-).
      pose proof (cluster_size_slots g Hg) as Hcs. unfold in_cluster in Hin.
      assert (exists s0 j, (s0 < cluster_slots g)%nat /\ (j < 32)%nat /\ o = g_cluster_off g (nth i l 0) + N.of_nat (32 * s0 + j))
        as (s0 & j & Hk & Hm & ->).
      { set (d := N.to_nat (o - g_cluster_off g (nth i l 0))).
        assert (d < 32 * cluster_slots g)%nat as Hd by (unfold d; lia).
        pose proof (Nat.div_mod d 32 ltac:(lia)) as Hdm. pose proof (Nat.mod_upper_bound d 32 ltac:(lia)) as Hm.
        exists (d / 32)%nat, (d mod 32)%nat. split; [apply Nat.div_lt_upper_bound; lia|]. split; [exact Hm|].
        rewrite <- Hdm. unfold d. lia. }
      rewrite <- (chain_slot_bytes g im' l i _ _ Hg Hi Hk Hm), <- (chain_slot_bytes g im l i _ _ Hg Hi Hk Hm), Ess. reflexivity. }
    exists []. rewrite <- Ess in Sc.
    destruct (bridge_abs fold im im' ra ed l children labels rb es ls ea eb ces Hg DF [] ltac:(intros x []) ltac:(intros x R _ _; exact (Hfat' x R))
                ltac:(rewrite app_nil_r; intros a _ Hnc; exact (Hframe a Hnc)) ltac:(rewrite app_nil_r; exact Hlk') ltac:(rewrite app_nil_r; exact Hck')
                ces labels [] ltac:(rewrite app_nil_r; exact Hscan') ltac:(intros e He; left; exact He)) as (Habs' & Hroot' & Hstat).
    fold g in Habs', Hroot', Hstat. rewrite app_nil_r in Hroot'. rewrite <- Ech in Hroot'.
    split; [rewrite Habs'; cbn [abs_fixed v_root]; exact Hroot'|].
    rewrite Habs', (df_abs _ _ _ _ _ _ _ _ _ _ _ _ _ DF). fold g. cbn [abs_fixed v_root_issues v_labels v_geom v_status].
    split; [reflexivity|]. split; [reflexivity|]. split; [reflexivity|]. split; [exact Hstat|].
    split; [|left; split; [reflexivity|exact Hsame]].
    destruct (img_same_abs fold im im' (proj1 Hg) Hsame) as (_ & _ & X & _). rewrite X. exact Hwf.
  - (* a prefix of the long-name run stayed *)
    exists [DOrphanLfn (N.of_nat (cluster_slots g * length l))]. rewrite Elen in Hscan'.
    destruct (bridge_abs fold im im' ra ed l children labels rb es ls ea eb ces Hg DF [] ltac:(intros x []) ltac:(intros x R _ _; exact (Hfat' x R))
                ltac:(rewrite app_nil_r; intros a _ Hnc; exact (Hframe a Hnc)) ltac:(rewrite app_nil_r; exact Hlk') ltac:(rewrite app_nil_r; exact Hck')
                ces labels _ ltac:(rewrite app_nil_r; exact Hscan') ltac:(intros e He; left; exact He)) as (Habs' & Hroot' & Hstat).
    fold g in Habs', Hroot', Hstat. rewrite app_nil_r in Hroot'. rewrite <- Ech in Hroot'.
    split; [rewrite Habs'; cbn [abs_fixed v_root]; exact Hroot'|].
    rewrite Habs', (df_abs _ _ _ _ _ _ _ _ _ _ _ _ _ DF). fold g. cbn [abs_fixed v_root_issues v_labels v_geom v_status].
    split; [reflexivity|]. split; [reflexivity|]. split; [reflexivity|]. split; [exact Hstat|].
    pose proof (df_id _ _ _ _ _ _ _ _ _ _ _ _ _ DF) as Wd. fold g in Wd.
    rewrite (node_issues_dir fold g 0 ed l children [] labels (df_cl _ _ _ _ _ _ _ _ _ _ _ _ _ DF)) in Wd. cbn [map app] in Wd.
    apply app_eq_nil in Wd. destruct Wd as [Wdot Wd]. apply app_eq_nil in Wd. destruct Wd as [Wnames Wsub].
    split.
    { apply (bridge_wf fold im im' ra ed l children labels rb es ls ea eb ces Hg DF [] ltac:(constructor) ltac:(intros x []) ltac:(intros x R _ _; exact (Hfat' x R))
                ltac:(rewrite app_nil_r; intros a _ Hnc; exact (Hframe a Hnc)) ltac:(rewrite app_nil_r; exact Hlk') ltac:(rewrite app_nil_r; exact Hck')
                ces labels _ ltac:(rewrite app_nil_r; exact Hscan') ltac:(intros e He; left; exact He));
        fold g; rewrite <- Ech; try assumption; reflexivity. }
    right. split; [reflexivity|]. split.
    + intros Hsame. apply Nss. apply chain_dir_slots_ext. exact Hsame.
    + destruct Hwhy as (a & st & p & Y1 & Y2 & Y3 & Y4 & Y5). exists a, st, p. rewrite Elen in Y5. repeat split; assumption.
Qed.

(* ACCOUNTING, every outcome (C05).  Whatever create_file answers: the chain afterwards is the old one plus clusters that were free and
   are allocated now; no other entry became free or allocated; count_free dropped by exactly their number; the FS-info latch is
   consistent with the new table.  Behind a passed existence check NotEnoughSpace means that NO cluster is free. *)
Lemma cnt_zero f : forall n c, (forall x, c <= x < c + N.of_nat n -> is_free (f x) = false) -> cnt f c n = 0.
Proof.
  induction n as [|n IH]; intros c H; cbn [cnt]; [reflexivity|]. rewrite (H c) by lia. rewrite IH; [reflexivity|].
  intros x Hx. apply H. lia.
Qed.

Theorem vol_grow_accounting im fi l name now r im' fi' l' ra ed children labels rb :
  let g := parse_geom im in
  chain_geom g -> FatProofs.bytes_ok im -> fi_inv fstore (val_ft (ft_of g)) (store_of g im) fi (g_clusters g) ->
  Wf.wf_issues fold im = [] -> v_root (abs im) = ra ++ NDir ed (Some l) children [] labels :: rb ->
  chain_small g l -> TimeProofs.datetime_valid now = true ->
  vol_create_file_grow upper oem im fi l name now = (r, (im', fi', l')) ->
  exists news,
    l' = l ++ news /\ NoDup news /\
    (forall x, In x news -> 2 <= x < g_clusters g + 2 /\ fat_val g im x = FFree /\ fat_val g im' x <> FFree) /\
    (forall x, 2 <= x < g_clusters g + 2 -> ~ In x news -> (fat_val g im' x = FFree <-> fat_val g im x = FFree)) /\
    count_free g im' + N.of_nat (length news) = count_free g im /\
    FatProofs.bytes_ok im' /\ fi_inv fstore (val_ft (ft_of g)) (store_of g im') fi' (g_clusters g) /\
    (news = [] -> fi' = fi) /\
    (forall a, check_for_existence upper oem (chain_dir_slots g im l) name (Some false) = Ok (Fresh a) -> r = Err ENotEnoughSpace ->
       count_free g im' = 0) /\
    create_entry upper oem false (Chained (cluster_slots g)) (length news) (chain_dir_slots g im l) name 0 None now false
      = (r, chain_dir_slots g im' l').
Proof.
  intros g Hg Hb Hfi Hwf Hroot Hsm Hnow H.
  destruct (grow_premises im fi l ra ed children labels rb Hg Hb Hfi Hwf Hroot) as [HI _]. fold g in HI.
  destruct (grow_create_unfold upper oem im fi l name now _ im' fi' l' Hg HI Hsm Hnow H) as (news & GS & CE & Hfull). fold g in CE, Hfull.
  destruct GS as (E1 & HI' & Nn & Hfree & Hfat & Hfr & Hfr0 & Hcnt). fold g in E1, HI', Hfree, Hfat, Hfr, Hfr0, Hcnt.
  destruct HI' as [Hb' Hfi' Hck' Hlk']. destruct HI as [_ _ _ Hlk].
  exists news. split; [exact E1|]. split; [exact Nn|]. split.
  { intros x Hx. destruct (Hfree x Hx) as [R F]. split; [exact R|]. split; [exact F|].
    apply (linked_in g im' l' x Hlk'). rewrite E1. apply in_or_app. right. exact Hx. }
  split.
  { intros x R Hn. destruct (N.eq_dec x (last l 0)) as [->|Hne].
    - destruct (linked_last g im l Hlk) as [Hin Heoc]. split; intros F.
      + exfalso. apply (proj2 (linked_in g im' l' _ Hlk' ltac:(rewrite E1; apply in_or_app; left; exact Hin)) F).
      + rewrite Heoc in F. discriminate.
    - rewrite (Hfat x R Hn (or_intror Hne)). reflexivity. }
  split; [exact Hcnt|]. split; [exact Hb'|]. split; [exact Hfi'|]. split; [intros En; exact (proj1 (Hfr0 En))|]. split; [|exact CE].
  intros a Ha Hr. rewrite count_free_cnt. apply cnt_zero. intros x Hx.
  pose proof (Hfull a Ha Hr x ltac:(lia)) as F. destruct (fat_val g im' x); try reflexivity. contradiction.
Qed.
End GrowMain.
