(* VolFileProofs.v: the file half of the whole-volume refinement (DESIGN.md section 9).
   The file layer of Model/FileM.v, run over ONE device image (Model/VolFile.v: FAT store = the FAT slice of the
   image, data = the cluster areas of the image), refines the byte-array machine of Spec/ByteFile.v with the
   INDEPENDENT DECODER of Spec/Abs.v as abstraction function: after any history the chain walk of the decoder is the
   chain of the file, and the first [size] bytes of the decoder's chain bytes are the byte array.

   Contents:
   0. image lemmas (img_read of img_write)                      1. the three FAT widths behind one interface
   2. layout of a sane geometry                                  3. decoder's fat_val = library's reader (per width)
   4. chain (inductive, library side) = Abs.chain_from           5. [Embeds g im w] and transfer of invariants
   6. one FileM step with its shape (which clusters, which data) 7. the volume theorems *)
From Coq Require Import NArith ZArith Lia List Bool.
From FatVerif Require Import Model.Base Model.Table Model.Fat Model.FileM Model.VolFile Spec.Image Spec.Abs Spec.ByteFile
  Proofs.ImageProofs Proofs.TableProofs Proofs.FatProofs Proofs.FileProofs Proofs.CrossProofs Proofs.RegionsProofs.
From FatVerif Require Spec.Regions Model.Offsets Proofs.OffsetsProofs.
Open Scope N_scope.
Ltac Zify.zify_post_hook ::= Z.to_euclidean_division_equations.

(* ================================================================ 0. image lemmas *)
Lemma img_read_length im : forall n off, length (img_read im off n) = n.
Proof. induction n as [|n IH]; intros off; cbn [img_read length]; [reflexivity|]. rewrite IH. reflexivity. Qed.

Lemma img_read_ext im im' : forall n off,
  (forall i, i < N.of_nat n -> img_get im (off + i) = img_get im' (off + i)) -> img_read im off n = img_read im' off n.
Proof.
  induction n as [|n IH]; intros off H; cbn [img_read]; [reflexivity|].
  f_equal.
  - specialize (H 0 ltac:(lia)). rewrite N.add_0_r in H. exact H.
  - apply IH. intros i Hi. replace (off + 1 + i) with (off + (1 + i)) by lia. apply H. lia.
Qed.

Lemma img_read_app im : forall n1 n2 off,
  img_read im off (n1 + n2) = img_read im off n1 ++ img_read im (off + N.of_nat n1) n2.
Proof.
  induction n1 as [|n1 IH]; intros n2 off.
  - cbn [plus img_read app N.of_nat]. rewrite N.add_0_r. reflexivity.
  - cbn [plus img_read app]. rewrite IH. f_equal. f_equal. f_equal. lia.
Qed.

Lemma img_read_write_same bs : forall im off, img_read (img_write im off bs) off (length bs) = bs.
Proof.
  induction bs as [|b r IH]; intros im off; cbn [img_write length img_read]; [reflexivity|].
  rewrite IH. f_equal. rewrite img_write_outside by lia. apply img_get_set_same.
Qed.

Lemma firstn_img_read im : forall k n off, (k <= n)%nat -> firstn k (img_read im off n) = img_read im off k.
Proof.
  intros k n off H. replace n with (k + (n - k))%nat by lia. rewrite img_read_app.
  apply firstn_app_exact. apply img_read_length.
Qed.

Lemma skipn_img_read im : forall k n off, (k <= n)%nat ->
  skipn k (img_read im off n) = img_read im (off + N.of_nat k) (n - k).
Proof.
  intros k n off H. replace n with (k + (n - k))%nat at 1 by lia. rewrite img_read_app.
  apply skipn_app_exact. apply img_read_length.
Qed.

(* reading a block after a write inside it = the block write of the data map *)
Lemma img_read_write_blk im a n o bs : (o + length bs <= n)%nat ->
  img_read (img_write im (a + N.of_nat o) bs) a n = blk_write (img_read im a n) (N.of_nat o) bs.
Proof.
  intros H. unfold blk_write. rewrite Nat2N.id.
  rewrite firstn_img_read by lia. rewrite skipn_img_read by lia.
  replace n with (o + (length bs + (n - (o + length bs))))%nat at 1 by lia.
  rewrite !img_read_app. f_equal; [|f_equal].
  - apply img_read_ext. intros i Hi. apply img_write_outside. lia.
  - apply img_read_write_same.
  - replace (a + N.of_nat (o + length bs)) with (a + N.of_nat o + N.of_nat (length bs)) by lia.
    apply img_read_ext. intros i Hi. apply img_write_outside. lia.
Qed.

Lemma img_read_write_other im a n off bs :
  (off + N.of_nat (length bs) <= a \/ a + N.of_nat n <= off) -> img_read (img_write im off bs) a n = img_read im a n.
Proof. intros H. apply img_read_ext. intros i Hi. apply img_write_outside. lia. Qed.

Lemma img_read_nth im : forall n off i, (i < n)%nat -> nth i (img_read im off n) 0 = img_get im (off + N.of_nat i).
Proof.
  induction n as [|n IH]; intros off i H; [lia|]. cbn [img_read]. destruct i as [|i].
  - cbn [nth N.of_nat]. rewrite N.add_0_r. reflexivity.
  - cbn [nth]. rewrite IH by lia. f_equal. lia.
Qed.

Lemma img_read_bytes_ok im : bytes_ok im -> forall n off, blist_ok (img_read im off n).
Proof.
  intros Hb. induction n as [|n IH]; intros off b Hin; cbn [img_read] in Hin; [destruct Hin|].
  destruct Hin as [<-|Hin]; [apply Hb|exact (IH _ _ Hin)].
Qed.

Lemma blist_ok_firstn bs k : blist_ok bs -> blist_ok (firstn k bs).
Proof. intros H b Hb. apply H. exact (firstn_incl _ _ _ Hb). Qed.

(* ================================================================ 1. the three widths behind one interface *)
Definition val_ft (ft : fat_type) : fstore -> N -> fatv :=
  match ft with Fat12 => val12 | Fat16 => val16 | Fat32 => val32 end.
Definition okcg (ft : fat_type) (size : N) : N -> Prop :=
  match ft with Fat12 => okc12_g size | Fat16 => okc16_g size | Fat32 => okc32_g size end.
Definition okv_ft (ft : fat_type) : fatv -> Prop :=
  match ft with Fat12 => okv12 | Fat16 => okv16 | Fat32 => okv32 end.
(* the table of one copy holds entries 0 .. total+1 and the width can number them *)
Definition fat_fits (ft : fat_type) (size total : N) : Prop :=
  match ft with
  | Fat12 => off12 (total + 1) + 2 <= size /\ total + 2 <= 4087
  | Fat16 => 2 * (total + 2) <= size /\ total + 2 <= 65527
  | Fat32 => 4 * (total + 2) <= size /\ total + 2 <= 268435447
  end.

Lemma okcg_okc_ft ft s c : okcg ft (fs_size s) c -> okc_ft ft s c.
Proof. destruct ft; intros H; exact H. Qed.

Lemma lawg_get ft base size mirrors t c :
  inv_g base size mirrors t -> okcg ft size c -> fat_get ft t c = Ok (val_ft ft t c).
Proof.
  destruct ft; cbn [okcg fat_get val_ft]; [apply law12_get|apply law16_get|apply law32_get].
Qed.

Lemma lawg_set ft base size mirrors (Hm : (1 <= mirrors)%nat) t c v :
  inv_g base size mirrors t -> okcg ft size c -> okv_ft ft v ->
  exists t', fat_set ft t c v = Ok t' /\ inv_g base size mirrors t' /\ val_ft ft t' c = v /\
             forall c', c' <> c -> okcg ft size c' -> val_ft ft t' c' = val_ft ft t c'.
Proof.
  destruct ft; cbn [okcg fat_set val_ft okv_ft];
    [apply law12_set|apply law16_set|apply law32_set]; exact Hm.
Qed.

Lemma rangeg ft size total : fat_fits ft size total ->
  (forall x, 2 <= x < total + 2 -> okcg ft size x) /\ (forall n, 2 <= n < total + 2 -> okv_ft ft (Data n)).
Proof.
  destruct ft; cbn [fat_fits okcg okv_ft]; intros [H1 H2].
  - split; [|intros n Hn; cbn [okv12]; lia]. intros x Hx. unfold okc12_g, off12 in *. split; lia.
  - split; [intros x Hx; unfold okc16_g; lia|intros n Hn; cbn [okv16]; lia].
  - split; [intros x Hx; unfold okc32_g; lia|intros n Hn; cbn [okv32]; lia].
Qed.

Lemma okv_ft_free ft : okv_ft ft Free. Proof. destruct ft; exact I. Qed.
Lemma okv_ft_eoc ft : okv_ft ft Eoc. Proof. destruct ft; exact I. Qed.

(* the entry of an addressable cluster lies inside one table copy *)
Lemma okcg_entry ft size c : okcg ft size c -> entry_off ft c + entry_len ft <= size.
Proof.
  destruct ft; cbn [okcg entry_off entry_len]; unfold okc12_g, okc16_g, okc32_g, off12; lia.
Qed.

(* what the library's reader returns depends only on the bytes of the first table copy *)
Lemma val_ft_ext ft s s' c :
  fs_base s' = fs_base s -> okcg ft (fs_size s) c ->
  (forall o, o < fs_size s -> img_get (fs_img s') (fs_base s + o) = img_get (fs_img s) (fs_base s + o)) ->
  val_ft ft s' c = val_ft ft s c.
Proof.
  intros Hb Hc H.
  assert (forall o, o < fs_size s -> ebyte s' o = ebyte s o) as He.
  { intros o Ho. unfold ebyte. rewrite Hb. apply H. exact Ho. }
  destruct ft; cbn [okcg val_ft] in *.
  - unfold val12, raw12_at, word12. unfold okc12_g in Hc. rewrite !He by lia. reflexivity.
  - unfold val16, word16. unfold okc16_g in Hc. rewrite !He by lia. reflexivity.
  - unfold val32, word32. unfold okc32_g in Hc. rewrite !He by lia. reflexivity.
Qed.

(* ---- the store invariant used for ONE step: the slice geometry, bytes < 256, the bytes outside the table area
   are those of the store [s0] the step started from, and no entry has become "bad" *)
Section StepInv.
Variable ft : fat_type.
Variables (base size : N) (mirrors : nat).
Hypothesis Hmirrors : (1 <= mirrors)%nat.
Variable s0 : fstore.

Definition inv_step (s : fstore) : Prop :=
  inv_g base size mirrors s /\
  (forall a, a < base \/ base + N.of_nat mirrors * size <= a -> img_get (fs_img s) a = img_get (fs_img s0) a) /\
  (forall c, okcg ft size c -> val_ft ft s c = Bad -> val_ft ft s0 c = Bad).

Definition okv_step (v : fatv) : Prop := okv_ft ft v /\ v <> Bad.

Lemma inv_step_g s : inv_step s -> inv_g base size mirrors s.
Proof. intros H. apply H. Qed.

Lemma inv_step_refl : inv_g base size mirrors s0 -> inv_step s0.
Proof. intros H. split; [exact H|]. split; [reflexivity|]. intros c _ E. exact E. Qed.

Lemma law_step_get t c : inv_step t -> okcg ft size c -> fat_get ft t c = Ok (val_ft ft t c).
Proof. intros H. apply (lawg_get ft base size mirrors). apply H. Qed.

Lemma law_step_set t c v : inv_step t -> okcg ft size c -> okv_step v ->
  exists t', fat_set ft t c v = Ok t' /\ inv_step t' /\ val_ft ft t' c = v /\
             forall c', c' <> c -> okcg ft size c' -> val_ft ft t' c' = val_ft ft t c'.
Proof.
  intros (Hg & Hout & Hbad) Hc (Hv & Hnb).
  destruct (lawg_set ft base size mirrors Hmirrors t c v Hg Hc Hv) as (t' & E & Hg' & Hval & Hfr).
  exists t'. split; [exact E|]. split; [|split; [exact Hval|exact Hfr]].
  pose proof Hg as (B & S & M & _).
  split; [exact Hg'|]. split.
  - intros a Ha. rewrite <- (Hout a Ha).
    apply (fat_update_inside_fat_copies ft t c v t' a); [apply okcg_okc_ft; rewrite S; exact Hc|exact E|].
    rewrite B, S, M. exact Ha.
  - intros c' Hc' Eb. destruct (N.eq_dec c' c) as [->|Hne].
    + rewrite Hval in Eb. contradiction.
    + rewrite (Hfr c' Hne Hc') in Eb. exact (Hbad c' Hc' Eb).
Qed.

Lemma okv_step_free : okv_step Free. Proof. split; [apply okv_ft_free|discriminate]. Qed.
Lemma okv_step_eoc : okv_step Eoc. Proof. split; [apply okv_ft_eoc|discriminate]. Qed.
End StepInv.

(* ================================================================ 6a. the shape of one File::write call (no
   invariant needed): the count is min(len, bytes left in the cluster, bytes up to the size limit); the data map is
   changed by exactly one block write into the cluster the handle is on afterwards *)
Section WriteShape.
Variable T : Type.
Variable get : T -> N -> res fatv.
Variable set : T -> N -> fatv -> res T.
Variable cs total : N.

Lemma blk_write_nil d o : blk_write d o [] = d.
Proof. unfold blk_write. cbn [app length]. rewrite Nat.add_0_r. apply firstn_skipn. Qed.

Lemma data_write_nil d c o x : data_write d c o [] x = d x.
Proof. unfold data_write. destruct (N.eqb_spec x c) as [->|_]; [apply blk_write_nil|reflexivity]. Qed.

Lemma file_write_shape w h buf w' h' k :
  file_write T get set cs total w h buf = Ok (w', h', k) ->
  k = N.min (N.min (len_N buf) (cs - h_off h mod cs)) (MAX_FILE_SIZE - h_off h) /\
  ((k = 0 /\ w' = w /\ h' = h) \/
   exists cc, h_cur h' = Some cc /\
     w_data T w' = data_write (w_data T w) cc (h_off h mod cs) (firstn (N.to_nat k) buf)).
Proof.
  unfold file_write.
  set (ws := N.min (N.min (len_N buf) (cs - h_off h mod cs)) (MAX_FILE_SIZE - h_off h)).
  destruct (ws =? 0) eqn:Ez.
  { intros H. injection H as <- <- <-. apply N.eqb_eq in Ez. split; [symmetry; exact Ez|]. left. repeat split. }
  match goal with |- bind ?e _ = _ -> _ => destruct e as [[[w1 h1] cc]|er| |] eqn:E1 end; cbn [bind]; try discriminate.
  intros H. injection H as <- <- <-. split; [reflexivity|]. right. exists cc. split; [reflexivity|].
  cbn [w_data]. f_equal.
  destruct (h_off h mod cs =? 0).
  - destruct (next_cluster_of T get (w_fat T w) h) as [nx|er| |]; cbn [bind] in E1; try discriminate.
    destruct nx as [n|].
    + injection E1 as <- _ _. reflexivity.
    + destruct (fs_alloc T get set (w_fat T w) (w_fi T w) (h_cur h) total) as [[[t' fi'] c]|er| |]; cbn [bind] in E1; try discriminate.
      injection E1 as <- _ _. reflexivity.
  - destruct (h_cur h) as [n|]; [|discriminate]. injection E1 as <- _ _. reflexivity.
Qed.
End WriteShape.

(* ================================================================ 6b. one step of the file layer with its shape:
   [FileProofs.file_step_refines] extended by (a) where the clusters of the new chain come from, (b) the exact change
   of the data map, (c) the frame on the FAT values *)
Section StepExt.
Variable T : Type.
Variable get : T -> N -> res fatv.
Variable set : T -> N -> fatv -> res T.
Variable val : T -> N -> fatv.
Variable okc : N -> Prop.
Variable okv : fatv -> Prop.
Variable inv : T -> Prop.
Hypothesis get_val : forall t c, inv t -> okc c -> get t c = Ok (val t c).
Hypothesis set_ok : forall t c v, inv t -> okc c -> okv v ->
  exists t', set t c v = Ok t' /\ inv t' /\ val t' c = v /\ forall c', c' <> c -> okc c' -> val t' c' = val t c'.
Hypothesis okv_free : okv Free.
Hypothesis okv_eoc : okv Eoc.
Variable cs total : N.
Hypothesis Hcs : 0 < cs.
Hypothesis Hokc : forall x, 2 <= x < total + 2 -> okc x.
Hypothesis Hokd : forall n, 2 <= n < total + 2 -> okv (Data n).

Let FileInv := FileInv T val cs total.
Let WorldInv := WorldInv T val inv cs total.

(* the data-map part of a step, as a predicate on the old and new world *)
Definition data_shape (w w' : fworld T) (h h' : fhandle) (op : fop) (r : fresult) : Prop :=
  match step_write cs h h' op r with
  | Some (cc, oo, bs) => (forall x, w_data T w' x = data_write (w_data T w) cc oo bs x) /\ oo + len_N bs <= cs
  | None => forall x, w_data T w' x = w_data T w x
  end.

Lemma inv_cur_in w h sz l c : FileInv w h sz l -> h_cur h = Some c -> In c l.
Proof.
  intros I Hc. pose proof (inv_cur _ _ _ _ _ _ _ _ I) as E. rewrite Hc in E.
  destruct (h_off h =? 0); [discriminate|]. symmetry in E. eapply nth_error_In. exact E.
Qed.

Theorem file_step_refines_ext w h sz l op :
  WorldInv w -> FileInv w h sz l ->
  exists w' h' r sz' l', file_step T get set cs total w h op = (w', h', r) /\
    WorldInv w' /\ FileInv w' h' sz' l' /\
    bf_step (content T w l sz, h_off h) op r = Some (content T w' l' sz', h_off h') /\
    (forall x, In x l' -> In x l \/ (val (w_fat T w) x = Free /\ 2 <= x < total + 2)) /\
    data_shape w w' h h' op r /\
    (forall x, ~ In x l -> ~ In x l' -> okc x -> val (w_fat T w') x = val (w_fat T w) x) /\
    (forall h2 sz2 l2, FileInv w h2 sz2 l2 -> disjoint l l2 ->
       FileInv w' h2 sz2 l2 /\ content T w' l2 sz2 = content T w l2 sz2 /\ disjoint l' l2).
Proof.
  intros W I.
  pose proof (content_length T get set val okc okv inv get_val set_ok cs total Hcs Hokc Hokd _ _ _ _ W I) as Lc.
  assert (forall h2 sz2 l2, FileInv w h2 sz2 l2 -> disjoint l l2 ->
            FileInv w h2 sz2 l2 /\ content T w l2 sz2 = content T w l2 sz2 /\ disjoint l l2) as Hsame
    by (intros h2 sz2 l2 I2 D; split; [exact I2|split; [reflexivity|exact D]]).
  destruct op as [n|d|p|]; unfold file_step.
  - (* read *)
    destruct (file_read_spec T get set val okc okv inv get_val set_ok cs total Hcs Hokc Hokd w h sz l n W I)
      as (h' & bs & Hr & Hbs & Hk1 & Hk2 & Ho & I').
    rewrite Hr. cbn [of_res]. exists w, h', (RBytes bs), sz, l. split; [reflexivity|]. split; [exact W|]. split; [exact I'|].
    split; [|split; [intros x Hx; left; exact Hx|split; [intros x; reflexivity|split; [reflexivity|exact Hsame]]]].
    cbn [bf_step]. rewrite Lc.
    destruct (N.leb_spec (len_N bs) (N.min n (sz - h_off h))) as [_|]; [|lia]. cbn [andb].
    assert (((0 <? len_N bs) || (N.min n (sz - h_off h) =? 0)) = true) as ->.
    { destruct Hk2 as [Hp|Hz]; [apply N.ltb_lt in Hp; rewrite Hp; reflexivity|rewrite Hz, N.eqb_refl; apply orb_true_r]. }
    cbn [andb]. rewrite <- Hbs, bytes_eqb_refl, Ho. reflexivity.
  - (* write *)
    pose proof (file_write_spec T get set val okc okv inv get_val set_ok okv_eoc cs total Hcs Hokc Hokd w h sz l d W I) as Hw.
    pose proof (file_write_shape T get set cs total w h d) as Hsh.
    destruct (file_write T get set cs total w h d) as [[[w' h'] k]|e| |]; cbn [of_res]; [| |contradiction|contradiction].
    + destruct Hw as (Hk1 & Hk2 & Ho & l' & Hl' & I' & W' & Hcont & Hvfr & Hdfr).
      destruct (Hsh w' h' k eq_refl) as (Hk & Hdata).
      exists w', h', (RCount k), (N.max sz (h_off h + k)), l'. split; [reflexivity|]. split; [exact W'|]. split; [exact I'|].
      split; [|split; [|split; [|split]]].
      * cbn [bf_step]. destruct (N.leb_spec k (len_N d)) as [_|]; [|lia]. cbn [andb].
        assert (((0 <? k) || (len_N d =? 0) || (h_off h =? MAX_FILE_SIZE)) = true) as ->.
        { destruct Hk2 as [Hp|[->|Hm]].
          - apply N.ltb_lt in Hp. rewrite Hp. reflexivity.
          - cbn [len_N length N.of_nat N.eqb]. rewrite orb_true_r. reflexivity.
          - unfold MAX_FILE_SIZE. rewrite Hm, N.eqb_refl. apply orb_true_r. }
        rewrite Hcont, Ho. reflexivity.
      * intros x Hx. destruct Hl' as [->|(c & -> & Hcf & Hcr)]; [left; exact Hx|].
        apply in_app_or in Hx. destruct Hx as [Hx|[<-|[]]]; [left; exact Hx|right; split; assumption].
      * unfold data_shape, step_write.
        assert (len_N (firstn (N.to_nat k) d) <= k) as Lk by (unfold len_N; rewrite firstn_length; lia).
        pose proof (N.mod_lt (h_off h) cs ltac:(lia)) as Hml.
        destruct Hdata as [(Hk0 & -> & ->)|(cc & Hcc & Hd)].
        -- rewrite Hk0 in *. cbn [N.to_nat firstn].
           destruct (h_cur h) as [cc|]; [|intros x; reflexivity].
           split; [intros x; rewrite data_write_nil; reflexivity|]. cbn [len_N length N.of_nat]. lia.
        -- rewrite Hcc. split; [intros x; rewrite Hd; reflexivity|]. lia.
      * intros x _ Hx Hokx. apply Hvfr; assumption.
      * intros h2 sz2 l2 I2 D.
        assert (disjoint l' l2) as D'.
        { destruct Hl' as [->|(c & -> & Hcf & _)]; [exact D|]. intros x Hx Hx2. apply in_app_or in Hx.
          destruct Hx as [Hx|[<-|[]]]; [exact (D x Hx Hx2)|]. destruct (inv_range _ _ _ _ _ _ _ _ I2 c Hx2) as [_ F]. contradiction. }
        split; [|split; [|exact D']].
        -- apply (FileInv_frame T val cs total w w' h2 sz2 l2 I2). intros x Hx. apply Hvfr; [intros Hin; exact (D' x Hin Hx)|].
           apply Hokc. apply (inv_range _ _ _ _ _ _ _ _ I2 x Hx).
        -- apply content_frame. intros x Hx. apply Hdfr. intros Hin. exact (D' x Hin Hx).
    + destruct Hw as (-> & _). exists w, h, (RFail ENotEnoughSpace), sz, l. split; [reflexivity|]. split; [exact W|]. split; [exact I|].
      split; [reflexivity|]. split; [intros x Hx; left; exact Hx|]. split; [intros x; reflexivity|]. split; [reflexivity|exact Hsame].
  - (* seek *)
    pose proof (file_seek_spec T get set val okc okv inv get_val set_ok cs total Hcs Hokc Hokd w h sz l p W I) as Hs. cbv zeta in Hs.
    destruct (Z.ltb_spec (seek_target sz (h_off h) p) 0) as [Hneg|Hpos].
    + rewrite Hs. cbn [of_res]. exists w, h, (RFail EInvalidInput), sz, l. split; [reflexivity|]. split; [exact W|]. split; [exact I|].
      split; [|split; [intros x Hx; left; exact Hx|split; [intros x; reflexivity|split; [reflexivity|exact Hsame]]]].
      cbn [bf_step]. rewrite Lc. destruct (Z.ltb_spec (seek_target sz (h_off h) p) 0) as [_|]; [reflexivity|lia].
    + destruct Hs as (h' & Hr & Ho & I'). rewrite Hr. cbn [of_res].
      exists w, h', (RPos (N.min (Z.to_N (seek_target sz (h_off h) p)) sz)), sz, l.
      split; [reflexivity|]. split; [exact W|]. split; [exact I'|].
      split; [|split; [intros x Hx; left; exact Hx|split; [intros x; reflexivity|split; [reflexivity|exact Hsame]]]].
      cbn [bf_step]. rewrite Lc. destruct (Z.leb_spec 0 (seek_target sz (h_off h) p)) as [_|]; [|lia].
      rewrite N.eqb_refl. cbn [andb]. rewrite Ho. reflexivity.
  - (* truncate *)
    destruct (file_truncate_spec T get set val okc okv inv get_val set_ok okv_free okv_eoc cs total Hcs Hokc Hokd w h sz l W I)
      as (w' & h' & Hr & Hd & Ho & I' & W' & Hcont & _ & Hvfr & _).
    rewrite Hr. cbn [of_res]. eexists w', h', RDone, (h_off h), _. split; [reflexivity|]. split; [exact W'|]. split; [exact I'|].
    split; [cbn [bf_step]; rewrite Hcont, Ho; reflexivity|].
    split; [intros x Hx; left; exact (firstn_incl _ _ _ Hx)|].
    split; [intros x; rewrite Hd; reflexivity|].
    split; [intros x Hx _ Hokx; apply Hvfr; assumption|].
    intros h2 sz2 l2 I2 D. split; [|split].
    + apply (FileInv_frame T val cs total w w' h2 sz2 l2 I2). intros x Hx. apply Hvfr; [intros Hin; exact (D x Hin Hx)|].
      apply Hokc. apply (inv_range _ _ _ _ _ _ _ _ I2 x Hx).
    + apply content_frame. intros x _. rewrite Hd. reflexivity.
    + intros x Hx Hx2. exact (D x (firstn_incl _ _ _ Hx) Hx2).
Qed.
End StepExt.

(* [decode_file] is literally what the tree decoder of Spec/Abs.v computes for a file entry *)
Lemma decode_file_is_node g im d e :
  e_is_dot e = false -> e_is_dir e = false ->
  decode_entries g im (S d) [e] =
  [NFile e (if e_cluster e =? 0 then None else chain_from g im (e_cluster e) (Abs.chain_fuel g))
           (decode_file g im (e_cluster e) (e_size e))].
Proof. intros H1 H2. cbn [decode_entries map]. rewrite H1, H2. reflexivity. Qed.

(* ================================================================ 2. layout of a sane geometry *)
(* [geom_sane] (RegionsProofs) + the active table copy exists + one table copy holds an entry for every cluster and the
   width can number them.  Every volume the library mounts satisfies this (C07_mount_ok_coherent). *)
Definition vgeom_ok (g : geom) : Prop :=
  geom_sane g /\ g_active g < g_fats g /\ fat_fits (ft_of g) (g_fat_bytes g) (g_clusters g).

Lemma vgeom_okb_ok g : vgeom_okb g = true -> vgeom_ok g.
Proof.
  unfold vgeom_okb, vgeom_ok, geom_sane. rewrite !andb_true_iff, !N.ltb_lt, N.leb_le.
  intros ((((H1 & H2) & H3) & H4) & H5). split; [repeat split; assumption|]. split; [exact H4|].
  destruct (ft_of g); cbn [fat_fitsb fat_fits] in *; rewrite andb_true_iff, !N.leb_le in H5; unfold off12; exact H5.
Qed.

(* an explicit image: all stored bytes and the fill byte are < 256 *)
Lemma bytes_ok_check im :
  (img_fill im <? 256) && forallb (fun kv => snd kv <? 256) (FMapPositive.PositiveMap.elements (img_map im)) = true -> bytes_ok im.
Proof.
  rewrite andb_true_iff, N.ltb_lt, forallb_forall. intros (Hf & Hm) o. unfold img_get.
  destruct (FMapPositive.PositiveMap.find (N.succ_pos o) (img_map im)) as [b|] eqn:E; [|exact Hf].
  apply FMapPositive.PositiveMap.elements_correct in E. specialize (Hm _ E). cbn [snd] in Hm. apply N.ltb_lt. exact Hm.
Qed.

(* the byte range the FAT store writes to: the mirrored copies (all of them, or the active one) *)
Definition in_store_area (g : geom) (a : N) : Prop :=
  vol_base g <= a < vol_base g + N.of_nat (vol_mirrors g) * g_fat_bytes g.
Definition in_cluster (g : geom) (c a : N) : Prop :=
  g_cluster_off g c <= a < g_cluster_off g c + g_cluster_size g.

Lemma g_bits_cases g : g_bits g = 12 \/ g_bits g = 16 \/ g_bits g = 32.
Proof. unfold g_bits. destruct (g_clusters g <? 4085); [auto|]. destruct (g_clusters g <? 65525); auto. Qed.

Lemma ft_of_12 g : g_bits g = 12 -> ft_of g = Fat12.
Proof. intros E. unfold ft_of. rewrite E. reflexivity. Qed.
Lemma ft_of_16 g : g_bits g = 16 -> ft_of g = Fat16.
Proof. intros E. unfold ft_of. rewrite E. reflexivity. Qed.
Lemma ft_of_32 g : g_bits g = 32 -> ft_of g = Fat32.
Proof. intros E. unfold ft_of. rewrite E. reflexivity. Qed.

Lemma vol_mirrors_pos g : vgeom_ok g -> (1 <= vol_mirrors g)%nat.
Proof. intros (_ & Ha & _). unfold vol_mirrors. destruct (g_mirroring g); lia. Qed.

Lemma cs_pos g : vgeom_ok g -> 0 < g_cluster_size g.
Proof. intros ((Hb & Hs & _) & _). unfold g_cluster_size. nia. Qed.

Lemma range_small g x : vgeom_ok g -> 2 <= x < g_clusters g + 2 -> x < 268435447.
Proof.
  intros (_ & _ & Hf) Hx. destruct (ft_of g); cbn [fat_fits] in Hf; lia.
Qed.

(* the store area lies inside the FAT region, which ends where the root directory / data area begins *)
Lemma store_area_in_fat g : vgeom_ok g ->
  g_fat_off g 0 <= vol_base g /\ vol_base g + N.of_nat (vol_mirrors g) * g_fat_bytes g <= g_root_off g.
Proof.
  intros (_ & Ha & _). unfold vol_base, vol_mirrors, g_active, g_fat_off, g_fat_bytes, g_root_off in *.
  destruct (g_mirroring g).
  - rewrite N2Nat.id. split; nia.
  - change (N.of_nat 1) with 1. set (a := g_ext_flags g mod 16) in *. clearbody a. split; nia.
Qed.

Lemma cluster_above_area g c a : vgeom_ok g -> 2 <= c -> in_cluster g c a -> ~ in_store_area g a.
Proof.
  intros Hok Hc [H1 H2] [H3 H4]. destruct (store_area_in_fat g Hok) as [_ L].
  pose proof (layout_order g) as (_ & L2). unfold g_cluster_off in H1. nia.
Qed.

Lemma clusters_disjoint g c c' a : 2 <= c -> 2 <= c' -> c <> c' -> in_cluster g c a -> in_cluster g c' a -> False.
Proof.
  unfold in_cluster, g_cluster_off, g_cluster_size. intros Hc Hc' Hne [H1 H2] [H3 H4].
  destruct (N.lt_trichotomy c c') as [Hlt|[->|Hgt]]; [|contradiction|].
  - assert ((c - 2) + 1 <= c' - 2) by lia. nia.
  - assert ((c' - 2) + 1 <= c - 2) by lia. nia.
Qed.

Lemma in_range_iff g c : in_range g c = true <-> 2 <= c < g_clusters g + 2.
Proof.
  unfold in_range. rewrite andb_true_iff, N.leb_le, N.ltb_lt. reflexivity.
Qed.

(* where the image-level machine puts the data of cluster c is where the library's own address arithmetic
   (Model/Offsets.v: u32 sector numbers, u64 byte offsets, checked) addresses it *)
Theorem data_offset_is_library g c :
  Offsets.ogeom_ok (ogeom_of g) -> 2 <= c < g_clusters g + 2 ->
  Offsets.offset_from_cluster (ogeom_of g) c = Ok (g_cluster_off g c).
Proof.
  intros Ho Hc. destruct (OffsetsProofs.offset_arith_exact (ogeom_of g) c Ho Hc) as (off & E & Hoff & _).
  rewrite E. f_equal. exact Hoff.
Qed.

(* ================================================================ 3. the decoder's FAT value = the library's reader *)
Lemma fatv_of_inj a b : fatv_of a = fatv_of b -> a = b.
Proof. destruct a, b; cbn [fatv_of]; intros H; congruence. Qed.

Theorem fat_val_store g im c : c < 268435447 ->
  fatv_of (fat_val g im c) = val_ft (ft_of g) (store_of g im) c.
Proof.
  intros Hc. unfold fat_val, fat_raw.
  destruct (g_bits_cases g) as [E|[E|E]].
  - rewrite (ft_of_12 g E), (classify12_agrees g _ E). rewrite E. cbn [N.eqb Pos.eqb val_ft].
    unfold val12, raw12_at, word12, ebyte, off12, store_of, img_u16, vol_base. cbn [fs_img fs_base].
    rewrite !N.add_assoc. reflexivity.
  - rewrite (ft_of_16 g E), (classify16_agrees g _ E). rewrite E. cbn [N.eqb Pos.eqb val_ft].
    unfold val16, word16, ebyte, store_of, img_u16, vol_base. cbn [fs_img fs_base].
    rewrite !N.add_assoc. reflexivity.
  - rewrite (ft_of_32 g E), (classify32_agrees g c _ E Hc). rewrite E. cbn [N.eqb Pos.eqb val_ft].
    unfold val32, word32, ebyte, store_of, img_u32, img_u16, vol_base. cbn [fs_img fs_base].
    f_equal. f_equal. rewrite !N.add_assoc.
    replace (g_fat_off g (g_active g) + 4 * c + 2 + 1) with (g_fat_off g (g_active g) + 4 * c + 3) by lia.
    lia.
Qed.

(* ================================================================ 4. library-side chain = decoder's chain walk *)
Section Vol.
Variable g : geom.
Hypothesis Hok : vgeom_ok g.

Let ft := ft_of g.
Let csz := g_cluster_size g.
Let total := g_clusters g.
Let vinv := inv_g (vol_base g) (g_fat_bytes g) (vol_mirrors g).

Definition VWorldInv (w : fworld fstore) : Prop := WorldInv fstore (val_ft ft) vinv csz total w.
Definition VFileInv (w : fworld fstore) (h : fhandle) (sz : N) (l : list N) : Prop :=
  FileInv fstore (val_ft ft) csz total w h sz l.
(* no cluster of the chain carries the bad-cluster mark (the library would take it for the end of the chain, the
   decoder for a broken chain); kept by every step: new clusters were free, the marks written are links and EOC *)
Definition NoBad (w : fworld fstore) (l : list N) : Prop :=
  forall x, In x l -> val_ft ft (w_fat fstore w) x <> Bad.

Lemma Hrange : (forall x, 2 <= x < total + 2 -> okcg ft (g_fat_bytes g) x) /\
               (forall n, 2 <= n < total + 2 -> okv_ft ft (Data n)).
Proof. apply rangeg. apply Hok. Qed.

Lemma chain_decodes_from im : forall l f,
  chain fstore (val_ft ft) (store_of g im) f l ->
  (forall x, In x l -> 2 <= x < total + 2 /\ val_ft ft (store_of g im) x <> Free /\ val_ft ft (store_of g im) x <> Bad) ->
  forall fuel, (length l <= fuel)%nat -> chain_from g im f fuel = Some l.
Proof.
  intros l f Hc. induction Hc as [c Hnd|c n l Hv Hc IH]; intros Hr fuel Hf.
  - destruct fuel as [|fuel]; [cbn [length] in Hf; lia|]. cbn [chain_from].
    destruct (Hr c (or_introl eq_refl)) as (R & NF & NB).
    rewrite (proj2 (in_range_iff g c) R).
    pose proof (fat_val_store g im c (range_small g c Hok R)) as E. fold ft in E.
    destruct (fat_val g im c) as [| | |n]; cbn [fatv_of] in E.
    + exfalso. apply NF. symmetry. exact E.
    + exfalso. apply NB. symmetry. exact E.
    + reflexivity.
    + exfalso. apply (Hnd n). symmetry. exact E.
  - destruct fuel as [|fuel]; [cbn [length] in Hf; lia|]. cbn [chain_from].
    destruct (Hr c (or_introl eq_refl)) as (R & NF & NB).
    rewrite (proj2 (in_range_iff g c) R).
    pose proof (fat_val_store g im c (range_small g c Hok R)) as E. fold ft in E. rewrite Hv in E.
    destruct (fat_val g im c) as [| | |m]; cbn [fatv_of] in E; try discriminate.
    injection E as ->. rewrite (IH (fun x Hx => Hr x (or_intror Hx)) fuel ltac:(cbn [length] in Hf; lia)). reflexivity.
Qed.

(* ================================================================ 5. embedding of a file-layer world in an image *)
Record Embeds (im : image) (w : fworld fstore) : Prop := {
  emb_base : fs_base (w_fat fstore w) = vol_base g;
  emb_size : fs_size (w_fat fstore w) = g_fat_bytes g;
  emb_mirrors : fs_mirrors (w_fat fstore w) = vol_mirrors g;
  emb_fat : forall a, in_store_area g a -> img_get (fs_img (w_fat fstore w)) a = img_get im a;
  emb_data : forall c, 2 <= c < total + 2 -> w_data fstore w c = cluster_bytes g im c }.

Lemma embeds_world_of im fi : Embeds im (world_of g im fi).
Proof. constructor; reflexivity. Qed.

Lemma embeds_val im w c : Embeds im w -> okcg ft (g_fat_bytes g) c ->
  val_ft ft (store_of g im) c = val_ft ft (w_fat fstore w) c.
Proof.
  intros E Hc. apply val_ft_ext.
  - cbn [store_of fs_base]. symmetry. apply (emb_base _ _ E).
  - rewrite (emb_size _ _ E). exact Hc.
  - intros o Ho. cbn [store_of fs_img]. symmetry. apply (emb_fat _ _ E).
    rewrite (emb_base _ _ E). rewrite (emb_size _ _ E) in Ho. unfold in_store_area.
    pose proof (vol_mirrors_pos g Hok). nia.
Qed.

Lemma embeds_val_range im w x : Embeds im w -> 2 <= x < total + 2 ->
  val_ft ft (store_of g im) x = val_ft ft (w_fat fstore w) x.
Proof. intros E Hx. apply embeds_val; [exact E|]. apply (proj1 Hrange). exact Hx. Qed.

Lemma cluster_bytes_length im c : length (cluster_bytes g im c) = N.to_nat csz.
Proof. unfold cluster_bytes. apply img_read_length. Qed.

Lemma cnt_ext f f' : forall n c, (forall x, c <= x < c + N.of_nat n -> f x = f' x) -> cnt f c n = cnt f' c n.
Proof.
  induction n as [|n IH]; intros c H; cbn [cnt]; [reflexivity|].
  rewrite (H c ltac:(lia)). rewrite (IH (c + 1)); [reflexivity|]. intros x Hx. apply H. lia.
Qed.

Lemma cat_chain_bytes im w l : Embeds im w -> (forall x, In x l -> 2 <= x < total + 2) ->
  cat (w_data fstore w) l = chain_bytes g im l.
Proof.
  intros E. induction l as [|c l IH]; intros Hr; [reflexivity|].
  rewrite cat_cons. unfold chain_bytes. cbn [flat_map]. fold (chain_bytes g im l).
  rewrite (emb_data _ _ E c (Hr c (or_introl eq_refl))), IH; [reflexivity|].
  intros x Hx. apply Hr. right. exact Hx.
Qed.

(* an embedded world and the world read off the image satisfy the same invariants and hold the same content *)
Theorem embeds_transfer im w h sz l :
  bytes_ok im -> Embeds im w -> VWorldInv w -> VFileInv w h sz l ->
  VWorldInv (world_of g im (w_fi fstore w)) /\ VFileInv (world_of g im (w_fi fstore w)) h sz l /\
  content fstore (world_of g im (w_fi fstore w)) l sz = content fstore w l sz /\
  (NoBad w l -> NoBad (world_of g im (w_fi fstore w)) l).
Proof.
  intros Hb E (Wi & (Wf1 & Wf2) & Wd) I.
  assert (forall x, In x l -> 2 <= x < total + 2) as Hr by (intros x Hx; apply (inv_range _ _ _ _ _ _ _ _ I x Hx)).
  split; [|split; [|split]].
  - split; [|split].
    + cbn [world_of w_fat]. unfold vinv, inv_g, store_of. cbn [fs_base fs_size fs_mirrors fs_img]. repeat split. exact Hb.
    + split; [|exact Wf2]. cbn [world_of w_fat w_fi]. destruct (fi_free (w_fi fstore w)) as [n|]; [|exact Logic.I].
      rewrite Wf1. unfold count_spec. apply cnt_ext. intros x Hx. symmetry. apply embeds_val_range; [exact E|]. fold total. lia.
    + intros c. cbn [world_of w_data]. apply cluster_bytes_length.
  - apply (FileInv_frame fstore (val_ft ft) csz total w _ h sz l I). intros x Hx. cbn [world_of w_fat].
    apply embeds_val_range; [exact E|exact (Hr x Hx)].
  - unfold content. cbn [world_of w_data]. f_equal.
    rewrite (cat_chain_bytes im w l E Hr). apply (cat_chain_bytes im (world_of g im (w_fi fstore w)) l); [apply embeds_world_of|exact Hr].
  - intros NB x Hx. cbn [world_of w_fat]. rewrite (embeds_val_range im w x E (Hr x Hx)). exact (NB x Hx).
Qed.

(* ================================================================ 7a. the decode theorem for a static embedded world *)
(* what the decoder reads as the content of a file with chain [l] and size [sz] *)
Definition vol_content (im : image) (l : list N) (sz : N) : list N := firstn (N.to_nat sz) (chain_bytes g im l).

(* the decoder's chain walk from the handle's first cluster yields [l], with any fuel that covers its length *)
Definition chain_decodes (im : image) (first : option N) (l : list N) : Prop :=
  match first with
  | Some f => forall fuel, (length l <= fuel)%nat -> chain_from g im f fuel = Some l
  | None => l = []
  end.

Lemma cat_flat_map (d : N -> list N) l : cat d l = flat_map d l.
Proof. unfold cat. symmetry. apply flat_map_concat_map. Qed.

Theorem decode_static im w h sz l :
  Embeds im w -> VFileInv w h sz l -> NoBad w l ->
  chain_decodes im (h_first h) l /\ vol_content im l sz = content fstore w l sz.
Proof.
  intros E I NB.
  assert (forall x, In x l -> 2 <= x < total + 2) as Hr by (intros x Hx; apply (inv_range _ _ _ _ _ _ _ _ I x Hx)).
  split.
  - unfold chain_decodes. pose proof (inv_chain _ _ _ _ _ _ _ _ I) as Hc. destruct (h_first h) as [f|]; [|exact Hc].
    apply chain_decodes_from.
    + apply (chain_frame fstore (val_ft ft) (w_fat fstore w) (store_of g im) f l Hc).
      intros x Hx. apply embeds_val_range; [exact E|exact (Hr x Hx)].
    + intros x Hx. rewrite (embeds_val_range im w x E (Hr x Hx)).
      split; [exact (Hr x Hx)|]. split; [apply (inv_range _ _ _ _ _ _ _ _ I x Hx)|exact (NB x Hx)].
  - unfold vol_content, content. rewrite (cat_chain_bytes im w l E Hr). reflexivity.
Qed.

Lemma chain_fuel_enough w h sz l : VFileInv w h sz l ->
  total <= 131072 \/ N.of_nat (length l) <= 131072 -> (length l <= Abs.chain_fuel g)%nat.
Proof.
  intros I Hb.
  pose proof (nodup_range_length l total (inv_nodup _ _ _ _ _ _ _ _ I)
                (fun x Hx => proj1 (inv_range _ _ _ _ _ _ _ _ I x Hx))) as Hl.
  unfold Abs.chain_fuel. fold total. lia.
Qed.

(* ... and in the very form the decoder of Spec/Abs.v computes a file node ([decode_entries], NFile) *)
Theorem decode_file_static im w h sz l :
  Embeds im w -> VWorldInv w -> VFileInv w h sz l -> NoBad w l ->
  total <= 131072 \/ N.of_nat (length l) <= 131072 ->
  decode_file g im (first_field h) sz = content fstore w l sz.
Proof.
  intros E W I NB Hb. destruct (decode_static im w h sz l E I NB) as (Hc & Hcont).
  unfold decode_file, first_field. unfold chain_decodes in Hc.
  pose proof (inv_head fstore (val_ft ft) csz total w h sz l I) as Hh.
  destruct (h_first h) as [f|].
  - assert (In f l) as Hf by (eapply nth_error_In; symmetry; exact Hh).
    destruct (inv_range _ _ _ _ _ _ _ _ I f Hf) as (R & _).
    destruct (N.eqb_spec f 0) as [Z|_]; [lia|].
    rewrite (Hc _ (chain_fuel_enough w h sz l I Hb)). exact Hcont.
  - subst l. rewrite N.eqb_refl. unfold content. cbn [cat map concat]. unfold cat. cbn [map concat]. rewrite firstn_nil. reflexivity.
Qed.

(* ================================================================ 7b. one step, from an embedded world *)
Definition op_ok (o : fop) : Prop := match o with FWrite d => blist_ok d | _ => True end.

Lemma vstep_core w h sz l op :
  VWorldInv w -> VFileInv w h sz l -> NoBad w l ->
  exists w' h' r sz' l', file_step fstore (fat_get ft) (fat_set ft) csz total w h op = (w', h', r) /\
    VWorldInv w' /\ VFileInv w' h' sz' l' /\ NoBad w' l' /\
    bf_step (content fstore w l sz, h_off h) op r = Some (content fstore w' l' sz', h_off h') /\
    (forall x, In x l' -> In x l \/ (val_ft ft (w_fat fstore w) x = Free /\ 2 <= x < total + 2)) /\
    data_shape fstore csz w w' h h' op r /\
    geom_eq (w_fat fstore w) (w_fat fstore w') /\
    (forall a, ~ in_store_area g a -> img_get (fs_img (w_fat fstore w')) a = img_get (fs_img (w_fat fstore w)) a) /\
    (forall x, ~ In x l -> ~ In x l' -> 2 <= x < total + 2 ->
       val_ft ft (w_fat fstore w') x = val_ft ft (w_fat fstore w) x) /\
    (forall h2 sz2 l2, VFileInv w h2 sz2 l2 -> disjoint l l2 ->
       VFileInv w' h2 sz2 l2 /\ content fstore w' l2 sz2 = content fstore w l2 sz2 /\ disjoint l' l2).
Proof.
  intros (Wi & Wf & Wd) I NB.
  pose proof (vol_mirrors_pos g Hok) as Hm. pose proof (cs_pos g Hok) as Hcs. destruct Hrange as (Hokc & Hokd).
  set (s0 := w_fat fstore w).
  assert (forall n, 2 <= n < total + 2 -> okv_step ft (Data n)) as Hokd'
    by (intros n Hn; split; [exact (Hokd n Hn)|discriminate]).
  assert (FileProofs.WorldInv fstore (val_ft ft) (inv_step ft (vol_base g) (g_fat_bytes g) (vol_mirrors g) s0) csz total w) as W0.
  { split; [|split; [exact Wf|exact Wd]]. apply inv_step_refl. exact Wi. }
  pose proof (file_step_refines_ext fstore (fat_get ft) (fat_set ft) (val_ft ft) (okcg ft (g_fat_bytes g)) (okv_step ft)
              (inv_step ft (vol_base g) (g_fat_bytes g) (vol_mirrors g) s0)
              (law_step_get ft (vol_base g) (g_fat_bytes g) (vol_mirrors g) s0)
              (law_step_set ft (vol_base g) (g_fat_bytes g) (vol_mirrors g) Hm s0) (okv_step_free ft) (okv_step_eoc ft)
              csz total Hcs Hokc Hokd' w h sz l op W0 I) as X.
  destruct X as (w' & h' & r & sz' & l' & Hs & (Wi' & Wf' & Wd') & I' & Hbf & Hl' & Hds & Hvfr & Hoth).
  exists w', h', r, sz', l'. destruct Wi' as (Wg' & Hout & Hbad).
  split; [exact Hs|]. split; [split; [exact Wg'|split; assumption]|]. split; [exact I'|].
  split; [|split; [exact Hbf|split; [exact Hl'|split; [exact Hds|split; [|split; [|split; [|exact Hoth]]]]]]].
  - intros x Hx Eb. destruct (inv_range _ _ _ _ _ _ _ _ I' x Hx) as (R & _).
    pose proof (Hbad x (Hokc x R) Eb) as Eb0. fold s0 in Eb0.
    destruct (Hl' x Hx) as [Hin|(Hfree & _)]; [exact (NB x Hin Eb0)|]. fold s0 in Hfree. rewrite Hfree in Eb0. discriminate.
  - destruct Wi as (B & S & M & _). destruct Wg' as (B' & S' & M' & _). unfold geom_eq. subst s0. rewrite B, S, M, B', S', M'. repeat split.
  - intros a Ha. apply Hout. unfold in_store_area in Ha. lia.
  - intros x H1 H2 R. apply Hvfr; [exact H1|exact H2|exact (Hokc x R)].
Qed.

(* the FAT part of the image effect: the store's table area copied (or already in place), nothing else moved *)
Lemma embeds_fat_step im im1 w w1 :
  Embeds im w -> geom_eq (w_fat fstore w) (w_fat fstore w1) ->
  (forall x, w_data fstore w1 x = w_data fstore w x) ->
  (forall a, in_store_area g a -> img_get im1 a = img_get (fs_img (w_fat fstore w1)) a) ->
  (forall a, ~ in_store_area g a -> img_get im1 a = img_get im a) ->
  Embeds im1 w1.
Proof.
  intros E (G1 & G2 & G3) Hd Hin Hout. constructor.
  - rewrite G1. apply (emb_base _ _ E).
  - rewrite G2. apply (emb_size _ _ E).
  - rewrite G3. apply (emb_mirrors _ _ E).
  - intros a Ha. symmetry. apply Hin. exact Ha.
  - intros c Hc. rewrite Hd, (emb_data _ _ E c Hc). unfold cluster_bytes. apply img_read_ext.
    intros i Hi. symmetry. apply Hout. apply (cluster_above_area g c); [exact Hok|lia|].
    unfold in_cluster. rewrite N2Nat.id in Hi. lia.
Qed.

Lemma cluster_off_mono c c' : 2 <= c -> c < c' -> g_cluster_off g c + g_cluster_size g <= g_cluster_off g c'.
Proof. intros H1 H2. unfold g_cluster_off, g_cluster_size. assert ((c - 2) + 1 <= c' - 2) by lia. nia. Qed.

(* the data part: the bytes of one write call, written through into the cluster area *)
Lemma embeds_data_step im1 w1 w2 cc oo bs :
  Embeds im1 w1 -> w_fat fstore w2 = w_fat fstore w1 ->
  (forall x, w_data fstore w2 x = data_write (w_data fstore w1) cc oo bs x) ->
  2 <= cc < total + 2 -> oo + len_N bs <= csz ->
  Embeds (img_write im1 (g_cluster_off g cc + oo) bs) w2.
Proof.
  intros E Hf Hd Hcc Hlen. unfold len_N in Hlen. constructor.
  - rewrite Hf. apply (emb_base _ _ E).
  - rewrite Hf. apply (emb_size _ _ E).
  - rewrite Hf. apply (emb_mirrors _ _ E).
  - intros a Ha. rewrite Hf, (emb_fat _ _ E a Ha). symmetry. apply img_write_outside.
    destruct (N.lt_ge_cases a (g_cluster_off g cc + oo)) as [|H1]; [left; assumption|].
    destruct (N.lt_ge_cases a (g_cluster_off g cc + oo + N.of_nat (length bs))) as [H2|]; [|right; assumption].
    exfalso. apply (cluster_above_area g cc a Hok ltac:(lia)); [|exact Ha]. unfold in_cluster. fold csz. lia.
  - intros c Hc. rewrite Hd. destruct (N.eq_dec c cc) as [->|Hne].
    + rewrite data_write_same, (emb_data _ _ E cc Hc). unfold cluster_bytes. fold csz.
      replace oo with (N.of_nat (N.to_nat oo)) by apply N2Nat.id.
      symmetry. apply img_read_write_blk. lia.
    + rewrite data_write_other by exact Hne. rewrite (emb_data _ _ E c Hc). unfold cluster_bytes. fold csz.
      symmetry. apply img_read_write_other. rewrite N2Nat.id.
      destruct (N.lt_trichotomy c cc) as [Hlt|[->|Hgt]]; [|contradiction|].
      * right. pose proof (cluster_off_mono c cc ltac:(lia) Hlt). fold csz in H. lia.
      * left. pose proof (cluster_off_mono cc c ltac:(lia) Hgt). fold csz in H. lia.
Qed.

Lemma embeds_step im im1 w w' h h' op r :
  Embeds im w -> geom_eq (w_fat fstore w) (w_fat fstore w') ->
  data_shape fstore csz w w' h h' op r ->
  (forall cc, h_cur h' = Some cc -> 2 <= cc < total + 2) ->
  (forall a, in_store_area g a -> img_get im1 a = img_get (fs_img (w_fat fstore w')) a) ->
  (forall a, ~ in_store_area g a -> img_get im1 a = img_get im a) ->
  Embeds (data_effect g im1 h h' op r) w'.
Proof.
  intros E G Hds Hcur Hin Hout. unfold data_shape in Hds. unfold data_effect. fold csz.
  destruct (step_write csz h h' op r) as [[[cc oo] bs]|] eqn:Es.
  - destruct Hds as (Hd & Hlen).
    assert (h_cur h' = Some cc) as Hc.
    { unfold step_write in Es. destruct op; try discriminate. destruct r; try discriminate.
      destruct (h_cur h'); [|discriminate]. injection Es as -> _ _. reflexivity. }
    apply (embeds_data_step im1 {| w_fat := w_fat fstore w'; w_fi := w_fi fstore w'; w_data := w_data fstore w |} w' cc oo bs).
    + apply (embeds_fat_step im im1 w); [exact E|exact G|intros x; reflexivity|exact Hin|exact Hout].
    + reflexivity.
    + exact Hd.
    + exact (Hcur cc Hc).
    + exact Hlen.
  - apply (embeds_fat_step im im1 w w'); assumption.
Qed.

(* ================================================================ 7c. the image-level machine of Model/VolFile.v *)
(* everything the machine needs to know about its state (image, FS-info latch, handle); [sz], [l] are ghosts *)
Definition VolInv (im : image) (fi : fsinfo) (h : fhandle) (sz : N) (l : list N) : Prop :=
  bytes_ok im /\ VWorldInv (world_of g im fi) /\ VFileInv (world_of g im fi) h sz l /\ NoBad (world_of g im fi) l.

Lemma content_world_of im fi l sz : content fstore (world_of g im fi) l sz = vol_content im l sz.
Proof. unfold content, vol_content. cbn [world_of w_data]. rewrite cat_flat_map. reflexivity. Qed.

Lemma step_write_cur h h' op r cc oo bs : step_write csz h h' op r = Some (cc, oo, bs) -> h_cur h' = Some cc.
Proof.
  unfold step_write. destruct op; try discriminate. destruct r; try discriminate.
  destruct (h_cur h'); [|discriminate]. intros H. injection H as -> _ _. reflexivity.
Qed.

Lemma step_write_bytes h h' op r cc oo bs : op_ok op -> step_write csz h h' op r = Some (cc, oo, bs) -> blist_ok bs.
Proof.
  unfold step_write. destruct op; try discriminate. destruct r; try discriminate.
  destruct (h_cur h'); [|discriminate]. intros Hb H. injection H as _ _ <-. apply blist_ok_firstn. exact Hb.
Qed.

(* frame of the data effect: only bytes of the cluster the handle is on afterwards *)
Lemma data_effect_frame im1 w w' h h' op r sz' l' a :
  data_shape fstore csz w w' h h' op r -> VFileInv w' h' sz' l' ->
  (forall c, In c l' -> ~ in_cluster g c a) -> img_get (data_effect g im1 h h' op r) a = img_get im1 a.
Proof.
  intros Hds I' Hout. unfold data_effect. fold csz. unfold data_shape in Hds.
  destruct (step_write csz h h' op r) as [[[cc oo] bs]|] eqn:Es; [|reflexivity].
  destruct Hds as (_ & Hlen). unfold len_N in Hlen.
  pose proof (inv_cur_in fstore (val_ft ft) csz total w' h' sz' l' cc I' (step_write_cur _ _ _ _ _ _ _ Es)) as Hin.
  apply img_write_outside.
  destruct (N.lt_ge_cases a (g_cluster_off g cc + oo)) as [|H1]; [left; assumption|].
  destruct (N.lt_ge_cases a (g_cluster_off g cc + oo + N.of_nat (length bs))) as [H2|]; [|right; assumption].
  exfalso. apply (Hout cc Hin). unfold in_cluster. fold csz. lia.
Qed.

Lemma data_effect_bytes_ok im1 h h' op r : op_ok op -> bytes_ok im1 -> bytes_ok (data_effect g im1 h h' op r).
Proof.
  intros Ho Hb. unfold data_effect. fold csz.
  destruct (step_write csz h h' op r) as [[[cc oo] bs]|] eqn:Es; [|exact Hb].
  apply img_write_bytes_ok; [exact Hb|]. exact (step_write_bytes _ _ _ _ _ _ _ Ho Es).
Qed.

Lemma free_decoded im x : 2 <= x < total + 2 -> val_ft ft (store_of g im) x = Free -> fat_val g im x = FFree.
Proof.
  intros R E. pose proof (fat_val_store g im x (range_small g x Hok R)) as F. fold ft in F. rewrite E in F.
  destruct (fat_val g im x); cbn [fatv_of] in F; try discriminate. reflexivity.
Qed.

(* ONE STEP: the machine's step refines the byte-array machine where the abstraction is the decoder's view of the
   image; the invariant is kept; the image changes only inside the table copies of the FAT store and inside clusters
   of the new chain, each of which was in the old chain or was free for the decoder *)
Theorem vol_step_refines im fi h sz l op :
  op_ok op -> VolInv im fi h sz l ->
  exists im' fi' h' r sz' l', vol_step g (im, fi, h) op = ((im', fi', h'), r) /\
    VolInv im' fi' h' sz' l' /\
    bf_step (vol_content im l sz, h_off h) op r = Some (vol_content im' l' sz', h_off h') /\
    (forall x, In x l' -> In x l \/ fat_val g im x = FFree) /\
    (forall a, ~ in_store_area g a -> (forall c, In c l' -> ~ in_cluster g c a) -> img_get im' a = img_get im a) /\
    (* any OTHER file of the image (its handle state [h2], disjoint chain) keeps invariant, chain and decoded content *)
    (forall h2 sz2 l2, VFileInv (world_of g im fi) h2 sz2 l2 -> NoBad (world_of g im fi) l2 -> disjoint l l2 ->
       VFileInv (world_of g im' fi') h2 sz2 l2 /\ NoBad (world_of g im' fi') l2 /\
       vol_content im' l2 sz2 = vol_content im l2 sz2 /\ disjoint l' l2).
Proof.
  intros Ho (Hb & W & I & NB).
  destruct (vstep_core (world_of g im fi) h sz l op W I NB)
    as (w' & h' & r & sz' & l' & Hs & W' & I' & NB' & Hbf & Hl' & Hds & G & Hout & Hvfr & Hoth).
  set (im' := data_effect g (fs_img (w_fat fstore w')) h h' op r).
  assert (Embeds im' w') as E'.
  { apply (embeds_step im (fs_img (w_fat fstore w')) (world_of g im fi) w' h h' op r (embeds_world_of im fi) G Hds).
    - intros cc Hc. apply (inv_range _ _ _ _ _ _ _ _ I' cc). exact (inv_cur_in _ _ _ _ _ _ _ _ _ I' Hc).
    - intros a _. reflexivity.
    - intros a Ha. exact (Hout a Ha). }
  assert (bytes_ok im') as Hb'.
  { apply data_effect_bytes_ok; [exact Ho|]. destruct W' as ((_ & _ & _ & B) & _). exact B. }
  destruct (embeds_transfer im' w' h' sz' l' Hb' E' W' I') as (W2 & I2 & Hc2 & NB2).
  exists im', (w_fi fstore w'), h', r, sz', l'.
  split.
  { unfold vol_step. fold ft csz total. rewrite Hs. reflexivity. }
  split; [split; [exact Hb'|split; [exact W2|split; [exact I2|exact (NB2 NB')]]]|].
  split; [|split; [|split]].
  - rewrite <- (content_world_of im fi), <- (content_world_of im' (w_fi fstore w')), Hc2. exact Hbf.
  - intros x Hx. destruct (Hl' x Hx) as [Hin|(Hf & R)]; [left; exact Hin|right]. apply free_decoded; assumption.
  - intros a Ha Hcl. unfold im'. rewrite (data_effect_frame _ _ _ _ _ _ _ _ _ a Hds I' Hcl). exact (Hout a Ha).
  - intros h2 sz2 l2 J2 NBo D. destruct (Hoth h2 sz2 l2 J2 D) as (J2' & Hco & D').
    assert (forall x, In x l2 -> 2 <= x < total + 2) as Hr2 by (intros x Hx; apply (inv_range _ _ _ _ _ _ _ _ J2 x Hx)).
    split; [|split; [|split; [|exact D']]].
    + apply (FileInv_frame fstore (val_ft ft) csz total w' _ h2 sz2 l2 J2'). intros x Hx. cbn [world_of w_fat].
      apply embeds_val_range; [exact E'|exact (Hr2 x Hx)].
    + intros x Hx. cbn [world_of w_fat]. rewrite (embeds_val_range im' w' x E' (Hr2 x Hx)).
      rewrite (Hvfr x (fun Hin => D x Hin Hx) (fun Hin => D' x Hin Hx) (Hr2 x Hx)). exact (NBo x Hx).
    + rewrite <- (content_world_of im fi), <- Hco. unfold vol_content, content.
      rewrite (cat_chain_bytes im' w' l2 E' Hr2). reflexivity.
Qed.

(* the same frame through the region classifier of Spec/Regions.v (the one that judges every device write in C11):
   a byte that changes is classified "FAT copy k" or "cluster c" for a cluster of the new chain *)
Lemma in_store_area_dec a : in_store_area g a \/ ~ in_store_area g a.
Proof.
  unfold in_store_area. destruct (N.le_gt_cases (vol_base g) a) as [H1|H1]; [|right; lia].
  destruct (N.lt_ge_cases a (vol_base g + N.of_nat (vol_mirrors g) * g_fat_bytes g)) as [H2|H2]; [left; lia|right; lia].
Qed.

Lemma in_cluster_list_dec a : forall l, (exists c, In c l /\ in_cluster g c a) \/ (forall c, In c l -> ~ in_cluster g c a).
Proof.
  induction l as [|c l IH]; [right; intros c []|].
  assert (in_cluster g c a \/ ~ in_cluster g c a) as [Hc|Hc].
  { unfold in_cluster. destruct (N.le_gt_cases (g_cluster_off g c) a) as [H1|H1]; [|right; lia].
    destruct (N.lt_ge_cases a (g_cluster_off g c + g_cluster_size g)) as [H2|H2]; [left; lia|right; lia]. }
  - left. exists c. split; [left; reflexivity|exact Hc].
  - destruct IH as [(c' & Hin & Hc')|Hn]; [left; exists c'; split; [right; exact Hin|exact Hc']|].
    right. intros c' [<-|Hin]; [exact Hc|exact (Hn c' Hin)].
Qed.

Lemma fat_bytes_pos : 0 < g_fat_bytes g.
Proof. destruct Hok as (_ & _ & Hf). fold ft in Hf. destruct ft; cbn [fat_fits] in Hf; unfold off12 in Hf; lia. Qed.

Lemma store_area_classified im m a : in_store_area g a -> exists k, k < g_fats g /\ Regions.classify g im m a = Regions.RFat k.
Proof.
  intros [H1 H2]. pose proof fat_bytes_pos as Hp. destruct Hok as (Hs & Ha & _).
  unfold vol_base, vol_mirrors, g_active in *. destruct (g_mirroring g).
  - rewrite N2Nat.id in H2. set (d := a - g_fat_off g 0).
    exists (d / g_fat_bytes g). assert (d / g_fat_bytes g < g_fats g) as Hk by (apply N.div_lt_upper_bound; lia).
    split; [exact Hk|].
    replace a with (g_fat_off g (d / g_fat_bytes g) + d mod g_fat_bytes g).
    + apply classify_fat_bytes; [exact Hs|exact Hk|apply N.mod_lt; lia].
    + pose proof (N.div_mod d (g_fat_bytes g) ltac:(lia)) as E. unfold g_fat_off, g_fat_bytes in *. nia.
  - change (N.of_nat 1) with 1 in H2. set (k := g_ext_flags g mod 16) in *.
    exists k. split; [exact Ha|]. replace a with (g_fat_off g k + (a - g_fat_off g k)) by lia.
    apply classify_fat_bytes; [exact Hs|exact Ha|lia].
Qed.

Lemma frame_classified im im' l' m :
  (forall a, ~ in_store_area g a -> (forall c, In c l' -> ~ in_cluster g c a) -> img_get im' a = img_get im a) ->
  (forall c, In c l' -> 2 <= c < total + 2) ->
  forall a, img_get im' a <> img_get im a ->
    (exists k, k < g_fats g /\ Regions.classify g im m a = Regions.RFat k) \/
    (exists c, In c l' /\ Regions.classify g im m a = Regions.RCluster c (Regions.cluster_owner g im m c)).
Proof.
  intros Hfr Hr a Hne. destruct (in_store_area_dec a) as [Ha|Ha]; [left; apply store_area_classified; exact Ha|].
  destruct (in_cluster_list_dec a l') as [(c & Hin & H1 & H2)|Hn]; [|exfalso; apply Hne; apply Hfr; assumption].
  right. exists c. split; [exact Hin|].
  replace a with (g_cluster_off g c + (a - g_cluster_off g c)) by lia.
  apply classify_cluster_bytes; [apply Hok|exact (Hr c Hin)|lia].
Qed.

Theorem vol_step_changes_classified im fi h sz l op :
  op_ok op -> VolInv im fi h sz l ->
  exists im' fi' h' r, vol_step g (im, fi, h) op = ((im', fi', h'), r) /\
    forall m a, img_get im' a <> img_get im a ->
      (exists k, k < g_fats g /\ Regions.classify g im m a = Regions.RFat k) \/
      (exists c, (In c l \/ fat_val g im c = FFree) /\
                 Regions.classify g im m a = Regions.RCluster c (Regions.cluster_owner g im m c)).
Proof.
  intros Ho V. destruct (vol_step_refines im fi h sz l op Ho V) as (im' & fi' & h' & r & sz' & l' & Hs & V' & _ & Hl' & Hfr & _).
  exists im', fi', h', r. split; [exact Hs|]. intros m a Hne.
  destruct V' as (_ & _ & I' & _).
  destruct (frame_classified im im' l' m Hfr (fun c Hc => proj1 (inv_range _ _ _ _ _ _ _ _ I' c Hc)) a Hne) as [H|(c & Hin & Hc)];
    [left; exact H|right]. exists c. split; [exact (Hl' c Hin)|exact Hc].
Qed.

(* what the invariant says to the decoder *)
Theorem vol_inv_decodes im fi h sz l : VolInv im fi h sz l -> chain_decodes im (h_first h) l.
Proof.
  intros (_ & _ & I & NB). exact (proj1 (decode_static im (world_of g im fi) h sz l (embeds_world_of im fi) I NB)).
Qed.

(* HISTORIES *)
Theorem vol_run_refines : forall ops im fi h sz l,
  Forall op_ok ops -> VolInv im fi h sz l ->
  exists im' fi' h' rs sz' l', vol_run g (im, fi, h) ops = ((im', fi', h'), rs) /\
    VolInv im' fi' h' sz' l' /\
    bf_run (vol_content im l sz, h_off h) ops rs = Some (vol_content im' l' sz', h_off h') /\
    chain_decodes im' (h_first h') l'.
Proof.
  induction ops as [|o ops IH]; intros im fi h sz l Hf V.
  - exists im, fi, h, [], sz, l. split; [reflexivity|]. split; [exact V|]. split; [reflexivity|]. exact (vol_inv_decodes _ _ _ _ _ V).
  - inversion Hf as [|? ? Ho Hf']; subst.
    destruct (vol_step_refines im fi h sz l o Ho V) as (im1 & fi1 & h1 & r & sz1 & l1 & Hs & V1 & Hb & _).
    destruct (IH im1 fi1 h1 sz1 l1 Hf' V1) as (im2 & fi2 & h2 & rs & sz2 & l2 & Hr & V2 & Hbr & Hd).
    exists im2, fi2, h2, (r :: rs), sz2, l2. split.
    + cbn [vol_run]. rewrite Hs, Hr. reflexivity.
    + split; [exact V2|]. split; [|exact Hd]. cbn [bf_run]. rewrite Hb. exact Hbr.
Qed.

(* EXTENTS: the byte ranges the file reports, read straight from the image, concatenate to the content *)
Lemma read_ranges_ext_bytes im : forall ex, (forall e, In e ex -> snd e <= csz) ->
  read_ranges im (map (fun e => (g_cluster_off g (fst e), snd e)) ex) = ext_bytes (cluster_bytes g im) ex.
Proof.
  induction ex as [|e ex IH]; intros H; [reflexivity|].
  unfold read_ranges, ext_bytes. cbn [map flat_map concat fst snd].
  fold (read_ranges im (map (fun e => (g_cluster_off g (fst e), snd e)) ex)). fold (ext_bytes (cluster_bytes g im) ex).
  rewrite IH by (intros e' He'; apply H; right; exact He'). f_equal.
  unfold cluster_bytes. fold csz. symmetry. apply firstn_img_read. specialize (H e (or_introl eq_refl)). lia.
Qed.

Theorem vol_extents_spec im fi h sz l :
  VolInv im fi h sz l ->
  exists ex, file_extents fstore (fat_get ft) csz total (world_of g im fi) h = Ok ex /\
    vol_extents g (im, fi, h) = Ok (map (fun e => (g_cluster_off g (fst e), snd e)) ex) /\
    map fst ex = l /\ ext_total ex = sz /\ (forall e, In e ex -> 0 <= snd e <= csz) /\
    read_ranges im (map (fun e => (g_cluster_off g (fst e), snd e)) ex) = vol_content im l sz.
Proof.
  intros (Hb & W & I & NB). pose proof (vol_mirrors_pos g Hok) as Hm. pose proof (cs_pos g Hok) as Hcs.
  destruct Hrange as (Hokc & Hokd).
  destruct (file_extents_spec fstore (fat_get ft) (fat_set ft) (val_ft ft) (okcg ft (g_fat_bytes g)) (okv_ft ft) vinv
              (lawg_get ft _ _ _) (lawg_set ft _ _ _ Hm) csz total Hcs Hokc Hokd (world_of g im fi) h sz l W I)
    as (ex & He & Hfst & Htot & Hbytes & Hsz).
  exists ex. split; [exact He|]. split; [|split; [exact Hfst|split; [exact Htot|split; [exact Hsz|]]]].
  - unfold vol_extents. fold ft csz total. rewrite He. reflexivity.
  - rewrite read_ranges_ext_bytes by (intros e He'; apply (Hsz e He')).
    rewrite <- (content_world_of im fi). exact Hbytes.
Qed.

(* ================================================================ 7d. replay of plain FileM steps (any embedded world) *)
Lemma fat_sync_len s : N.of_nat (length (img_read (fs_img s) (vol_base g) (vol_mirrors g * N.to_nat (g_fat_bytes g))))
                       = N.of_nat (vol_mirrors g) * g_fat_bytes g.
Proof. rewrite img_read_length. lia. Qed.

Lemma fat_sync_in s im a : in_store_area g a -> img_get (fat_sync g s im) a = img_get (fs_img s) a.
Proof.
  intros [H1 H2]. unfold fat_sync.
  replace a with (vol_base g + N.of_nat (N.to_nat (a - vol_base g))) at 1 by lia.
  rewrite img_write_inside by (rewrite img_read_length; lia).
  rewrite img_read_nth by lia. f_equal. lia.
Qed.

Lemma fat_sync_out s im a : ~ in_store_area g a -> img_get (fat_sync g s im) a = img_get im a.
Proof.
  intros H. unfold fat_sync. apply img_write_outside. rewrite fat_sync_len. unfold in_store_area in H. lia.
Qed.

(* every FileM step from an embedded world can be replayed on the image: [img_effect] (table area of the new store,
   all mirrored copies, then the data bytes at their cluster offset) yields an image that embeds the new world *)
Theorem embed_step im w h sz l op :
  Embeds im w -> VWorldInv w -> VFileInv w h sz l -> NoBad w l ->
  exists w' h' r sz' l', file_step fstore (fat_get ft) (fat_set ft) csz total w h op = (w', h', r) /\
    VWorldInv w' /\ VFileInv w' h' sz' l' /\ NoBad w' l' /\
    bf_step (content fstore w l sz, h_off h) op r = Some (content fstore w' l' sz', h_off h') /\
    Embeds (img_effect g im w' h h' op r) w' /\
    (forall x, In x l' -> In x l \/ fat_val g im x = FFree) /\
    (forall a, ~ in_store_area g a -> (forall c, In c l' -> ~ in_cluster g c a) ->
       img_get (img_effect g im w' h h' op r) a = img_get im a).
Proof.
  intros E W I NB.
  destruct (vstep_core w h sz l op W I NB)
    as (w' & h' & r & sz' & l' & Hs & W' & I' & NB' & Hbf & Hl' & Hds & G & Hout & _ & _).
  exists w', h', r, sz', l'. split; [exact Hs|]. split; [exact W'|]. split; [exact I'|]. split; [exact NB'|].
  split; [exact Hbf|]. split; [|split].
  - unfold img_effect. apply (embeds_step im (fat_sync g (w_fat fstore w') im) w w' h h' op r E G Hds).
    + intros cc Hc. apply (inv_range _ _ _ _ _ _ _ _ I' cc). exact (inv_cur_in _ _ _ _ _ _ _ _ _ I' Hc).
    + intros a Ha. apply fat_sync_in. exact Ha.
    + intros a Ha. apply fat_sync_out. exact Ha.
  - intros x Hx. destruct (Hl' x Hx) as [Hin|(Hf & R)]; [left; exact Hin|right].
    apply free_decoded; [exact R|]. rewrite (embeds_val_range im w x E R). exact Hf.
  - intros a Ha Hcl. unfold img_effect. rewrite (data_effect_frame _ _ _ _ _ _ _ _ _ a Hds I' Hcl).
    apply fat_sync_out. exact Ha.
Qed.

Theorem embed_run : forall ops im w h sz l,
  Embeds im w -> VWorldInv w -> VFileInv w h sz l -> NoBad w l ->
  exists w' h' rs sz' l', file_run fstore (fat_get ft) (fat_set ft) csz total w h ops = (w', h', rs) /\
    VWorldInv w' /\ VFileInv w' h' sz' l' /\ NoBad w' l' /\
    Embeds (img_run g im w h ops) w' /\
    bf_run (vol_content im l sz, h_off h) ops rs = Some (vol_content (img_run g im w h ops) l' sz', h_off h') /\
    chain_decodes (img_run g im w h ops) (h_first h') l'.
Proof.
  induction ops as [|o ops IH]; intros im w h sz l E W I NB.
  - exists w, h, [], sz, l. split; [reflexivity|]. split; [exact W|]. split; [exact I|]. split; [exact NB|].
    cbn [img_run]. split; [exact E|]. split; [reflexivity|]. exact (proj1 (decode_static im w h sz l E I NB)).
  - destruct (embed_step im w h sz l o E W I NB) as (w1 & h1 & r & sz1 & l1 & Hs & W1 & I1 & NB1 & Hb & E1 & _).
    destruct (IH _ w1 h1 sz1 l1 E1 W1 I1 NB1) as (w2 & h2 & rs & sz2 & l2 & Hr & W2 & I2 & NB2 & E2 & Hbr & Hd).
    exists w2, h2, (r :: rs), sz2, l2. split.
    + cbn [file_run]. rewrite Hs, Hr. reflexivity.
    + split; [exact W2|]. split; [exact I2|]. split; [exact NB2|].
      cbn [img_run]. fold ft csz total. rewrite Hs.
      split; [exact E2|]. split; [|exact Hd]. cbn [bf_run].
      rewrite (proj2 (decode_static im w h sz l E I NB)), Hb.
      rewrite <- (proj2 (decode_static _ w1 h1 sz1 l1 E1 I1 NB1)). exact Hbr.
Qed.

(* an embedded world is a state of the image-level machine *)
Theorem embeds_vol_inv im w h sz l :
  bytes_ok im -> Embeds im w -> VWorldInv w -> VFileInv w h sz l -> NoBad w l -> VolInv im (w_fi fstore w) h sz l.
Proof.
  intros Hb E W I NB. destruct (embeds_transfer im w h sz l Hb E W I) as (W2 & I2 & _ & NB2).
  split; [exact Hb|]. split; [exact W2|]. split; [exact I2|exact (NB2 NB)].
Qed.

(* a freshly created (empty) file on any image whose FS-info latch is consistent *)
Theorem vol_inv_empty im fi :
  bytes_ok im -> fi_inv fstore (val_ft ft) (store_of g im) fi total -> VolInv im fi empty_file 0 [].
Proof.
  intros Hb Hfi. pose proof (cs_pos g Hok) as Hcs. split; [exact Hb|]. split; [|split].
  - split; [|split; [exact Hfi|intros c; apply cluster_bytes_length]].
    unfold vinv, inv_g, store_of. cbn [world_of w_fat fs_base fs_size fs_mirrors fs_img]. repeat split. exact Hb.
  - constructor; cbn.
    + eexists. split; [reflexivity|]. split; reflexivity.
    + unfold u32_max. lia.
    + reflexivity.
    + constructor.
    + intros x [].
    + rewrite (cdiv_0 csz Hcs). reflexivity.
    + lia.
    + reflexivity.
  - intros x [].
Qed.

Theorem vol_run_from_empty ops im fi :
  bytes_ok im -> fi_inv fstore (val_ft ft) (store_of g im) fi total -> Forall op_ok ops ->
  exists im' fi' h' rs sz' l', vol_run g (im, fi, empty_file) ops = ((im', fi', h'), rs) /\
    VolInv im' fi' h' sz' l' /\
    bf_run ([], 0) ops rs = Some (vol_content im' l' sz', h_off h') /\
    chain_decodes im' (h_first h') l'.
Proof.
  intros Hb Hfi Hf. exact (vol_run_refines ops im fi empty_file 0 [] Hf (vol_inv_empty im fi Hb Hfi)).
Qed.
End Vol.
