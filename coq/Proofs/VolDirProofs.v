(* VolDirProofs.v: the fixed root directory of a FAT12/16 volume, from the slot layer (Model/DirSlots.v, proved against
   Abs.dir_scan in Proofs/DirSlotsProofs.v) up to whole images decoded by Spec/Abs.abs  (Model/VolDir.v).
   1. slots <-> bytes: chunk32 / slots_of / concat; the root region of an image as slots and back
   2. put_root_slots: what it changes (only bytes of slots that differ) and what it reads back
   3. the decoder reads everything but the root slots OUTSIDE the root region: parse_geom, FAT entries, chains, cluster
      bytes, decode_entries, lost_from, count_free are unchanged by any change confined to the root region
      ([fixed_root_geom]: the facts about the geometry this needs)
   4. abs of an image whose root region was replaced
   5. the slot-layer functions keep the shape of the region (number of slots, 32 bytes each)
   6. the operations of Model/VolDir.v: frame (a), geometry (b), decode (c) for create / remove / rename, failures *)
From Coq Require Import NArith ZArith Lia List Bool Arith FMapPositive.
From FatVerif Require Import Model.Base Model.Str Model.Slot Model.Time Model.Name Model.ShortName Model.DirSlots
  Spec.Image Spec.Abs Spec.Regions Model.VolDir Proofs.ImageProofs Proofs.NameProofs Proofs.ShortNameProofs
  Proofs.DirSlotsProofs Proofs.RegionsProofs.
From FatVerif Require Model.Lfn Spec.Wf Proofs.TimeProofs Proofs.LfnProofs.
Import ListNotations.
Open Scope N_scope.
Ltac Zify.zify_post_hook ::= Z.to_euclidean_division_equations.

(* ================================================================ 1. slots <-> bytes *)
Definition len32 (s : list N) : Prop := length s = 32%nat.
Definition shape (n : nat) (ss : slots) : Prop := length ss = n /\ Forall len32 ss.

Lemma concat_len32 ss : Forall len32 ss -> length (concat ss) = (32 * length ss)%nat.
Proof.
  induction ss as [|s r IH]; intros H; [reflexivity|]. inversion H as [|? ? H1 H2]; subst.
  cbn [concat length]. rewrite app_length, IH by exact H2. unfold len32 in H1. lia.
Qed.

Lemma firstn_app_exact {A} (a b : list A) : firstn (length a) (a ++ b) = a.
Proof. induction a as [|x a IH]; cbn [length firstn app]; [destruct b; reflexivity|rewrite IH; reflexivity]. Qed.
Lemma skipn_app_exact {A} (a b : list A) : skipn (length a) (a ++ b) = b.
Proof. induction a as [|x a IH]; cbn [length skipn app]; [reflexivity|exact IH]. Qed.

Lemma chunk32_concat : forall ss fuel, Forall len32 ss -> (length ss <= fuel)%nat -> chunk32 (concat ss) fuel = ss.
Proof.
  induction ss as [|s r IH]; intros fuel H Hf.
  - destruct fuel; reflexivity.
  - inversion H as [|? ? H1 H2]; subst. cbn [length] in Hf. destruct fuel as [|f]; [lia|].
    cbn [concat chunk32]. unfold len32 in H1.
    destruct s as [|b s']; [discriminate|]. cbn [app].
    change (b :: s' ++ concat r) with ((b :: s') ++ concat r).
    rewrite <- H1. rewrite firstn_app_exact, skipn_app_exact. f_equal. apply IH; [exact H2|lia].
Qed.

Lemma slots_of_concat ss : Forall len32 ss -> slots_of (concat ss) = ss.
Proof.
  intros H. unfold slots_of. apply chunk32_concat; [exact H|]. rewrite concat_len32 by exact H.
  replace (32 * length ss)%nat with (length ss * 32)%nat by lia. rewrite Nat.div_mul by lia. lia.
Qed.

Lemma chunk32_of_len : forall n bs fuel, length bs = (32 * n)%nat -> (n <= fuel)%nat ->
  shape n (chunk32 bs fuel) /\ concat (chunk32 bs fuel) = bs.
Proof.
  induction n as [|n IH]; intros bs fuel Hl Hf.
  - destruct bs; [|discriminate]. destruct fuel; (split; [split; [reflexivity|constructor]|reflexivity]).
  - destruct fuel as [|f]; [lia|]. destruct bs as [|b bs']; [discriminate|]. cbn [chunk32].
    set (l := b :: bs') in *.
    assert (length (firstn 32 l) = 32%nat) as H1 by (rewrite firstn_length; lia).
    assert (length (skipn 32 l) = (32 * n)%nat) as H2 by (rewrite skipn_length; lia).
    destruct (IH (skipn 32 l) f H2 ltac:(lia)) as [[S1 S2] S3].
    split; [split|].
    + cbn [length]. rewrite S1. reflexivity.
    + constructor; [exact H1|exact S2].
    + cbn [concat]. rewrite S3. apply firstn_skipn.
Qed.

Lemma img_read_length im n : forall off, length (img_read im off n) = n.
Proof. induction n as [|n IH]; intros off; cbn [img_read length]; [reflexivity|rewrite IH; reflexivity]. Qed.

Lemma img_read_nth im n : forall off i, (i < n)%nat -> nth i (img_read im off n) 0 = img_get im (off + N.of_nat i).
Proof.
  induction n as [|n IH]; intros off i H; [lia|]. cbn [img_read]. destruct i as [|i].
  - cbn [nth]. f_equal. lia.
  - cbn [nth]. rewrite IH by lia. f_equal. lia.
Qed.

Lemma list_eq_nth (a b : list N) : length a = length b -> (forall i, (i < length a)%nat -> nth i a 0 = nth i b 0) -> a = b.
Proof.
  revert b. induction a as [|x a IH]; intros [|y b] Hl H; cbn [length] in *; try lia; [reflexivity|].
  f_equal; [exact (H 0%nat ltac:(lia))|]. apply IH; [lia|]. intros i Hi. exact (H (S i) ltac:(lia)).
Qed.

Lemma img_read_eq im off n bs : length bs = n ->
  (forall i, (i < n)%nat -> img_get im (off + N.of_nat i) = nth i bs 0) -> img_read im off n = bs.
Proof.
  intros Hl H. apply list_eq_nth; [rewrite img_read_length; lia|].
  intros i Hi. rewrite img_read_length in Hi. rewrite img_read_nth by exact Hi. apply H. exact Hi.
Qed.

(* reading depends only on the bytes read *)
Lemma img_read_ext im im' n : forall off,
  (forall i, (i < n)%nat -> img_get im' (off + N.of_nat i) = img_get im (off + N.of_nat i)) ->
  img_read im' off n = img_read im off n.
Proof.
  intros off H. apply img_read_eq; [apply img_read_length|]. intros i Hi. rewrite img_read_nth by exact Hi. apply H. exact Hi.
Qed.

Definition root_slot_count (g : geom) : nat := N.to_nat (g_root_entries g).

Lemma root_bytes_nat g : N.to_nat (root_bytes g) = (32 * root_slot_count g)%nat.
Proof. unfold root_bytes, root_slot_count. lia. Qed.

(* the region read as slots: g_root_entries slots of 32 bytes, and they are the bytes of the region *)
Lemma root_region_shape g im :
  shape (root_slot_count g) (root_region_slots g im) /\
  concat (root_region_slots g im) = img_read im (g_root_off g) (N.to_nat (root_bytes g)).
Proof.
  unfold root_region_slots, slots_of. apply chunk32_of_len.
  - rewrite img_read_length. apply root_bytes_nat.
  - rewrite img_read_length, root_bytes_nat.
    replace (32 * root_slot_count g)%nat with (root_slot_count g * 32)%nat by lia. rewrite Nat.div_mul by lia. lia.
Qed.

Lemma nth_concat32 : forall ss k j, Forall len32 ss -> (k < length ss)%nat -> (j < 32)%nat ->
  nth (32 * k + j) (concat ss) 0 = nth j (nth k ss []) 0.
Proof.
  induction ss as [|s r IH]; intros k j H Hk Hj; cbn [length] in Hk; [lia|].
  inversion H as [|? ? H1 H2]; subst. unfold len32 in H1. cbn [concat]. destruct k as [|k].
  - cbn [nth]. rewrite Nat.mul_0_r, Nat.add_0_l. apply app_nth1. lia.
  - cbn [nth]. rewrite app_nth2 by lia. replace (32 * S k + j - length s)%nat with (32 * k + j)%nat by lia.
    apply IH; [exact H2|lia|exact Hj].
Qed.

(* the bytes of slot k of the region *)
Lemma root_region_slot_bytes g im k j : (k < root_slot_count g)%nat -> (j < 32)%nat ->
  nth j (nth k (root_region_slots g im) []) 0 = img_get im (g_root_off g + N.of_nat (32 * k + j)).
Proof.
  intros Hk Hj. destruct (root_region_shape g im) as [[S1 S2] S3].
  rewrite <- nth_concat32 by (try assumption; lia). rewrite S3. apply img_read_nth. rewrite root_bytes_nat. lia.
Qed.

(* ================================================================ 2. put_root_slots *)

(* nothing outside the written bytes changes *)
Lemma put_root_slots_outside g im ss o : shape (root_slot_count g) ss ->
  (o < g_root_off g \/ g_root_off g + root_bytes g <= o) -> img_get (put_root_slots g im ss) o = img_get im o.
Proof.
  intros [S1 S2] H. unfold put_root_slots. apply img_write_outside. rewrite concat_len32 by exact S2. rewrite S1.
  rewrite <- root_bytes_nat. lia.
Qed.

(* byte j of slot k afterwards is byte j of the k-th slot written *)
Lemma put_root_slots_get g im ss k j : shape (root_slot_count g) ss -> (k < root_slot_count g)%nat -> (j < 32)%nat ->
  img_get (put_root_slots g im ss) (g_root_off g + N.of_nat (32 * k + j)) = nth j (nth k ss []) 0.
Proof.
  intros [S1 S2] Hk Hj. unfold put_root_slots. rewrite img_write_inside by (rewrite concat_len32 by exact S2; lia).
  apply nth_concat32; [exact S2|lia|exact Hj].
Qed.

(* THE harmlessness of rewriting the whole region: a byte differs from the image before only if it lies in a slot of the
   region whose content differs from what the region held at that index; slots written back unchanged change nothing *)
Theorem put_root_slots_changes g im ss o : shape (root_slot_count g) ss ->
  img_get (put_root_slots g im ss) o <> img_get im o ->
  exists k j, (k < root_slot_count g)%nat /\ (j < 32)%nat /\ o = g_root_off g + N.of_nat (32 * k + j) /\
              nth k ss [] <> nth k (root_region_slots g im) [] /\
              img_get (put_root_slots g im ss) o = nth j (nth k ss []) 0.
Proof.
  intros Hs Hne.
  destruct (N.lt_ge_cases o (g_root_off g)) as [Hlo|Hlo];
    [exfalso; apply Hne; apply put_root_slots_outside; [exact Hs|left; exact Hlo]|].
  destruct (N.lt_ge_cases o (g_root_off g + root_bytes g)) as [Hhi|Hhi];
    [|exfalso; apply Hne; apply put_root_slots_outside; [exact Hs|right; exact Hhi]].
  set (d := N.to_nat (o - g_root_off g)).
  assert (d < 32 * root_slot_count g)%nat as Hd by (rewrite <- root_bytes_nat; unfold d; lia).
  exists (d / 32)%nat, (d mod 32)%nat.
  pose proof (Nat.div_mod d 32 ltac:(lia)) as Hdm. pose proof (Nat.mod_upper_bound d 32 ltac:(lia)) as Hm.
  assert (d / 32 < root_slot_count g)%nat as Hk by (apply Nat.div_lt_upper_bound; lia).
  assert (o = g_root_off g + N.of_nat (32 * (d / 32) + d mod 32)) as Ho by (rewrite <- Hdm; unfold d; lia).
  split; [exact Hk|]. split; [exact Hm|]. split; [exact Ho|].
  assert (img_get (put_root_slots g im ss) o = nth (d mod 32) (nth (d / 32) ss []) 0) as Hget.
  { rewrite Ho at 1. apply put_root_slots_get; assumption. }
  split; [|exact Hget].
  intros E. apply Hne. rewrite Hget, E. rewrite root_region_slot_bytes by assumption. rewrite <- Ho. reflexivity.
Qed.

(* writing the region back as it is changes no byte at all *)
Corollary put_root_slots_same g im o : img_get (put_root_slots g im (root_region_slots g im)) o = img_get im o.
Proof.
  destruct (N.eq_dec (img_get (put_root_slots g im (root_region_slots g im)) o) (img_get im o)) as [E|E]; [exact E|].
  destruct (put_root_slots_changes g im _ o (proj1 (root_region_shape g im)) E) as (k & j & _ & _ & _ & C & _).
  exfalso. apply C. reflexivity.
Qed.

(* what the decoder reads back from the region afterwards *)
Lemma root_region_put g im ss : shape (root_slot_count g) ss -> root_region_slots g (put_root_slots g im ss) = ss.
Proof.
  intros [S1 S2]. unfold root_region_slots.
  assert (img_read (put_root_slots g im ss) (g_root_off g) (N.to_nat (root_bytes g)) = concat ss) as ->.
  { apply img_read_eq; [rewrite concat_len32 by exact S2; rewrite S1; symmetry; apply root_bytes_nat|].
    intros i Hi. unfold put_root_slots. apply img_write_inside. rewrite concat_len32 by exact S2. rewrite S1, <- root_bytes_nat. exact Hi. }
  apply slots_of_concat. exact S2.
Qed.

(* ================================================================ 3. what the decoder reads outside the root region *)

(* one FAT copy must hold an entry for every cluster: bytes of the table the decoder may read *)
Definition fat_bytes_needed (g : geom) : N :=
  if g_bits g =? 12 then ((g_clusters g + 2) * 3 + 1) / 2 else (g_clusters g + 2) * 2.

(* a sane FAT12/FAT16 geometry.  Non-vacuous: every volume format_volume makes with a root that fills its sectors
   (Proofs/VolDirFormat.formatted_fixed_root_geom); the 64-sector example below. *)
Record fixed_root_geom (g : geom) : Prop := {
  fg_bits : g_bits g <> 32;                        (* FAT12 or FAT16: the root directory is the fixed region *)
  fg_bps : 512 <= g_bps g;
  fg_spc : 1 <= g_spc g;
  fg_reserved : 1 <= g_reserved g;                 (* the boot sector *)
  fg_fats : 1 <= g_fats g;
  fg_root : g_root_entries g < 65536;
  fg_fill : root_fills_sectors g;                  (* the decoder's region = the library's DiskSlice (Model/VolDir.v) *)
  fg_fat : fat_bytes_needed g <= g_fat_bytes g;    (* every cluster has its entry inside one FAT copy *)
  fg_vol : g_first_data g <= g_total_sectors g }.

Lemma fixed_root_sane g : fixed_root_geom g -> geom_sane g.
Proof. intros [? ? ? ? ? ? ? ? ?]. unfold geom_sane. repeat split; try lia; assumption. Qed.

Lemma g_bits_cases g : g_bits g = 12 \/ g_bits g = 16 \/ g_bits g = 32.
Proof. unfold g_bits. destruct (g_clusters g <? 4085); [auto|]. destruct (g_clusters g <? 65525); auto. Qed.

Lemma g_active_fixed g : g_bits g <> 32 -> g_active g = 0.
Proof.
  intros H. unfold g_active, g_mirroring. apply N.eqb_neq in H. rewrite H. reflexivity.
Qed.

Lemma root_off_ge g : fixed_root_geom g -> 512 <= g_root_off g.
Proof. intros [? ? ? ? ? ? ? ? ?]. unfold g_root_off. nia. Qed.

(* the first FAT copy ends before the root region *)
Lemma fat0_before_root g : 1 <= g_fats g -> g_fat_off g 0 + g_fat_bytes g <= g_root_off g.
Proof. intros H. unfold g_fat_off, g_fat_bytes, g_root_off. nia. Qed.

Lemma root_sectors_cover g : 1 <= g_bps g -> root_bytes g <= g_root_sectors g * g_bps g.
Proof. intros H. unfold root_bytes, g_root_sectors. lia. Qed.

(* every data cluster lies behind the root region *)
Lemma cluster_after_root g c : 1 <= g_bps g -> g_root_off g + root_bytes g <= g_cluster_off g c.
Proof.
  intros H. pose proof (root_sectors_cover g H) as Hc. unfold g_cluster_off, g_first_data, g_root_off in *.
  set (rs := g_root_sectors g) in *. nia.
Qed.

(* [im'] holds the bytes of [im] everywhere but in the root region *)
Definition same_outside_root (g : geom) (im im' : image) : Prop :=
  forall o, (o < g_root_off g \/ g_root_off g + root_bytes g <= o) -> img_get im' o = img_get im o.

Lemma parse_geom_frame g im im' : 64 <= g_root_off g -> same_outside_root g im im' -> parse_geom im' = parse_geom im.
Proof.
  intros Hr H. unfold parse_geom, img_u32, img_u16. rewrite !H by (left; lia). reflexivity.
Qed.

Lemma fat_val_frame g im im' c : fixed_root_geom g -> same_outside_root g im im' -> in_range g c = true ->
  fat_val g im' c = fat_val g im c.
Proof.
  intros Hg H Hc. pose proof (fat0_before_root g (fg_fats g Hg)) as Hb. pose proof (fg_fat g Hg) as Hn.
  unfold in_range in Hc. apply andb_true_iff in Hc. destruct Hc as [C1 C2]. apply N.leb_le in C1. apply N.ltb_lt in C2.
  unfold fat_val. f_equal. unfold fat_raw. rewrite (g_active_fixed g (fg_bits g Hg)).
  unfold fat_bytes_needed in Hn.
  destruct (g_bits g =? 12) eqn:E12.
  - unfold img_u16. rewrite !H by (left; lia). reflexivity.
  - destruct (g_bits g =? 16) eqn:E16.
    + unfold img_u16. rewrite !H by (left; lia). reflexivity.
    + exfalso. apply N.eqb_neq in E12. apply N.eqb_neq in E16. pose proof (fg_bits g Hg).
      destruct (g_bits_cases g) as [?|[?|?]]; contradiction.
Qed.

Lemma chain_from_frame g im im' : fixed_root_geom g -> same_outside_root g im im' ->
  forall fuel c, chain_from g im' c fuel = chain_from g im c fuel.
Proof.
  intros Hg H. induction fuel as [|f IH]; intros c; cbn [chain_from]; [reflexivity|].
  destruct (in_range g c) eqn:R; [|reflexivity]. rewrite (fat_val_frame g im im' c Hg H R).
  destruct (fat_val g im c); try reflexivity. rewrite IH. reflexivity.
Qed.

Lemma cluster_bytes_frame g im im' c : 1 <= g_bps g -> same_outside_root g im im' ->
  cluster_bytes g im' c = cluster_bytes g im c.
Proof.
  intros Hb H. unfold cluster_bytes. apply img_read_ext. intros i _. apply H. right.
  pose proof (cluster_after_root g c Hb). lia.
Qed.

Lemma chain_bytes_frame g im im' l : 1 <= g_bps g -> same_outside_root g im im' ->
  chain_bytes g im' l = chain_bytes g im l.
Proof.
  intros Hb H. unfold chain_bytes. induction l as [|c r IH]; cbn [flat_map]; [reflexivity|].
  rewrite IH, (cluster_bytes_frame g im im' c Hb H). reflexivity.
Qed.

(* the node decoded for one entry *)
Definition node_of (g : geom) (im : image) (d : nat) (e : entry) : node :=
  if e_is_dot e then NDot e
  else if e_is_dir e then
    let ch := if e_cluster e =? 0 then None else chain_from g im (e_cluster e) (chain_fuel g) in
    match ch with
    | Some l =>
      let '(ces, labels, iss) := dir_scan (slots_of (chain_bytes g im l)) 0 [] (g_bits g =? 32) in
      NDir e ch (decode_entries g im d ces) iss labels
    | None => NDir e None [] [] []
    end
  else
    let ch := if e_cluster e =? 0 then None else chain_from g im (e_cluster e) (chain_fuel g) in
    NFile e ch (match ch with Some l => firstn (N.to_nat (e_size e)) (chain_bytes g im l) | None => [] end).

Lemma decode_entries_S g im d es : decode_entries g im (S d) es = map (node_of g im d) es.
Proof. reflexivity. Qed.

(* the decoding of an entry depends only on FAT and data bytes *)
Lemma decode_entries_frame g im im' : fixed_root_geom g -> same_outside_root g im im' ->
  forall d es, decode_entries g im' d es = decode_entries g im d es.
Proof.
  intros Hg H. assert (1 <= g_bps g) as Hb by (pose proof (fg_bps g Hg); lia).
  induction d as [|d IH]; intros es; [reflexivity|].
  rewrite !decode_entries_S. apply map_ext. intros e. unfold node_of.
  rewrite (chain_from_frame g im im' Hg H).
  destruct (e_is_dot e); [reflexivity|].
  destruct (if e_cluster e =? 0 then None else chain_from g im (e_cluster e) (chain_fuel g)) as [l|]; [|reflexivity].
  rewrite (chain_bytes_frame g im im' l Hb H).
  destruct (e_is_dir e); [|reflexivity].
  destruct (dir_scan (slots_of (chain_bytes g im l)) 0 [] (g_bits g =? 32)) as [[ces labels] iss]. rewrite IH. reflexivity.
Qed.

Lemma in_range_intro g x : 2 <= x < g_clusters g + 2 -> in_range g x = true.
Proof. intros H. unfold in_range. apply andb_true_iff. split; [apply N.leb_le|apply N.ltb_lt]; lia. Qed.

(* the FAT as the well-formedness check and the free count read it *)
Lemma lost_from_frame g im im' m : fixed_root_geom g -> same_outside_root g im im' ->
  forall n c, 2 <= c -> c + N.of_nat n <= g_clusters g + 2 -> Wf.lost_from g im' m c n = Wf.lost_from g im m c n.
Proof.
  intros Hg H. induction n as [|n IH]; intros c H2 Hn; cbn [Wf.lost_from]; [reflexivity|].
  rewrite (fat_val_frame g im im' c Hg H) by (apply in_range_intro; lia). rewrite IH by lia. reflexivity.
Qed.

Lemma count_free_from_frame g im im' : fixed_root_geom g -> same_outside_root g im im' ->
  forall n c, 2 <= c -> c + N.of_nat n <= g_clusters g + 2 -> count_free_from g im' c n = count_free_from g im c n.
Proof.
  intros Hg H. induction n as [|n IH]; intros c H2 Hn; cbn [count_free_from]; [reflexivity|].
  rewrite (fat_val_frame g im im' c Hg H) by (apply in_range_intro; lia). rewrite IH by lia. reflexivity.
Qed.

Lemma count_free_frame g im im' : fixed_root_geom g -> same_outside_root g im im' -> count_free g im' = count_free g im.
Proof. intros Hg H. unfold count_free. apply count_free_from_frame; try assumption; lia. Qed.

(* ================================================================ 4. abs of an image with a fixed root *)
Lemma root_slots_fixed g im : g_bits g <> 32 -> root_slots g im = (None, root_region_slots g im).
Proof. intros H. unfold root_slots. apply N.eqb_neq in H. rewrite H. reflexivity. Qed.

(* the decoded volume, given the scan of the root slots *)
Definition abs_fixed (g : geom) (im : image) (es : list entry) (ls : list (list N)) (iss : list dissue) : volume :=
  {| v_geom := g; v_root_chain := None; v_root := decode_entries g im MAX_DEPTH es; v_root_issues := iss; v_labels := ls;
     v_status := img_get im (g_status_off g); v_fsinfo_free := 0; v_fsinfo_next := 0 |}.

Lemma abs_fixed_root im es ls iss : g_bits (parse_geom im) <> 32 ->
  dir_scan (root_region_slots (parse_geom im) im) 0 [] false = (es, ls, iss) ->
  abs im = abs_fixed (parse_geom im) im es ls iss.
Proof.
  intros Hb Hs. unfold abs. cbv zeta. rewrite (root_slots_fixed _ im Hb).
  apply N.eqb_neq in Hb. rewrite Hb. rewrite Hs. reflexivity.
Qed.

Lemma put_same_outside g im ss : shape (root_slot_count g) ss -> same_outside_root g im (put_root_slots g im ss).
Proof. intros Hs o Ho. apply put_root_slots_outside; assumption. Qed.

Lemma g_status_off_fixed g : g_bits g <> 32 -> g_status_off g = 37.
Proof. intros H. unfold g_status_off. apply N.eqb_neq in H. rewrite H. reflexivity. Qed.

(* the image after the root region was replaced by [ss]: same geometry; the root is the scan of [ss], each entry decoded
   against the OLD image (FAT and data bytes are the old ones) *)
Theorem abs_put_root im ss es ls iss : fixed_root_geom (parse_geom im) -> shape (root_slot_count (parse_geom im)) ss ->
  dir_scan ss 0 [] false = (es, ls, iss) ->
  parse_geom (put_root_slots (parse_geom im) im ss) = parse_geom im /\
  abs (put_root_slots (parse_geom im) im ss) = abs_fixed (parse_geom im) im es ls iss.
Proof.
  intros Hg Hs Hscan. set (g := parse_geom im) in *. set (im' := put_root_slots g im ss).
  pose proof (put_same_outside g im ss Hs) as Hout. fold im' in Hout.
  pose proof (root_off_ge g Hg) as Hro.
  assert (parse_geom im' = g) as Hpg by (apply (parse_geom_frame g im im'); [lia|exact Hout]).
  split; [exact Hpg|].
  rewrite (abs_fixed_root im' es ls iss); rewrite Hpg; [|exact (fg_bits g Hg)|unfold im'; rewrite root_region_put by exact Hs; exact Hscan].
  unfold abs_fixed. rewrite (decode_entries_frame g im im' Hg Hout).
  rewrite (g_status_off_fixed g (fg_bits g Hg)). rewrite (Hout 37) by (left; lia). reflexivity.
Qed.

(* ================================================================ 5. the slot layer keeps the shape of a fixed root *)
Lemma set_nth_shape n (s : list N) : len32 s -> forall ss i, shape n ss -> shape n (set_nth i s ss).
Proof.
  intros Hs ss. revert n. induction ss as [|t r IH]; intros n i [S1 S2].
  - destruct i; (split; assumption).
  - inversion S2 as [|? ? T1 T2]; subst. destruct i as [|j]; cbn [set_nth].
    + split; [reflexivity|constructor; assumption].
    + destruct (IH (length r) j (conj eq_refl T2)) as [R1 R2]. split; [cbn [length]; rewrite R1; reflexivity|constructor; assumption].
Qed.

Lemma write_run_fixed_shape n free : forall run ss i r ss', Forall len32 run -> shape n ss ->
  write_run FixedRoot free ss i run = (r, ss') -> shape n ss'.
Proof.
  induction run as [|s run IH]; intros ss i r ss' Hr Hs H; cbn [write_run] in H.
  - injection H as _ <-. exact Hs.
  - inversion Hr as [|? ? R1 R2]; subst. destruct (Nat.ltb i (length ss)).
    + apply (IH _ _ _ _ R2 (set_nth_shape n s R1 ss i Hs) H).
    + injection H as _ <-. exact Hs.
Qed.

Lemma flat_u16_length l : length (flat_map u16_bytes l) = (2 * length l)%nat.
Proof. induction l as [|x l IH]; cbn [flat_map u16_bytes app length]; [reflexivity|rewrite IH; lia]. Qed.

Lemma lfn_encode_len e : (13 <= length (le_name e))%nat -> len32 (lfn_encode e).
Proof.
  intros H. unfold len32, lfn_encode. cbn zeta. rewrite !app_length, !flat_u16_length, !firstn_length, !skipn_length.
  cbn [length u16_bytes]. lia.
Qed.

Lemma lfn_part_ge c : (13 <= length (lfn_part c))%nat.
Proof.
  unfold lfn_part, len_N, LFN_PART_LEN. destruct (N.of_nat (length c) <? 13) eqn:E.
  - apply N.ltb_lt in E. rewrite app_length. cbn [length]. rewrite repeat_N_length. lia.
  - apply N.ltb_ge in E. lia.
Qed.

Lemma lfn_gen_names ck : forall parts num index e, In e (lfn_gen parts num index ck) -> (13 <= length (le_name e))%nat.
Proof.
  induction parts as [|p r IH]; intros num index e H; cbn [lfn_gen] in H; [contradiction|].
  destruct H as [<-|H]; [cbn [lfn_new le_name]; apply lfn_part_ge|exact (IH _ _ _ H)].
Qed.

Lemma entry_run_len32 n e : length (se_name e) = 11%nat -> Forall len32 (entry_run n e).
Proof.
  intros H. unfold entry_run. apply Forall_app. split.
  - apply Forall_forall. intros s Hs. apply in_map_iff in Hs. destruct Hs as [le [<- Hle]]. apply lfn_encode_len.
    unfold write_entry_lfn_slots in Hle. destruct (is_dot_name n); [contradiction|].
    unfold lfn_entries in Hle. exact (lfn_gen_names _ _ _ _ _ Hle).
  - constructor; [|constructor]. unfold len32, sfn_encode. rewrite !app_length. cbn [length u16_bytes u32_bytes]. lia.
Qed.

Lemma write_entry_fixed_shape n free ss name e r ss' : shape n ss -> length (se_name e) = 11%nat ->
  write_entry FixedRoot free ss name e = (r, ss') -> shape n ss'.
Proof.
  intros Hs He H. unfold write_entry, lift in H.
  destruct (validate_long_name name); try (injection H as _ <-; exact Hs).
  destruct (find_free_entries FixedRoot ss (len_N (entry_run name e))) as [p| | |]; try (injection H as _ <-; exact Hs).
  destruct (write_run FixedRoot free ss (N.to_nat p) (entry_run name e)) as [w ss1] eqn:W.
  injection H as _ <-. exact (write_run_fixed_shape n free _ _ _ _ _ (entry_run_len32 name e He) Hs W).
Qed.

Lemma mark_deleted_slot_len s : (11 <= length s)%nat -> len32 (mark_deleted_slot s).
Proof.
  intros H. unfold mark_deleted_slot, slot_decode.
  destruct (N.land (attrs_truncate (byte_at s 11)) ATTR_LFN =? ATTR_LFN); cbn [set_deleted slot_encode].
  - apply lfn_encode_len. cbn [le_name length]. lia.
  - unfold len32, sfn_encode. cbn [se_name se_attrs se_reserved_0 se_create_time_0 se_create_time_1 se_create_date
      se_access_date se_first_cluster_hi se_modify_time se_modify_date se_first_cluster_lo se_size].
    rewrite !app_length. cbn [length u16_bytes u32_bytes].
    assert (length (tl (firstn 11 s)) = 10%nat) as ->; [|lia].
    destruct s as [|b s']; [cbn [length] in H; lia|]. change (firstn 11 (b :: s')) with (b :: firstn 10 s'). cbn [tl].
    rewrite firstn_length. cbn [length] in H. lia.
Qed.

Lemma Forall_firstn' {A} (P : A -> Prop) k (l : list A) : Forall P l -> Forall P (firstn k l).
Proof. intros H. rewrite <- (firstn_skipn k l) in H. apply Forall_app in H. apply H. Qed.
Lemma Forall_skipn' {A} (P : A -> Prop) k (l : list A) : Forall P l -> Forall P (skipn k l).
Proof. intros H. rewrite <- (firstn_skipn k l) in H. apply Forall_app in H. apply H. Qed.

Lemma mark_deleted_shape n ss a b : shape n ss -> a <= b -> b <= len_N ss -> shape n (mark_deleted ss a b).
Proof.
  intros [S1 S2] Hab Hb. unfold len_N in Hb. unfold mark_deleted.
  set (x := N.to_nat a). set (y := N.to_nat b). assert (x <= y)%nat by (unfold x, y; lia). assert (y <= length ss)%nat by (unfold y; lia).
  split.
  - rewrite !app_length, map_length, !firstn_length, !skipn_length. lia.
  - apply Forall_app. split; [apply Forall_firstn'; exact S2|]. apply Forall_app. split; [|apply Forall_skipn'; exact S2].
    assert (Forall len32 (firstn (y - x) (skipn x ss))) as Hm by (apply Forall_firstn', Forall_skipn'; exact S2).
    apply Forall_forall. intros s Hs. apply in_map_iff in Hs. destruct Hs as [t [<- Ht]].
    apply mark_deleted_slot_len. rewrite Forall_forall in Hm. specialize (Hm t Ht). unfold len32 in Hm. lia.
Qed.

(* a listed entry: its slot range lies inside the directory, and its raw short name has 11 bytes *)
Lemma listed_range oem ss ev : Forall len32 ss -> LfnSpec.listed_at oem true [] ss ev ->
  Lfn.ev_begin ev / 32 <= Lfn.ev_end ev / 32 /\ Lfn.ev_end ev / 32 <= len_N ss /\ length (Lfn.ev_raw_name ev) = 11%nat.
Proof.
  intros Hsh (pre & bs & post & se & Hss & _ & Hdec & _ & _ & ->).
  unfold LfnSpec.entry_at, Lfn.mk_view. cbn [Lfn.ev_begin Lfn.ev_end Lfn.ev_raw_name].
  rewrite !(N.mul_comm 32), !N.div_mul by discriminate.
  assert (len_N (rev (map slot_decode pre) ++ []) = len_N pre) as ->
    by (unfold len_N; rewrite app_nil_r, rev_length, map_length; reflexivity).
  split; [lia|]. split.
  - rewrite Hss. unfold len_N. rewrite app_length. cbn [length]. lia.
  - destruct (decode_file_facts bs se Hdec) as [_ [_ [Nm _]]]. rewrite Nm.
    rewrite Hss in Hsh. apply Forall_app in Hsh. destruct Hsh as [_ Hsh]. inversion Hsh as [|? ? Hb _]; subst.
    unfold len32 in Hb. rewrite firstn_length. lia.
Qed.

Lemma check_fresh_inv upper oem ss n kind a : check_for_existence upper oem ss n kind = Ok (Fresh a) ->
  validate_long_name n = Ok tt /\ sfn_legal_b a = true /\
  exists l, dir_entries oem ss = Ok l /\ find (matches upper oem n) l = None /\
            alias_for n (map Lfn.ev_raw_name l) (S (length l / 9)) = Ok a.
Proof.
  intros C. unfold check_for_existence in C.
  destruct (validate_long_name n) as [[]| | |] eqn:V; try discriminate. cbn [bind] in C.
  destruct (dir_entries oem ss) as [l| | |] eqn:DE; try discriminate. cbn [bind] in C.
  destruct (find (matches upper oem n) l) as [ev|] eqn:F.
  { destruct (kind_check ev kind); discriminate. }
  destruct (alias_for n (map Lfn.ev_raw_name l) (S (length l / 9))) as [a'| | |] eqn:AF; try discriminate.
  cbn [bind] in C. injection C as ->.
  split; [reflexivity|]. split; [exact (sfn_legal _ _ _ _ AF)|]. exists l. repeat split; assumption.
Qed.

Lemma sfn_legal_len a : sfn_legal_b a = true -> length a = 11%nat.
Proof. intros H. exact (proj1 (sfn_legal_first a H)). Qed.

Lemma create_entry_fixed_shape n upper oem fat32 free ss name attrs cl now wd r ss' : shape n ss ->
  create_entry upper oem fat32 FixedRoot free ss name attrs cl now wd = (r, ss') -> shape n ss'.
Proof.
  intros Hs H. unfold create_entry, lift in H.
  destruct (check_for_existence upper oem ss name (Some wd)) as [[ev|a]| | |] eqn:C; try (injection H as _ <-; exact Hs).
  destruct (check_fresh_inv _ _ _ _ _ _ C) as (_ & HL & _).
  destruct (stamp_create now) as [st| | |]; try (injection H as _ <-; exact Hs).
  destruct (write_entry FixedRoot free ss name (create_sfn_entry fat32 a attrs cl st)) as [w ss1] eqn:W.
  injection H as _ <-. refine (write_entry_fixed_shape n free ss name _ w ss1 Hs _ W).
  cbn [create_sfn_entry se_name]. exact (sfn_legal_len a HL).
Qed.

Lemma delete_entry_shape n oem ss ss0 ev : shape n ss -> length ss0 = length ss -> Forall len32 ss0 ->
  LfnSpec.listed_at oem true [] ss0 ev -> shape n (delete_entry ss ev).
Proof.
  intros Hs Hl H0 Hev. destruct (listed_range oem ss0 ev H0 Hev) as (R1 & R2 & _).
  unfold delete_entry, DIR_ENTRY_SIZE. apply mark_deleted_shape; [exact Hs|exact R1|]. unfold len_N in *. rewrite <- Hl. exact R2.
Qed.

Lemma remove_entry_shape n upper oem ss name ne r ss' : shape n ss ->
  remove_entry upper oem ss name ne = (r, ss') -> shape n ss'.
Proof.
  intros Hs H. unfold remove_entry, lift in H.
  destruct (find_entry upper oem ss name None) as [ev| | |] eqn:F; try (injection H as _ <-; exact Hs).
  destruct (is_special ev); [injection H as _ <-; exact Hs|].
  destruct (Lfn.ev_is_dir ev && ne); injection H as _ <-; [exact Hs|].
  destruct (find_entry_listed _ _ _ _ _ _ F) as [HL _].
  exact (delete_entry_shape n oem ss ss ev Hs eq_refl (proj2 Hs) HL).
Qed.

Lemma rename_rewrite_shape n oem free ss ev dst a r ss' : shape n ss -> LfnSpec.listed_at oem true [] ss ev ->
  length a = 11%nat -> rename_rewrite FixedRoot free ss ev dst a = (r, ss') -> shape n ss'.
Proof.
  intros Hs HL Ha H. unfold rename_rewrite in H.
  destruct (write_entry FixedRoot free ss dst (renamed (entry_data ss ev) a)) as [w ss1] eqn:W.
  assert (shape n ss1) as Hs1 by (refine (write_entry_fixed_shape n free ss dst _ w ss1 Hs _ W); exact Ha).
  unfold lift in H. destruct w; try (injection H as _ <-; exact Hs1).
  injection H as _ <-. apply (delete_entry_shape n oem ss1 ss ev Hs1); [|exact (proj2 Hs)|exact HL].
  destruct Hs as [-> _]. destruct Hs1 as [-> _]. reflexivity.
Qed.

Lemma rename_in_dir_fixed_shape n upper oem free ss src dst r ss' : shape n ss ->
  rename_in_dir upper oem FixedRoot free ss src dst = (r, ss') -> shape n ss'.
Proof.
  intros Hs H. unfold rename_in_dir, lift in H.
  destruct (find_entry upper oem ss src None) as [ev| | |] eqn:F; try (injection H as _ <-; exact Hs).
  destruct (is_special ev); [injection H as _ <-; exact Hs|].
  destruct (find_entry_listed _ _ _ _ _ _ F) as [HL _].
  destruct (check_for_existence upper oem ss dst None) as [[dv|a]| | |] eqn:C; try (injection H as _ <-; exact Hs).
  - destruct (negb (Lfn.ev_end ev =? Lfn.ev_end dv)); [injection H as _ <-; exact Hs|].
    destruct (has_exact_name ev dst); [injection H as _ <-; exact Hs|].
    destruct (other_match upper oem ss ev dst) as [[|]| | |]; try (injection H as _ <-; exact Hs).
    refine (rename_rewrite_shape n oem free ss ev dst _ r ss' Hs HL _ H).
    exact (proj2 (proj2 (listed_range oem ss ev (proj2 Hs) HL))).
  - destruct (check_fresh_inv _ _ _ _ _ _ C) as (_ & HLa & _).
    exact (rename_rewrite_shape n oem free ss ev dst a r ss' Hs HL (sfn_legal_len a HLa) H).
Qed.

(* ================================================================ 6. the operations of Model/VolDir.v *)

(* (a) + (b): what an operation on the root directory may change.  Everything outside the root region keeps its byte
   (boot sector, FAT copies, data area, anything behind the volume); a byte that does change is classified "fixed root
   directory" by the region classifier of Spec/Regions.v (whatever image / ownership map it is asked with) and lies in
   a slot whose content differs from the slot that was there; the decoder reads the same geometry; the FAT as the
   decoder reads it is the same: same free count, same lost-cluster findings for any ownership map. *)
Definition root_confined (im im' : image) : Prop :=
  let g := parse_geom im in
  (forall o, (o < g_root_off g \/ g_root_off g + root_bytes g <= o) -> img_get im' o = img_get im o) /\
  (forall o, img_get im' o <> img_get im o ->
     (forall imx m, classify g imx m o = RRoot) /\
     exists k j, (k < root_slot_count g)%nat /\ (j < 32)%nat /\ o = g_root_off g + N.of_nat (32 * k + j) /\
                 nth k (root_region_slots g im') [] <> nth k (root_region_slots g im) []) /\
  parse_geom im' = g /\
  count_free g im' = count_free g im /\
  (forall c, in_range g c = true -> fat_val g im' c = fat_val g im c) /\
  (forall m, Wf.lost_from g im' m 2 (N.to_nat (g_clusters g)) = Wf.lost_from g im m 2 (N.to_nat (g_clusters g))).

Lemma put_root_confined im ss : fixed_root_geom (parse_geom im) -> shape (root_slot_count (parse_geom im)) ss ->
  root_confined im (put_root_slots (parse_geom im) im ss).
Proof.
  intros Hg Hs. unfold root_confined. cbv zeta. set (g := parse_geom im) in *. set (im' := put_root_slots g im ss).
  pose proof (put_same_outside g im ss Hs) as Hout. fold im' in Hout.
  split; [exact Hout|]. split.
  { intros o Hne. destruct (put_root_slots_changes g im ss o Hs Hne) as (k & j & Hk & Hj & Ho & Hd & _). split.
    - intros imx m. rewrite Ho. apply classify_root_bytes; [exact (fixed_root_sane g Hg)|].
      pose proof (root_sectors_cover g ltac:(pose proof (fg_bps g Hg); lia)) as Hc.
      pose proof (root_bytes_nat g) as Hn. lia.
    - exists k, j. split; [exact Hk|]. split; [exact Hj|]. split; [exact Ho|].
      unfold im'. rewrite root_region_put by exact Hs. exact Hd. }
  split; [apply (parse_geom_frame g im im'); [pose proof (root_off_ge g Hg); lia|exact Hout]|].
  split; [exact (count_free_frame g im im' Hg Hout)|].
  split; [intros c Hc; exact (fat_val_frame g im im' c Hg Hout Hc)|].
  intros m. apply lost_from_frame; try assumption; lia.
Qed.

(* the image is the same device content: every byte equal *)
Definition img_same (im im' : image) : Prop := forall o, img_get im' o = img_get im o.

Lemma root_region_same g im im' : img_same im im' -> root_region_slots g im' = root_region_slots g im.
Proof. intros H. unfold root_region_slots. f_equal. apply img_read_ext. intros i _. apply H. Qed.

(* the decoder (and the well-formedness check) cannot tell two images with the same bytes apart *)
Lemma img_same_abs fold im im' : fixed_root_geom (parse_geom im) -> img_same im im' ->
  parse_geom im' = parse_geom im /\ abs im' = abs im /\ Wf.wf_issues fold im' = Wf.wf_issues fold im /\
  count_free (parse_geom im) im' = count_free (parse_geom im) im.
Proof.
  intros Hg H. set (g := parse_geom im) in *.
  assert (same_outside_root g im im') as Hout by (intros o _; apply H).
  assert (parse_geom im' = g) as Hpg by (apply (parse_geom_frame g im im'); [pose proof (root_off_ge g Hg); lia|exact Hout]).
  destruct (dir_scan (root_region_slots g im) 0 [] false) as [[es ls] iss] eqn:Hs.
  assert (abs im' = abs im) as Habs.
  { rewrite (abs_fixed_root im es ls iss (fg_bits g Hg) Hs).
    rewrite (abs_fixed_root im' es ls iss); rewrite Hpg; [|exact (fg_bits g Hg)|rewrite (root_region_same g im im' H); exact Hs].
    fold g. unfold abs_fixed. rewrite (decode_entries_frame g im im' Hg Hout). rewrite H. reflexivity. }
  split; [exact Hpg|]. split; [exact Habs|]. split; [|exact (count_free_frame g im im' Hg Hout)].
  unfold Wf.wf_issues. rewrite Habs. cbv zeta.
  destruct (Wf.own_clusters _ _) as [owned cross].
  assert (v_geom (abs im) = g) as Hvg by (rewrite (abs_fixed_root im es ls iss (fg_bits g Hg) Hs); reflexivity).
  rewrite Hvg. rewrite (lost_from_frame g im im' owned Hg Hout) by lia. reflexivity.
Qed.

Lemma vol_root_apply_eq {A} im (f : slots -> dres A) :
  vol_root_apply im f = (fst (f (root_region_slots (parse_geom im) im)),
                         put_root_slots (parse_geom im) im (snd (f (root_region_slots (parse_geom im) im)))).
Proof. reflexivity. Qed.

Lemma root_len_bound g im : g_root_entries g < 65536 -> len_N (root_region_slots g im) < 134217728.
Proof. intros H. unfold len_N. rewrite (proj1 (proj1 (root_region_shape g im))). unfold root_slot_count. lia. Qed.

(* ---------------------------------------------------------------- create: frame and geometry, for every outcome *)
Theorem vol_create_confined upper oem im name now r im' : fixed_root_geom (parse_geom im) ->
  vol_create_empty_file_root upper oem im name now = (r, im') -> root_confined im im'.
Proof.
  intros Hg H. unfold vol_create_empty_file_root in H. rewrite vol_root_apply_eq in H. injection H as _ <-.
  apply put_root_confined; [exact Hg|].
  destruct (create_entry upper oem false FixedRoot 0 (root_region_slots (parse_geom im) im) name 0 None now false) as [r0 ss'] eqn:E.
  exact (create_entry_fixed_shape _ _ _ _ _ _ _ _ _ _ _ _ _ (proj1 (root_region_shape _ im)) E).
Qed.

Theorem vol_remove_confined upper oem im name r im' : fixed_root_geom (parse_geom im) ->
  vol_remove_empty_file_root upper oem im name = Some (r, im') -> root_confined im im'.
Proof.
  intros Hg H.
  assert (vol_root_apply im (fun ss => remove_entry upper oem ss name false) = (r, im')) as H'.
  { unfold vol_remove_empty_file_root in H. destruct (root_lookup upper oem im name) as [ev| | |]; try congruence.
    destruct (Lfn.ev_is_dir ev || negb (root_entry_cluster ev =? 0)); [discriminate|congruence]. }
  rewrite vol_root_apply_eq in H'. injection H' as _ <-. apply put_root_confined; [exact Hg|].
  destruct (remove_entry upper oem (root_region_slots (parse_geom im) im) name false) as [r0 ss'] eqn:E.
  exact (remove_entry_shape _ _ _ _ _ _ _ _ (proj1 (root_region_shape _ im)) E).
Qed.

Theorem vol_rename_confined upper oem im src dst r im' : fixed_root_geom (parse_geom im) ->
  vol_rename_in_root upper oem im src dst = Some (r, im') -> root_confined im im'.
Proof.
  intros Hg H.
  assert (vol_root_apply im (fun ss => rename_in_dir upper oem FixedRoot 0 ss src dst) = (r, im')) as H'.
  { unfold vol_rename_in_root in H. destruct (root_lookup upper oem im src) as [ev| | |]; try congruence.
    destruct (Lfn.ev_is_dir ev); [discriminate|congruence]. }
  rewrite vol_root_apply_eq in H'. injection H' as _ <-. apply put_root_confined; [exact Hg|].
  destruct (rename_in_dir upper oem FixedRoot 0 (root_region_slots (parse_geom im) im) src dst) as [r0 ss'] eqn:E.
  exact (rename_in_dir_fixed_shape _ _ _ _ _ _ _ _ _ (proj1 (root_region_shape _ im)) E).
Qed.

(* ---------------------------------------------------------------- (c) create: the decoded root *)

(* create_entry at the slot layer with every field of the new entry (Proofs/DirSlotsProofs.create_entry_refines keeps
   fewer of them): FAT12/16 reading of the cluster field *)
Lemma create_entry_full upper oem k free ss n attrs cl now wd es ls range ss' :
  dir_scan ss 0 [] false = (es, ls, []) -> len_N ss < 134217728 ->
  attrs < 64 -> N.land attrs 8 = 0 -> TimeProofs.datetime_valid now = true ->
  create_entry upper oem false k free ss n attrs cl now wd = (Ok (Some range), ss') ->
  exists es1 es2 ne a st,
    es = es1 ++ es2 /\ dir_scan ss' 0 [] false = (es1 ++ ne :: es2, ls, []) /\
    check_for_existence upper oem ss n (Some wd) = Ok (Fresh a) /\ stamp_create now = Ok st /\
    e_lfn ne = (if is_dot_name n then [] else utf16_encode n) /\ e_lfn_ok ne = true /\
    e_sfn ne = a /\ sfn_legal_b a = true /\ ~ In a (map e_sfn es) /\
    e_attr ne = attrs /\ e_ntres ne = 0 /\ e_size ne = 0 /\
    e_cluster ne = (match cl with Some c => c | None => 0 end) mod 65536 /\
    e_ctime_ms ne = create_time_0 st /\ e_ctime ne = create_time_1 st /\ e_cdate ne = create_date st /\
    e_adate ne = access_date st /\ e_mtime ne = modify_time st /\ e_mdate ne = modify_date st /\
    e_first_slot ne = fst range /\ e_sfn_slot ne + 1 = snd range /\
    (forall l, dir_entries oem ss = Ok l -> forall ev, In ev l -> matches upper oem n ev = false).
Proof.
  intros H0 Hb Ha Hv Hnow H. unfold create_entry, lift in H.
  destruct (check_for_existence upper oem ss n (Some wd)) as [[ev|a]| | |] eqn:C; try discriminate.
  destruct (check_fresh_inv _ _ _ _ _ _ C) as (V & HL & l & DE & F & AF).
  destruct (stamp_create now) as [st| | |] eqn:ST; try discriminate.
  destruct (write_entry k free ss n (create_sfn_entry false a attrs cl st)) as [w ss''] eqn:W.
  destruct w as [rg| | |]; try discriminate. cbn [bind] in H. injection H as <- <-.
  pose proof (sfn_unique _ _ _ _ AF) as HU.
  pose proof (create_sfn_entry_live false a attrs cl st HL Ha Hv (stamp_create_ranges now st Hnow ST)) as Hlive.
  destruct rg as [p q].
  destruct (write_entry_refines k free false ss n _ es ls p q ss'' H0 Hb Hlive W)
    as (es1 & es2 & ne & E1 & E2 & E3 & E4 & E5 & E6 & E7 & E8 & E9 & E10 & E11 & E12 & E13 & E14 & E15 & E16 & E17 & _).
  cbn [create_sfn_entry se_name se_attrs se_reserved_0 se_create_time_0 se_create_time_1 se_create_date se_access_date
       se_first_cluster_hi se_modify_time se_modify_date se_first_cluster_lo se_size] in *.
  rewrite (dir_entries_sfns false oem ss l es ls [] DE H0) in HU.
  exists es1, es2, ne, a, st. cbn [fst snd].
  do 12 (split; [assumption || reflexivity|]).
  split; [rewrite E14; lia|].
  do 8 (split; [assumption|]).
  intros l' Hl' ev Hin. assert (l' = l) as -> by congruence.
  destruct (matches upper oem n ev) eqn:M; [|reflexivity].
  exfalso. pose proof (find_none _ _ F ev Hin). congruence.
Qed.

Lemma node_entry_of g im d e : node_entry (node_of g im d e) = e.
Proof.
  unfold node_of. destruct (e_is_dot e); [reflexivity|]. destruct (e_is_dir e); [|reflexivity].
  destruct (if e_cluster e =? 0 then None else chain_from g im (e_cluster e) (chain_fuel g)); [|reflexivity].
  destruct (dir_scan _ _ _ _) as [[? ?] ?]. reflexivity.
Qed.

Lemma map_node_entry g im d es : map node_entry (map (node_of g im d) es) = es.
Proof. rewrite map_map. rewrite <- (map_id es) at 2. apply map_ext. intros e. apply node_entry_of. Qed.

(* a legal alias is neither "." nor ".." *)
Lemma sfn_legal_not_dot a : sfn_legal_b a = true -> list_eqb a DOT = false /\ list_eqb a DOTDOT = false.
Proof.
  unfold sfn_legal_b. rewrite !andb_true_iff. intros [[[H1 H2] _] H4].
  destruct a as [|b a']; [discriminate|]. clear H1. cbn [firstn sfn_part_ok byte_nth nth] in *.
  apply negb_true_iff in H4. rewrite H4 in H2. apply andb_true_iff in H2. destruct H2 as [H2 _].
  assert (b =? 46 = false) as Hb.
  { destruct (N.eqb_spec b 46) as [->|]; [vm_compute in H2; discriminate|reflexivity]. }
  unfold DOT, DOTDOT. cbn [list_eqb]. rewrite Hb. split; reflexivity.
Qed.

(* the node of an entry that is a plain file without a cluster *)
Lemma node_of_empty_file g im d e : e_is_dot e = false -> e_is_dir e = false -> e_cluster e = 0 ->
  node_of g im d e = NFile e None [].
Proof. intros H1 H2 H3. unfold node_of. rewrite H1, H2, H3. reflexivity. Qed.

Lemma abs_scan_of im : g_bits (parse_geom im) <> 32 ->
  exists es ls iss, dir_scan (root_region_slots (parse_geom im) im) 0 [] false = (es, ls, iss) /\
    abs im = abs_fixed (parse_geom im) im es ls iss.
Proof.
  intros Hb. destruct (dir_scan (root_region_slots (parse_geom im) im) 0 [] false) as [[es ls] iss] eqn:Hs.
  exists es, ls, iss. split; [reflexivity|]. exact (abs_fixed_root im es ls iss Hb Hs).
Qed.

(* (c) create.  The root of [im] decodes without issue; a successful create of [name]: the decoded root gains exactly one
   node, a plain file without cluster chain and content, at the position of the slots the slot layer chose (first fit: not
   necessarily last); its long name is the UTF-16 form of [name] (no long name for "." / "..": known class D21), size 0,
   attributes 0, time stamps of [now]; its alias is legal and new; every old node is there exactly as it was decoded before,
   in the same order; still no issue; labels, geometry, status byte, FS-info words as before. *)
Theorem vol_create_decodes upper oem im name now range im' :
  fixed_root_geom (parse_geom im) -> v_root_issues (abs im) = [] -> TimeProofs.datetime_valid now = true ->
  vol_create_empty_file_root upper oem im name now = (Ok (Some range), im') ->
  exists ns1 ns2 ne st,
    v_root (abs im) = ns1 ++ ns2 /\ v_root (abs im') = ns1 ++ NFile ne None [] :: ns2 /\
    e_lfn ne = (if is_dot_name name then [] else utf16_encode name) /\ e_lfn_ok ne = true /\
    e_size ne = 0 /\ e_cluster ne = 0 /\ e_attr ne = 0 /\ e_ntres ne = 0 /\
    stamp_create now = Ok st /\
    e_ctime_ms ne = create_time_0 st /\ e_ctime ne = create_time_1 st /\ e_cdate ne = create_date st /\
    e_adate ne = access_date st /\ e_mtime ne = modify_time st /\ e_mdate ne = modify_date st /\
    e_first_slot ne = fst range /\ e_sfn_slot ne + 1 = snd range /\
    sfn_legal_b (e_sfn ne) = true /\ ~ In (e_sfn ne) (map e_sfn (map node_entry (v_root (abs im)))) /\
    v_root_issues (abs im') = [] /\ v_labels (abs im') = v_labels (abs im) /\
    v_geom (abs im') = v_geom (abs im) /\ v_root_chain (abs im') = v_root_chain (abs im) /\
    v_status (abs im') = v_status (abs im) /\
    v_fsinfo_free (abs im') = v_fsinfo_free (abs im) /\ v_fsinfo_next (abs im') = v_fsinfo_next (abs im).
Proof.
  intros Hg Hiss Hnow H. set (g := parse_geom im) in *.
  destruct (abs_scan_of im (fg_bits g Hg)) as (es & ls & iss & Hscan & Habs). fold g in Hscan, Habs.
  rewrite Habs in Hiss. cbn [abs_fixed v_root_issues] in Hiss. subst iss.
  unfold vol_create_empty_file_root in H. rewrite vol_root_apply_eq in H. fold g in H.
  destruct (create_entry upper oem false FixedRoot 0 (root_region_slots g im) name 0 None now false) as [r0 ss'] eqn:E.
  cbn [fst snd] in H. injection H as -> <-.
  pose proof (create_entry_fixed_shape _ _ _ _ _ _ _ _ _ _ _ _ _ (proj1 (root_region_shape g im)) E) as Hsh.
  destruct (create_entry_full upper oem FixedRoot 0 _ name 0 None now false es ls range ss' Hscan
              (root_len_bound g im (fg_root g Hg)) ltac:(lia) eq_refl Hnow E)
    as (es1 & es2 & ne & a & st & E1 & E2 & _ & ST & E3 & E4 & E5 & HL & HU & E6 & E7 & E8 & E9 & T1 & T2 & T3 & T4 & T5 & T6 & P1 & P2 & _).
  destruct (abs_put_root im ss' _ _ _ Hg Hsh E2) as [_ Habs']. fold g in Habs'.
  rewrite Habs, Habs'. unfold abs_fixed.
  cbn [v_root v_root_issues v_labels v_geom v_root_chain v_status v_fsinfo_free v_fsinfo_next].
  change MAX_DEPTH with (S 23). rewrite !decode_entries_S.
  exists (map (node_of g im 23) es1), (map (node_of g im 23) es2), ne, st.
  split; [rewrite E1, map_app; reflexivity|].
  split.
  { rewrite map_app. cbn [map]. f_equal. f_equal. apply node_of_empty_file.
    - unfold e_is_dot. rewrite E5. destruct (sfn_legal_not_dot a HL) as [-> ->]. reflexivity.
    - unfold e_is_dir. rewrite E6. reflexivity.
    - rewrite E9. reflexivity. }
  rewrite map_node_entry. rewrite E5.
  repeat (split; [assumption || reflexivity|]). reflexivity.
Qed.

(* ---------------------------------------------------------------- create: every other outcome leaves the device as it was *)
Lemma create_entry_fixed_failed_same upper oem fat32 free ss n attrs cl now wd r ss' : len_N ss < 134217728 ->
  create_entry upper oem fat32 FixedRoot free ss n attrs cl now wd = (r, ss') -> (forall range, r <> Ok (Some range)) -> ss' = ss.
Proof.
  intros Hb H Hr. unfold create_entry, lift in H.
  destruct (check_for_existence upper oem ss n (Some wd)) as [[ev|a]| | |]; try (injection H as _ <-; reflexivity).
  destruct (stamp_create now) as [st| | |]; try (injection H as _ <-; reflexivity).
  destruct (write_entry FixedRoot free ss n (create_sfn_entry fat32 a attrs cl st)) as [w ss1] eqn:W.
  injection H as <- <-.
  destruct (write_entry_fixed_root_full_unchanged free ss n _ w ss1 Hb W) as [E _]; [|exact E].
  intros range ->. apply (Hr range). reflexivity.
Qed.

(* an operation that hands back the slots it read *)
Lemma put_back_same fold im : fixed_root_geom (parse_geom im) ->
  let im' := put_root_slots (parse_geom im) im (root_region_slots (parse_geom im) im) in
  img_same im im' /\ parse_geom im' = parse_geom im /\ abs im' = abs im /\ Wf.wf_issues fold im' = Wf.wf_issues fold im /\
  count_free (parse_geom im) im' = count_free (parse_geom im) im.
Proof.
  intros Hg im'. assert (img_same im im') as Hs by (intros o; apply put_root_slots_same).
  split; [exact Hs|]. exact (img_same_abs fold im im' Hg Hs).
Qed.

(* the file existed (Ok None: it is opened, nothing written), the name is a directory's, the name is invalid, the root has
   no room (NotEnoughSpace - never WriteZero): every byte of the device is as before, so is everything decoded from it *)
Theorem vol_create_failed_unchanged fold upper oem im name now r im' : fixed_root_geom (parse_geom im) ->
  vol_create_empty_file_root upper oem im name now = (r, im') -> (forall range, r <> Ok (Some range)) ->
  img_same im im' /\ parse_geom im' = parse_geom im /\ abs im' = abs im /\ Wf.wf_issues fold im' = Wf.wf_issues fold im /\
  count_free (parse_geom im) im' = count_free (parse_geom im) im.
Proof.
  intros Hg H Hr. unfold vol_create_empty_file_root in H. rewrite vol_root_apply_eq in H.
  destruct (create_entry upper oem false FixedRoot 0 (root_region_slots (parse_geom im) im) name 0 None now false) as [r0 ss'] eqn:E.
  cbn [fst snd] in H. injection H as -> <-.
  rewrite (create_entry_fixed_failed_same _ _ _ _ _ _ _ _ _ _ _ _ (root_len_bound _ im (fg_root _ Hg)) E Hr).
  exact (put_back_same fold im Hg).
Qed.

(* ---------------------------------------------------------------- create keeps the volume well formed (Spec/Wf.v) *)
Definition has_lfn (l : list N) : bool := negb (match l with [] => true | _ => false end).

Lemma wf_issues_fixed fold im g imf es ls iss : g_bits g <> 32 -> abs im = abs_fixed g imf es ls iss ->
  Wf.wf_issues fold im =
    (let ns := decode_entries g imf MAX_DEPTH es in
     let '(owned, cross) := Wf.own_clusters (concat (Wf.nodes_chains ns)) (PositiveMap.empty unit) in
     map (Wf.dir_issue 0) iss ++ Wf.names_issues fold 0 ns ++ Wf.nodes_issues fold g 0 ns ++ cross
     ++ Wf.lost_from g im owned 2 (N.to_nat (g_clusters g))
     ++ (if Wf.depth_exceeded ns MAX_DEPTH then [Wf.WDepth] else [])).
Proof.
  intros Hb Habs. unfold Wf.wf_issues. rewrite Habs. cbv zeta.
  cbn [abs_fixed v_geom v_root_chain v_root v_root_issues]. apply N.eqb_neq in Hb. rewrite Hb. cbn [app].
  destruct (Wf.own_clusters _ _) as [owned cross]. reflexivity.
Qed.

Lemma nodes_chains_insert a b e : Wf.nodes_chains (a ++ NFile e None [] :: b) = Wf.nodes_chains (a ++ b).
Proof. unfold Wf.nodes_chains. rewrite !flat_map_app. cbn [flat_map Wf.node_chains app]. reflexivity. Qed.

Lemma nodes_issues_insert fold g a b e : e_size e = 0 -> e_cluster e = 0 ->
  Wf.nodes_issues fold g 0 (a ++ NFile e None [] :: b) = Wf.nodes_issues fold g 0 (a ++ b).
Proof.
  intros H1 H2. unfold Wf.nodes_issues. rewrite !flat_map_app. cbn [flat_map Wf.node_issues]. rewrite H1, H2. reflexivity.
Qed.

Lemma depth_exceeded_insert a b e d : Wf.depth_exceeded (a ++ NFile e None [] :: b) d = Wf.depth_exceeded (a ++ b) d.
Proof. destruct d; cbn [Wf.depth_exceeded]; rewrite !existsb_app; cbn [existsb orb]; reflexivity. Qed.

Lemma NoDup_insert {A} (x : A) a b : NoDup (a ++ b) -> ~ In x (a ++ b) -> NoDup (a ++ x :: b).
Proof. intros H1 H2. apply (NoDup_Add (Add_app x a b)). split; assumption. Qed.

Lemma names_issues_insert fold a b e : Wf.names_issues fold 0 (a ++ b) = [] ->
  ~ In (e_sfn e) (map e_sfn (map node_entry (a ++ b))) ->
  (has_lfn (e_lfn e) = true ->
   ~ In (fold (e_lfn e)) (map fold (filter has_lfn (map e_lfn (map node_entry (a ++ b)))))) ->
  Wf.names_issues fold 0 (a ++ NFile e None [] :: b) = [].
Proof.
  unfold Wf.names_issues. cbv zeta. intros H Hs Hl. apply app_eq_nil in H. destruct H as [H1 H2].
  fold has_lfn in *.
  destruct (Wf.has_dup list_eqb (map e_sfn (map node_entry (a ++ b)))) eqn:D1; [discriminate|].
  destruct (Wf.has_dup list_eqb (map fold (filter has_lfn (map e_lfn (map node_entry (a ++ b)))))) eqn:D2; [discriminate|].
  apply has_dup_NoDup in D1. apply has_dup_NoDup in D2.
  rewrite !map_app in *. cbn [map node_entry] in *.
  assert (Wf.has_dup list_eqb (map e_sfn (map node_entry a) ++ e_sfn e :: map e_sfn (map node_entry b)) = false) as ->.
  { apply has_dup_NoDup. apply NoDup_insert; assumption. }
  rewrite filter_app in *. cbn [filter]. rewrite !map_app in *.
  destruct (has_lfn (e_lfn e)) eqn:L.
  - cbn [map]. assert (Wf.has_dup list_eqb _ = false) as ->; [|reflexivity].
    apply has_dup_NoDup. apply NoDup_insert; [exact D2|]. apply Hl. reflexivity.
  - apply has_dup_NoDup in D2. rewrite D2. reflexivity.
Qed.

(* a successful create in a well-formed volume leaves it well formed, provided the new long name does not collide with an
   existing one under the folding [fold] the WDupLong clause is checked with (the link between the library's own matching
   and an arbitrary [fold] is not part of this development: DESIGN.md section 9) *)
Theorem vol_create_keeps_wf fold upper oem im name now range im' :
  fixed_root_geom (parse_geom im) -> Wf.wf_issues fold im = [] -> TimeProofs.datetime_valid now = true ->
  vol_create_empty_file_root upper oem im name now = (Ok (Some range), im') ->
  (is_dot_name name = false ->
   ~ In (fold (utf16_encode name)) (map fold (filter has_lfn (map e_lfn (map node_entry (v_root (abs im))))))) ->
  Wf.wf_issues fold im' = [].
Proof.
  intros Hg Hwf Hnow H Hlong. set (g := parse_geom im) in *.
  pose proof (vol_create_confined upper oem im name now _ im' Hg H) as (_ & _ & Hpg & _ & _ & Hlost). fold g in Hpg, Hlost.
  destruct (abs_scan_of im (fg_bits g Hg)) as (es & ls & iss & Hscan & Habs). fold g in Hscan, Habs.
  rewrite (wf_issues_fixed fold im g im es ls iss (fg_bits g Hg) Habs) in Hwf. cbv zeta in Hwf.
  assert (iss = []) as ->.
  { destruct (Wf.own_clusters _ _) as [ow cr] in Hwf. apply app_eq_nil in Hwf. destruct Hwf as [Hm _].
    destruct iss; [reflexivity|discriminate]. }
  assert (v_root_issues (abs im) = []) as Hiss by (rewrite Habs; reflexivity).
  destruct (vol_create_decodes upper oem im name now range im' Hg Hiss Hnow H)
    as (ns1 & ns2 & ne & st & R1 & R2 & E3 & _ & E5 & E6 & _ & _ & _ & _ & _ & _ & _ & _ & _ & _ & _ & _ & HU & I' & L' & G' & C' & S' & F1 & F2).
  (* abs im' as an abs_fixed *)
  unfold vol_create_empty_file_root in H. rewrite vol_root_apply_eq in H. fold g in H.
  destruct (create_entry upper oem false FixedRoot 0 (root_region_slots g im) name 0 None now false) as [r0 ss'] eqn:E.
  cbn [fst snd] in H. injection H as -> <-.
  pose proof (create_entry_fixed_shape _ _ _ _ _ _ _ _ _ _ _ _ _ (proj1 (root_region_shape g im)) E) as Hsh.
  destruct (dir_scan ss' 0 [] false) as [[es' ls'] iss'] eqn:Hscan'.
  destruct (abs_put_root im ss' es' ls' iss' Hg Hsh Hscan') as [_ Habs']. fold g in Habs'.
  set (im' := put_root_slots g im ss') in *.
  rewrite Habs' in R2, I'. cbn [abs_fixed v_root v_root_issues] in R2, I'. subst iss'.
  rewrite Habs in R1, HU, Hlong. cbn [abs_fixed v_root] in R1, HU, Hlong.
  rewrite (wf_issues_fixed fold im' g im es' ls' [] (fg_bits g Hg) Habs'). cbv zeta.
  rewrite R2. rewrite R1 in Hwf, HU, Hlong.
  rewrite nodes_chains_insert, (nodes_issues_insert fold g ns1 ns2 ne E5 E6), depth_exceeded_insert.
  destruct (Wf.own_clusters _ _) as [ow cr]. rewrite Hlost.
  cbn [map app] in Hwf |- *.
  apply app_eq_nil in Hwf. destruct Hwf as [Hn Hrest]. rewrite Hrest, app_nil_r.
  apply names_issues_insert; [exact Hn|exact HU|].
  intros Hl. rewrite E3 in *. destruct (is_dot_name name); [discriminate|]. apply Hlong. reflexivity.
Qed.

(* ---------------------------------------------------------------- any sequence of successful creates *)
From Coq Require Import Permutation.

(* the creates of [reqs] (name, clock value) one after the other; None as soon as one does not create a new entry *)
Fixpoint vol_create_many (upper : N -> list N) (oem : N -> N) (im : image) (reqs : list (str * datetime)) : option image :=
  match reqs with
  | [] => Some im
  | q :: r =>
    match vol_create_empty_file_root upper oem im (fst q) (snd q) with
    | (Ok (Some _), im') => vol_create_many upper oem im' r
    | _ => None
    end
  end.

Definition stored_lfn (n : str) : list N := if is_dot_name n then [] else utf16_encode n.

Theorem vol_create_many_decodes upper oem : forall reqs im im',
  fixed_root_geom (parse_geom im) -> v_root_issues (abs im) = [] ->
  Forall (fun q => TimeProofs.datetime_valid (snd q) = true) reqs ->
  vol_create_many upper oem im reqs = Some im' ->
  parse_geom im' = parse_geom im /\ v_root_issues (abs im') = [] /\ v_labels (abs im') = v_labels (abs im) /\
  count_free (parse_geom im) im' = count_free (parse_geom im) im /\
  same_outside_root (parse_geom im) im im' /\
  exists news,
    Permutation (v_root (abs im')) (v_root (abs im) ++ news) /\
    map (fun n => e_lfn (node_entry n)) news = map (fun q => stored_lfn (fst q)) reqs /\
    Forall (fun n => exists e, n = NFile e None [] /\ e_size e = 0 /\ e_cluster e = 0 /\ e_lfn_ok e = true) news /\
    (NoDup (map e_sfn (map node_entry (v_root (abs im)))) -> NoDup (map e_sfn (map node_entry (v_root (abs im'))))).
Proof.
  induction reqs as [|q r IH]; intros im im' Hg Hiss Hv H; cbn [vol_create_many] in H.
  - injection H as <-. do 4 (split; [assumption || reflexivity|]). split; [intros o _; reflexivity|].
    exists []. rewrite app_nil_r. split; [apply Permutation_refl|]. split; [reflexivity|]. split; [constructor|]. auto.
  - inversion Hv as [|? ? Hq Hr]; subst.
    destruct (vol_create_empty_file_root upper oem im (fst q) (snd q)) as [r0 im1] eqn:E.
    destruct r0 as [[range|]| | |]; try discriminate.
    pose proof (vol_create_confined upper oem im _ _ _ im1 Hg E) as (Hout & _ & Hpg & Hcf & _ & _).
    destruct (vol_create_decodes upper oem im _ _ range im1 Hg Hiss Hq E)
      as (ns1 & ns2 & ne & st & R1 & R2 & E3 & E4 & E5 & E6 & _ & _ & _ & _ & _ & _ & _ & _ & _ & _ & _ & _ & HU & I1 & L1 & _).
    assert (fixed_root_geom (parse_geom im1)) as Hg1 by (rewrite Hpg; exact Hg).
    destruct (IH im1 im' Hg1 I1 Hr H) as (P1 & P2 & P3 & P4 & P5 & news & Q1 & Q2 & Q3 & Q4).
    rewrite Hpg in P1, P4, P5.
    split; [exact P1|]. split; [exact P2|]. split; [rewrite P3; exact L1|]. split; [rewrite P4; exact Hcf|].
    split; [intros o Ho; rewrite (P5 o Ho); apply Hout; exact Ho|].
    exists (NFile ne None [] :: news). split; [|split; [|split]].
    + rewrite R1. eapply Permutation_trans; [exact Q1|]. rewrite R2. rewrite <- !app_assoc. cbn [app].
      apply Permutation_app_head. apply Permutation_middle.
    + cbn [map node_entry]. rewrite Q2. unfold stored_lfn at 2. rewrite E3. reflexivity.
    + constructor; [exists ne; repeat split; assumption|exact Q3].
    + intros ND. apply Q4. rewrite R2. rewrite !map_app. cbn [map node_entry].
      rewrite R1, !map_app in ND, HU. apply NoDup_insert; assumption.
Qed.

Definition root_lfns_folded (fold : list N -> list N) (im : image) : list (list N) :=
  map fold (filter has_lfn (map e_lfn (map node_entry (v_root (abs im))))).

(* ... and every volume on the way is well formed, when the folded long names are pairwise distinct and none is in use *)
Theorem vol_create_many_keeps_wf fold upper oem : forall reqs im im',
  fixed_root_geom (parse_geom im) -> Wf.wf_issues fold im = [] ->
  Forall (fun q => TimeProofs.datetime_valid (snd q) = true) reqs ->
  Forall (fun q => is_dot_name (fst q) = false) reqs ->
  NoDup (map (fun q => fold (utf16_encode (fst q))) reqs) ->
  (forall q, In q reqs -> ~ In (fold (utf16_encode (fst q))) (root_lfns_folded fold im)) ->
  vol_create_many upper oem im reqs = Some im' -> Wf.wf_issues fold im' = [].
Proof.
  induction reqs as [|q r IH]; intros im im' Hg Hwf Hv Hd Hnd Hfresh H; cbn [vol_create_many] in H.
  - injection H as <-. exact Hwf.
  - inversion Hv as [|? ? Hq Hr]; subst. inversion Hd as [|? ? Dq Dr]; subst.
    cbn [map] in Hnd. inversion Hnd as [|? ? N1 N2]; subst.
    destruct (vol_create_empty_file_root upper oem im (fst q) (snd q)) as [r0 im1] eqn:E.
    destruct r0 as [[range|]| | |]; try discriminate.
    pose proof (vol_create_confined upper oem im _ _ _ im1 Hg E) as (_ & _ & Hpg & _).
    assert (fixed_root_geom (parse_geom im1)) as Hg1 by (rewrite Hpg; exact Hg).
    assert (Wf.wf_issues fold im1 = []) as Hwf1.
    { apply (vol_create_keeps_wf fold upper oem im (fst q) (snd q) range im1 Hg Hwf Hq E). intros _.
      apply (Hfresh q). left; reflexivity. }
    apply (IH im1 im' Hg1 Hwf1 Hr Dr N2); [|exact H].
    intros q' Hin C.
    assert (v_root_issues (abs im) = []) as Hiss.
    { destruct (abs_scan_of im (fg_bits _ Hg)) as (es & ls & iss & Hscan & Habs).
      rewrite (wf_issues_fixed fold im _ im es ls iss (fg_bits _ Hg) Habs) in Hwf. cbv zeta in Hwf.
      destruct (Wf.own_clusters _ _) as [ow cr] in Hwf. apply app_eq_nil in Hwf. destruct Hwf as [Hm _].
      rewrite Habs. cbn [abs_fixed v_root_issues]. destruct iss; [reflexivity|discriminate]. }
    destruct (vol_create_decodes upper oem im _ _ range im1 Hg Hiss Hq E) as (ns1 & ns2 & ne & st & R1 & R2 & E3 & _).
    unfold root_lfns_folded in C. rewrite R2 in C. rewrite !map_app, filter_app, map_app in C. cbn [map node_entry filter] in C.
    rewrite E3, Dq in C.
    assert (In (fold (utf16_encode (fst q'))) (root_lfns_folded fold im) \/ fold (utf16_encode (fst q')) = fold (utf16_encode (fst q))) as [C'|C'].
    { unfold root_lfns_folded. rewrite R1. rewrite !map_app, filter_app, map_app.
      apply in_app_or in C. destruct C as [C|C]; [left; apply in_or_app; left; exact C|].
      destruct (has_lfn (utf16_encode (fst q))); cbn [map] in C.
      - destruct C as [C|C]; [right; symmetry; exact C|left; apply in_or_app; right; exact C].
      - left; apply in_or_app; right; exact C. }
    + apply (Hfresh q'); [right; exact Hin|exact C'].
    + apply N1. rewrite <- C'. apply (in_map (fun q0 => fold (utf16_encode (fst q0))) r q' Hin).
Qed.

(* ---------------------------------------------------------------- (c) remove *)
Lemma land_mod64_16 b : N.land (b mod 64) 16 = N.land b 16.
Proof. change 64 with (2 ^ 6). rewrite <- N.land_ones, <- N.land_assoc. reflexivity. Qed.

(* the entry the library's iterator lists is an entry the decoder finds: same slots, kind, cluster, size *)
Lemma listed_decoded_full oem ss es ls ev :
  dir_scan ss 0 [] false = (es, ls, []) -> Forall attrs_sane ss -> LfnSpec.listed_at oem true [] ss ev ->
  exists e se, In e es /\ Lfn.ev_raw_name ev = e_sfn e /\
    Lfn.ev_begin ev / 32 = e_first_slot e /\ Lfn.ev_end ev / 32 = e_sfn_slot e + 1 /\
    slot_decode (nth (N.to_nat (e_sfn_slot e)) ss []) = SFile se /\ sfn_is_volume se = false /\
    nth 0 (se_name se) 0 <> 0 /\ nth 0 (se_name se) 0 <> 229 /\
    e_attr e mod 64 = se_attrs se /\ e_size e = se_size se /\ e_cluster e = 0 + se_first_cluster_lo se /\
    e_sfn e = se_name se /\
    e_is_dir e = Lfn.ev_is_dir ev /\ e_cluster e = Lfn.ev_cluster_lo ev /\ e_size e = Lfn.ev_size ev.
Proof.
  intros H0 Hs HL.
  destruct (listed_is_decoded false oem ss es ls ev H0 Hs HL) as (e & se & Hin & Hn & Hb & He & Hdec & Hvol & F0 & F5 & Ha & Hsz & Hcl & Hnm).
  exists e, se. do 12 (split; [assumption|]).
  destruct HL as (pre & bs & post & se0 & Hss & _ & Hdec0 & _ & _ & Hev).
  assert (se0 = se) as ->.
  { rewrite Hev in He. unfold LfnSpec.entry_at, Lfn.mk_view in He. cbn [Lfn.ev_end] in He.
    rewrite (N.mul_comm 32), N.div_mul in He by discriminate.
    assert (len_N (rev (map slot_decode pre) ++ []) = len_N pre) as HL'
      by (unfold len_N; rewrite app_nil_r, rev_length, map_length; reflexivity).
    rewrite HL' in He. assert (N.to_nat (e_sfn_slot e) = length pre) as Hi by (unfold len_N in He; lia).
    rewrite Hi, Hss, nth_middle in Hdec. congruence. }
  rewrite Hev. unfold LfnSpec.entry_at, Lfn.mk_view. cbn [Lfn.ev_is_dir Lfn.ev_cluster_lo Lfn.ev_size].
  split; [|split; [rewrite Hcl; lia|exact Hsz]].
  unfold e_is_dir, sfn_is_dir, ATTR_DIRECTORY. rewrite <- Ha, land_mod64_16. reflexivity.
Qed.

Lemma listed_view_decoded oem ss es ls ev :
  dir_scan ss 0 [] false = (es, ls, []) -> Forall attrs_sane ss -> LfnSpec.listed_at oem true [] ss ev ->
  exists e, In e es /\ Lfn.ev_raw_name ev = e_sfn e /\
    Lfn.ev_begin ev / 32 = e_first_slot e /\ Lfn.ev_end ev / 32 = e_sfn_slot e + 1 /\
    e_is_dir e = Lfn.ev_is_dir ev /\ e_cluster e = Lfn.ev_cluster_lo ev /\ e_size e = Lfn.ev_size ev.
Proof.
  intros H0 Hs HL. destruct (listed_decoded_full oem ss es ls ev H0 Hs HL)
    as (e & se & A1 & A2 & A3 & A4 & _ & _ & _ & _ & _ & _ & _ & _ & A5 & A6 & A7).
  exists e. repeat (split; [assumption|]). assumption.
Qed.

Lemma remove_entry_full upper oem ss name ne es ls ss' :
  dir_scan ss 0 [] false = (es, ls, []) -> Forall attrs_sane ss ->
  remove_entry upper oem ss name ne = (Ok tt, ss') ->
  exists ev e es1 es2,
    find_entry upper oem ss name None = Ok ev /\ matches upper oem name ev = true /\
    Lfn.ev_raw_name ev = e_sfn e /\ e_is_dir e = Lfn.ev_is_dir ev /\ e_cluster e = Lfn.ev_cluster_lo ev /\
    e_size e = Lfn.ev_size ev /\
    es = es1 ++ e :: es2 /\ dir_scan ss' 0 [] false = (es1 ++ es2, ls, []) /\
    ss' = mark_deleted ss (e_first_slot e) (e_sfn_slot e + 1).
Proof.
  intros H0 Hs H. unfold remove_entry, lift in H.
  destruct (find_entry upper oem ss name None) as [ev| | |] eqn:F; try discriminate.
  destruct (is_special ev); [discriminate|]. destruct (Lfn.ev_is_dir ev && ne); [discriminate|].
  injection H as <-.
  destruct (find_entry_listed _ _ _ _ _ _ F) as [HL HM].
  destruct (listed_view_decoded oem ss es ls ev H0 Hs HL) as (e & Hin & Hn & Hb & He & Hd & Hc & Hz).
  destruct (mark_deleted_refines false ss es ls e H0 Hin) as [es1 [es2 [E1 [E2 _]]]]. cbn zeta in E2.
  assert (delete_entry ss ev = mark_deleted ss (e_first_slot e) (e_sfn_slot e + 1)) as ->
    by (unfold delete_entry, DIR_ENTRY_SIZE; rewrite Hb, He; reflexivity).
  exists ev, e, es1, es2. split; [reflexivity|]. do 7 (split; [assumption|]). reflexivity.
Qed.

(* (c) remove of a file without clusters.  The root decodes without issue and its slots are [attrs_sane] (the library's and
   the decoder's long-name-slot tests agree: Props/C01.v C01_remove_entry_insane_refuted).  After a successful remove the
   decoded root has lost exactly one node - the node of the entry the library's own lookup resolved [name] to: not a
   directory, no cluster, hence decoded as a plain file without chain and content (unless its short name is the dot name) -
   and every other node is there exactly as before, in order; no issue; labels, geometry, status byte as before. *)
Theorem vol_remove_decodes upper oem im name im' :
  fixed_root_geom (parse_geom im) -> v_root_issues (abs im) = [] ->
  Forall attrs_sane (root_region_slots (parse_geom im) im) ->
  vol_remove_empty_file_root upper oem im name = Some (Ok tt, im') ->
  exists ns1 n ns2 ev,
    v_root (abs im) = ns1 ++ n :: ns2 /\ v_root (abs im') = ns1 ++ ns2 /\
    root_lookup upper oem im name = Ok ev /\ matches upper oem name ev = true /\
    e_sfn (node_entry n) = Lfn.ev_raw_name ev /\
    e_is_dir (node_entry n) = false /\ e_cluster (node_entry n) = 0 /\ e_size (node_entry n) = Lfn.ev_size ev /\
    (e_is_dot (node_entry n) = false -> n = NFile (node_entry n) None []) /\
    v_root_issues (abs im') = [] /\ v_labels (abs im') = v_labels (abs im) /\
    v_geom (abs im') = v_geom (abs im) /\ v_status (abs im') = v_status (abs im).
Proof.
  intros Hg Hiss Hsane H. set (g := parse_geom im) in *.
  destruct (abs_scan_of im (fg_bits g Hg)) as (es & ls & iss & Hscan & Habs). fold g in Hscan, Habs.
  rewrite Habs in Hiss. cbn [abs_fixed v_root_issues] in Hiss. subst iss.
  unfold vol_remove_empty_file_root, root_lookup in H. fold g in H.
  destruct (remove_entry upper oem (root_region_slots g im) name false) as [r0 ss'] eqn:E.
  assert (r0 = Ok tt /\ im' = put_root_slots g im ss' /\
          forall ev, find_entry upper oem (root_region_slots g im) name None = Ok ev ->
                     Lfn.ev_is_dir ev = false /\ Lfn.ev_cluster_lo ev = 0) as (-> & -> & Hguard).
  { rewrite vol_root_apply_eq in H. fold g in H. rewrite E in H. cbn [fst snd] in H.
    destruct (find_entry upper oem (root_region_slots g im) name None) as [ev| | |] eqn:F.
    - destruct (Lfn.ev_is_dir ev) eqn:D; [discriminate|]. cbn [orb] in H. unfold root_entry_cluster in H.
      destruct (Lfn.ev_cluster_lo ev =? 0) eqn:C; [|discriminate]. cbn [negb] in H. apply N.eqb_eq in C.
      injection H as -> <-. split; [reflexivity|]. split; [reflexivity|]. intros ev' Hev'. injection Hev' as <-. split; assumption.
    - injection H as -> <-. split; [reflexivity|]. split; [reflexivity|]. intros; discriminate.
    - injection H as -> <-. split; [reflexivity|]. split; [reflexivity|]. intros; discriminate.
    - injection H as -> <-. split; [reflexivity|]. split; [reflexivity|]. intros; discriminate. }
  pose proof (remove_entry_shape _ _ _ _ _ _ _ _ (proj1 (root_region_shape g im)) E) as Hsh.
  destruct (remove_entry_full upper oem _ name false es ls ss' Hscan Hsane E)
    as (ev & e & es1 & es2 & F & M & Hn & Hd & Hc & Hz & E1 & E2 & _).
  destruct (Hguard ev F) as [G1 G2].
  destruct (abs_put_root im ss' _ _ _ Hg Hsh E2) as [_ Habs']. fold g in Habs'.
  rewrite Habs, Habs'. unfold abs_fixed. cbn [v_root v_root_issues v_labels v_geom v_status].
  change MAX_DEPTH with (S 23). rewrite !decode_entries_S.
  exists (map (node_of g im 23) es1), (node_of g im 23 e), (map (node_of g im 23) es2), ev.
  rewrite node_entry_of.
  split; [rewrite E1, map_app; reflexivity|]. split; [rewrite map_app; reflexivity|].
  split; [exact F|]. split; [exact M|]. split; [symmetry; exact Hn|]. split; [rewrite Hd; exact G1|].
  split; [rewrite Hc; exact G2|]. split; [exact Hz|].
  split; [intros Hdot; apply node_of_empty_file; [exact Hdot|rewrite Hd; exact G1|rewrite Hc; exact G2]|].
  repeat split; reflexivity.
Qed.

(* every other outcome of remove (NotFound, ...): nothing changes *)
Theorem vol_remove_failed_unchanged fold upper oem im name r im' : fixed_root_geom (parse_geom im) ->
  vol_remove_empty_file_root upper oem im name = Some (r, im') -> r <> Ok tt ->
  img_same im im' /\ parse_geom im' = parse_geom im /\ abs im' = abs im /\ Wf.wf_issues fold im' = Wf.wf_issues fold im /\
  count_free (parse_geom im) im' = count_free (parse_geom im) im.
Proof.
  intros Hg H Hr.
  assert (vol_root_apply im (fun ss => remove_entry upper oem ss name false) = (r, im')) as H'.
  { unfold vol_remove_empty_file_root in H. destruct (root_lookup upper oem im name) as [ev| | |]; try congruence.
    destruct (Lfn.ev_is_dir ev || negb (root_entry_cluster ev =? 0)); [discriminate|congruence]. }
  rewrite vol_root_apply_eq in H'. injection H' as Hr' <-.
  assert (snd (remove_entry upper oem (root_region_slots (parse_geom im) im) name false) = root_region_slots (parse_geom im) im) as ->.
  { unfold remove_entry, lift in *. destruct (find_entry upper oem _ name None) as [ev| | |]; try reflexivity.
    destruct (is_special ev); [reflexivity|]. destruct (Lfn.ev_is_dir ev && false); [reflexivity|].
    cbn [fst] in Hr'. congruence. }
  exact (put_back_same fold im Hg).
Qed.

(* ---------------------------------------------------------------- (c) rename in place *)
Lemma rename_in_dir_fixed_failed_same upper oem free ss src dst r ss' : len_N ss < 134217728 ->
  rename_in_dir upper oem FixedRoot free ss src dst = (r, ss') -> r <> Ok tt -> ss' = ss.
Proof.
  intros Hb H Hr. unfold rename_in_dir, lift in H.
  destruct (find_entry upper oem ss src None) as [ev| | |]; try (injection H as _ <-; reflexivity).
  destruct (is_special ev); [injection H as _ <-; reflexivity|].
  assert (forall a, rename_rewrite FixedRoot free ss ev dst a = (r, ss') -> ss' = ss) as Hrw.
  { intros a Ha. unfold rename_rewrite in Ha.
    destruct (write_entry FixedRoot free ss dst (renamed (entry_data ss ev) a)) as [w ss1] eqn:W.
    destruct w as [rg| | |]; cbn [lift] in Ha.
    - injection Ha as <- _. exfalso. apply Hr. reflexivity.
    - injection Ha as _ <-. apply (write_entry_fixed_root_full_unchanged free ss dst _ _ ss1 Hb W). intros; discriminate.
    - injection Ha as _ <-. apply (write_entry_fixed_root_full_unchanged free ss dst _ _ ss1 Hb W). intros; discriminate.
    - injection Ha as _ <-. apply (write_entry_fixed_root_full_unchanged free ss dst _ _ ss1 Hb W). intros; discriminate. }
  destruct (check_for_existence upper oem ss dst None) as [[dv|a]| | |]; try (injection H as _ <-; reflexivity).
  - destruct (negb (Lfn.ev_end ev =? Lfn.ev_end dv)); [injection H as _ <-; reflexivity|].
    destruct (has_exact_name ev dst); [injection H as _ <-; reflexivity|].
    destruct (other_match upper oem ss ev dst) as [[|]| | |]; try (injection H as _ <-; reflexivity). exact (Hrw _ H).
  - exact (Hrw _ H).
Qed.

Theorem vol_rename_failed_unchanged fold upper oem im src dst r im' : fixed_root_geom (parse_geom im) ->
  vol_rename_in_root upper oem im src dst = Some (r, im') -> r <> Ok tt ->
  img_same im im' /\ parse_geom im' = parse_geom im /\ abs im' = abs im /\ Wf.wf_issues fold im' = Wf.wf_issues fold im /\
  count_free (parse_geom im) im' = count_free (parse_geom im) im.
Proof.
  intros Hg H Hr.
  assert (vol_root_apply im (fun ss => rename_in_dir upper oem FixedRoot 0 ss src dst) = (r, im')) as H'.
  { unfold vol_rename_in_root in H. destruct (root_lookup upper oem im src) as [ev| | |]; try congruence.
    destruct (Lfn.ev_is_dir ev); [discriminate|congruence]. }
  rewrite vol_root_apply_eq in H'.
  destruct (rename_in_dir upper oem FixedRoot 0 (root_region_slots (parse_geom im) im) src dst) as [r0 ss'] eqn:E.
  cbn [fst snd] in H'. injection H' as -> <-.
  rewrite (rename_in_dir_fixed_failed_same _ _ _ _ _ _ _ _ (root_len_bound _ im (fg_root _ Hg)) E Hr).
  exact (put_back_same fold im Hg).
Qed.

(* the write-then-delete tail of rename at the slot layer, list level: the decoding loses exactly the source entry and gains
   exactly one entry (somewhere: first fit) with the new long name, the short name [a], and the source's attributes, size and
   first cluster; all other entries keep their relative order *)
Lemma rename_rewrite_lists k free ss ev dst a es ls ss' e se :
  dir_scan ss 0 [] false = (es, ls, []) -> len_N ss < 134217728 -> Forall bytes_ok ss ->
  In e es -> Lfn.ev_begin ev / 32 = e_first_slot e -> Lfn.ev_end ev / 32 = e_sfn_slot e + 1 ->
  slot_decode (nth (N.to_nat (e_sfn_slot e)) ss []) = SFile se -> sfn_is_volume se = false ->
  e_attr e mod 64 = se_attrs se -> e_size e = se_size se -> e_cluster e = 0 + se_first_cluster_lo se ->
  length a = 11%nat -> nth 0 a 0 <> 0 -> nth 0 a 0 <> 229 ->
  rename_rewrite k free ss ev dst a = (Ok tt, ss') ->
  exists x y c d ne,
    es = x ++ e :: y /\ x ++ y = c ++ d /\ dir_scan ss' 0 [] false = (c ++ ne :: d, ls, []) /\
    e_lfn ne = (if is_dot_name dst then [] else utf16_encode dst) /\ e_lfn_ok ne = true /\ e_sfn ne = a /\
    e_attr ne = e_attr e mod 64 /\ e_size ne = e_size e /\ e_cluster ne = e_cluster e.
Proof.
  intros H0 Hb Hby Hin Hbg Hen Hdec Hvol Hat Hsz Hcl L1 L2 L3 H. unfold rename_rewrite in H.
  assert (entry_data ss ev = se) as Ed.
  { unfold entry_data, DIR_ENTRY_SIZE. rewrite Hen. replace (e_sfn_slot e + 1 - 1) with (e_sfn_slot e) by lia.
    rewrite Hdec. reflexivity. }
  assert (forall s1, delete_entry s1 ev = mark_deleted s1 (e_first_slot e) (e_sfn_slot e + 1)) as Edel
    by (intros s1; unfold delete_entry, DIR_ENTRY_SIZE; rewrite Hbg, Hen; reflexivity).
  rewrite Ed in H.
  destruct (write_entry k free ss dst (renamed se a)) as [w ss2] eqn:W.
  destruct w as [[p q]| | |]; cbn [lift] in H; try discriminate. rewrite Edel in H. injection H as <-.
  assert (bytes_ok (nth (N.to_nat (e_sfn_slot e)) ss [])) as Hbs.
  { destruct (nth_in_or_default (N.to_nat (e_sfn_slot e)) ss []) as [I|D].
    - rewrite Forall_forall in Hby. apply Hby. exact I.
    - rewrite D. constructor. }
  assert (sfn_live (renamed se a)) as Hlive.
  { constructor; [apply (decoded_fields_ok _ _ Hbs Hdec a L1)| | |]; unfold renamed; cbn [se_name se_attrs]; try assumption.
    unfold sfn_is_volume, ATTR_VOLUME_ID in Hvol. apply negb_false_iff in Hvol. apply N.eqb_eq in Hvol. exact Hvol. }
  destruct (rename_slots_refines k free false ss dst (renamed se a) es ls e p q ss2 H0 Hb Hin Hlive W)
    as (x & y & c & d & ne & G1 & G2 & G3 & G4 & G5 & G6 & G7 & G8 & G9 & _). cbn zeta in G3.
  cbn [renamed se_name se_attrs se_size se_first_cluster_hi se_first_cluster_lo] in *.
  exists x, y, c, d, ne. do 6 (split; [assumption|]).
  split; [rewrite G7; symmetry; exact Hat|]. split; [rewrite G8; symmetry; exact Hsz|]. rewrite G9, Hcl. reflexivity.
Qed.

(* rename_in_dir on success, list level (no assumption on duplicate short names) *)
Lemma rename_in_dir_lists upper oem k free ss src dst es ls ss' :
  dir_scan ss 0 [] false = (es, ls, []) -> len_N ss < 134217728 -> Forall attrs_sane ss -> Forall bytes_ok ss ->
  Forall len32 ss ->
  rename_in_dir upper oem k free ss src dst = (Ok tt, ss') ->
  exists ev e,
    find_entry upper oem ss src None = Ok ev /\ matches upper oem src ev = true /\ In e es /\
    Lfn.ev_raw_name ev = e_sfn e /\ e_is_dir e = Lfn.ev_is_dir ev /\
    ((exists dv, check_for_existence upper oem ss dst None = Ok (Exists dv) /\ Lfn.ev_end dv = Lfn.ev_end ev /\
                 has_exact_name ev dst = true /\ ss' = ss) \/
     (exists x y c d ne,
        es = x ++ e :: y /\ x ++ y = c ++ d /\ dir_scan ss' 0 [] false = (c ++ ne :: d, ls, []) /\
        e_lfn ne = (if is_dot_name dst then [] else utf16_encode dst) /\ e_lfn_ok ne = true /\
        e_attr ne = e_attr e mod 64 /\ e_size ne = e_size e /\ e_cluster ne = e_cluster e /\
        ((exists a, check_for_existence upper oem ss dst None = Ok (Fresh a) /\ e_sfn ne = a /\ sfn_legal_b a = true /\
                    ~ In a (map e_sfn es)) \/
         (exists dv, check_for_existence upper oem ss dst None = Ok (Exists dv) /\ Lfn.ev_end dv = Lfn.ev_end ev /\
                     has_exact_name ev dst = false /\ e_sfn ne = e_sfn e /\
                     (forall l other, dir_entries oem ss = Ok l -> In other l -> Lfn.ev_end other <> Lfn.ev_end ev ->
                                      matches upper oem dst other = false))))).
Proof.
  intros H0 Hb Hs Hby H32 H. unfold rename_in_dir, lift in H.
  destruct (find_entry upper oem ss src None) as [ev| | |] eqn:F; try discriminate.
  destruct (is_special ev); [discriminate|].
  destruct (find_entry_listed _ _ _ _ _ _ F) as [HLi HM].
  destruct (listed_decoded_full oem ss es ls ev H0 Hs HLi)
    as (e & se & Hin & Hn & Hbg & Hen & Hdec & Hvol & Hf0 & Hf5 & Hat & Hsz & Hcl & Hnm & Hdir & _ & _).
  exists ev, e. split; [reflexivity|]. split; [exact HM|]. split; [exact Hin|]. split; [exact Hn|]. split; [exact Hdir|].
  destruct (check_for_existence upper oem ss dst None) as [[dv|a]| | |] eqn:C; try discriminate.
  - destruct (Lfn.ev_end ev =? Lfn.ev_end dv) eqn:EE; cbn [negb] in H; [|discriminate].
    apply N.eqb_eq in EE.
    destruct (has_exact_name ev dst) eqn:HX.
    + injection H as <-. left. exists dv. repeat split; congruence.
    + right. destruct (other_match upper oem ss ev dst) as [[|]| | |] eqn:OM; try discriminate.
      pose proof (other_match_false upper oem ss ev dst OM) as Hom. rewrite Hn in H.
      pose proof (decoded_sfn_length false ss es ls [] e H0 H32 Hin) as L1.
      destruct (rename_rewrite_lists k free ss ev dst (e_sfn e) es ls ss' e se H0 Hb Hby Hin Hbg Hen Hdec Hvol Hat Hsz Hcl L1)
        as (x & y & c & d & ne & G1 & G2 & G3 & G4 & G5 & G6 & G7 & G8 & G9); try (rewrite Hnm; assumption); try assumption.
      exists x, y, c, d, ne. do 8 (split; [assumption|]). right. exists dv.
      split; [reflexivity|]. split; [congruence|]. split; [reflexivity|]. split; [exact G6|exact Hom].
  - right. destruct (check_fresh_inv _ _ _ _ _ _ C) as (_ & HL & l & DE & _ & AF).
    pose proof (sfn_unique _ _ _ _ AF) as HU. rewrite (dir_entries_sfns false oem ss l es ls [] DE H0) in HU.
    destruct (sfn_legal_first a HL) as [L1 [L2 L3]].
    destruct (rename_rewrite_lists k free ss ev dst a es ls ss' e se H0 Hb Hby Hin Hbg Hen Hdec Hvol Hat Hsz Hcl L1 L2 L3 H)
      as (x & y & c & d & ne & G1 & G2 & G3 & G4 & G5 & G6 & G7 & G8 & G9).
    exists x, y, c, d, ne. do 8 (split; [assumption|]). left. exists a. repeat split; assumption.
Qed.

(* chain and content the decoder gives a plain file: functions of the image (FAT, data) and of the entry's cluster and size only *)
Definition file_chain (g : geom) (im : image) (e : entry) : option (list N) :=
  if e_cluster e =? 0 then None else chain_from g im (e_cluster e) (chain_fuel g).
Definition file_content (g : geom) (im : image) (e : entry) : list N :=
  match file_chain g im e with Some l => firstn (N.to_nat (e_size e)) (chain_bytes g im l) | None => [] end.

Lemma node_of_file g im d e : e_is_dot e = false -> e_is_dir e = false ->
  node_of g im d e = NFile e (file_chain g im e) (file_content g im e).
Proof. intros H1 H2. unfold node_of, file_content, file_chain. rewrite H1, H2. reflexivity. Qed.

Lemma file_same g im e e' : e_cluster e' = e_cluster e -> e_size e' = e_size e ->
  file_chain g im e' = file_chain g im e /\ file_content g im e' = file_content g im e.
Proof. intros H1 H2. unfold file_content, file_chain. rewrite H1, H2. split; reflexivity. Qed.

(* (c) rename of a file inside the root.  On success either nothing happened (the destination is the stored spelling of the
   source's own name), or the decoded root lost exactly the node of the source entry and gained exactly one node - somewhere
   (first fit), all other nodes exactly as before and in the same relative order -: the same cluster chain and the same
   content (the FAT and the data area are untouched and the new entry carries the source's first cluster and size), the
   source's attributes, the new long name; its short name is a fresh legal alias, or - when only the spelling of the name
   changes - the source's own; no issue; labels, geometry, status byte as before. *)
Theorem vol_rename_decodes upper oem im src dst im' :
  fixed_root_geom (parse_geom im) -> v_root_issues (abs im) = [] ->
  Forall attrs_sane (root_region_slots (parse_geom im) im) -> Forall bytes_ok (root_region_slots (parse_geom im) im) ->
  vol_rename_in_root upper oem im src dst = Some (Ok tt, im') ->
  exists ev,
    root_lookup upper oem im src = Ok ev /\ matches upper oem src ev = true /\ Lfn.ev_is_dir ev = false /\
    ((exists dv, check_for_existence upper oem (root_region_slots (parse_geom im) im) dst None = Ok (Exists dv) /\
                 Lfn.ev_end dv = Lfn.ev_end ev /\ has_exact_name ev dst = true /\
                 img_same im im' /\ abs im' = abs im) \/
     (exists nx n ny nc nd n' ch content,
        v_root (abs im) = nx ++ n :: ny /\ nx ++ ny = nc ++ nd /\ v_root (abs im') = nc ++ n' :: nd /\
        e_sfn (node_entry n) = Lfn.ev_raw_name ev /\ e_is_dir (node_entry n) = false /\ e_is_dir (node_entry n') = false /\
        (e_is_dot (node_entry n) = false -> n = NFile (node_entry n) ch content) /\
        (e_is_dot (node_entry n') = false -> n' = NFile (node_entry n') ch content) /\
        e_lfn (node_entry n') = (if is_dot_name dst then [] else utf16_encode dst) /\ e_lfn_ok (node_entry n') = true /\
        e_attr (node_entry n') = e_attr (node_entry n) mod 64 /\
        e_size (node_entry n') = e_size (node_entry n) /\ e_cluster (node_entry n') = e_cluster (node_entry n) /\
        ((exists a, check_for_existence upper oem (root_region_slots (parse_geom im) im) dst None = Ok (Fresh a) /\
                    e_sfn (node_entry n') = a /\ sfn_legal_b a = true /\
                    ~ In a (map e_sfn (map node_entry (v_root (abs im))))) \/
         (exists dv, check_for_existence upper oem (root_region_slots (parse_geom im) im) dst None = Ok (Exists dv) /\
                     Lfn.ev_end dv = Lfn.ev_end ev /\ has_exact_name ev dst = false /\
                     e_sfn (node_entry n') = e_sfn (node_entry n) /\
                     (forall l other, dir_entries oem (root_region_slots (parse_geom im) im) = Ok l -> In other l ->
                                      Lfn.ev_end other <> Lfn.ev_end ev -> matches upper oem dst other = false))) /\
        v_root_issues (abs im') = [] /\ v_labels (abs im') = v_labels (abs im) /\
        v_geom (abs im') = v_geom (abs im) /\ v_status (abs im') = v_status (abs im))).
Proof.
  intros Hg Hiss Hsane Hby H. set (g := parse_geom im) in *.
  destruct (abs_scan_of im (fg_bits g Hg)) as (es & ls & iss & Hscan & Habs). fold g in Hscan, Habs.
  rewrite Habs in Hiss. cbn [abs_fixed v_root_issues] in Hiss. subst iss.
  unfold vol_rename_in_root, root_lookup in H. fold g in H. unfold root_lookup. fold g.
  destruct (rename_in_dir upper oem FixedRoot 0 (root_region_slots g im) src dst) as [r0 ss'] eqn:E.
  assert (r0 = Ok tt /\ im' = put_root_slots g im ss' /\
          forall ev, find_entry upper oem (root_region_slots g im) src None = Ok ev -> Lfn.ev_is_dir ev = false) as (-> & -> & Hguard).
  { rewrite vol_root_apply_eq in H. fold g in H. rewrite E in H. cbn [fst snd] in H.
    destruct (find_entry upper oem (root_region_slots g im) src None) as [ev| | |] eqn:F.
    - destruct (Lfn.ev_is_dir ev) eqn:D; [discriminate|].
      injection H as -> <-. split; [reflexivity|]. split; [reflexivity|]. intros ev' Hev'. injection Hev' as <-. exact D.
    - injection H as -> <-. split; [reflexivity|]. split; [reflexivity|]. intros; discriminate.
    - injection H as -> <-. split; [reflexivity|]. split; [reflexivity|]. intros; discriminate.
    - injection H as -> <-. split; [reflexivity|]. split; [reflexivity|]. intros; discriminate. }
  pose proof (proj1 (root_region_shape g im)) as Hsh0.
  pose proof (rename_in_dir_fixed_shape _ _ _ _ _ _ _ _ _ Hsh0 E) as Hsh.
  destruct (rename_in_dir_lists upper oem FixedRoot 0 _ src dst es ls ss' Hscan (root_len_bound g im (fg_root g Hg)) Hsane Hby (proj2 Hsh0) E)
    as (ev & e & F & M & Hin & Hn & Hd & Hcase).
  pose proof (Hguard ev F) as G1.
  exists ev. split; [exact F|]. split; [exact M|]. split; [exact G1|].
  destruct Hcase as [(dv & C & EE & HX & ->)|(x & y & c & d & ne & E1 & E2 & E3 & L1 & L2 & A1 & A2 & A3 & Hsub)].
  - left. exists dv. split; [exact C|]. split; [exact EE|]. split; [exact HX|].
    destruct (put_back_same (fun l => l) im Hg) as (S1 & _ & S3 & _). fold g in S1, S3. split; [exact S1|exact S3].
  - right.
    destruct (abs_put_root im ss' _ _ _ Hg Hsh E3) as [_ Habs']. fold g in Habs'.
    rewrite Habs, Habs'. unfold abs_fixed. cbn [v_root v_root_issues v_labels v_geom v_status].
    change MAX_DEPTH with (S 23). rewrite !decode_entries_S.
    assert (e_is_dir e = false) as De by (rewrite Hd; exact G1).
    assert (e_is_dir ne = false) as Dne.
    { unfold e_is_dir in *. rewrite A1, land_mod64_16. exact De. }
    destruct (file_same g im e ne A3 A2) as [FC FN].
    exists (map (node_of g im 23) x), (node_of g im 23 e), (map (node_of g im 23) y),
           (map (node_of g im 23) c), (map (node_of g im 23) d), (node_of g im 23 ne),
           (file_chain g im e), (file_content g im e).
    rewrite !node_entry_of.
    split; [rewrite E1, map_app; reflexivity|].
    split; [rewrite <- !map_app, E2; reflexivity|].
    split; [rewrite map_app; reflexivity|].
    split; [symmetry; exact Hn|]. split; [exact De|]. split; [exact Dne|].
    split; [intros Hdot; apply node_of_file; assumption|].
    split; [intros Hdot; rewrite <- FC, <- FN; apply node_of_file; assumption|].
    split; [exact L1|]. split; [exact L2|]. split; [exact A1|]. split; [exact A2|]. split; [exact A3|].
    split.
    { rewrite map_node_entry.
      destruct Hsub as [(a & C & S1 & S2 & S3)|(dv & C & EE & HX & S1 & S2)].
      - left. exists a. repeat split; assumption.
      - right. exists dv. do 4 (split; [assumption|]). exact S2. }
    repeat split; reflexivity.
Qed.

(* ---------------------------------------------------------------- create succeeds in a root that has room (non-vacuity of the
   success premise of the theorems above) *)
Lemma stamp_create_ok now : TimeProofs.datetime_valid now = true -> exists st, stamp_create now = Ok st.
Proof.
  intros Hv. unfold TimeProofs.datetime_valid in Hv. apply andb_true_iff in Hv. destruct Hv as [Hd Ht].
  unfold stamp_create, st_set_created, st_set_accessed, st_set_modified.
  rewrite (TimeProofs.date_encode_arith _ Hd), (TimeProofs.time_encode_arith _ Ht). cbn [bind]. eexists. reflexivity.
Qed.

(* an accepted name needs at most 20 long-name slots and one short slot *)
Lemma entry_run_le_21 n e : validate_long_name n = Ok tt -> sfn_fields_ok e -> len_N (entry_run n e) <= 21.
Proof.
  intros V F. unfold entry_run, write_entry_lfn_slots, len_N. rewrite app_length, map_length. cbn [length].
  destruct (is_dot_name n) eqn:D; [cbn [length]; lia|].
  destruct (written_run_valid n e 0 false V D F) as [RV _]. cbv zeta in RV. unfold run_valid in RV.
  set (L := map lfn_encode (lfn_entries (utf16_encode n) (lfn_checksum (se_name e)))) in *.
  assert (length (lfn_entries (utf16_encode n) (lfn_checksum (se_name e))) = length L) as -> by (unfold L; rewrite map_length; reflexivity).
  rewrite rev_involutive in RV. destruct L as [|f r] eqn:EL; [cbn [length]; lia|].
  rewrite !andb_true_iff in RV. destruct RV as [[[[[[[[_ R2] _] _] _] _] _] _] _].
  apply N.leb_le in R2. unfold len_N in R2. rewrite rev_length in R2. lia.
Qed.

Theorem vol_create_succeeds upper oem im name now :
  fixed_root_geom (parse_geom im) -> v_root (abs im) = [] -> v_root_issues (abs im) = [] ->
  (forall k, (1 <= k < root_slot_count (parse_geom im))%nat -> byte_at (nth k (root_region_slots (parse_geom im) im) []) 0 = 0) ->
  22 <= g_root_entries (parse_geom im) ->
  validate_long_name name = Ok tt -> TimeProofs.datetime_valid now = true ->
  exists range im', vol_create_empty_file_root upper oem im name now = (Ok (Some range), im').
Proof.
  intros Hg Hroot Hiss Hzero Hroom V Hnow. set (g := parse_geom im) in *.
  destruct (abs_scan_of im (fg_bits g Hg)) as (es & ls & iss & Hscan & Habs). fold g in Hscan, Habs.
  rewrite Habs in Hroot, Hiss. cbn [abs_fixed v_root v_root_issues] in Hroot, Hiss. subst iss.
  change MAX_DEPTH with (S 23) in Hroot. rewrite decode_entries_S in Hroot. apply map_eq_nil in Hroot. subst es.
  set (ss := root_region_slots g im) in *.
  destruct (root_region_shape g im) as [[S1 S2] _]. fold ss in S1, S2.
  (* the existence check finds nothing and produces an alias *)
  assert (dir_entries oem ss = Ok []) as DE.
  { unfold dir_entries. rewrite LfnProofs.read_dir_sound. f_equal.
    pose proof (dir_entries_sfns false oem ss _ [] ls [] (LfnProofs.read_dir_sound Lfn.VecBuf oem true ss) Hscan) as Hm.
    cbn [map] in Hm. apply map_eq_nil in Hm. exact Hm. }
  destruct (gen_terminates name [] V ltac:(cbn [length]; lia)) as [a AF].
  pose proof (AF : alias_for name [] 1%nat = Ok a) as AF1.
  assert (check_for_existence upper oem ss name (Some false) = Ok (Fresh a)) as C.
  { unfold check_for_existence. rewrite V. cbn [bind]. rewrite DE. cbn [bind find].
    change (alias_for name (map Lfn.ev_raw_name []) (S (length (@nil Lfn.entry_view) / 9))) with (alias_for name [] 1%nat).
    rewrite AF1. reflexivity. }
  pose proof (sfn_legal _ _ _ _ AF1) as HL.
  destruct (stamp_create_ok now Hnow) as [st ST].
  pose proof (create_sfn_entry_live false a 0 None st HL ltac:(lia) eq_refl (stamp_create_ranges now st Hnow ST)) as Hlive.
  set (e := create_sfn_entry false a 0 None st) in *.
  assert (len_N ss < 134217728) as Hb by (apply root_len_bound; exact (fg_root g Hg)).
  assert (exists range ss', write_entry FixedRoot 0 ss name e = (Ok range, ss')) as (range & ss' & W).
  { destruct (write_entry_fixed_root_total 0 ss name e Hb) as [H|[(x & Vx & _)|(_ & _ & p & pre & mid & post & FS & Hfull)]];
      [exact H|congruence|exfalso].
    destruct FS as [Hsplit Hp Hpre _ _].
    pose proof (entry_run_le_21 name e V (sl_fields e Hlive)) as Hnum.
    assert (len_N ss = g_root_entries g) as Hlen by (unfold len_N; rewrite S1; unfold root_slot_count; lia).
    assert (p <= 1) as Hp1.
    { destruct (N.le_gt_cases p 1) as [|Hgt]; [assumption|exfalso].
      assert (1 < length pre)%nat as Hl by (unfold len_N in Hp; lia).
      assert (nonend (nth 1 pre [])) as Hne by (rewrite Forall_forall in Hpre; apply Hpre; apply nth_In; exact Hl).
      apply Hne. rewrite <- (app_nth1 pre (mid ++ post) [] Hl), <- Hsplit.
      apply Hzero. unfold root_slot_count. lia. }
    lia. }
  exists range, (put_root_slots g im ss').
  unfold vol_create_empty_file_root. rewrite vol_root_apply_eq. fold g. fold ss.
  unfold create_entry, lift. rewrite C, ST. fold e. rewrite W. reflexivity.
Qed.
