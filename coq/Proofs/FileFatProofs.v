(* FileFatProofs.v: the file layer (Model/FileM.v, parametric in a FAT store) instantiated at the three byte-level
   stores of Model/Fat.v.  The premises of the parametric theorems of FileProofs.v (the get/set laws) are discharged
   by FatProofs.v for every slice geometry with at least one copy, so that the refinement "any history of
   read/write/seek/truncate on any set of open files is a run of independent byte arrays" is a statement about the
   bytes of the FAT region themselves, for FAT12, FAT16 and FAT32. *)
From Coq Require Import NArith ZArith List Lia.
From FatVerif Require Import Model.Base Model.Table Model.Fat Model.FileM Spec.ByteFile Spec.Image
  Proofs.ImageProofs Proofs.TableProofs Proofs.FatProofs Proofs.FileProofs.
Open Scope N_scope.

Section Geometry.
Variables (base size : N) (mirrors : nat).
Hypothesis Hmirrors : (1 <= mirrors)%nat.
Variables (cs total : N).
Hypothesis Hcs : 0 < cs.

Let inv := inv_g base size mirrors.

(* ---------------------------------------------------------------- FAT16 *)
Section W16.
Hypothesis Hsize : 2 * (total + 2) <= size.
Hypothesis Htotal : total + 2 <= 65527.
Let okc := okc16_g size.
Let Hr := range16 size mirrors Hmirrors total Hsize Htotal.

Theorem file_run_refines16 : forall ops w h sz l,
  WorldInv fstore val16 inv cs total w -> FileInv fstore val16 cs total w h sz l ->
  exists w' h' rs sz' l', file_run fstore get16 set16 cs total w h ops = (w', h', rs) /\
    WorldInv fstore val16 inv cs total w' /\ FileInv fstore val16 cs total w' h' sz' l' /\
    bf_run (content fstore w l sz, h_off h) ops rs = Some (content fstore w' l' sz', h_off h').
Proof.
  exact (file_run_refines fstore get16 set16 val16 okc okv16 inv
           (law16_get base size mirrors) (law16_set base size mirrors Hmirrors) I I cs total Hcs (proj1 Hr) (proj2 Hr)).
Qed.

Theorem multi_run_refines16 : forall ops w hs gs,
  WorldInv fstore val16 inv cs total w -> MultiInv fstore val16 cs total w hs gs ->
  exists w' hs' rs gs', multi_run fstore get16 set16 cs total w hs ops = (w', hs', rs) /\
    WorldInv fstore val16 inv cs total w' /\ MultiInv fstore val16 cs total w' hs' gs' /\
    bf_multi (views fstore w hs gs) ops rs = Some (views fstore w' hs' gs').
Proof.
  exact (multi_run_refines fstore get16 set16 val16 okc okv16 inv
           (law16_get base size mirrors) (law16_set base size mirrors Hmirrors) I I cs total Hcs (proj1 Hr) (proj2 Hr)).
Qed.
End W16.

(* ---------------------------------------------------------------- FAT32 *)
Section W32.
Hypothesis Hsize : 4 * (total + 2) <= size.
Hypothesis Htotal : total + 2 <= 268435447.
Let okc := okc32_g size.
Let Hr := range32 size mirrors Hmirrors total Hsize Htotal.

Theorem file_run_refines32 : forall ops w h sz l,
  WorldInv fstore val32 inv cs total w -> FileInv fstore val32 cs total w h sz l ->
  exists w' h' rs sz' l', file_run fstore get32 set32 cs total w h ops = (w', h', rs) /\
    WorldInv fstore val32 inv cs total w' /\ FileInv fstore val32 cs total w' h' sz' l' /\
    bf_run (content fstore w l sz, h_off h) ops rs = Some (content fstore w' l' sz', h_off h').
Proof.
  exact (file_run_refines fstore get32 set32 val32 okc okv32 inv
           (law32_get base size mirrors) (law32_set base size mirrors Hmirrors) I I cs total Hcs (proj1 Hr) (proj2 Hr)).
Qed.

Theorem multi_run_refines32 : forall ops w hs gs,
  WorldInv fstore val32 inv cs total w -> MultiInv fstore val32 cs total w hs gs ->
  exists w' hs' rs gs', multi_run fstore get32 set32 cs total w hs ops = (w', hs', rs) /\
    WorldInv fstore val32 inv cs total w' /\ MultiInv fstore val32 cs total w' hs' gs' /\
    bf_multi (views fstore w hs gs) ops rs = Some (views fstore w' hs' gs').
Proof.
  exact (multi_run_refines fstore get32 set32 val32 okc okv32 inv
           (law32_get base size mirrors) (law32_set base size mirrors Hmirrors) I I cs total Hcs (proj1 Hr) (proj2 Hr)).
Qed.
End W32.

(* ---------------------------------------------------------------- FAT12 *)
Section W12.
Hypothesis Hsize : off12 (total + 1) + 2 <= size.
Hypothesis Htotal : total + 2 <= 4087.
Let okc := okc12_g size.
Let Hr := range12 size mirrors Hmirrors total Hsize Htotal.

Theorem file_run_refines12 : forall ops w h sz l,
  WorldInv fstore val12 inv cs total w -> FileInv fstore val12 cs total w h sz l ->
  exists w' h' rs sz' l', file_run fstore get12 set12 cs total w h ops = (w', h', rs) /\
    WorldInv fstore val12 inv cs total w' /\ FileInv fstore val12 cs total w' h' sz' l' /\
    bf_run (content fstore w l sz, h_off h) ops rs = Some (content fstore w' l' sz', h_off h').
Proof.
  exact (file_run_refines fstore get12 set12 val12 okc okv12 inv
           (law12_get base size mirrors) (law12_set base size mirrors Hmirrors) I I cs total Hcs (proj1 Hr) (proj2 Hr)).
Qed.

Theorem multi_run_refines12 : forall ops w hs gs,
  WorldInv fstore val12 inv cs total w -> MultiInv fstore val12 cs total w hs gs ->
  exists w' hs' rs gs', multi_run fstore get12 set12 cs total w hs ops = (w', hs', rs) /\
    WorldInv fstore val12 inv cs total w' /\ MultiInv fstore val12 cs total w' hs' gs' /\
    bf_multi (views fstore w hs gs) ops rs = Some (views fstore w' hs' gs').
Proof.
  exact (multi_run_refines fstore get12 set12 val12 okc okv12 inv
           (law12_get base size mirrors) (law12_set base size mirrors Hmirrors) I I cs total Hcs (proj1 Hr) (proj2 Hr)).
Qed.
End W12.
End Geometry.
