(* VolSessionFormat.v: from ANY device content to a file with content, end to end over images:
   format_volume (Model/FormatImage.v) ; root_dir().create_file(name) (Model/VolDir.v) ; any calls on the handle
   (Model/VolFile.v) ; File::flush (Model/VolSession.v) - decoded by the independent decoder Spec/Abs.abs and judged by the
   well-formedness predicate Spec/Wf.wf_issues. *)
From Coq Require Import NArith ZArith Lia List Bool.
From FatVerif Require Import Model.Base Model.Str Model.Slot Model.Time Model.Table Model.Fat Model.FileM Model.DirSlots
  Spec.Image Model.Format Spec.FormatSpec Model.FormatImage Spec.FormatImageSpec Model.VolDir Model.VolFile Model.VolSession
  Spec.ByteFile Proofs.FatProofs Proofs.TableProofs Proofs.FileProofs Proofs.FormatProofs Proofs.FormatImageProofs
  Proofs.FormatImageAbs Proofs.VolDirProofs Proofs.VolDirFormat Proofs.VolFileProofs Proofs.VolSessionProofs.
From FatVerif Require Spec.Abs Spec.Wf Proofs.TimeProofs Model.ShortName.
Import ListNotations.
Open Scope N_scope.
Ltac Zify.zify_post_hook ::= Z.to_euclidean_division_equations.

Lemma v_geom_abs im : Abs.v_geom (Abs.abs im) = Abs.parse_geom im.
Proof.
  unfold Abs.abs. destruct (Abs.root_slots (Abs.parse_geom im) im) as [rc ss].
  destruct (Abs.dir_scan ss 0 [] (Abs.g_bits (Abs.parse_geom im) =? 32)) as [[es ls] iss]. reflexivity.
Qed.

(* (b) END TO END, from any device content: format_volume of a FAT12/16 volume ; create_file(name) ; any calls on the new
   handle (writes in any split, seeks, truncates, reads) ; flush.  The decoder finds exactly one root node: the file [name]
   whose content is exactly the byte array of the byte-array machine; the size field is its length; the chain is the
   decoder's walk and has ceil(length / cluster size) clusters; free clusters = all minus those; the label of the request;
   NO well-formedness issue (chain length matches size, no lost cluster, no cross-link, names unique, no orphan slot) for
   any case folding. *)
Theorem format_session_decodes fold upper oem acc o ts im0 bs t im fi name now ops range im1 :
  builder_range o -> ts < 4294967296 -> bytes_ok im0 ->
  format_boot_sector_validated o ts = Ok (bs, t) -> t <> Format.Fat32 ->
  (o_max_root_dir_entries o * 32) mod o_bytes_per_sector o = 0 ->
  format_image o ts im0 = Ok im ->
  let g := geom_of (fbs_bpb bs) in
  fi_inv fstore (val_ft (ft_of g)) (store_of g im) fi (Abs.g_clusters g) ->
  TimeProofs.datetime_valid now = true -> Forall op_ok (map fst ops) -> clocks_ok ops ->
  vol_create_empty_file_root upper oem im name now = (Ok (Some range), im1) ->
  exists st rs content pos e l,
    vol_session upper oem acc im fi name now ops = Some (st, rs) /\
    bf_run ([], 0) (map fst ops) rs = Some (content, pos) /\
    Abs.v_root (Abs.abs (s_im st)) = [Abs.NFile e (if Abs.e_cluster e =? 0 then None else Some l) content] /\
    Abs.e_lfn e = stored_lfn name /\ Abs.e_lfn_ok e = true /\ Abs.e_attr e = 0 /\
    ShortName.sfn_legal_b (Abs.e_sfn e) = true /\
    Abs.e_size e = len_N content /\ (Abs.e_cluster e = 0 <-> content = []) /\
    (Abs.e_cluster e <> 0 -> Abs.chain_from g (s_im st) (Abs.e_cluster e) (Abs.chain_fuel g) = Some l) /\
    N.of_nat (length l) = cdiv (Abs.g_cluster_size g) (len_N content) /\
    Abs.v_root_issues (Abs.abs (s_im st)) = [] /\ Abs.v_labels (Abs.abs (s_im st)) = expected_labels o /\
    Abs.parse_geom (s_im st) = g /\
    Abs.count_free g (s_im st) = sp_clusters (fbs_bpb bs) - cdiv (Abs.g_cluster_size g) (len_N content) /\
    Wf.wf_issues fold (s_im st) = [].
Proof.
  intros Hb Hts Hb0 Hv Ht Hfill Hf g Hfi Hnow Hops Hclk Hc.
  destruct (image_decodes_empty o ts im0 bs t im fold Hb Hts Hb0 Hv Hf) as (Hpg & Hcl & _ & Hroot & Hiss & Hlab & Hrc & _ & Hcf & _).
  destruct (formatted_fixed_root_geom o ts bs t Hb Hts Hv Ht Hfill) as [Hg Hmax]. fold g in Hg, Hpg, Hcl.
  pose proof (if_bytes _ _ _ _ _ (image_facts_of o ts im0 bs t im Hb Hts Hb0 Hv Hf)) as Hbim.
  assert (sp_is32 t = false) as H32 by (destruct t; try reflexivity; contradiction).
  rewrite H32 in Hrc, Hcf. rewrite Hpg in Hcf.
  assert (Abs.count_free g im = sp_clusters (fbs_bpb bs)) as Hcf' by (rewrite Hcf; unfold bad_range_clusters; lia).
  assert (forall x, 2 <= x < Abs.g_clusters g + 2 -> Abs.fat_val g im x = Abs.FFree) as Hallfree.
  { intros x Hx. apply (all_free_of_count g im (N.to_nat (Abs.g_clusters g)) 2); [|lia].
    fold (Abs.count_free g im). rewrite Hcf', Hcl. lia. }
  pose proof (session_flush_decodes upper oem acc im fi name now ops range im1) as SC. cbv zeta in SC. rewrite Hpg in SC.
  destruct (SC Hg Hbim Hfi Hiss ltac:(rewrite Hroot; reflexivity) Hnow Hops Hclk Hc)
    as (st & rs & content & pos & e & l & ns1 & ns2 & R1 & R2 & R3 & R4 & E1 & E2 & E3 & E4 & _ & _ & _ & E5 & E6 & E7 & E8 & E9 & E10
        & I1 & I2 & I3 & I4 & _ & _ & _ & Felse & _).
  rewrite Hroot in R3. symmetry in R3. apply app_eq_nil in R3. destruct R3 as [-> ->]. cbn [app] in R4.
  rewrite !v_geom_abs, Hpg in I3.
  exists st, rs, content, pos, e, l.
  split; [exact R1|]. split; [exact R2|]. split; [exact R4|]. split; [exact E1|]. split; [exact E2|]. split; [exact E3|].
  split; [exact E4|]. split; [exact E5|]. split; [exact E6|]. split; [intros Hnz; exact (proj1 (E7 Hnz))|]. split; [exact E8|].
  split; [exact I1|]. split; [rewrite I2; exact Hlab|]. split; [exact I3|].
  split.
  { pose proof (count_free_after g im (s_im st) l E9 E10) as X.
    rewrite X in Hcf'; [|intros x R Hn; rewrite (Hallfree x R); exact (Felse x R (Hallfree x R) Hn)]. rewrite <- E8. lia. }
  assert (l <> [] -> Abs.e_cluster e <> 0) as Hne.
  { intros Hl C. apply E6 in C. subst content. cbn [len_N length N.of_nat] in E8.
    rewrite (cdiv_0 _ (cs_pos g (fixed_root_vgeom_ok g Hg))) in E8. destruct l; [contradiction|cbn [length] in E8; lia]. }
  apply (wf_single fold (s_im st) e l content); rewrite ?v_geom_abs, ?I3.
  - exact (fg_bits g Hg).
  - rewrite I4. exact Hrc.
  - exact I1.
  - exact R4.
  - rewrite E5. split; [intros C; apply E6 in C; subst content; reflexivity|].
    intros C. apply E6. destruct content; [reflexivity|discriminate].
  - intros _. unfold len_N at 1. rewrite E8, E5. reflexivity.
  - exact E9.
  - intros x R. destruct (in_dec N.eq_dec x l) as [Hin|Hnin].
    + right. split; [|exact Hin]. apply Hne. intros ->. destruct Hin.
    + left. exact (Felse x R (Hallfree x R) Hnin).
Qed.

(* ================================================================ (c) BEFORE the flush: the recorded finding class
   "deferred-entry-writeback" (known_findings.json; DESIGN.md section 1 / C03) as a theorem *)
Lemma lost_from_in g im m : forall n c0 i,
  In i (Wf.lost_from g im m c0 n) <->
  exists c, i = Wf.WLost c /\ c0 <= c < c0 + N.of_nat n /\ Abs.fat_val g im c <> Abs.FFree /\ Abs.fat_val g im c <> Abs.FBad /\
            FMapPositive.PositiveMap.find (N.succ_pos c) m = None.
Proof.
  induction n as [|n IH]; intros c0 i; cbn [Wf.lost_from].
  - split; [intros []|intros (c & _ & R & _); lia].
  - rewrite in_app_iff, IH. split.
    + intros [H|(c & E & R & Hx)].
      * destruct (Abs.fat_val g im c0) eqn:F; [destruct H|destruct H| |];
          (destruct (FMapPositive.PositiveMap.find (N.succ_pos c0) m) eqn:Fm; [destruct H|]; destruct H as [<-|[]];
           exists c0; split; [reflexivity|]; split; [lia|]; rewrite F; repeat split; try discriminate; exact Fm).
      * exists c. split; [exact E|]. split; [lia|exact Hx].
    + intros (c & E & R & F1 & F2 & Fm). destruct (N.eq_dec c c0) as [->|Hne].
      * left. rewrite Fm. subst i. destruct (Abs.fat_val g im c0); try contradiction; left; reflexivity.
      * right. exists c. split; [exact E|]. split; [lia|]. repeat split; assumption.
Qed.

(* format ; create_file(name) ; any calls - and NO flush yet.  What the handle knows (size = length of the byte array, a
   chain of ceil(size / cluster size) clusters) is not on the device: the decoder still sees the entry as it was created,
   size 0 and no first cluster, and the only well-formedness findings are the clusters of that chain, each reported as LOST
   (allocated, owned by no entry).  So a power cut here leaves an empty file and lost clusters; flush / drop repairs it
   (format_session_decodes). *)
Theorem format_session_unflushed fold upper oem acc o ts im0 bs t im fi name now ops range im1 :
  builder_range o -> ts < 4294967296 -> bytes_ok im0 ->
  format_boot_sector_validated o ts = Ok (bs, t) -> t <> Format.Fat32 ->
  (o_max_root_dir_entries o * 32) mod o_bytes_per_sector o = 0 ->
  format_image o ts im0 = Ok im ->
  let g := geom_of (fbs_bpb bs) in
  fi_inv fstore (val_ft (ft_of g)) (store_of g im) fi (Abs.g_clusters g) ->
  TimeProofs.datetime_valid now = true -> Forall op_ok (map fst ops) -> clocks_ok ops ->
  vol_create_empty_file_root upper oem im name now = (Ok (Some range), im1) ->
  exists st1 st2 rs content pos ne l,
    sess_create upper oem im fi name now = Some st1 /\ sess_run g acc st1 ops = (st2, rs) /\
    bf_run ([], 0) (map fst ops) rs = Some (content, pos) /\
    h_size (s_h st2) = Some (len_N content) /\ N.of_nat (length l) = cdiv (Abs.g_cluster_size g) (len_N content) /\
    Abs.v_root (Abs.abs (s_im st2)) = [Abs.NFile ne None []] /\
    Abs.e_lfn ne = stored_lfn name /\ Abs.e_size ne = 0 /\ Abs.e_cluster ne = 0 /\
    (forall i, In i (Wf.wf_issues fold (s_im st2)) <-> exists c, i = Wf.WLost c /\ In c l) /\
    (content <> [] -> Wf.wf_issues fold (s_im st2) <> []).
Proof.
  intros Hb Hts Hb0 Hv Ht Hfill Hf g Hfi Hnow Hops Hclk Hc.
  destruct (image_decodes_empty o ts im0 bs t im fold Hb Hts Hb0 Hv Hf) as (Hpg & Hcl & _ & Hroot & Hiss & _ & _ & _ & Hcf & _).
  destruct (formatted_fixed_root_geom o ts bs t Hb Hts Hv Ht Hfill) as [Hg Hmax]. fold g in Hg, Hpg, Hcl.
  pose proof (fixed_root_vgeom_ok g Hg) as Hok.
  pose proof (if_bytes _ _ _ _ _ (image_facts_of o ts im0 bs t im Hb Hts Hb0 Hv Hf)) as Hbim.
  assert (sp_is32 t = false) as H32 by (destruct t; try reflexivity; contradiction).
  rewrite H32, Hpg in Hcf.
  assert (Abs.count_free g im = sp_clusters (fbs_bpb bs)) as Hcf' by (rewrite Hcf; unfold bad_range_clusters; lia).
  assert (forall x, 2 <= x < Abs.g_clusters g + 2 -> Abs.fat_val g im x = Abs.FFree) as Hallfree.
  { intros x Hx. apply (all_free_of_count g im (N.to_nat (Abs.g_clusters g)) 2); [|lia].
    fold (Abs.count_free g im). rewrite Hcf', Hcl. lia. }
  pose proof (session_core upper oem acc im fi name now ops range im1) as SC. cbv zeta in SC. rewrite Hpg in SC.
  destruct (SC Hg Hbim Hfi Hiss Hnow Hops Hclk Hc)
    as (es & ls & es1 & es2 & ne & ss' & k & pk & st1 & st2 & rs & sz2 & l2 & s'
        & Habs & Ees & Hsh & Him1 & Hpg1 & Hscan1 & Hk & Hne & Hrw & L1 & L2 & A1 & S1 & C1 & HL & HU & P1 & P2 & Hslot & _
        & Hcreate & Hst1 & Hrun & V2 & Hbf & F2 & Hrs2 & Hpg2 & _).
  rewrite Habs in Hroot. cbn [abs_fixed Abs.v_root] in Hroot. rewrite Ees in Hroot.
  change Abs.MAX_DEPTH with (S 23) in Hroot. rewrite decode_entries_S, map_app in Hroot.
  apply app_eq_nil in Hroot. destruct Hroot as [R1 R2]. apply map_eq_nil in R1. apply map_eq_nil in R2. subst es1 es2.
  cbn [app] in Hscan1.
  pose proof (vol_content_length g Hok _ _ _ _ _ V2) as Hlen.
  pose proof (put_same_outside g im ss' Hsh) as Hout01. rewrite <- Him1 in Hout01.
  assert (Abs.abs (s_im st2) = abs_fixed g (s_im st2) [ne] ls []) as Habs2.
  { rewrite <- Hpg2. apply abs_fixed_root; rewrite Hpg2; [exact (fg_bits g Hg)|]. rewrite Hrs2. exact Hscan1. }
  assert (Abs.decode_entries g (s_im st2) Abs.MAX_DEPTH [ne] = [Abs.NFile ne None []]) as Hdec.
  { change Abs.MAX_DEPTH with (S 23). rewrite decode_entries_S. cbn [map]. f_equal. apply node_of_empty_file.
    - unfold Abs.e_is_dot. destruct (sfn_legal_not_dot _ HL) as [-> ->]. reflexivity.
    - unfold Abs.e_is_dir. rewrite A1. reflexivity.
    - exact C1. }
  destruct V2 as (Hb2 & W2 & I2 & NB2).
  assert (forall i, In i (Wf.wf_issues fold (s_im st2)) <-> exists c, i = Wf.WLost c /\ In c l2) as Hwf.
  { intros i. rewrite (wf_issues_fixed fold (s_im st2) g (s_im st2) [ne] ls [] (fg_bits g Hg) Habs2). cbv zeta. rewrite Hdec.
    unfold Wf.nodes_chains, Wf.nodes_issues, Wf.names_issues.
    cbn [flat_map Wf.node_chains app concat Wf.own_clusters map Abs.node_entry Wf.has_dup existsb orb filter Wf.node_issues
         Wf.depth_exceeded Abs.MAX_DEPTH].
    rewrite S1, C1. cbn [N.eqb app].
    destruct (negb match Abs.e_lfn ne with [] => true | _ :: _ => false end); cbn [map Wf.has_dup existsb orb app];
      rewrite app_nil_r, lost_from_in.
    all: split.
    all: try (intros (c & E & R & F1 & F3 & _); exists c; split; [exact E|];
              destruct (in_dec N.eq_dec c l2) as [Hin|Hnin]; [exact Hin|]; exfalso; apply F1;
              apply (rf_else g im1 (s_im st2) l2 F2 c ltac:(lia) Hnin); unfold free0;
              rewrite (fat_val_frame g im im1 c Hg Hout01 (in_range_intro g c ltac:(lia))); apply Hallfree; lia).
    all: intros (c & E & Hin); exists c; split; [exact E|];
         destruct (inv_range _ _ _ _ _ _ _ _ I2 c Hin) as (R & NF); split; [lia|];
         split; [intros C; apply NF; cbn [world_of w_fat]; rewrite <- (fat_val_store g _ c (range_small g c Hok R)), C; reflexivity|];
         split; [intros C; apply (NB2 c Hin); cbn [world_of w_fat]; rewrite <- (fat_val_store g _ c (range_small g c Hok R)), C; reflexivity|];
         apply FMapPositive.PositiveMap.gempty. }
  exists st1, st2, rs, (vol_content g (s_im st2) l2 sz2), (h_off (s_h st2)), ne, l2.
  split; [exact Hcreate|]. split; [exact Hrun|]. split; [exact Hbf|].
  split; [rewrite Hlen; exact (inv_size_eq _ _ _ _ _ _ _ _ I2)|].
  split; [rewrite Hlen; exact (inv_len _ _ _ _ _ _ _ _ I2)|].
  split; [rewrite Habs2; cbn [abs_fixed Abs.v_root]; exact Hdec|].
  split; [exact L1|]. split; [exact S1|]. split; [exact C1|]. split; [exact Hwf|].
  intros Hne0 E.
  assert (l2 <> []) as Hl2.
  { intros ->. pose proof (inv_len _ _ _ _ _ _ _ _ I2) as X. cbn [length N.of_nat] in X. symmetry in X.
    apply (cdiv_eq_0 _ (cs_pos g Hok)) in X. subst sz2. apply Hne0. unfold vol_content. reflexivity. }
  destruct l2 as [|c r]; [contradiction|].
  assert (In (Wf.WLost c) (Wf.wf_issues fold (s_im st2))) as X by (apply Hwf; exists c; split; [reflexivity|left; reflexivity]).
  rewrite E in X. destruct X.
Qed.
