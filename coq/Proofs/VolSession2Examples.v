(* VolSession2Examples.v: the several-files session theorems on a concrete image - the 64-sector FAT12 volume of
   Proofs/VolSessionExamples.v (ex_vol_im: 16 root entries, label in slot 0, FAT copies at 512 and 1024, root region
   1536..2047, data area at 2048, 512-byte clusters, 60 clusters).
   "a.txt" and "b.txt" are created (slots 1-2 and 3-4), then written ALTERNATELY: 512 bytes to a, 512 bytes to b, 3 more
   bytes to a, 2 more bytes to b - so the clusters interleave on the disk: a = 2 -> 4, b = 3 -> 5.  The handles are flushed
   in REVERSE order (b first). *)
From Coq Require Import NArith ZArith List Lia Bool Permutation.
From FatVerif Require Import Model.Base Model.Str Model.Time Model.Table Model.Format Model.FormatImage Model.Fat Model.FileM
  Model.Name Model.VolDir Model.VolFile Model.VolSession Model.VolSession2 Spec.Image Spec.Abs Spec.ByteFile
  Proofs.TableProofs Proofs.FatProofs Proofs.FileProofs Proofs.VolDirProofs Proofs.VolDirFormat Proofs.VolFileProofs
  Proofs.VolSessionProofs Proofs.VolSessionExamples Proofs.VolSession2Proofs.
From FatVerif Require Spec.Wf Proofs.TimeProofs.
Import ListNotations.
Open Scope N_scope.

Definition ex2_bname : str := [98; 46; 116; 120; 116].                               (* "b.txt" *)
Definition ex2_reqs : list (str * datetime) := [(ex_sname, ex_vol_now); (ex2_bname, ex_vol_now)].
Definition ex2_writes : list s2op :=
  [SOp 0 (FWrite (repeat 7 512)) ex_vol_now; SOp 1 (FWrite (repeat 9 512)) ex_clock2;
   SOp 0 (FWrite [1; 2; 3]) ex_clock2; SOp 1 (FWrite [4; 5]) ex_clock2].
Definition ex2_ops : list s2op := ex2_writes ++ [SFlush 1; SFlush 0].
Definition ex2_a : list N := repeat 7 512 ++ [1; 2; 3].
Definition ex2_b : list N := repeat 9 512 ++ [4; 5].

(* the hypotheses of session2_decodes / format_session2_decodes hold, and both handles are settled by the op list *)
Example ex2_hyps :
  let g := parse_geom ex_vol_im in
  fixed_root_geom g /\ FatProofs.bytes_ok ex_vol_im /\
  fi_inv fstore (val_ft (ft_of g)) (store_of g ex_vol_im) ex_sfi (g_clusters g) /\
  v_root_issues (abs ex_vol_im) = [] /\ forallb node_intact (v_root (abs ex_vol_im)) = true /\
  Forall (fun q => str_valid (fst q) = true /\ TimeProofs.datetime_valid (snd q) = true) ex2_reqs /\ Forall s2op_ok ex2_ops /\
  settled 0 ex2_ops true = true /\ settled 1 ex2_ops true = true.
Proof.
  cbv zeta. destruct ex_vol_premises as (bs & _ & _ & _ & Hg & Hnow).
  split; [exact Hg|]. split; [apply bytes_ok_check; vm_compute; reflexivity|]. split; [split; exact I|].
  split; [vm_compute; reflexivity|]. split; [vm_compute; reflexivity|].
  split; [repeat constructor; exact Hnow|].
  split; [|split; reflexivity].
  assert (TimeProofs.datetime_valid ex_clock2 = true) as Hc2 by (vm_compute; reflexivity).
  assert (forall n b, b < 256 -> op_ok (FWrite (repeat b n))) as Hrep.
  { intros n b Hb x Hx. apply repeat_spec in Hx. subst x. exact Hb. }
  repeat constructor; try exact Hnow; try exact Hc2; try (apply Hrep; reflexivity);
    intros b Hb; cbn [In] in Hb; repeat (destruct Hb as [<-|Hb]; [reflexivity|]); destruct Hb.
Qed.

(* the whole session: results, the multi-file byte-array machine, the decoded root (a = clusters 2 -> 4 with 515 bytes,
   b = clusters 3 -> 5 with 514 bytes), no issue, 56 of 60 clusters free, both handles clean *)
Example ex2_session :
  match vol_session2 ex_U ex_O false ex_vol_im ex_sfi ex2_reqs ex2_ops with
  | Some (st, rs) =>
    rs = [RCount 512; RCount 512; RCount 3; RCount 2] /\
    bf_multi [([], 0); ([], 0)] (file_ops ex2_ops) rs = Some [(ex2_a, 515); (ex2_b, 514)] /\
    (exists ea eb, v_root (abs (s2_im st)) = [NFile ea (Some [2; 4]) ex2_a; NFile eb (Some [3; 5]) ex2_b] /\
                   e_lfn ea = ex_sname /\ e_size ea = 515 /\ e_cluster ea = 2 /\ e_sfn_slot ea = 2 /\
                   e_lfn eb = ex2_bname /\ e_size eb = 514 /\ e_cluster eb = 3 /\ e_sfn_slot eb = 4) /\
    v_root_issues (abs (s2_im st)) = [] /\ Wf.wf_issues (fun l => l) (s2_im st) = [] /\
    count_free (parse_geom ex_vol_im) (s2_im st) = 56 /\
    img_read (s2_im st) (512 + 3) 6 = [4; 80; 0; 255; 255; 255] /\
    map s2_dirty (s2_hs st) = [false; false]
  | None => False
  end.
Proof.
  vm_compute. split; [reflexivity|]. split; [reflexivity|]. split; [|repeat split].
  eexists _, _. repeat split.
Qed.

(* after the flush of b ONLY (a still open and dirty): b is on the disk with its content; a still shows as an empty file
   and its two clusters are lost (the deferred write-back class) - and they lie BETWEEN the clusters of b *)
Example ex2_one_flushed :
  match vol_session2 ex_U ex_O false ex_vol_im ex_sfi ex2_reqs (ex2_writes ++ [SFlush 1]) with
  | Some (st, rs) =>
    (exists ea eb, v_root (abs (s2_im st)) = [NFile ea None []; NFile eb (Some [3; 5]) ex2_b] /\ e_size ea = 0 /\ e_size eb = 514) /\
    Wf.wf_issues (fun l => l) (s2_im st) = [Wf.WLost 2; Wf.WLost 4] /\
    map s2_dirty (s2_hs st) = [true; false]
  | None => False
  end.
Proof. vm_compute. split; [|split; reflexivity]. eexists _, _. repeat split. Qed.

(* C14: b is flushed; a keeps growing (three more clusters), is truncated and flushed: the node of b is the same node *)
Example ex2_flushed_survives :
  match vol_session2 ex_U ex_O false ex_vol_im ex_sfi ex2_reqs (ex2_writes ++ [SFlush 1]),
        vol_session2 ex_U ex_O false ex_vol_im ex_sfi ex2_reqs
          (ex2_writes ++ [SFlush 1; SOp 0 (FWrite (repeat 8 1200)) ex_clock2; SOp 0 (FSeek (FromStart 600)) ex_clock2;
                          SOp 0 FTruncate ex_clock2; SFlush 0]) with
  | Some (st, _), Some (st', _) =>
    exists nb, nth_error (v_root (abs (s2_im st))) 1 = Some nb /\ nth_error (v_root (abs (s2_im st'))) 1 = Some nb /\
               (exists eb, nb = NFile eb (Some [3; 5]) ex2_b) /\
               (exists ea, nth_error (v_root (abs (s2_im st'))) 0 = Some (NFile ea (Some [2; 4]) (firstn 600 (ex2_a ++ repeat 8 1200)))) /\
               Wf.wf_issues (fun l => l) (s2_im st') = []
  | _, _ => False
  end.
Proof. vm_compute. eexists. split; [reflexivity|]. split; [reflexivity|]. split; [eexists; reflexivity|]. split; [eexists; reflexivity|reflexivity]. Qed.

(* ---------------------------------------------------------------- the file layer alone (no entries): Proofs/VolFileExamples.v
   ex_im with two new handles, written alternately *)
From FatVerif Require Import Proofs.VolFileExamples.

Example ex2_mvol_inv : MVolInv ex_g ex_im ex_fi [empty_file; empty_file] [(0, []); (0, [])].
Proof.
  destruct ex_vol_inv as (Hb & W & _).
  apply (mvol_inv_snoc_empty ex_g ex_geom_ok ex_im ex_fi [empty_file] [(0, [])]).
  apply (mvol_inv_snoc_empty ex_g ex_geom_ok ex_im ex_fi [] []).
  split; [exact Hb|]. split; [exact W|]. split; [reflexivity|]. split.
  - intros i h gh H. destruct i; discriminate.
  - intros i j g1 g2 _ H. destruct i; discriminate.
Qed.

Definition ex2_mops : list (nat * fop) :=
  [(0%nat, FWrite (repeat 7 512)); (1%nat, FWrite (repeat 9 512)); (0%nat, FWrite [1; 2; 3]); (1%nat, FWrite [4; 5]);
   (2%nat, FWrite [6]); (0%nat, FSeek (FromStart 510)); (0%nat, FRead 4)].

Example ex2_mops_ok : Forall (fun io => op_ok (snd io)) ex2_mops.
Proof.
  assert (forall n b, b < 256 -> op_ok (FWrite (repeat b n))) as Hrep.
  { intros n b Hb x Hx. apply repeat_spec in Hx. subst x. exact Hb. }
  repeat constructor; cbn [snd]; try (apply Hrep; reflexivity);
    intros b Hb; cbn [In] in Hb; repeat (destruct Hb as [<-|Hb]; [reflexivity|]); destruct Hb.
Qed.

(* the clusters interleave (2 -> 4 and 3 -> 5), the contents do not mix; the step on the missing handle 2 is skipped *)
Example ex2_mvol_run :
  let '((im', fi', hs'), rs) := mvol_run ex_g (ex_im, ex_fi, [empty_file; empty_file]) ex2_mops in
  rs = [RCount 512; RCount 512; RCount 3; RCount 2; RPos 510; RBytes [7; 7]] /\
  map h_first hs' = [Some 2; Some 3] /\
  chain_from ex_g im' 2 (Abs.chain_fuel ex_g) = Some [2; 4] /\ chain_from ex_g im' 3 (Abs.chain_fuel ex_g) = Some [3; 5] /\
  vviews ex_g im' hs' [(515, [2; 4]); (514, [3; 5])] = [(ex2_a, 512); (ex2_b, 514)] /\
  bf_multi [([], 0); ([], 0)] ex2_mops rs = Some [(ex2_a, 512); (ex2_b, 514)].
Proof. vm_compute. repeat split. Qed.

(* ---------------------------------------------------------------- the run invariant is satisfiable: the state after the two
   creates on the example image (mount: C04_session2_start ; create_file twice: C04_session2_create_keeps_inv) *)
Example ex2_run_inv :
  let g := parse_geom ex_vol_im in
  exists st1 gs es ls,
    s2_creates ex_U ex_O {| s2_im := ex_vol_im; s2_fi := ex_sfi; s2_hs := [] |} ex2_reqs = Some st1 /\
    RunInv g ex_vol_im [] st1 gs es ls /\ length gs = 2%nat /\ length (s2_hs st1) = 2%nat.
Proof.
  cbv zeta. destruct ex2_hyps as (Hg & Hb & Hfi & Hiss & _ & Hrq & _).
  set (g := parse_geom ex_vol_im) in *.
  assert (exists st1, s2_creates ex_U ex_O {| s2_im := ex_vol_im; s2_fi := ex_sfi; s2_hs := [] |} ex2_reqs = Some st1) as [st1 E].
  { vm_compute. eexists. reflexivity. }
  assert (exists ls, dir_scan (root_region_slots g ex_vol_im) 0 [] false = ([], ls, [])) as [ls Hscan].
  { vm_compute. eexists. reflexivity. }
  pose proof (run_inv_start g Hg ex_vol_im ex_sfi [] ls eq_refl Hb Hfi Hscan) as R0.
  assert (Forall (fun q => TimeProofs.datetime_valid (snd q) = true) ex2_reqs) as Hclk.
  { eapply Forall_impl; [|exact Hrq]. intros q [_ H]. exact H. }
  destruct (s2_creates_inv g Hg ex_U ex_O ex_vol_im [] ex2_reqs _ [] [] ls st1 Hclk R0 E)
    as (news & es1 & xs & R1 & N1 & _ & _ & Hhs & _ & Hlen).
  exists st1, news, es1, ls. split; [exact E|]. split; [exact R1|]. split.
  - clear -N1. assert (length ex2_reqs = length news) as X by (induction N1; cbn [length]; congruence). rewrite <- X. reflexivity.
  - rewrite Hhs. cbn [s2_hs app]. rewrite Hlen. reflexivity.
Qed.
