(* VolRemoveExamples.v: the remove theorems on a concrete image - the 64-sector FAT12 volume of Proofs/VolSessionExamples.v
   after its session: "a.txt", 515 bytes in clusters 2 -> 3, long-name slot 1 and short slot 2 of the root (device offsets
   1568 and 1600), FAT copies at 512 and 1024. *)
From Coq Require Import NArith ZArith List Lia Bool.
From FatVerif Require Import Model.Base Model.Str Model.Time Model.Table Model.Fat Model.FileM Model.Name Model.DirSlots
  Model.VolDir Model.VolFile Model.VolSession Model.VolRemove Spec.Image Spec.Abs Spec.ByteFile
  Proofs.TableProofs Proofs.FatProofs Proofs.FileProofs Proofs.DirSlotsProofs Proofs.VolDirProofs Proofs.VolDirFormat
  Proofs.VolFileProofs Proofs.VolSessionProofs Proofs.VolSessionExamples Proofs.VolRemoveProofs.
From FatVerif Require Spec.Wf Proofs.TimeProofs Proofs.DupLongProofs Model.Lfn.
Import ListNotations.
Open Scope N_scope.

(* image and FS-info latch after the session *)
Definition ex_rm_im : image :=
  match vol_session ex_U ex_O false ex_vol_im ex_sfi ex_sname ex_vol_now ex_sops with Some (st, _) => s_im st | None => img_empty 0 end.
Definition ex_rm_fi : fsinfo :=
  match vol_session ex_U ex_O false ex_vol_im ex_sfi ex_sname ex_vol_now ex_sops with Some (st, _) => s_fi st | None => ex_sfi end.

(* the premises of vol_remove_file_decodes hold on it, for the name as typed ("a.txt") and for another spelling ("A.TXT") *)
Example ex_remove_hyps :
  let g := parse_geom ex_rm_im in
  fixed_root_geom g /\ FatProofs.bytes_ok ex_rm_im /\
  fi_inv fstore (val_ft (ft_of g)) (store_of g ex_rm_im) ex_rm_fi (g_clusters g) /\
  Wf.wf_issues (fun l => l) ex_rm_im = [] /\ Forall attrs_sane (root_region_slots g ex_rm_im) /\
  (exists ev, root_lookup ex_U ex_O ex_rm_im ex_sname = Ok ev /\ Lfn.ev_is_dir ev = false /\
     list_eqb (Lfn.ev_raw_name ev) DOT || list_eqb (Lfn.ev_raw_name ev) DOTDOT = false /\
     Lfn.ev_cluster_lo ev = 2 /\ Lfn.ev_size ev = 515) /\
  (exists ev, root_lookup ex_U ex_O ex_rm_im [65; 46; 84; 88; 84] = Ok ev /\ Lfn.ev_is_dir ev = false).
Proof.
  cbv zeta. destruct ex_vol_premises as (bs & _ & _ & _ & Hg & _).
  assert (parse_geom ex_rm_im = parse_geom ex_vol_im) as -> by (vm_compute; reflexivity).
  split; [exact Hg|]. split; [apply bytes_ok_check; vm_compute; reflexivity|].
  split; [split; vm_compute; first [exact I|discriminate|intros C; discriminate C]|]. split; [vm_compute; reflexivity|].
  split; [apply DupLongProofs.attrs_sane_b; vm_compute; reflexivity|].
  split; eexists; (split; [vm_compute; reflexivity|]); repeat split.
Qed.

(* AFTER remove("a.txt"): no root node, all 60 clusters free, no issue; the FAT entries of clusters 2 and 3 are zero in BOTH
   copies (bytes 515..517 and 1027..1029), the data bytes are still where they were, slots 1 and 2 of the root carry the
   deleted mark 0xE5, the label slot and everything else is untouched; the FS-info latch is unchanged because the count is not
   cached on this FAT12 mount (map_free on None) *)
Example ex_remove_result :
  match vol_remove_file_root ex_U ex_O ex_rm_im ex_rm_fi ex_sname with
  | Some (Ok _, im', fi') =>
    v_root (abs im') = [] /\ v_root_issues (abs im') = [] /\
    v_labels (abs im') = [[65; 66; 67; 68; 69; 70; 71; 72; 73; 74; 75]] /\
    Wf.wf_issues (fun l => l) im' = [] /\
    count_free (parse_geom ex_rm_im) ex_rm_im = 58 /\ count_free (parse_geom ex_rm_im) im' = 60 /\
    img_read ex_rm_im 515 3 = [3; 240; 255] /\ img_read im' 515 3 = [0; 0; 0] /\ img_read im' 1027 3 = [0; 0; 0] /\
    img_read im' (2048 + 509) 6 = [1; 2; 3; 4; 5; 6] /\
    map (fun k => img_get im' (1536 + 32 * k)) [0; 1; 2; 3] = [65; 229; 229; 0] /\
    fi' = ex_rm_fi
  | _ => False
  end.
Proof. vm_compute. repeat (split; [reflexivity|]). reflexivity. Qed.

(* the failure cases: an unknown name is NotFound and the image is handed back; the same name again after the remove is
   NotFound as well *)
Example ex_remove_not_found :
  vol_remove_file_root ex_U ex_O ex_rm_im ex_rm_fi [98] = Some (Err ENotFound, ex_rm_im, ex_rm_fi) /\
  match vol_remove_file_root ex_U ex_O ex_rm_im ex_rm_fi ex_sname with
  | Some (_, im', fi') => fst (fst (match vol_remove_file_root ex_U ex_O im' fi' ex_sname with Some x => x | None => (Ok tt, im', fi') end))
                          = Err ENotFound
  | None => False
  end.
Proof. split; [reflexivity|]. vm_compute. reflexivity. Qed.

(* two fill / delete cycles on the freshly formatted volume run, and leave all 60 clusters free *)
Definition ex_cycles : list cycle :=
  [ {| cy_name := ex_sname; cy_now := ex_vol_now; cy_ops := ex_sops |};
    {| cy_name := [98; 46; 98; 105; 110]; cy_now := ex_clock2; cy_ops := [(FWrite (repeat 9 1500), ex_clock2); (FTruncate, ex_clock2)] |} ].

Example ex_cycles_run :
  Forall (cycle_ok) ex_cycles /\
  match vol_cycles ex_U ex_O false ex_vol_im ex_sfi ex_cycles with
  | Some (im', fi') => v_root (abs im') = [] /\ count_free (parse_geom ex_vol_im) im' = 60 /\ Wf.wf_issues (fun l => l) im' = []
  | None => False
  end.
Proof.
  split.
  - repeat constructor; try reflexivity; try discriminate;
      intros b Hb; cbn [In] in Hb; try (apply repeat_spec in Hb; subst b; reflexivity);
      repeat (destruct Hb as [<-|Hb]; [reflexivity|]); destruct Hb.
  - vm_compute. repeat (split; [reflexivity|]). reflexivity.
Qed.
