(* Vol32RootGrowExamples.v: GROWTH of the FAT32 root (Model/Vol32Root.vol32_root_create_grow = Model/VolChainGrow.v on the root
   chain) on the concrete volume of Proofs/Vol32RootExamples.v whose one-cluster root is full (15 of 16 slots used): the next
   3-slot create allocates cluster 3 (hint 3 from the FS-info latch), zeroes it, links 2 -> 3 in the FAT, writes one slot at the
   end of cluster 2 and two at the start of cluster 3.  Evaluated by vm_compute on the sparse image.  (The general theorems of
   Proofs/VolChainGrowProofs.v are proved for FAT12/16 geometries: DESIGN.md section 9.) *)
From Coq Require Import NArith List Bool.
From FatVerif Require Import Model.Base Model.Str Model.Slot Model.Time Model.Table Model.Name Model.DirSlots Model.VolFile Model.VolChainDir
  Model.VolChainGrow Model.Vol32Root Spec.Image Spec.Abs Proofs.VolDirFormat Proofs.VolChainGrowExamples Proofs.Vol32RootExamples.
From FatVerif Require Spec.Wf.
Import ListNotations.
Open Scope N_scope.

Definition ex32_fi : fsinfo := {| fi_free := Some (65578); fi_next := Some 3; fi_dirty := false |}.
Definition grow_view (r : option (res (option (N * N)) * gstate)) :=
  match r with
  | Some (x, (im, fi, l)) =>
    Some (x, fi, l, v_root_chain (abs im), length (v_root (abs im)), Wf.wf_issues (fun l => l) im,
          count_free (parse_geom im) im, img_read im (4096 + 8) 8)
  | None => None
  end.

Lemma ex32r_root_grows :
  grow_view (vol32_root_create_grow upper_ascii oem_decode_lossy ex32r_full ex32_fi (ex32_name_k 5) ex_vol_now) =
  Some (Ok (Some (15, 18)), {| fi_free := Some 65577; fi_next := Some 4; fi_dirty := true |}, [2; 3], Some [2; 3], 6%nat, [],
        65577, [3; 0; 0; 0; 255; 255; 255; 15]).
Proof. vm_compute. reflexivity. Qed.
