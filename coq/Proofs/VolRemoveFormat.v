(* VolRemoveFormat.v: from ANY device content, end to end over images:
   format_volume (Model/FormatImage.v) ; then any number of cycles  create_file ; calls on the handle ; flush ; remove
   (Model/VolRemove.v vol_cycles).  A freshly formatted FAT12/16 volume is an [EmptyVol] (Proofs/VolRemoveProofs.v), so the
   cycle theorems apply: every remove succeeds, gives back all clusters, and after n cycles the image decodes like the freshly
   formatted one - no root node, the label of the request, count_free = all clusters, no issue of Spec/Wf.v. *)
From Coq Require Import NArith ZArith Lia List Bool.
From FatVerif Require Import Model.Base Model.Str Model.Slot Model.Time Model.Table Model.Fat Model.FileM Model.DirSlots
  Spec.Image Model.Format Spec.FormatSpec Model.FormatImage Spec.FormatImageSpec Model.VolDir Model.VolFile Model.VolSession
  Model.VolRemove Spec.ByteFile Proofs.FatProofs Proofs.TableProofs Proofs.FileProofs Proofs.FormatProofs
  Proofs.FormatImageProofs Proofs.FormatImageAbs Proofs.DirSlotsProofs Proofs.VolDirProofs Proofs.VolDirFormat
  Proofs.VolFileProofs Proofs.VolSessionProofs Proofs.VolRemoveProofs.
From FatVerif Require Spec.Abs Spec.Wf Proofs.TimeProofs Model.ShortName Model.Name.
Import ListNotations.
Open Scope N_scope.
Ltac Zify.zify_post_hook ::= Z.to_euclidean_division_equations.

(* the root region format_volume leaves: the label slot (attribute VOLUME_ID) and zeros - every slot is attrs_sane *)
Lemma formatted_root_sane o ts im0 bs t im : builder_range o -> ts < 4294967296 -> FatProofs.bytes_ok im0 ->
  format_boot_sector_validated o ts = Ok (bs, t) -> t <> Format.Fat32 ->
  (o_max_root_dir_entries o * 32) mod o_bytes_per_sector o = 0 -> format_image o ts im0 = Ok im ->
  Forall attrs_sane (root_region_slots (geom_of (fbs_bpb bs)) im).
Proof.
  intros Hb Hts Hb0 Hv Ht Hfill Hf. set (g := geom_of (fbs_bpb bs)).
  destruct (formatted_fixed_root_geom o ts bs t Hb Hts Hv Ht Hfill) as [Hg _]. fold g in Hg.
  destruct (image_root_dir o ts im0 bs t im Hb Hts Hb0 Hv Hf) as [Hbytes _].
  destruct (root_region_shape g im) as [[S1 S2] _].
  apply Forall_forall. intros s Hs. destruct (In_nth _ _ [] Hs) as (k & Hk & <-). rewrite S1 in Hk.
  apply attrs_sane_const. unfold byte_at. rewrite (root_region_slot_bytes g im k 11 Hk ltac:(lia)).
  change (Abs.g_root_off g) with (fi_root_pos (fbs_bpb bs)).
  rewrite Hbytes.
  - rewrite Nat2N.id. unfold label_bytes. destruct (o_volume_label o) as [lb|] eqn:El.
    + destruct Hb as (_ & _ & _ & _ & _ & _ & _ & _ & _ & _ & Hlab). destruct (Hlab lb El) as [Hlen _].
      destruct k as [|k].
      * right. right. cbn [Nat.mul Nat.add].
        pose proof (sfn_encode_attr (label_entry lb) Hlen) as X. unfold byte_at in X. rewrite X. reflexivity.
      * left. apply nth_overflow. unfold sfn_encode. rewrite !app_length. cbn [label_entry se_name length u16_bytes u32_bytes]. lia.
    + left. destruct (32 * k + 11)%nat; reflexivity.
  - assert (t = Format.Fat12 \/ t = Format.Fat16) as Ht' by (destruct t; auto; contradiction).
    assert (sp_is32 t = false) as H32 by (destruct Ht' as [-> | ->]; reflexivity).
    unfold fi_root_len. rewrite H32. unfold sp_root_dir_sectors.
    pose proof (fg_bps g Hg) as Hbps. unfold g in Hbps. cbn [geom_of Abs.g_bps] in Hbps.
    unfold root_slot_count, g in Hk. cbn [geom_of Abs.g_root_entries] in Hk.
    set (B := fb_bytes_per_sector (fbs_bpb bs)) in *. set (R := fb_root_entries (fbs_bpb bs)) in *.
    assert (R * 32 <= (R * 32 + (B - 1)) / B * B) by lia. lia.
Qed.

(* a freshly formatted FAT12/16 volume is an empty volume in the sense of the cycle theorems *)
Theorem formatted_empty_vol o ts im0 bs t im fi : builder_range o -> ts < 4294967296 -> FatProofs.bytes_ok im0 ->
  format_boot_sector_validated o ts = Ok (bs, t) -> t <> Format.Fat32 ->
  (o_max_root_dir_entries o * 32) mod o_bytes_per_sector o = 0 -> format_image o ts im0 = Ok im ->
  let g := geom_of (fbs_bpb bs) in
  fi_inv fstore (val_ft (ft_of g)) (store_of g im) fi (Abs.g_clusters g) ->
  fixed_root_geom g /\ EmptyVol g im fi /\ Abs.g_clusters g = sp_clusters (fbs_bpb bs) /\
  Abs.v_labels (Abs.abs im) = expected_labels o.
Proof.
  intros Hb Hts Hb0 Hv Ht Hfill Hf g Hfi.
  destruct (image_decodes_empty o ts im0 bs t im (fun l => l) Hb Hts Hb0 Hv Hf) as (Hpg & Hcl & _ & Hroot & Hiss & Hlab & _ & _ & Hcf & _).
  destruct (formatted_fixed_root_geom o ts bs t Hb Hts Hv Ht Hfill) as [Hg Hmax]. fold g in Hg, Hpg, Hcl.
  pose proof (if_bytes _ _ _ _ _ (image_facts_of o ts im0 bs t im Hb Hts Hb0 Hv Hf)) as Hbim.
  assert (sp_is32 t = false) as H32 by (destruct t; try reflexivity; contradiction).
  rewrite H32, Hpg in Hcf.
  split; [exact Hg|]. split; [|split; [exact Hcl|exact Hlab]].
  unfold EmptyVol. split; [exact Hpg|]. split; [exact Hbim|]. split; [exact Hfi|]. split; [exact Hroot|]. split; [exact Hiss|].
  split; [exact (formatted_root_sane o ts im0 bs t im Hb Hts Hb0 Hv Ht Hfill Hf)|].
  rewrite Hcf, Hcl. unfold bad_range_clusters. lia.
Qed.

Section FormatCycles.
Variable upper : N -> list N.
Variable oem : N -> N.

(* (e) format ; create_file(name) ; any calls ; flush ; remove(name): the remove succeeds and the image decodes like the freshly
   formatted one - no root node, the label of the request, every cluster free, no issue *)
Theorem format_session_remove_decodes fold acc o ts im0 bs t im fi name now ops range im1 :
  builder_range o -> ts < 4294967296 -> FatProofs.bytes_ok im0 ->
  format_boot_sector_validated o ts = Ok (bs, t) -> t <> Format.Fat32 ->
  (o_max_root_dir_entries o * 32) mod o_bytes_per_sector o = 0 -> format_image o ts im0 = Ok im ->
  let g := geom_of (fbs_bpb bs) in
  fi_inv fstore (val_ft (ft_of g)) (store_of g im) fi (Abs.g_clusters g) ->
  TimeProofs.datetime_valid now = true -> Forall op_ok (map fst ops) -> clocks_ok ops ->
  str_valid name = true -> name <> [] -> Name.is_dot_name name = false ->
  vol_create_empty_file_root upper oem im name now = (Ok (Some range), im1) ->
  exists st rs content pos im' fi',
    vol_session upper oem acc im fi name now ops = Some (st, rs) /\
    bf_run ([], 0) (map fst ops) rs = Some (content, pos) /\
    Abs.count_free g (s_im st) = sp_clusters (fbs_bpb bs) - cdiv (Abs.g_cluster_size g) (len_N content) /\
    vol_remove_file_root upper oem (s_im st) (s_fi st) name = Some (Ok tt, im', fi') /\
    Abs.v_root (Abs.abs im') = [] /\ Abs.v_root_issues (Abs.abs im') = [] /\ Abs.v_labels (Abs.abs im') = expected_labels o /\
    Abs.parse_geom im' = g /\ Abs.count_free g im' = sp_clusters (fbs_bpb bs) /\ Wf.wf_issues fold im' = [] /\
    fi_inv fstore (val_ft (ft_of g)) (store_of g im') fi' (Abs.g_clusters g) /\
    (forall c, 2 <= c -> Abs.cluster_bytes g im' c = Abs.cluster_bytes g (s_im st) c).
Proof.
  intros Hb Hts Hb0 Hv Ht Hfill Hf g Hfi Hnow Hops Hclk Hsv Hne Hdn Hc.
  destruct (formatted_empty_vol o ts im0 bs t im fi Hb Hts Hb0 Hv Ht Hfill Hf Hfi) as (Hg & He & Hcl & Hlab). fold g in Hg, He, Hcl.
  destruct (cycle_step upper oem fold acc g im fi name now ops range im1 Hg He Hnow Hops Hclk Hsv Hne Hdn Hc)
    as (st & rs & content & pos & l & im' & fi' & S1 & S2 & S3 & S4 & _ & S6 & (P1 & P2 & P3 & P4 & P5 & P6 & P7) & S8 & S9 & S10).
  exists st, rs, content, pos, im', fi'.
  split; [exact S1|]. split; [exact S2|]. split; [rewrite <- Hcl, <- S3; lia|]. split; [exact S6|].
  split; [exact P4|]. split; [exact P5|]. split; [rewrite S8; exact Hlab|]. split; [exact P1|].
  split; [rewrite P7; exact Hcl|]. split; [exact S9|]. split; [exact P3|exact S10].
Qed.

(* format ; n fill / delete cycles: capacity never shrinks *)
Theorem format_cycles_keep_capacity fold acc o ts im0 bs t im fi cs im' fi' :
  builder_range o -> ts < 4294967296 -> FatProofs.bytes_ok im0 ->
  format_boot_sector_validated o ts = Ok (bs, t) -> t <> Format.Fat32 ->
  (o_max_root_dir_entries o * 32) mod o_bytes_per_sector o = 0 -> format_image o ts im0 = Ok im ->
  let g := geom_of (fbs_bpb bs) in
  fi_inv fstore (val_ft (ft_of g)) (store_of g im) fi (Abs.g_clusters g) ->
  Forall cycle_ok cs -> vol_cycles upper oem acc im fi cs = Some (im', fi') ->
  Abs.v_root (Abs.abs im') = [] /\ Abs.v_labels (Abs.abs im') = expected_labels o /\ Abs.parse_geom im' = g /\
  Abs.count_free g im' = sp_clusters (fbs_bpb bs) /\ Wf.wf_issues fold im' = [] /\
  fi_inv fstore (val_ft (ft_of g)) (store_of g im') fi' (Abs.g_clusters g).
Proof.
  intros Hb Hts Hb0 Hv Ht Hfill Hf g Hfi Hok H.
  destruct (formatted_empty_vol o ts im0 bs t im fi Hb Hts Hb0 Hv Ht Hfill Hf Hfi) as (Hg & He & Hcl & Hlab). fold g in Hg, He, Hcl.
  destruct (vol_cycles_keep_capacity upper oem fold acc g Hg cs im fi im' fi' He Hok H) as ((P1 & _ & P3 & _) & B & C & D & E).
  split; [exact C|]. split; [rewrite D; exact Hlab|]. split; [exact P1|]. split; [rewrite B; exact Hcl|]. split; [exact E|exact P3].
Qed.
End FormatCycles.
