From Coq Require Import NArith Lia List.
From FatVerif Require Import Model.Base Model.FlushM Spec.Image Proofs.ImageProofs.
Open Scope N_scope.

(* the call ends with a device flush, after every write it issued; afterwards the entry is clean *)
Theorem flush_shape dirty pos entry :
  exists ws, fst (file_flush dirty pos entry) = ws ++ [DFlush] /\
             (forall e, In e ws -> exists o b, e = DWrite o b) /\ snd (file_flush dirty pos entry) = false /\
             (dirty = true -> ws = [DWrite pos entry]) /\ (dirty = false -> ws = []).
Proof.
  unfold file_flush. cbn [fst snd]. exists (if dirty then [DWrite pos entry] else []).
  split; [reflexivity|]. split; [|split; [reflexivity|split; intros ->; reflexivity]].
  intros e He. destruct dirty; [|destruct He]. destruct He as [<-|[]]. eauto.
Qed.

Lemma apply_app im a b : apply_events im (a ++ b) = apply_events (apply_events im a) b.
Proof. revert im. induction a as [|e a IH]; intros im; [reflexivity|]. destruct e; cbn [app apply_events]; apply IH. Qed.

(* after a flush of a dirty entry the image holds the entry bytes at its position, whatever else the log did to
   other places later: later writes that do not overlap the entry leave it intact (every prefix of them too) *)
Theorem flushed_entry_survives im pos entry later :
  (forall o b, In (DWrite o b) later -> o + N.of_nat (length b) <= pos \/ pos + N.of_nat (length entry) <= o) ->
  forall i, (i < length entry)%nat ->
  img_get (apply_events im (fst (file_flush true pos entry) ++ later)) (pos + N.of_nat i) = nth i entry 0.
Proof.
  intros Hdisj i Hi. rewrite apply_app. unfold file_flush; cbn [fst app apply_events].
  assert (forall evs im', (forall o b, In (DWrite o b) evs -> o + N.of_nat (length b) <= pos \/ pos + N.of_nat (length entry) <= o) ->
            img_get (apply_events im' evs) (pos + N.of_nat i) = img_get im' (pos + N.of_nat i)) as Hfr.
  { induction evs as [|e evs IH]; intros im' Hd; [reflexivity|]. destruct e as [o b|]; cbn [apply_events].
    - rewrite IH by (intros o' b' Hin; apply Hd; right; exact Hin).
      apply img_write_outside. destruct (Hd o b (or_introl eq_refl)); lia.
    - apply IH. intros o' b' Hin; apply Hd; right; exact Hin. }
  rewrite Hfr by exact Hdisj. apply img_write_inside. exact Hi.
Qed.

(* ---------------------------------------------------------------- write-back cache *)
Lemma cache_run_app cur dur a b :
  cache_run cur dur (a ++ b) = cache_run (fst (cache_run cur dur a)) (snd (cache_run cur dur a)) b.
Proof.
  revert cur dur. induction a as [|e a IH]; intros cur dur; [reflexivity|].
  destruct e; cbn [app cache_run]; apply IH.
Qed.

Lemma cache_run_cur cur dur evs : fst (cache_run cur dur evs) = apply_events cur evs.
Proof. revert cur dur. induction evs as [|e evs IH]; intros cur dur; [reflexivity|]. destruct e; cbn [cache_run apply_events]; apply IH. Qed.

(* what is durable is always the image after a prefix of the log (or the initial durable image when the log has no
   flush yet): the power-cut model "every write after some point is lost" *)
Theorem durable_is_prefix_image cur evs :
  exists pre post, evs = pre ++ post /\ snd (cache_run cur cur evs) = apply_events cur pre.
Proof.
  assert (forall evs cur dur im0 done, cur = apply_events im0 done -> (exists p q, done = p ++ q /\ dur = apply_events im0 p) ->
            exists pre post, done ++ evs = pre ++ post /\ snd (cache_run cur dur evs) = apply_events im0 pre) as H.
  { induction evs0 as [|e evs0 IH]; intros cur0 dur im0 done Hc (p & q & Hd & Hdur).
    - exists p, q. rewrite app_nil_r. split; [exact Hd|exact Hdur].
    - destruct e as [o b|]; cbn [cache_run].
      + destruct (IH (img_write cur0 o b) dur im0 (done ++ [DWrite o b])) as (pre & post & E & R).
        * rewrite apply_app, <- Hc. reflexivity.
        * exists p, (q ++ [DWrite o b]). split; [rewrite Hd, <- app_assoc; reflexivity|exact Hdur].
        * exists pre, post. split; [rewrite <- E, <- app_assoc; reflexivity|exact R].
      + destruct (IH cur0 cur0 im0 (done ++ [DFlush])) as (pre & post & E & R).
        * rewrite apply_app, <- Hc. reflexivity.
        * exists (done ++ [DFlush]), []. split; [rewrite app_nil_r; reflexivity|rewrite apply_app, <- Hc; reflexivity].
        * exists pre, post. split; [rewrite <- E, <- app_assoc; reflexivity|exact R]. }
  destruct (H evs cur cur cur [] eq_refl) as (pre & post & E & R).
  - exists [], []. split; reflexivity.
  - exists pre, post. split; [exact E|exact R].
Qed.

(* when flush (or drop: Drop for File calls flush) returns, everything written before it - the data writes of earlier
   File::write calls, table updates, the entry itself - is durable: durable image = current image *)
Theorem flush_makes_durable cur dur before dirty pos entry :
  let r := cache_run cur dur (before ++ fst (file_flush dirty pos entry)) in
  snd r = fst r /\ fst r = apply_events cur (before ++ fst (file_flush dirty pos entry)).
Proof.
  cbn zeta. split; [|apply cache_run_cur].
  rewrite cache_run_app. unfold file_flush. cbn [fst]. destruct dirty; cbn [app cache_run fst snd]; reflexivity.
Qed.

(* and stays so through whatever comes later, as long as the later writes do not overlap the entry: the durable image
   after any continuation still holds the flushed entry bytes *)
Theorem flushed_entry_durable cur dur before pos entry later :
  (forall o b, In (DWrite o b) later -> o + N.of_nat (length b) <= pos \/ pos + N.of_nat (length entry) <= o) ->
  forall i, (i < length entry)%nat ->
  img_get (snd (cache_run cur dur (before ++ fst (file_flush true pos entry) ++ later))) (pos + N.of_nat i) = nth i entry 0.
Proof.
  intros Hdisj i Hi. rewrite app_assoc, cache_run_app.
  destruct (flush_makes_durable cur dur before true pos entry) as (Hd & Hc). cbn zeta in Hd, Hc. rewrite Hd.
  set (im1 := fst (cache_run cur dur (before ++ fst (file_flush true pos entry)))) in *.
  destruct (durable_is_prefix_image im1 later) as (pre & post & E & R). rewrite R.
  assert (img_get im1 (pos + N.of_nat i) = nth i entry 0) as H1.
  { rewrite Hc, apply_app. unfold file_flush; cbn [fst app apply_events]. apply img_write_inside. exact Hi. }
  rewrite <- H1. clear H1 R.
  assert (forall o b, In (DWrite o b) pre -> o + N.of_nat (length b) <= pos \/ pos + N.of_nat (length entry) <= o) as Hp.
  { intros o b Hin. apply Hdisj. rewrite E. apply in_or_app. left. exact Hin. }
  clear E Hdisj Hd Hc. generalize im1. clear im1. induction pre as [|e pre IH]; intros im1; [reflexivity|].
  destruct e as [o b|]; cbn [apply_events].
  - rewrite IH by (intros o' b' Hin; apply Hp; right; exact Hin).
    apply img_write_outside. destruct (Hp o b (or_introl eq_refl)); lia.
  - apply IH. intros o' b' Hin; apply Hp; right; exact Hin.
Qed.
