From Coq Require Import NArith Lia List.
From FatVerif Require Import Model.Base Model.FlushM Spec.Image Proofs.ImageProofs.
Open Scope N_scope.

(* the call ends with a device flush, after every write it issued; afterwards the entry is clean *)
Theorem flush_shape dirty pos entry :
  exists ws, fst (file_flush dirty pos entry) = ws ++ [DFlush] /\
             (forall e, In e ws -> exists o b, e = DWrite o b) /\ snd (file_flush dirty pos entry) = false /\
             (dirty = true -> ws = [DWrite pos entry]) /\ (dirty = false -> ws = []).
Proof.
  unfold file_flush. cbn [fst snd]. exists (if dirty then [DWrite pos entry] else []).
  split; [reflexivity|]. split; [|split; [reflexivity|split; intros ->; reflexivity]].
  intros e He. destruct dirty; [|destruct He]. destruct He as [<-|[]]. eauto.
Qed.

Lemma apply_app im a b : apply_events im (a ++ b) = apply_events (apply_events im a) b.
Proof. revert im. induction a as [|e a IH]; intros im; [reflexivity|]. destruct e; cbn [app apply_events]; apply IH. Qed.

(* after a flush of a dirty entry the image holds the entry bytes at its position, whatever else the log did to
   other places later: later writes that do not overlap the entry leave it intact (every prefix of them too) *)
Theorem flushed_entry_survives im pos entry later :
  (forall o b, In (DWrite o b) later -> o + N.of_nat (length b) <= pos \/ pos + N.of_nat (length entry) <= o) ->
  forall i, (i < length entry)%nat ->
  img_get (apply_events im (fst (file_flush true pos entry) ++ later)) (pos + N.of_nat i) = nth i entry 0.
Proof.
  intros Hdisj i Hi. rewrite apply_app. unfold file_flush; cbn [fst app apply_events].
  assert (forall evs im', (forall o b, In (DWrite o b) evs -> o + N.of_nat (length b) <= pos \/ pos + N.of_nat (length entry) <= o) ->
            img_get (apply_events im' evs) (pos + N.of_nat i) = img_get im' (pos + N.of_nat i)) as Hfr.
  { induction evs as [|e evs IH]; intros im' Hd; [reflexivity|]. destruct e as [o b|]; cbn [apply_events].
    - rewrite IH by (intros o' b' Hin; apply Hd; right; exact Hin).
      apply img_write_outside. destruct (Hd o b (or_introl eq_refl)); lia.
    - apply IH. intros o' b' Hin; apply Hd; right; exact Hin. }
  rewrite Hfr by exact Hdisj. apply img_write_inside. exact Hi.
Qed.
