(* DupLongProofs.v: the WDupLong link - the "no two long names of a directory are equal under case folding" clause of
   Spec/Wf.v, derived from the library's OWN existence check instead of being assumed.
   1. the judge's folding [WfFold.wf_fold upper] agrees with the library's long-name matching (wf_fold_agrees), for every
      table [upper]; why valid UTF-16 is needed (fold_agrees_needs_valid_utf16)
   2. decoder -> library: a long name the independent decoder Abs.dir_scan attaches to an entry is the long name the
      library's iterator yields for the same short slot (run_valid_lfn_spec, scan_lfn_listed)
   3. slot layer: check_for_existence = Fresh  ==>  the folded new name is not among the folded decoded long names
      (fresh_not_among_folded)
   4. whole images, fixed root: create keeps Wf.wf_issues = [] without a distinctness premise
      (vol_create_keeps_wf_closed, vol_create_all_keeps_wf_closed), and rename (vol_rename_keeps_wf_closed: closed since the
      scan added to rename_internal by 7e5011a, D27 - found by the proof attempt for this very theorem) *)
From Coq Require Import NArith ZArith Lia List Bool Arith Permutation FMapPositive.
From FatVerif Require Import Model.Base Model.Str Model.Slot Model.Time Model.Name Model.ShortName Model.DirSlots
  Spec.Image Spec.Abs Spec.WfFold Proofs.NameProofs Proofs.ShortNameProofs Proofs.DirSlotsProofs Model.VolDir
  Proofs.VolDirProofs Proofs.VolDirFormat.
From FatVerif Require Model.Lfn Spec.LfnSpec Proofs.LfnProofs Spec.Wf Proofs.TimeProofs.
Import ListNotations.
Open Scope N_scope.
Ltac Zify.zify_post_hook ::= Z.to_euclidean_division_equations.

(* ================================================================ 1. the folding of the judge and the library's matching *)

Lemma utf16_okb_spec us : utf16_okb us = true <-> exists s, utf16_decode us = map Some s.
Proof.
  unfold utf16_okb. generalize (utf16_decode us) as d. induction d as [|o d IH]; cbn [forallb].
  - split; [intros _; exists []; reflexivity|reflexivity].
  - destruct o as [c|]; cbn [andb].
    + rewrite IH. split; intros [s H].
      * exists (c :: s). cbn [map]. rewrite H. reflexivity.
      * destruct s as [|c' s]; [discriminate|]. cbn [map] in H. injection H as _ H. exists s. exact H.
    + split; [discriminate|]. intros [s H]. destruct s; discriminate.
Qed.

Lemma lossy_of_some s : map (fun o : option N => match o with Some c => c | None => 65533 end) (map Some s) = s.
Proof. induction s as [|c s IH]; cbn [map]; [reflexivity|]. rewrite IH. reflexivity. Qed.

Lemma wf_fold_decoded upper us s : utf16_decode us = map Some s -> wf_fold upper us = fold_upper upper s.
Proof. intros H. unfold wf_fold, utf16_decode_lossy. rewrite H, lossy_of_some. reflexivity. Qed.

Lemma wf_fold_encoded upper name : str_valid name = true -> wf_fold upper (utf16_encode name) = fold_upper upper name.
Proof. intros H. apply wf_fold_decoded. apply utf16_roundtrip. exact H. Qed.

Lemma utf16_okb_encode name : str_valid name = true -> utf16_okb (utf16_encode name) = true.
Proof. intros H. apply utf16_okb_spec. exists name. apply utf16_roundtrip. exact H. Qed.

Lemma eq_name_lfn_spec upper us name :
  eq_name_lfn upper us name = true <->
  (us <> [] /\ exists s, utf16_decode us = map Some s /\ fold_upper upper name = fold_upper upper s).
Proof.
  unfold eq_name_lfn. destruct us as [|u us].
  - split; [discriminate|]. intros [H _]. congruence.
  - rewrite eq_lfn_loop_spec. split.
    + intros [s [H1 H2]]. split; [discriminate|]. exists s. split; assumption.
    + intros [_ [s [H1 H2]]]. exists s. split; assumption.
Qed.

(* the hypothesis [fold_agrees] holds for the pairing the judge uses, whatever the table *)
Theorem wf_fold_agrees upper : fold_agrees upper (wf_fold upper).
Proof.
  intros us name Hne Hok Hv. apply utf16_okb_spec in Hok. destruct Hok as [s Hs].
  rewrite (wf_fold_decoded upper us s Hs), (wf_fold_encoded upper name Hv), eq_name_lfn_spec. split.
  - intros H. split; [exact Hne|]. exists s. split; [exact Hs|]. symmetry. exact H.
  - intros [_ [s' [Hs' H]]]. rewrite Hs in Hs'.
    assert (s' = s) as ->; [|symmetry; exact H].
    clear -Hs'. revert s' Hs'. induction s as [|c s IH]; intros [|c' s'] H; try discriminate; [reflexivity|].
    cbn [map] in H. injection H as -> H. rewrite (IH s' H). reflexivity.
Qed.

(* ... and the restriction to valid UTF-16 cannot be dropped: the stored units [0xD800] (an unpaired surrogate) are listed
   and folded as U+FFFD, like the name "\u{FFFD}", but the library's comparison answers "no match" *)
Theorem fold_agrees_needs_valid_utf16 :
  exists us name, us <> [] /\ str_valid name = true /\ utf16_okb us = false /\
    wf_fold upper_ascii us = wf_fold upper_ascii (utf16_encode name) /\ eq_name_lfn upper_ascii us name = false.
Proof. exists [55296], [65533]. split; [discriminate|]. vm_compute. repeat split. Qed.

(* ================================================================ 2. decoder -> library: the long name of a decoded entry *)

Definition dec_lfn (s : list N) : lfn_entry :=
  match slot_decode s with SLfn e => e | SFile _ => lfn_new 0 0 [] end.

Lemma lfn_slot_decode s : is_lfn_slot s = true ->
  slot_decode s = SLfn (dec_lfn s) /\ le_order (dec_lfn s) = byte_at s 0 /\ le_checksum (dec_lfn s) = byte_at s 13 /\
  le_name (dec_lfn s) = lfn_units s.
Proof.
  unfold is_lfn_slot. intros H. apply N.eqb_eq in H.
  assert (slot_decode s = SLfn {| le_order := byte_at s 0; le_name := lfn_units s; le_attrs := attrs_truncate (byte_at s 11);
                                  le_entry_type := byte_at s 12; le_checksum := byte_at s 13; le_reserved_0 := u16_at s 26 |}) as E.
  { unfold slot_decode, attrs_truncate, ATTR_LFN. rewrite H. reflexivity. }
  unfold dec_lfn. rewrite E. cbn [le_order le_checksum le_name]. repeat split.
Qed.

Lemma until_nul_cut_nul us : LfnSpec.until_nul us = cut_nul us.
Proof. induction us as [|u r IH]; cbn [LfnSpec.until_nul cut_nul]; [reflexivity|]. rewrite IH. reflexivity. Qed.

Lemma concat_dec_lfn pend : Forall (fun s => is_lfn_slot s = true) pend ->
  concat (map le_name (map dec_lfn pend)) = flat_map lfn_units pend.
Proof.
  induction 1 as [|s r Hs Hr IH]; cbn [map concat flat_map]; [reflexivity|].
  destruct (lfn_slot_decode s Hs) as (_ & _ & _ & ->). rewrite IH. reflexivity.
Qed.

(* the order bytes Abs.run_valid accepts (k, k+1, ..., last one + 0x40, nearest slot first) are the ones the library's
   backward reading LfnSpec.run_ok accepts *)
Lemma run_ok_of_valid ck : forall pend k,
  pend <> [] -> Forall (fun s => is_lfn_slot s = true) pend ->
  run_ordered pend k = true ->
  forallb (fun s => (byte_at s 13 =? ck) && (byte_at s 0 <? 128)) pend = true ->
  forallb (fun s => byte_at s 0 <? 64) (removelast pend) = true ->
  byte_at (last pend []) 0 = k + len_N pend - 1 + 64 -> 1 <= k -> k + len_N pend - 1 <= 20 ->
  LfnSpec.run_ok ck k (map dec_lfn pend) = true.
Proof.
  induction pend as [|s r IH]; intros k Hne Hl Ho Hc Hr Hlast Hk Hn; [congruence|].
  inversion Hl as [|? ? Hs Hl']; subst.
  destruct (lfn_slot_decode s Hs) as (_ & Eo & Ec & _).
  cbn [run_ordered] in Ho. apply andb_true_iff in Ho. destruct Ho as [Ho1 Ho2]. apply N.eqb_eq in Ho1.
  cbn [forallb] in Hc. apply andb_true_iff in Hc. destruct Hc as [Hc1 Hc2]. apply andb_true_iff in Hc1.
  destruct Hc1 as [Hck _].
  cbn [map LfnSpec.run_ok]. unfold LfnSpec.lfn_is_deleted, DELETED_FLAG, Lfn.order_index, Lfn.order_is_last.
  rewrite Eo, Ec, Hck.
  destruct r as [|s' r'].
  - cbn [last] in Hlast. unfold len_N in Hlast, Hn. cbn [length] in Hlast, Hn.
    assert (byte_at s 0 = k + 64) as -> by lia.
    assert ((k + 64 =? 229) = false) as -> by (apply N.eqb_neq; lia).
    assert ((1 <=? k) = true) as -> by (apply N.leb_le; lia).
    assert ((k <=? 20) = true) as -> by (apply N.leb_le; lia).
    assert (((k + 64) mod 32 =? k) = true) as -> by (apply N.eqb_eq; lia).
    assert (((k + 64) / 64) mod 2 =? 1 = true) as -> by (apply N.eqb_eq; lia).
    reflexivity.
  - change (removelast (s :: s' :: r')) with (s :: removelast (s' :: r')) in Hr. cbn [forallb] in Hr.
    apply andb_true_iff in Hr. destruct Hr as [Hr1 Hr2]. apply N.ltb_lt in Hr1.
    change (last (s :: s' :: r') []) with (last (s' :: r') []) in Hlast.
    assert (len_N (s :: s' :: r') = len_N (s' :: r') + 1) as EL by (unfold len_N; cbn [length]; lia).
    assert (1 <= len_N (s' :: r')) as L1 by (unfold len_N; cbn [length]; lia).
    rewrite EL in Hlast, Hn.
    assert (byte_at s 0 = k) as -> by lia.
    assert ((k =? 229) = false) as -> by (apply N.eqb_neq; lia).
    assert ((1 <=? k) = true) as -> by (apply N.leb_le; lia).
    assert ((k <=? 20) = true) as -> by (apply N.leb_le; lia).
    assert ((k mod 32 =? k) = true) as -> by (apply N.eqb_eq; lia).
    assert ((k / 64) mod 2 =? 1 = false) as -> by (apply N.eqb_neq; lia).
    cbn [negb andb]. apply IH; try assumption; try discriminate; lia.
Qed.

Lemma last_rev_cons {A} (l : list A) x d : rev l = x :: d -> forall d0, last l d0 = x.
Proof.
  intros H d0. assert (l = rev d ++ [x]) as -> by (rewrite <- (rev_involutive l), H; reflexivity).
  apply last_last.
Qed.

(* a pending run the decoder accepts for the short name [sfn] is read by the library - looking back from the short slot
   over the decoded slots, whatever lies before the run - as the same long name *)
Lemma run_valid_lfn_spec pend sfn older :
  pend <> [] -> Forall (fun s => is_lfn_slot s = true) pend -> run_valid pend sfn = true ->
  LfnSpec.lfn_spec (map slot_decode pend ++ older) sfn = cut_nul (flat_map lfn_units pend).
Proof.
  intros Hne Hl Hv. unfold run_valid in Hv.
  destruct (rev pend) as [|first rest] eqn:Hrev.
  { exfalso. apply Hne. rewrite <- (rev_involutive pend), Hrev. reflexivity. }
  rewrite !andb_true_iff in Hv. destruct Hv as ((((((((V1 & V2) & V3) & V4) & V5) & V6) & _) & V8) & V9).
  apply N.leb_le in V1, V2, V9. apply N.eqb_eq in V3.
  assert (map slot_decode pend = map SLfn (map dec_lfn pend)) as EM.
  { clear -Hl. induction Hl as [|s r Hs Hr IH]; cbn [map]; [reflexivity|].
    f_equal; [apply (lfn_slot_decode s Hs)|exact IH]. }
  apply LfnProofs.lfn_spec_iff. left. exists (map dec_lfn pend), older. split; [rewrite EM; reflexivity|]. split.
  - apply run_ok_of_valid; try assumption; try lia.
    rewrite (last_rev_cons pend first rest Hrev). lia.
  - unfold LfnSpec.cut_name. rewrite (concat_dec_lfn pend Hl). cbv zeta.
    replace (LfnSpec.until_nul (flat_map lfn_units pend)) with (cut_nul (flat_map lfn_units pend))
      by (symmetry; apply until_nul_cut_nul).
    apply N.leb_le in V9. rewrite V9. reflexivity.
Qed.

Lemma len_N_cons {A} (x : A) l : len_N (x :: l) = len_N l + 1.
Proof. unfold len_N. cbn [length]. lia. Qed.

(* every entry the decoder finds WITH a long name is yielded by the library's iterator for the same short slot (same raw
   short name, same end offset) with the same long name.  No premise on the rest of the directory: issues elsewhere,
   orphan runs, slots whose attribute byte the two readers classify differently do not matter for such an entry.
   [before]: decoded slots already passed, nearest first; its head is the decoder's pending run. *)
Lemma scan_lfn_listed fat32 oem : forall ss before idx pend older es ls iss,
  before = map slot_decode pend ++ older ->
  Forall (fun s => is_lfn_slot s = true) pend ->
  idx = len_N before ->
  dir_scan ss idx pend fat32 = (es, ls, iss) ->
  forall e, In e es -> e_lfn e <> [] ->
  exists ev, In ev (LfnSpec.spec_list oem true before ss) /\ Lfn.ev_raw_name ev = e_sfn e /\
             Lfn.ev_lfn ev = e_lfn e /\ Lfn.ev_end ev = 32 * (e_sfn_slot e + 1).
Proof.
  induction ss as [|s r IH]; intros before idx pend older es ls iss Hb Hp Hi H e Hin Hl.
  { cbn [dir_scan] in H. injection H as <- _ _. destruct Hin. }
  cbn [dir_scan] in H. cbn [LfnSpec.spec_list]. rewrite is_end_decode.
  destruct (byte_at s 0 =? 0) eqn:E0. { injection H as <- _ _. destruct Hin. }
  assert (forall pend' older' es' ls' iss', slot_decode s :: before = map slot_decode pend' ++ older' ->
            Forall (fun s => is_lfn_slot s = true) pend' -> dir_scan r (idx + 1) pend' fat32 = (es', ls', iss') -> In e es' ->
            exists ev, In ev (LfnSpec.spec_list oem true (slot_decode s :: before) r) /\ Lfn.ev_raw_name ev = e_sfn e /\
                       Lfn.ev_lfn ev = e_lfn e /\ Lfn.ev_end ev = 32 * (e_sfn_slot e + 1)) as Htail.
  { intros pend' older' es' ls' iss' Hb' Hp' H' Hin'.
    apply (IH (slot_decode s :: before) (idx + 1) pend' older' es' ls' iss' Hb' Hp'); try assumption.
    rewrite len_N_cons, Hi. reflexivity. }
  destruct (byte_at s 0 =? 229) eqn:E5.
  { destruct (dir_scan r (idx + 1) [] fat32) as [[a b] c] eqn:R. injection H as <- _ _.
    destruct (Htail [] (slot_decode s :: before) a b c eq_refl (Forall_nil _) R Hin) as (ev & A1 & A2).
    exists ev. split; [|exact A2].
    destruct (slot_decode s) as [e0|e0] eqn:ED; [|exact A1].
    unfold LfnSpec.is_entry. rewrite <- ED, is_deleted_decode, E5. cbn [negb andb]. rewrite ED. exact A1. }
  destruct (is_lfn_slot s) eqn:EL.
  { destruct (lfn_slot_decode s EL) as (ED & _).
    assert (exists pend' older' es' ls' iss', slot_decode s :: before = map slot_decode pend' ++ older' /\
              Forall (fun s => is_lfn_slot s = true) pend' /\ dir_scan r (idx + 1) pend' fat32 = (es', ls', iss') /\ In e es')
      as (pend' & older' & es' & ls' & iss' & B1 & B2 & B3 & B4).
    { destruct (lfn_starts s && match pend with [] => false | _ => true end).
      - destruct (dir_scan r (idx + 1) [s] fat32) as [[a b] c] eqn:R. injection H as <- _ _.
        exists [s], before, a, b, c. split; [reflexivity|]. split; [constructor; [exact EL|constructor]|]. split; [exact R|exact Hin].
      - exists (s :: pend), older, es, ls, iss. split; [cbn [map app]; rewrite Hb; reflexivity|].
        split; [constructor; assumption|]. split; [exact H|exact Hin]. }
    destruct (Htail pend' older' es' ls' iss' B1 B2 B3 B4) as (ev & A1 & A2).
    exists ev. split; [|exact A2]. clear -A1 ED. destruct (slot_decode s); [discriminate|exact A1]. }
  destruct (is_label_slot s) eqn:EV.
  { destruct (dir_scan r (idx + 1) [] fat32) as [[a b] c] eqn:R. injection H as <- _ _.
    destruct (Htail [] (slot_decode s :: before) a b c eq_refl (Forall_nil _) R Hin) as (ev & A1 & A2).
    exists ev. split; [|exact A2].
    destruct (slot_decode s) as [e0|e0] eqn:ED; [|exact A1].
    destruct (decode_file_facts s e0 ED) as (_ & _ & _ & Vol).
    unfold LfnSpec.is_entry. rewrite Vol, EV. cbn [negb andb]. rewrite andb_false_r. exact A1. }
  (* a live short entry *)
  destruct (slot_decode s) as [se|le] eqn:ED.
  2:{ exfalso. unfold slot_decode in ED.
      destruct (N.land (attrs_truncate (byte_at s 11)) ATTR_LFN =? ATTR_LFN) eqn:EA; [|discriminate].
      apply N.eqb_eq in EA. unfold attrs_truncate, ATTR_LFN in EA. apply land15_8 in EA. rewrite land_mod64_8 in EA.
      unfold is_label_slot in EV. rewrite EA in EV. discriminate. }
  destruct (decode_file_facts s se ED) as (_ & _ & Nm & Vol).
  assert (LfnSpec.is_entry true (SFile se) = true) as Hent.
  { unfold LfnSpec.is_entry. rewrite <- ED, is_deleted_decode, E5, Vol, EV. reflexivity. }
  rewrite Hent. cbv zeta in H.
  destruct (dir_scan r (idx + 1) [] fat32) as [[a b] c] eqn:R. injection H as <- _ _.
  destruct Hin as [<-|Hin].
  - eexists. split; [left; reflexivity|]. unfold Lfn.mk_view. cbn [Lfn.ev_raw_name Lfn.ev_lfn Lfn.ev_end].
    unfold mk_entry in Hl |- *. cbn [e_sfn e_lfn e_sfn_slot] in Hl |- *.
    split; [exact Nm|]. split; [|rewrite Hi; reflexivity].
    destruct (run_valid pend (firstn 11 s)) eqn:RV; [|congruence].
    rewrite Nm, Hb. apply run_valid_lfn_spec; try assumption.
    intros ->. apply Hl. reflexivity.
  - destruct (Htail [] (SFile se :: before) a b c eq_refl (Forall_nil _) R Hin) as (ev & A1 & A2).
    exists ev. split; [right; exact A1|exact A2].
Qed.

(* the same against what Dir::iter() returns *)
Lemma decoded_lfn_listed fat32 oem ss l es ls iss e :
  dir_entries oem ss = Ok l -> dir_scan ss 0 [] fat32 = (es, ls, iss) -> In e es -> e_lfn e <> [] ->
  exists ev, In ev l /\ Lfn.ev_raw_name ev = e_sfn e /\ Lfn.ev_lfn ev = e_lfn e /\ Lfn.ev_end ev = 32 * (e_sfn_slot e + 1).
Proof.
  intros H1 H2 Hin Hl. unfold dir_entries in H1. rewrite LfnProofs.read_dir_sound in H1. injection H1 as <-.
  unfold LfnSpec.spec_dir.
  exact (scan_lfn_listed fat32 oem ss [] 0 [] [] es ls iss eq_refl (Forall_nil _) eq_refl H2 e Hin Hl).
Qed.

(* ================================================================ 3. slot layer: Fresh means "no folded long name equal" *)

(* the long names of these entries are valid UTF-16 (no unpaired surrogate) *)
Definition lfns_ok (ls : list (list N)) : Prop := Forall (fun l => utf16_okb l = true) ls.

(* Dir::check_for_existence answered "no entry of this name" (the library then builds the alias and writes the entry):
   the folding of the new long name differs from the folding of every long name the independent decoder finds in the
   directory - whatever else the directory holds (issues, labels, orphan runs) *)
Theorem fresh_not_among_folded upper oem fold fat32 ss n kind a es ls iss :
  fold_agrees upper fold -> str_valid n = true ->
  check_for_existence upper oem ss n kind = Ok (Fresh a) ->
  dir_scan ss 0 [] fat32 = (es, ls, iss) -> lfns_ok (map e_lfn es) ->
  ~ In (fold (utf16_encode n)) (map fold (filter has_lfn (map e_lfn es))).
Proof.
  intros FA Hv C H0 Hok Hin.
  destruct (check_fresh_inv _ _ _ _ _ _ C) as (_ & _ & l & DE & F & _).
  apply in_map_iff in Hin. destruct Hin as (L & HL & Hin). apply filter_In in Hin. destruct Hin as [Hin HnL].
  apply in_map_iff in Hin. destruct Hin as (e & <- & Hin).
  assert (e_lfn e <> []) as Hne by (intros E; rewrite E in HnL; discriminate).
  destruct (decoded_lfn_listed fat32 oem ss l es ls iss e DE H0 Hin Hne) as (ev & Hev & _ & Elfn & _).
  pose proof (find_none _ _ F ev Hev) as M. unfold matches, eq_name in M. rewrite Elfn in M.
  assert (eq_name_lfn upper (e_lfn e) n = true) as EQ.
  { apply (FA (e_lfn e) n Hne); [|exact Hv|exact HL].
    unfold lfns_ok in Hok. rewrite Forall_forall in Hok. apply Hok. apply in_map. exact Hin. }
  rewrite EQ in M. discriminate.
Qed.

(* ================================================================ 4. whole images: create in the fixed root *)

Definition root_lfns (im : image) : list (list N) := map e_lfn (map node_entry (v_root (abs im))).
(* every long name stored in the root directory is valid UTF-16 *)
Definition root_lfns_ok (im : image) : Prop := lfns_ok (root_lfns im).

Lemma wf_root_issues_nil fold im : fixed_root_geom (parse_geom im) -> Wf.wf_issues fold im = [] -> v_root_issues (abs im) = [].
Proof.
  intros Hg Hwf. destruct (abs_scan_of im (fg_bits _ Hg)) as (es & ls & iss & Hscan & Habs).
  rewrite (wf_issues_fixed fold im _ im es ls iss (fg_bits _ Hg) Habs) in Hwf. cbv zeta in Hwf.
  destruct (Wf.own_clusters _ _) as [ow cr] in Hwf. apply app_eq_nil in Hwf. destruct Hwf as [Hm _].
  rewrite Habs. cbn [abs_fixed v_root_issues]. destruct iss; [reflexivity|discriminate].
Qed.

Lemma root_entries_scan im : g_bits (parse_geom im) <> 32 ->
  exists ls iss, dir_scan (root_region_slots (parse_geom im) im) 0 [] false = (map node_entry (v_root (abs im)), ls, iss).
Proof.
  intros Hb. destruct (abs_scan_of im Hb) as (es & ls & iss & Hscan & Habs). exists ls, iss.
  rewrite Habs. cbn [abs_fixed v_root]. change MAX_DEPTH with (S 23). rewrite decode_entries_S, map_node_entry. exact Hscan.
Qed.

(* the library's check answered Fresh for the root of the image: no folded long name of the decoded root equals the
   folded new name *)
Lemma vol_fresh_not_among_folded upper oem fold im n kind a :
  fold_agrees upper fold -> g_bits (parse_geom im) <> 32 -> str_valid n = true -> root_lfns_ok im ->
  check_for_existence upper oem (root_region_slots (parse_geom im) im) n kind = Ok (Fresh a) ->
  ~ In (fold (utf16_encode n)) (map fold (filter has_lfn (root_lfns im))).
Proof.
  intros FA Hb Hv Hok C. destruct (root_entries_scan im Hb) as (ls & iss & Hscan).
  exact (fresh_not_among_folded upper oem fold false _ n kind a _ ls iss FA Hv C Hscan Hok).
Qed.

Lemma vol_create_fresh upper oem im name now range im' :
  vol_create_empty_file_root upper oem im name now = (Ok (Some range), im') ->
  exists a, check_for_existence upper oem (root_region_slots (parse_geom im) im) name (Some false) = Ok (Fresh a).
Proof.
  intros H. unfold vol_create_empty_file_root in H. rewrite vol_root_apply_eq in H.
  destruct (create_entry upper oem false FixedRoot 0 (root_region_slots (parse_geom im) im) name 0 None now false) as [r0 ss'] eqn:E.
  cbn [fst snd] in H. injection H as -> _. unfold create_entry, lift in E.
  destruct (check_for_existence upper oem (root_region_slots (parse_geom im) im) name (Some false)) as [[ev|a]| | |];
    try (injection E as E _; discriminate).
  exists a. reflexivity.
Qed.

(* create_file in the root of a well-formed FAT12/16 volume leaves it well formed - NO premise about the new name being
   distinct from the existing ones: the library's own existence check establishes it.  [root_lfns_ok] (stored long names
   are valid UTF-16) is kept by the operation. *)
Theorem vol_create_keeps_wf_closed fold upper oem im name now range im' :
  fold_agrees upper fold ->
  fixed_root_geom (parse_geom im) -> Wf.wf_issues fold im = [] -> root_lfns_ok im ->
  str_valid name = true -> TimeProofs.datetime_valid now = true ->
  vol_create_empty_file_root upper oem im name now = (Ok (Some range), im') ->
  Wf.wf_issues fold im' = [] /\ root_lfns_ok im'.
Proof.
  intros FA Hg Hwf Hok Hv Hnow H. split.
  - apply (vol_create_keeps_wf fold upper oem im name now range im' Hg Hwf Hnow H). intros _.
    destruct (vol_create_fresh upper oem im name now range im' H) as [a C].
    exact (vol_fresh_not_among_folded upper oem fold im name _ a FA (fg_bits _ Hg) Hv Hok C).
  - destruct (vol_create_decodes upper oem im name now range im' Hg (wf_root_issues_nil fold im Hg Hwf) Hnow H)
      as (ns1 & ns2 & ne & st & R1 & R2 & E3 & _).
    unfold root_lfns_ok, root_lfns, lfns_ok in *. rewrite R2. rewrite R1 in Hok.
    rewrite !map_app in *. cbn [map node_entry]. apply Forall_app in Hok. destruct Hok as [O1 O2].
    apply Forall_app. split; [exact O1|]. constructor; [|exact O2].
    rewrite E3. destruct (is_dot_name name); [reflexivity|apply utf16_okb_encode; exact Hv].
Qed.

(* any sequence of create_file calls in the root, WHATEVER their outcome - a new entry, an existing file opened, a
   directory of that name (InvalidInput), an invalid name, a full root -: the volume after the sequence is well formed *)
Fixpoint vol_create_all (upper : N -> list N) (oem : N -> N) (im : image) (reqs : list (str * datetime)) : image :=
  match reqs with
  | [] => im
  | q :: r => vol_create_all upper oem (snd (vol_create_empty_file_root upper oem im (fst q) (snd q))) r
  end.

Theorem vol_create_all_keeps_wf_closed fold upper oem : forall reqs im,
  fold_agrees upper fold ->
  fixed_root_geom (parse_geom im) -> Wf.wf_issues fold im = [] -> root_lfns_ok im ->
  Forall (fun q => str_valid (fst q) = true /\ TimeProofs.datetime_valid (snd q) = true) reqs ->
  parse_geom (vol_create_all upper oem im reqs) = parse_geom im /\
  Wf.wf_issues fold (vol_create_all upper oem im reqs) = [] /\ root_lfns_ok (vol_create_all upper oem im reqs).
Proof.
  induction reqs as [|q r IH]; intros im FA Hg Hwf Hok Hq; cbn [vol_create_all].
  { split; [reflexivity|]. split; assumption. }
  inversion Hq as [|? ? [Hv Hnow] Hr]; subst.
  destruct (vol_create_empty_file_root upper oem im (fst q) (snd q)) as [r0 im1] eqn:E. cbn [snd].
  assert (parse_geom im1 = parse_geom im /\ Wf.wf_issues fold im1 = [] /\ root_lfns_ok im1) as (P1 & P2 & P3).
  { assert ((exists range, r0 = Ok (Some range)) \/ (forall range, r0 <> Ok (Some range))) as [[range ->]|Hno].
    { destruct r0 as [[range|]| | |]; try (right; intros range; discriminate). left. exists range. reflexivity. }
    - pose proof (vol_create_confined upper oem im _ _ _ im1 Hg E) as (_ & _ & Hpg & _).
      split; [exact Hpg|]. exact (vol_create_keeps_wf_closed fold upper oem im _ _ range im1 FA Hg Hwf Hok Hv Hnow E).
    - destruct (vol_create_failed_unchanged fold upper oem im _ _ r0 im1 Hg E Hno) as (_ & Q1 & Q2 & Q3 & _).
      split; [exact Q1|]. split; [rewrite Q3; exact Hwf|]. unfold root_lfns_ok, root_lfns. rewrite Q2. exact Hok. }
  assert (fixed_root_geom (parse_geom im1)) as Hg1 by (rewrite P1; exact Hg).
  destruct (IH im1 FA Hg1 P2 P3 Hr) as (R1 & R2 & R3).
  split; [rewrite R1; exact P1|]. split; assumption.
Qed.

(* ---- the premise [root_lfns_ok] is necessary.  On the example volume (Proofs/VolDirFormat.ex_vol_im) "a" is created, then
   the one unit of its long name is overwritten with 0xD800 (an unpaired surrogate, as a foreign writer may leave it): the
   volume has no issue - the library lists the entry as "\u{FFFD}" (from_utf16_lossy) but its comparison never matches
   it (decode error) -, so create_file("\u{FFFD}") makes a second entry listed under the same name: WDupLong. *)
Definition ex_surrogate_im : image :=
  img_write (snd (vol_create_empty_file_root upper_ascii oem_decode_lossy ex_vol_im [97] ex_vol_now)) (1536 + 32 + 1) [0; 216].

Theorem vol_create_keeps_wf_needs_valid_utf16 :
  exists im name now range im',
    fixed_root_geom (parse_geom im) /\ Wf.wf_issues (wf_fold upper_ascii) im = [] /\
    str_valid name = true /\ TimeProofs.datetime_valid now = true /\
    vol_create_empty_file_root upper_ascii oem_decode_lossy im name now = (Ok (Some range), im') /\
    root_lfns im = [[55296]] /\ ~ root_lfns_ok im /\
    root_lfns im' = [[55296]; [65533]] /\ Wf.wf_issues (wf_fold upper_ascii) im' = [Wf.WDupLong 0].
Proof.
  exists ex_surrogate_im, [65533], ex_vol_now. eexists. eexists.
  destruct ex_vol_premises as (bs & _ & _ & _ & Hg & Hnow).
  assert (parse_geom ex_surrogate_im = parse_geom ex_vol_im) as Epg by (vm_compute; reflexivity).
  split; [rewrite Epg; exact Hg|]. split; [vm_compute; reflexivity|]. split; [reflexivity|]. split; [exact Hnow|].
  split; [vm_compute; reflexivity|]. split; [vm_compute; reflexivity|]. split.
  { assert (root_lfns ex_surrogate_im = [[55296]]) as E by (vm_compute; reflexivity).
    unfold root_lfns_ok, lfns_ok. rewrite E. intros C. inversion C as [|? ? C1 _]. vm_compute in C1. discriminate. }
  split; vm_compute; reflexivity.
Qed.

(* ================================================================ 5. rename in the fixed root keeps the volume well formed *)

(* ---- Wf.own_clusters as a set: which keys the map holds afterwards, when there is no cross-link finding *)
Lemma succ_pos_inj a b : N.succ_pos a = N.succ_pos b -> a = b.
Proof. intros H. apply N.succ_inj. rewrite <- !N.succ_pos_spec, H. reflexivity. Qed.

Lemma find_add_ne (k p : positive) (m : PositiveMap.t unit) :
  PositiveMap.find p (PositiveMap.add k tt m) <> None <-> (p = k \/ PositiveMap.find p m <> None).
Proof.
  destruct (Pos.eq_dec p k) as [->|Hne].
  - rewrite PositiveMap.gss. split; [intros _; left; reflexivity|intros _; discriminate].
  - rewrite PositiveMap.gso by exact Hne. split; [intros H; right; exact H|intros [H|H]; [contradiction|exact H]].
Qed.

Lemma own_clusters_spec : forall cs m m' iss, Wf.own_clusters cs m = (m', iss) ->
  (forall p, PositiveMap.find p m' <> None <-> (PositiveMap.find p m <> None \/ exists c, In c cs /\ p = N.succ_pos c)) /\
  (iss = [] <-> (NoDup cs /\ forall c, In c cs -> PositiveMap.find (N.succ_pos c) m = None)).
Proof.
  induction cs as [|c r IH]; intros m m' iss H; cbn [Wf.own_clusters] in H.
  - injection H as <- <-. split.
    + intros p. split; [intros H; left; exact H|intros [H|(c & [] & _)]; exact H].
    + split; [intros _; split; [constructor|intros c []]|reflexivity].
  - destruct (PositiveMap.find (N.succ_pos c) m) as [u|] eqn:F.
    + destruct (Wf.own_clusters r m) as [m1 iss1] eqn:R. injection H as <- <-.
      destruct (IH m m1 iss1 R) as [I1 _]. split.
      * intros p. rewrite I1. split.
        -- intros [H|(c' & Hc & ->)]; [left; exact H|right; exists c'; split; [right; exact Hc|reflexivity]].
        -- intros [H|(c' & [<-|Hc] & ->)]; [left; exact H|left; rewrite F; discriminate|right; exists c'; split; [exact Hc|reflexivity]].
      * split; [discriminate|]. intros [_ Hn]. rewrite (Hn c (or_introl eq_refl)) in F. discriminate.
    + destruct (IH _ m' iss H) as [I1 I2]. split.
      * intros p. rewrite I1, find_add_ne. split.
        -- intros [[->|H']|(c' & Hc & ->)];
             [right; exists c; split; [left; reflexivity|reflexivity]|left; exact H'|right; exists c'; split; [right; exact Hc|reflexivity]].
        -- intros [H'|(c' & [<-|Hc] & ->)];
             [left; right; exact H'|left; left; reflexivity|right; exists c'; split; [exact Hc|reflexivity]].
      * rewrite I2. split.
        -- intros [ND Hn]. split.
           ++ constructor; [|exact ND]. intros Hin. specialize (Hn c Hin). rewrite PositiveMap.gss in Hn. discriminate.
           ++ intros c' [<-|Hc]; [exact F|]. specialize (Hn c' Hc).
              destruct (Pos.eq_dec (N.succ_pos c') (N.succ_pos c)) as [E|E].
              ** rewrite E, PositiveMap.gss in Hn. discriminate.
              ** rewrite PositiveMap.gso in Hn by exact E. exact Hn.
        -- intros [ND Hn]. inversion ND as [|? ? N1 N2]; subst. split; [exact N2|].
           intros c' Hc. rewrite PositiveMap.gso; [apply Hn; right; exact Hc|].
           intros E. apply succ_pos_inj in E. subst c'. contradiction.
Qed.

Lemma own_clusters_perm cs cs' o x o' x' : Permutation cs cs' ->
  Wf.own_clusters cs (PositiveMap.empty unit) = (o, x) -> Wf.own_clusters cs' (PositiveMap.empty unit) = (o', x') ->
  (x = [] -> x' = []) /\ (forall p, PositiveMap.find p o <> None <-> PositiveMap.find p o' <> None).
Proof.
  intros P H H'. destruct (own_clusters_spec _ _ _ _ H) as [A1 A2]. destruct (own_clusters_spec _ _ _ _ H') as [B1 B2]. split.
  - intros Hx. apply B2. apply A2 in Hx. destruct Hx as [ND _]. split; [exact (Permutation_NoDup P ND)|].
    intros c _. apply PositiveMap.gempty.
  - intros p. rewrite A1, B1. split; intros [Hm|(c & Hc & ->)]; try (left; exact Hm); right; exists c; split; try reflexivity.
    + exact (Permutation_in c P Hc).
    + exact (Permutation_in c (Permutation_sym P) Hc).
Qed.

Lemma lost_from_ext g im m m' : (forall p, PositiveMap.find p m <> None <-> PositiveMap.find p m' <> None) ->
  forall n c, Wf.lost_from g im m c n = Wf.lost_from g im m' c n.
Proof.
  intros E. induction n as [|k IH]; intros c; cbn [Wf.lost_from]; [reflexivity|]. rewrite IH. f_equal.
  destruct (fat_val g im c); try reflexivity;
    (destruct (PositiveMap.find (N.succ_pos c) m) eqn:F1; destruct (PositiveMap.find (N.succ_pos c) m') eqn:F2; try reflexivity; exfalso;
     [assert (PositiveMap.find (N.succ_pos c) m' <> None) as X by (apply E; rewrite F1; discriminate); apply X; exact F2
     |assert (PositiveMap.find (N.succ_pos c) m <> None) as X by (apply E; rewrite F2; discriminate); apply X; exact F1]).
Qed.

(* ---- the body of Wf.wf_issues on a FAT12/16 volume, as a function of the decoded root *)
Definition wf_body (fold : list N -> list N) (g : geom) (im : image) (iss : list dissue) (ns : list node) : list Wf.issue :=
  let '(owned, cross) := Wf.own_clusters (concat (Wf.nodes_chains ns)) (PositiveMap.empty unit) in
  map (Wf.dir_issue 0) iss ++ Wf.names_issues fold 0 ns ++ Wf.nodes_issues fold g 0 ns ++ cross
  ++ Wf.lost_from g im owned 2 (N.to_nat (g_clusters g))
  ++ (if Wf.depth_exceeded ns MAX_DEPTH then [Wf.WDepth] else []).

Lemma wf_body_nil fold g im iss ns :
  wf_body fold g im iss ns = [] <->
  (iss = [] /\ Wf.names_issues fold 0 ns = [] /\ Wf.nodes_issues fold g 0 ns = [] /\
   snd (Wf.own_clusters (concat (Wf.nodes_chains ns)) (PositiveMap.empty unit)) = [] /\
   Wf.lost_from g im (fst (Wf.own_clusters (concat (Wf.nodes_chains ns)) (PositiveMap.empty unit))) 2 (N.to_nat (g_clusters g)) = [] /\
   Wf.depth_exceeded ns MAX_DEPTH = false).
Proof.
  unfold wf_body. destruct (Wf.own_clusters _ _) as [owned cross]. cbn [fst snd]. split.
  - intros H. apply app_eq_nil in H. destruct H as [H1 H]. apply app_eq_nil in H. destruct H as [H2 H].
    apply app_eq_nil in H. destruct H as [H3 H]. apply app_eq_nil in H. destruct H as [H4 H].
    apply app_eq_nil in H. destruct H as [H5 H6].
    split; [destruct iss; [reflexivity|discriminate]|]. do 4 (split; [assumption|]).
    destruct (Wf.depth_exceeded ns MAX_DEPTH); [discriminate|reflexivity].
  - intros (-> & -> & -> & -> & -> & ->). reflexivity.
Qed.

Lemma flat_map_nil {A B} (f : A -> list B) l : flat_map f l = [] <-> Forall (fun x => f x = []) l.
Proof.
  induction l as [|x l IH]; cbn [flat_map]; split; intros H; try constructor; try reflexivity.
  - apply app_eq_nil in H. apply H.
  - apply IH. apply app_eq_nil in H. apply H.
  - inversion H as [|? ? H1 H2]; subst. rewrite H1. apply IH. exact H2.
Qed.

Lemma concat_perm {A} (l l' : list (list A)) : Permutation l l' -> Permutation (concat l) (concat l').
Proof.
  intros P. rewrite <- (map_id l), <- (map_id l'), <- !flat_map_concat_map. apply Permutation_flat_map. exact P.
Qed.

Lemma depth_exceeded_file a b e ch ct d : Wf.depth_exceeded (a ++ NFile e ch ct :: b) d = Wf.depth_exceeded (a ++ b) d.
Proof. destruct d; cbn [Wf.depth_exceeded]; rewrite !existsb_app; cbn [existsb orb]; reflexivity. Qed.

(* one plain-file node of the root is replaced by another one with the same chain, content, first cluster and size,
   possibly at another position: every clause of Wf.wf_issues except the two name clauses is unaffected *)
Lemma wf_body_replace fold g im im' nx ny nc nd e e' ch ct :
  nx ++ ny = nc ++ nd -> e_size e' = e_size e -> e_cluster e' = e_cluster e ->
  (forall m, Wf.lost_from g im' m 2 (N.to_nat (g_clusters g)) = Wf.lost_from g im m 2 (N.to_nat (g_clusters g))) ->
  Wf.names_issues fold 0 (nc ++ NFile e' ch ct :: nd) = [] ->
  wf_body fold g im [] (nx ++ NFile e ch ct :: ny) = [] ->
  wf_body fold g im' [] (nc ++ NFile e' ch ct :: nd) = [].
Proof.
  intros Hxy Hs Hc Hlost Hnames H. apply wf_body_nil in H. destruct H as (_ & _ & H3 & H4 & H5 & H6).
  apply wf_body_nil. split; [reflexivity|]. split; [exact Hnames|].
  assert (Permutation (Wf.nodes_chains (nx ++ NFile e ch ct :: ny)) (Wf.nodes_chains (nc ++ NFile e' ch ct :: nd))) as PC.
  { unfold Wf.nodes_chains.
    apply Permutation_trans with (flat_map Wf.node_chains (NFile e ch ct :: nx ++ ny)).
    - apply Permutation_flat_map. apply Permutation_sym. apply Permutation_middle.
    - rewrite Hxy. change (flat_map Wf.node_chains (NFile e ch ct :: nc ++ nd))
        with (flat_map Wf.node_chains (NFile e' ch ct :: nc ++ nd)).
      apply Permutation_flat_map. apply Permutation_middle. }
  destruct (Wf.own_clusters (concat (Wf.nodes_chains (nx ++ NFile e ch ct :: ny))) (PositiveMap.empty unit)) as [o x] eqn:O.
  destruct (Wf.own_clusters (concat (Wf.nodes_chains (nc ++ NFile e' ch ct :: nd))) (PositiveMap.empty unit)) as [o' x'] eqn:O'.
  cbn [fst snd] in *.
  destruct (own_clusters_perm _ _ o x o' x' (concat_perm _ _ PC) O O') as [Q1 Q2].
  split.
  { unfold Wf.nodes_issues in *. rewrite flat_map_nil in H3 |- *.
    apply Forall_app in H3. destruct H3 as [F1 F2]. inversion F2 as [|? ? F3 F4]; subst.
    assert (Forall (fun n => Wf.node_issues fold g 0 n = []) (nc ++ nd)) as F5 by (rewrite <- Hxy; apply Forall_app; split; assumption).
    apply Forall_app in F5. destruct F5 as [F6 F7]. apply Forall_app. split; [exact F6|]. constructor; [|exact F7].
    cbn [Wf.node_issues] in F3 |- *. rewrite Hs, Hc. exact F3. }
  split; [apply Q1; exact H4|].
  split; [rewrite Hlost, <- (lost_from_ext g im o o' Q2); exact H5|].
  rewrite depth_exceeded_file in H6 |- *. rewrite <- Hxy. exact H6.
Qed.

(* ---- the two name clauses *)
Definition node_sfns (ns : list node) : list (list N) := map e_sfn (map node_entry ns).
Definition node_folded (fold : list N -> list N) (ns : list node) : list (list N) :=
  map fold (filter has_lfn (map e_lfn (map node_entry ns))).

Lemma names_issues_nil fold ns :
  Wf.names_issues fold 0 ns = [] <-> (NoDup (node_sfns ns) /\ NoDup (node_folded fold ns)).
Proof.
  unfold Wf.names_issues, node_sfns, node_folded. cbv zeta. fold has_lfn. rewrite <- !has_dup_NoDup.
  destruct (Wf.has_dup list_eqb (map e_sfn (map node_entry ns)));
    destruct (Wf.has_dup list_eqb (map fold (filter has_lfn (map e_lfn (map node_entry ns))))); cbn [app];
    split; try discriminate; try (intros [? ?]; discriminate); auto.
Qed.

Lemma node_sfns_mid a n b : node_sfns (a ++ n :: b) = node_sfns a ++ e_sfn (node_entry n) :: node_sfns b.
Proof. unfold node_sfns. rewrite !map_app. reflexivity. Qed.
Lemma node_sfns_app a b : node_sfns (a ++ b) = node_sfns a ++ node_sfns b.
Proof. unfold node_sfns. rewrite !map_app. reflexivity. Qed.
Lemma node_folded_app fold a b : node_folded fold (a ++ b) = node_folded fold a ++ node_folded fold b.
Proof. unfold node_folded. rewrite !map_app, filter_app, map_app. reflexivity. Qed.
Lemma node_folded_mid fold a n b :
  node_folded fold (a ++ n :: b) =
  node_folded fold a ++ (if has_lfn (e_lfn (node_entry n)) then [fold (e_lfn (node_entry n))] else []) ++ node_folded fold b.
Proof.
  rewrite node_folded_app. f_equal. unfold node_folded. cbn [map filter]. destruct (has_lfn (e_lfn (node_entry n))); reflexivity.
Qed.

Lemma names_issues_replace fold nx ny nc nd n n' :
  nx ++ ny = nc ++ nd ->
  Wf.names_issues fold 0 (nx ++ n :: ny) = [] ->
  (e_sfn (node_entry n') = e_sfn (node_entry n) \/ ~ In (e_sfn (node_entry n')) (node_sfns (nx ++ n :: ny))) ->
  (has_lfn (e_lfn (node_entry n')) = true -> ~ In (fold (e_lfn (node_entry n'))) (node_folded fold (nx ++ ny))) ->
  Wf.names_issues fold 0 (nc ++ n' :: nd) = [].
Proof.
  intros Hxy H Hs Hl. apply names_issues_nil in H. destruct H as [S1 L1]. apply names_issues_nil.
  rewrite node_sfns_mid in S1. rewrite node_folded_mid in L1. split.
  - rewrite node_sfns_mid. apply NoDup_insert.
    + rewrite <- node_sfns_app, <- Hxy, node_sfns_app. exact (NoDup_remove_1 _ _ _ S1).
    + rewrite <- node_sfns_app, <- Hxy, node_sfns_app. destruct Hs as [->|Hs].
      * exact (NoDup_remove_2 _ _ _ S1).
      * intros C. apply Hs. rewrite node_sfns_mid. apply in_app_or in C. apply in_or_app.
        destruct C as [C|C]; [left; exact C|right; right; exact C].
  - assert (NoDup (node_folded fold (nc ++ nd))) as L2.
    { rewrite <- Hxy, node_folded_app. destruct (has_lfn (e_lfn (node_entry n))); [|exact L1].
      exact (NoDup_remove_1 _ _ _ L1). }
    rewrite node_folded_mid. rewrite node_folded_app in L2. destruct (has_lfn (e_lfn (node_entry n'))) eqn:HL; [|exact L2].
    cbn [app]. apply NoDup_insert; [exact L2|]. rewrite <- node_folded_app, <- Hxy. apply Hl. reflexivity.
Qed.

Lemma wf_issues_as_body fold im : g_bits (parse_geom im) <> 32 ->
  Wf.wf_issues fold im = wf_body fold (parse_geom im) im (v_root_issues (abs im)) (v_root (abs im)).
Proof.
  intros Hb. destruct (abs_scan_of im Hb) as (es & ls & iss & _ & Habs).
  rewrite (wf_issues_fixed fold im _ im es ls iss Hb Habs), Habs. reflexivity.
Qed.

(* ---- premises of the rename theorem *)
(* the source is the only entry of the root that the library's matching resolves [dst] to (vacuously true when no entry
   matches [dst]: check_for_existence = Fresh) *)
Definition dst_only_source (upper : N -> list N) (oem : N -> N) (im : image) (src dst : str) : Prop :=
  forall ev l, root_lookup upper oem im src = Ok ev ->
    dir_entries oem (root_region_slots (parse_geom im) im) = Ok l ->
    forall ev2, In ev2 l -> matches upper oem dst ev2 = true -> ev2 = ev.
(* the source is not stored under the short name "." or ".." (a root directory has no such entries; the decoder would not
   look at the chain of such an entry) *)
Definition src_not_dot (upper : N -> list N) (oem : N -> N) (im : image) (src : str) : Prop :=
  forall ev, root_lookup upper oem im src = Ok ev ->
    list_eqb (Lfn.ev_raw_name ev) DOT || list_eqb (Lfn.ev_raw_name ev) DOTDOT = false.

(* rename of a file inside the root of a well-formed FAT12/16 volume, EVERY outcome, under the explicit premise that [dst]
   resolves to no entry but the source: the volume stays well formed *)
Theorem vol_rename_keeps_wf_gen fold upper oem im src dst r im' :
  fold_agrees upper fold ->
  fixed_root_geom (parse_geom im) -> Wf.wf_issues fold im = [] -> root_lfns_ok im ->
  Forall attrs_sane (root_region_slots (parse_geom im) im) -> Forall bytes_ok (root_region_slots (parse_geom im) im) ->
  str_valid dst = true -> src_not_dot upper oem im src -> dst_only_source upper oem im src dst ->
  vol_rename_in_root upper oem im src dst = Some (r, im') ->
  Wf.wf_issues fold im' = [] /\ root_lfns_ok im'.
Proof.
  intros FA Hg Hwf Hok Hsane Hby Hv Hnd Honly H.
  assert (r = Ok tt \/ r <> Ok tt) as [->|Hr] by (destruct r as [[]| | |]; [left; reflexivity|right; discriminate..]).
  2:{ destruct (vol_rename_failed_unchanged fold upper oem im src dst r im' Hg H Hr) as (_ & _ & Q2 & Q3 & _).
      split; [rewrite Q3; exact Hwf|]. unfold root_lfns_ok, root_lfns. rewrite Q2. exact Hok. }
  pose proof (vol_rename_confined upper oem im src dst _ im' Hg H) as (_ & _ & Hpg & _ & _ & Hlost).
  destruct (vol_rename_decodes upper oem im src dst im' Hg (wf_root_issues_nil fold im Hg Hwf) Hsane Hby H)
    as (ev & F & _ & _ & Hcase).
  destruct Hcase as [(dv & _ & _ & _ & Hsame & Habs)|
                     (nx & n & ny & nc & nd & n' & ch & ct & R1 & Rxy & R2 & Esfn & _ & _ & Hn & Hn' & Elfn & _ & _ & Esz & Ecl & Hsub & I' & _)].
  { destruct (img_same_abs fold im im' Hg Hsame) as (_ & _ & Q3 & _).
    split; [rewrite Q3; exact Hwf|]. unfold root_lfns_ok, root_lfns. rewrite Habs. exact Hok. }
  set (g := parse_geom im) in *.
  pose proof (Hnd ev F) as Hdot. rewrite <- Esfn in Hdot. fold (e_is_dot (node_entry n)) in Hdot.
  assert (e_is_dot (node_entry n') = false) as Hdot'.
  { unfold e_is_dot. destruct Hsub as [(a & _ & -> & HL & _)|(dv & _ & _ & _ & -> & _)]; [|exact Hdot].
    destruct (sfn_legal_not_dot a HL) as [-> ->]. reflexivity. }
  specialize (Hn Hdot). specialize (Hn' Hdot').
  rewrite (wf_issues_as_body fold im (fg_bits g Hg)) in Hwf. fold g in Hwf.
  rewrite (wf_root_issues_nil fold im Hg ltac:(rewrite (wf_issues_as_body fold im (fg_bits g Hg)); exact Hwf)) in Hwf.
  assert (g_bits (parse_geom im') <> 32) as Hb' by (rewrite Hpg; exact (fg_bits g Hg)).
  rewrite (wf_issues_as_body fold im' Hb'), Hpg, I', R2. rewrite R1 in Hwf.
  (* the entries of the old root, as the decoder scans them, and the library's listing *)
  destruct (root_entries_scan im (fg_bits g Hg)) as (ls & iss & Hscan). fold g in Hscan.
  destruct (LfnProofs.read_dir_total Lfn.VecBuf oem true (root_region_slots g im)) as [l DE].
  change (Lfn.read_dir Lfn.VecBuf oem true (root_region_slots g im)) with (dir_entries oem (root_region_slots g im)) in DE.
  pose proof Hwf as Hwf0. apply wf_body_nil in Hwf0. destruct Hwf0 as (_ & Hnames & _).
  pose proof Hnames as Hnames0. apply names_issues_nil in Hnames0. destruct Hnames0 as [S1 _]. rewrite node_sfns_mid in S1.
  assert (has_lfn (e_lfn (node_entry n')) = true -> ~ In (fold (e_lfn (node_entry n'))) (node_folded fold (nx ++ ny))) as Hfresh.
  { intros HL C. rewrite Elfn in HL, C. destruct (is_dot_name dst); [discriminate|].
    unfold node_folded in C. apply in_map_iff in C. destruct C as (L & HLf & C). apply filter_In in C. destruct C as [C HnL].
    apply in_map_iff in C. destruct C as (e2 & <- & C).
    assert (e_lfn e2 <> []) as Hne by (intros E; rewrite E in HnL; discriminate).
    assert (In e2 (map node_entry (v_root (abs im)))) as Hin2.
    { rewrite R1, map_app. cbn [map]. rewrite map_app in C. apply in_app_or in C. apply in_or_app.
      destruct C as [C|C]; [left; exact C|right; right; exact C]. }
    destruct (decoded_lfn_listed false oem _ l _ ls iss e2 DE Hscan Hin2 Hne) as (ev2 & Hev2 & Raw2 & Lfn2 & _).
    assert (matches upper oem dst ev2 = true) as M2.
    { unfold matches, eq_name. rewrite Lfn2.
      assert (eq_name_lfn upper (e_lfn e2) dst = true) as ->; [|reflexivity].
      apply (FA (e_lfn e2) dst Hne); [|exact Hv|exact HLf].
      unfold root_lfns_ok, root_lfns, lfns_ok in Hok. rewrite Forall_forall in Hok. apply Hok. apply in_map. exact Hin2. }
    assert (ev2 = ev) as -> by exact (Honly ev l F DE ev2 Hev2 M2).
    apply (NoDup_remove_2 _ _ _ S1). rewrite Esfn, Raw2. rewrite <- node_sfns_app. unfold node_sfns. apply in_map. exact C. }
  split.
  - rewrite Hn'. apply (wf_body_replace fold g im im' nx ny nc nd (node_entry n) (node_entry n') ch ct Rxy Esz Ecl Hlost).
    + rewrite <- Hn'. apply (names_issues_replace fold nx ny nc nd n n' Rxy Hnames); [|exact Hfresh].
      destruct Hsub as [(a & _ & Ea & _ & Hna)|(dv & _ & _ & _ & Ee & _)]; [right|left; exact Ee].
      rewrite Ea. unfold node_sfns. rewrite <- R1. exact Hna.
    + rewrite <- Hn. exact Hwf.
  - unfold root_lfns_ok, root_lfns, lfns_ok in *. rewrite R2. rewrite R1 in Hok.
    rewrite !map_app in *. cbn [map] in *. apply Forall_app in Hok. destruct Hok as [O1 O2]. inversion O2 as [|? ? _ O3]; subst.
    assert (Forall (fun l0 => utf16_okb l0 = true) (map e_lfn (map node_entry (nc ++ nd)))) as O4.
    { rewrite <- Rxy, !map_app. apply Forall_app. split; assumption. }
    rewrite !map_app in O4. apply Forall_app in O4. destruct O4 as [O5 O6].
    apply Forall_app. split; [exact O5|]. constructor; [|exact O6].
    rewrite Elfn. destruct (is_dot_name dst); [reflexivity|apply utf16_okb_encode; exact Hv].
Qed.

(* ---- since 7e5011a (D27) the library establishes [dst_only_source] itself: a successful rename means the existence check
   answered Fresh, or "the source itself" AND the scan of the whole directory ([other_match]) found no other match *)
Lemma listed_same_end oem sv ss e1 e2 :
  LfnSpec.listed_at oem sv [] ss e1 -> LfnSpec.listed_at oem sv [] ss e2 -> Lfn.ev_end e1 = Lfn.ev_end e2 -> e1 = e2.
Proof.
  intros (pre1 & bs1 & post1 & se1 & S1 & _ & D1 & _ & _ & ->) (pre2 & bs2 & post2 & se2 & S2 & _ & D2 & _ & _ & ->) HE.
  unfold LfnSpec.entry_at, Lfn.mk_view in HE. cbn [Lfn.ev_end] in HE.
  assert (length pre1 = length pre2) as HL.
  { unfold len_N in HE. rewrite !app_nil_r, !rev_length, !map_length in HE. lia. }
  assert (pre1 = pre2 /\ bs1 :: post1 = bs2 :: post2) as [-> E].
  { rewrite S1 in S2. split.
    - rewrite <- (firstn_app_exact pre1 (bs1 :: post1)), S2, HL. apply firstn_app_exact.
    - rewrite <- (skipn_app_exact pre1 (bs1 :: post1)), S2, HL. apply skipn_app_exact. }
  injection E as -> _. rewrite D1 in D2. injection D2 as ->. reflexivity.
Qed.

(* rename of a file inside the root of a well-formed FAT12/16 volume, EVERY outcome: the volume stays well formed - no
   premise about the destination name.  The folded new long name differs from all remaining long names because the
   library's existence check answered Fresh, or resolved [dst] to the source itself and the scan added by 7e5011a found
   no other entry matching [dst]. *)
Theorem vol_rename_keeps_wf_closed fold upper oem im src dst r im' :
  fold_agrees upper fold ->
  fixed_root_geom (parse_geom im) -> Wf.wf_issues fold im = [] -> root_lfns_ok im ->
  Forall attrs_sane (root_region_slots (parse_geom im) im) -> Forall bytes_ok (root_region_slots (parse_geom im) im) ->
  str_valid dst = true -> src_not_dot upper oem im src ->
  vol_rename_in_root upper oem im src dst = Some (r, im') ->
  Wf.wf_issues fold im' = [] /\ root_lfns_ok im'.
Proof.
  intros FA Hg Hwf Hok Hsane Hby Hv Hnd H.
  assert (r = Ok tt \/ r <> Ok tt) as [->|Hr] by (destruct r as [[]| | |]; [left; reflexivity|right; discriminate..]).
  2:{ destruct (vol_rename_failed_unchanged fold upper oem im src dst r im' Hg H Hr) as (_ & _ & Q2 & Q3 & _).
      split; [rewrite Q3; exact Hwf|]. unfold root_lfns_ok, root_lfns. rewrite Q2. exact Hok. }
  destruct (vol_rename_decodes upper oem im src dst im' Hg (wf_root_issues_nil fold im Hg Hwf) Hsane Hby H)
    as (ev & F & _ & _ & Hcase).
  destruct Hcase as [(dv & _ & _ & _ & Hsame & Habs)|
                     (nx & n & ny & nc & nd & n' & ch & ct & _ & _ & _ & _ & _ & _ & _ & _ & _ & _ & _ & _ & _ & Hsub & _)].
  { destruct (img_same_abs fold im im' Hg Hsame) as (_ & _ & Q3 & _).
    split; [rewrite Q3; exact Hwf|]. unfold root_lfns_ok, root_lfns. rewrite Habs. exact Hok. }
  apply (vol_rename_keeps_wf_gen fold upper oem im src dst (Ok tt) im' FA Hg Hwf Hok Hsane Hby Hv Hnd); [|exact H].
  intros ev' l F' DE ev2 Hin M. assert (ev' = ev) as -> by congruence.
  destruct Hsub as [(a & C & _)|(dv & _ & _ & _ & _ & Hom)].
  - destruct (check_fresh_inv _ _ _ _ _ _ C) as (_ & _ & l' & DE' & Fn & _).
    assert (l' = l) as -> by congruence. pose proof (find_none _ _ Fn ev2 Hin). congruence.
  - destruct (N.eq_dec (Lfn.ev_end ev2) (Lfn.ev_end ev)) as [E|E]; [|rewrite (Hom l ev2 DE Hin E) in M; discriminate].
    unfold root_lookup in F. destruct (find_entry_listed _ _ _ _ _ _ F) as [HL _].
    apply (listed_same_end oem true (root_region_slots (parse_geom im) im)); [|exact HL|exact E].
    unfold dir_entries in DE. apply (LfnProofs.read_dir_listed _ _ _ _ _ DE). exact Hin.
Qed.

(* ---- the situation that made the scan necessary (D27, found by the proof attempt for this theorem and reproduced on the
   real library, fixed by 7e5011a).  Case folding with one expansion, U+00DF -> "SS" (as char::to_uppercase).  On the example
   volume: create "ab"; create "\u{DF}~1" (alias _~1~1); remove "ab"; create "s s" - first fit puts it IN FRONT of
   "\u{DF}~1", alias SS~1.  No issue.  rename "s s" -> "ss~1": check_for_existence stops at the first match, the source itself
   (through its ALIAS); "\u{DF}~1" behind it matches "ss~1" too (through its LONG name).  Before the fix the source was
   rewritten under the long name "ss~1": two long names with the folding "SS~1" (WDupLong).  Now: AlreadyExists, nothing
   changes. *)
Definition upper_sz (c : N) : list N := if c =? 223 then [83; 83] else [ascii_upper c].
Definition ex_respell_im : image :=
  let U := upper_sz in let O := oem_decode_lossy in
  let i1 := snd (vol_create_empty_file_root U O ex_vol_im [97; 98] ex_vol_now) in
  let i2 := snd (vol_create_empty_file_root U O i1 [223; 126; 49] ex_vol_now) in
  let i3 := match vol_remove_empty_file_root U O i2 [97; 98] with Some (_, im) => im | None => i2 end in
  snd (vol_create_empty_file_root U O i3 [115; 32; 115] ex_vol_now).

Lemma attrs_sane_b ss :
  forallb (fun s => Bool.eqb (N.land (attrs_truncate (byte_at s 11)) ATTR_LFN =? ATTR_LFN) (is_lfn_slot s)) ss = true ->
  Forall attrs_sane ss.
Proof.
  intros H. apply Forall_forall. intros s Hs. rewrite forallb_forall in H. specialize (H s Hs).
  unfold attrs_sane. apply Bool.eqb_prop. exact H.
Qed.

(* the premises of the rename theorem hold on that volume *)
Lemma ex_respell_premises :
  fixed_root_geom (parse_geom ex_respell_im) /\ Wf.wf_issues (wf_fold upper_sz) ex_respell_im = [] /\
  root_lfns_ok ex_respell_im /\
  Forall attrs_sane (root_region_slots (parse_geom ex_respell_im) ex_respell_im) /\
  Forall bytes_ok (root_region_slots (parse_geom ex_respell_im) ex_respell_im) /\
  src_not_dot upper_sz oem_decode_lossy ex_respell_im [115; 32; 115] /\
  root_lfns ex_respell_im = [[115; 32; 115]; [223; 126; 49]].
Proof.
  destruct ex_vol_premises as (bs & _ & _ & _ & Hg & _).
  assert (parse_geom ex_respell_im = parse_geom ex_vol_im) as Epg by (vm_compute; reflexivity).
  assert (root_lfns ex_respell_im = [[115; 32; 115]; [223; 126; 49]]) as E by (vm_compute; reflexivity).
  split; [rewrite Epg; exact Hg|]. split; [vm_compute; reflexivity|].
  split; [unfold root_lfns_ok, lfns_ok; rewrite E; repeat constructor|].
  split; [apply attrs_sane_b; vm_compute; reflexivity|]. split; [apply bytes_ok_b; vm_compute; reflexivity|].
  split; [|exact E]. intros ev Hev. vm_compute in Hev. injection Hev as <-. vm_compute. reflexivity.
Qed.

(* ================================================================ 6. the statements used by Props/C03.v *)

(* every volume on the way (after the first k calls, any k) *)
Theorem vol_create_all_prefix_keeps_wf fold upper oem reqs im k :
  fold_agrees upper fold ->
  fixed_root_geom (parse_geom im) -> Wf.wf_issues fold im = [] -> root_lfns_ok im ->
  Forall (fun q => str_valid (fst q) = true /\ TimeProofs.datetime_valid (snd q) = true) reqs ->
  parse_geom (vol_create_all upper oem im (firstn k reqs)) = parse_geom im /\
  Wf.wf_issues fold (vol_create_all upper oem im (firstn k reqs)) = [] /\
  root_lfns_ok (vol_create_all upper oem im (firstn k reqs)).
Proof.
  intros FA Hg Hwf Hok Hq. apply vol_create_all_keeps_wf_closed; try assumption. apply Forall_firstn'. exact Hq.
Qed.

(* the instances for the folding the judge runs: no hypothesis about the folding is left *)
Theorem vol_create_keeps_wf_judge upper oem im name now range im' :
  fixed_root_geom (parse_geom im) -> Wf.wf_issues (wf_fold upper) im = [] -> root_lfns_ok im ->
  str_valid name = true -> TimeProofs.datetime_valid now = true ->
  vol_create_empty_file_root upper oem im name now = (Ok (Some range), im') ->
  Wf.wf_issues (wf_fold upper) im' = [] /\ root_lfns_ok im'.
Proof. exact (vol_create_keeps_wf_closed (wf_fold upper) upper oem im name now range im' (wf_fold_agrees upper)). Qed.

Theorem vol_rename_keeps_wf_judge upper oem im src dst r im' :
  fixed_root_geom (parse_geom im) -> Wf.wf_issues (wf_fold upper) im = [] -> root_lfns_ok im ->
  Forall attrs_sane (root_region_slots (parse_geom im) im) -> Forall bytes_ok (root_region_slots (parse_geom im) im) ->
  str_valid dst = true -> src_not_dot upper oem im src ->
  vol_rename_in_root upper oem im src dst = Some (r, im') ->
  Wf.wf_issues (wf_fold upper) im' = [] /\ root_lfns_ok im'.
Proof. exact (vol_rename_keeps_wf_closed (wf_fold upper) upper oem im src dst r im' (wf_fold_agrees upper)). Qed.
