(* NameProofs.v: proofs about Model/Name.v (validation, UTF-16, long-name slots writer/reader, name comparison). *)
From Coq Require Import NArith ZArith Lia List Bool Arith.
From FatVerif Require Import Model.Base Model.Str Model.Slot Model.Name Proofs.BaseProofs.
Import ListNotations.
Open Scope N_scope.
Ltac Zify.zify_post_hook ::= Z.to_euclidean_division_equations.

(* ---------- validate_long_name ------------------------------------------------------------ *)

Lemma validate_chars_ok s : validate_chars s = Ok tt <-> forallb lfn_char_ok s = true.
Proof.
  induction s as [|c r IH]; cbn [validate_chars forallb]; [tauto|].
  destruct (lfn_char_ok c); cbn [andb]; [exact IH|]. split; discriminate.
Qed.

Lemma validate_chars_cases s :
  validate_chars s = Ok tt \/ validate_chars s = Err EUnsupportedFileNameCharacter.
Proof.
  induction s as [|c r IH]; cbn [validate_chars]; [now left|].
  destruct (lfn_char_ok c); [exact IH|now right].
Qed.

Lemma validate_chars_err s :
  validate_chars s = Err EUnsupportedFileNameCharacter <-> forallb lfn_char_ok s = false.
Proof.
  pose proof (validate_chars_ok s) as H. destruct (validate_chars_cases s) as [E|E]; rewrite E in *.
  - destruct (forallb lfn_char_ok s); [split; discriminate|]. destruct H as [H _]. specialize (H eq_refl). discriminate.
  - destruct (forallb lfn_char_ok s); [|tauto]. destruct H as [_ H]. specialize (H eq_refl). discriminate.
Qed.

Theorem validate_spec n :
  (validate_long_name n = Ok tt <-> (1 <= utf8_len n <= 255 /\ forallb lfn_char_ok n = true)) /\
  (validate_long_name n = Err EInvalidFileNameLength <-> (utf8_len n = 0 \/ 255 < utf8_len n)) /\
  (validate_long_name n = Err EUnsupportedFileNameCharacter <->
     (1 <= utf8_len n <= 255 /\ forallb lfn_char_ok n = false)) /\
  (validate_long_name n = Ok tt \/ validate_long_name n = Err EInvalidFileNameLength \/
   validate_long_name n = Err EUnsupportedFileNameCharacter).
Proof.
  unfold validate_long_name, MAX_LONG_NAME_LEN.
  pose proof (validate_chars_ok n) as Hok. pose proof (validate_chars_err n) as Her.
  pose proof (validate_chars_cases n) as Hc.
  destruct (utf8_len n =? 0) eqn:E0; [apply N.eqb_eq in E0|apply N.eqb_neq in E0].
  { intuition (try discriminate; try lia). }
  destruct (255 <? utf8_len n) eqn:E1; [apply N.ltb_lt in E1|apply N.ltb_ge in E1].
  { intuition (try discriminate; try lia). }
  destruct Hc as [Hc|Hc]; rewrite Hc in *; intuition (try discriminate; try lia).
Qed.

(* facts about an accepted name used by the round-trip *)
Lemma utf8_char_len_pos c : 1 <= utf8_char_len c.
Proof. unfold utf8_char_len. destruct (c <? 128), (c <? 2048), (c <? 65536); lia. Qed.

Lemma utf8_len_ge_length s : N.of_nat (length s) <= utf8_len s.
Proof.
  induction s as [|c r IH]; cbn [utf8_len length]; [lia|].
  pose proof (utf8_char_len_pos c). lia.
Qed.

Lemma lfn_char_ok_bmp c : lfn_char_ok c = true -> c <> 0 /\ c < 65536.
Proof.
  unfold lfn_char_ok, lfn_punct. cbn [existsb]. intros H.
  repeat (apply orb_true_iff in H; destruct H as [H|H]);
    repeat (apply andb_true_iff in H; destruct H as [H ?]);
    repeat match goal with
           | [ X : (_ <=? _) = true |- _ ] => apply N.leb_le in X
           | [ X : (_ =? _) = true |- _ ] => apply N.eqb_eq in X
           end; try lia; try discriminate.
Qed.

Lemma valid_name_units n : forallb lfn_char_ok n = true -> utf16_encode n = n /\ ~ In 0 n.
Proof.
  induction n as [|c r IH]; cbn [forallb]; intros H; [split; [reflexivity|intros []]|].
  apply andb_true_iff in H. destruct H as [Hc Hr]. destruct (IH Hr) as [E NI].
  destruct (lfn_char_ok_bmp c Hc) as [Hz Hb].
  split.
  - change (utf16_encode (c :: r)) with (utf16_encode_char c ++ utf16_encode r). rewrite E.
    unfold utf16_encode_char. apply N.ltb_lt in Hb. rewrite Hb. reflexivity.
  - intros [H|H]; [congruence|tauto].
Qed.

(* ---------- UTF-16 ------------------------------------------------------------------------ *)

Theorem utf16_roundtrip n : str_valid n = true -> utf16_decode (utf16_encode n) = map Some n.
Proof.
  unfold str_valid. induction n as [|c r IH]; cbn [forallb]; intros H; [reflexivity|].
  apply andb_true_iff in H. destruct H as [Hc Hr]. specialize (IH Hr).
  change (utf16_encode (c :: r)) with (utf16_encode_char c ++ utf16_encode r).
  cbn [map]. unfold utf16_encode_char, is_scalar in *.
  destruct (c <? 65536) eqn:E.
  - apply N.ltb_lt in E. cbn [app utf16_decode].
    assert (is_high_surrogate c = false /\ is_low_surrogate c = false) as [Hh Hl].
    { unfold is_high_surrogate, is_low_surrogate.
      apply orb_true_iff in Hc. destruct Hc as [Hc|Hc].
      - apply N.ltb_lt in Hc. split; apply andb_false_iff; left; apply N.leb_gt; lia.
      - apply andb_true_iff in Hc. destruct Hc as [Hc _]. apply N.ltb_lt in Hc.
        split; apply andb_false_iff; right; apply N.leb_gt; lia. }
    rewrite Hh, Hl. rewrite IH. reflexivity.
  - apply N.ltb_ge in E.
    apply orb_true_iff in Hc. destruct Hc as [Hc|Hc]; [apply N.ltb_lt in Hc; lia|].
    apply andb_true_iff in Hc. destruct Hc as [_ Hc]. apply N.leb_le in Hc.
    cbn [app utf16_decode].
    assert (is_high_surrogate (55296 + (c - 65536) / 1024) = true) as Hh.
    { unfold is_high_surrogate. apply andb_true_iff. split; apply N.leb_le; lia. }
    assert (is_low_surrogate (56320 + (c - 65536) mod 1024) = true) as Hl.
    { unfold is_low_surrogate. apply andb_true_iff. split; apply N.leb_le; lia. }
    rewrite Hh, Hl, IH. f_equal. f_equal. lia.
Qed.

(* ---------- name comparison ------------------------------------------------------------------ *)

Lemma str_eqb_spec a b : str_eqb a b = true <-> a = b.
Proof.
  unfold str_eqb. revert b. induction a as [|x a IH]; intros [|y b]; split; intros H; try reflexivity; try discriminate.
  - apply andb_true_iff in H. destruct H as [H1 H2]. apply N.eqb_eq in H1. apply IH in H2. congruence.
  - inversion H; subst. apply andb_true_iff. split; [apply N.eqb_refl|apply IH; reflexivity].
Qed.

Section EqNameProofs.
  Variable upper : N -> list N.
  Variable oem_decode : N -> N.

  Lemma take_prefix_spec l o o' : take_prefix l o = Some o' <-> o = l ++ o'.
  Proof.
    revert o. induction l as [|x l IH]; intros o; cbn [take_prefix app].
    - split; intros H; [inversion H; reflexivity|subst; reflexivity].
    - destruct o as [|y o]; [split; discriminate|].
      destruct (x =? y) eqn:E.
      + apply N.eqb_eq in E. subst y. rewrite IH. split; intros H; [subst; reflexivity|inversion H; reflexivity].
      + apply N.eqb_neq in E. split; [discriminate|]. intros H. inversion H. congruence.
  Qed.

  Lemma eq_lfn_loop_spec dec o :
    eq_lfn_loop upper dec o = true <-> exists s, dec = map Some s /\ o = fold_upper upper s.
  Proof.
    revert o. induction dec as [|d dec IH]; intros o; cbn [eq_lfn_loop].
    - destruct o; split; intros H.
      + exists []. split; reflexivity.
      + reflexivity.
      + discriminate.
      + destruct H as [s [H1 H2]]. destruct s; [discriminate H2|discriminate H1].
    - destruct d as [c|].
      + destruct (take_prefix (upper c) o) as [o'|] eqn:E.
        * apply take_prefix_spec in E. rewrite IH. split; intros [s [H1 H2]].
          -- exists (c :: s). split; [cbn [map]; congruence|]. subst. reflexivity.
          -- destruct s as [|c' s]; [discriminate H1|]. cbn [map] in H1. inversion H1; subst c' dec.
             exists s. split; [reflexivity|]. unfold fold_upper in H2. cbn [flat_map] in H2.
             rewrite E in H2. apply app_inv_head in H2. exact H2.
        * split; [discriminate|]. intros [s [H1 H2]].
          destruct s as [|c' s]; [discriminate H1|]. cbn [map] in H1. inversion H1; subst c' dec.
          unfold fold_upper in H2. cbn [flat_map] in H2.
          assert (take_prefix (upper c) o = Some (flat_map upper s)) as X by (apply take_prefix_spec; exact H2).
          congruence.
      + split; [discriminate|]. intros [s [H1 _]]. destruct s; discriminate H1.
  Qed.

  (* what eq_name computes: the long name decodes without error to a string with the same folding,
     or the 8.3 string (through the OEM decoder) has the same folding *)
  Theorem eq_name_spec lfn raw name :
    eq_name upper oem_decode lfn raw name = true <->
    (lfn <> [] /\ exists s, utf16_decode lfn = map Some s /\ fold_upper upper name = fold_upper upper s) \/
    fold_upper upper name = fold_upper upper (short_name_chars oem_decode raw).
  Proof.
    unfold eq_name, eq_name_lfn, eq_ignore_case.
    destruct lfn as [|u lfn].
    - rewrite str_eqb_spec. split.
      + intros H. right. symmetry. exact H.
      + intros [[H _]|H]; [congruence|symmetry; exact H].
    - destruct (eq_lfn_loop upper (utf16_decode (u :: lfn)) (fold_upper upper name)) eqn:E.
      + split; [|reflexivity]. intros _. left. split; [discriminate|]. apply eq_lfn_loop_spec. exact E.
      + rewrite str_eqb_spec. split.
        * intros H. right. symmetry. exact H.
        * intros [[_ H]|H]; [|symmetry; exact H].
          apply eq_lfn_loop_spec in H. congruence.
  Qed.

  Theorem lookup_fold n n' raw :
    str_valid n = true -> n <> [] -> fold_upper upper n' = fold_upper upper n ->
    eq_name upper oem_decode (utf16_encode n) raw n' = true.
  Proof.
    intros Hv Hne Hf. apply eq_name_spec. left. split.
    - destruct n as [|c r]; [congruence|].
      change (utf16_encode (c :: r)) with (utf16_encode_char c ++ utf16_encode r).
      unfold utf16_encode_char. destruct (c <? 65536); discriminate.
    - exists n. split; [apply utf16_roundtrip; exact Hv|exact Hf].
  Qed.

  Theorem lookup_self n raw :
    str_valid n = true -> n <> [] ->
    eq_name upper oem_decode (utf16_encode n) raw n = true /\
    eq_name upper oem_decode (utf16_encode n) raw (short_name_chars oem_decode raw) = true.
  Proof.
    intros Hv Hne. split.
    - apply lookup_fold; auto.
    - apply eq_name_spec. right. reflexivity.
  Qed.

  Theorem lookup_alias_fold lfn raw n' :
    fold_upper upper n' = fold_upper upper (short_name_chars oem_decode raw) ->
    eq_name upper oem_decode lfn raw n' = true.
  Proof. intros H. apply eq_name_spec. right. exact H. Qed.

  Theorem lookup_sound n raw n' :
    str_valid n = true ->
    eq_name upper oem_decode (utf16_encode n) raw n' = true ->
    fold_upper upper n' = fold_upper upper n \/
    fold_upper upper n' = fold_upper upper (short_name_chars oem_decode raw).
  Proof.
    intros Hv H. apply eq_name_spec in H. destruct H as [[_ [s [H1 H2]]]|H]; [left|right; exact H].
    rewrite (utf16_roundtrip n Hv) in H1.
    assert (s = n) as ->; [|exact H2].
    clear -H1. revert s H1. induction n as [|c r IH]; intros [|c' s] H; try discriminate; [reflexivity|].
    cbn [map] in H. inversion H as [[H1 H2]]. rewrite (IH s H2). reflexivity.
  Qed.
End EqNameProofs.

(* ---------- long-name slots: writer ------------------------------------------------------- *)

Lemma chunks_fuel_nil f : chunks_fuel f [] = [].
Proof. destruct f; reflexivity. Qed.

Lemma chunks_decomp f : forall u, (length u <= f)%nat -> u <> [] ->
  exists cs cl, chunks_fuel f u = cs ++ [cl] /\ Forall (fun c => length c = 13%nat) cs /\
                (1 <= length cl <= 13)%nat /\ concat cs ++ cl = u /\
                length u = (13 * length cs + length cl)%nat.
Proof.
  induction f as [|f IH]; intros u Hl Hne.
  - destruct u; [congruence|cbn [length] in Hl; lia].
  - destruct u as [|x u']; [congruence|]. remember (x :: u') as u.
    assert (chunks_fuel (S f) u = firstn 13 u :: chunks_fuel f (skipn 13 u)) as E by (subst u; reflexivity).
    rewrite E.
    destruct (le_lt_dec (length u) 13) as [Hs|Hs].
    + exists [], u.
      assert (skipn 13 u = []) as Es by (apply skipn_all2; lia).
      assert (firstn 13 u = u) as Ef by (apply firstn_all2; lia).
      rewrite Es, Ef, chunks_fuel_nil.
      assert (1 <= length u)%nat by (subst u; cbn [length]; lia).
      split; [reflexivity|]. split; [constructor|]. split; [lia|]. split; [reflexivity|].
      cbn [length]. lia.
    + assert (length (skipn 13 u) = (length u - 13)%nat) as Hsk by apply skipn_length.
      destruct (IH (skipn 13 u)) as [cs [cl [H1 [H2 [H3 [H4 H5]]]]]].
      * lia.
      * intros C. rewrite C in Hsk. cbn [length] in Hsk. lia.
      * exists (firstn 13 u :: cs), cl. rewrite H1.
        assert (length (firstn 13 u) = 13%nat) as Hf by (rewrite firstn_length; lia).
        repeat split; try lia.
        -- constructor; assumption.
        -- cbn [concat]. rewrite <- app_assoc, H4. apply firstn_skipn.
        -- cbn [length]. lia.
Qed.

Lemma lfn_part_length c : (length c <= 13)%nat -> length (lfn_part c) = 13%nat.
Proof.
  intros H. unfold lfn_part, len_N, LFN_PART_LEN.
  destruct (N.of_nat (length c) <? 13) eqn:E.
  - apply N.ltb_lt in E. rewrite app_length. cbn [length].
    assert (forall n, length (repeat_N LFN_PADDING n) = n) as R by (induction n; cbn [repeat_N length]; congruence).
    rewrite R. lia.
  - apply N.ltb_ge in E. lia.
Qed.

Lemma lfn_part_full c : length c = 13%nat -> lfn_part c = c.
Proof. intros H. unfold lfn_part, len_N, LFN_PART_LEN. rewrite H. reflexivity. Qed.

(* every generated entry carries the checksum; attributes/type/reserved as DirLfnEntryData::new *)
Lemma lfn_gen_checksum parts : forall num index ck e,
  In e (lfn_gen parts num index ck) ->
  le_checksum e = ck /\ le_attrs e = ATTR_LFN /\ le_entry_type e = 0 /\ le_reserved_0 e = 0.
Proof.
  induction parts as [|p r IH]; intros num index ck e H; cbn [lfn_gen] in H; [destruct H|].
  destruct H as [H|H]; [subst e; repeat split|eapply IH; exact H].
Qed.

(* the order bytes: num - index, ..., with 0x40 set on the entry emitted when index = 0 *)
Lemma lfn_gen_orders parts : forall num index ck,
  map le_order (lfn_gen parts num index ck) =
  map (fun i => let o := (num - (index + N.of_nat i)) mod 256 in
                if index + N.of_nat i =? 0 then N.lor o LFN_LAST_FLAG else o) (seq 0 (length parts)).
Proof.
  induction parts as [|p r IH]; intros num index ck; [reflexivity|].
  cbn [lfn_gen map length seq]. f_equal.
  - cbn [N.of_nat]. rewrite N.add_0_r. reflexivity.
  - rewrite IH. rewrite <- seq_shift, map_map. apply map_ext. intros i.
    replace (index + 1 + N.of_nat i) with (index + N.of_nat (S i)) by lia. reflexivity.
Qed.

Lemma lfn_gen_length parts : forall num index ck, length (lfn_gen parts num index ck) = length parts.
Proof. induction parts as [|p r IH]; intros; cbn [lfn_gen length]; [reflexivity|rewrite IH; reflexivity]. Qed.

Lemma chunks13_length u :
  N.of_nat (length (chunks13 u)) = (len_N u + LFN_PART_LEN - 1) / LFN_PART_LEN.
Proof.
  unfold chunks13, len_N, LFN_PART_LEN. destruct u as [|x u'].
  - reflexivity.
  - remember (x :: u') as u.
    destruct (chunks_decomp (length u) u) as [cs [cl [H1 [H2 [H3 [H4 H5]]]]]]; [lia|subst u; discriminate|].
    rewrite H1, app_length. cbn [length]. rewrite H5. lia.
Qed.

Theorem lfn_slots_checksum u ck :
  let es := lfn_entries u ck in
  (forall e, In e es -> le_checksum e = ck /\ le_attrs e = ATTR_LFN /\ le_entry_type e = 0 /\ le_reserved_0 e = 0) /\
  N.of_nat (length es) = (len_N u + LFN_PART_LEN - 1) / LFN_PART_LEN /\
  map le_order es =
    map (fun i => let o := (N.of_nat (length es) - N.of_nat i) mod 256 in
                  if (i =? 0)%nat then N.lor o LFN_LAST_FLAG else o) (seq 0 (length es)).
Proof.
  cbn zeta. unfold lfn_entries.
  assert (length (lfn_gen (rev (chunks13 u)) ((len_N u + LFN_PART_LEN - 1) / LFN_PART_LEN) 0 ck) = length (chunks13 u)) as HL
    by (rewrite lfn_gen_length, rev_length; reflexivity).
  split; [|split].
  - intros e H. eapply lfn_gen_checksum. exact H.
  - rewrite HL. apply chunks13_length.
  - rewrite lfn_gen_orders, HL, rev_length, <- chunks13_length. apply map_ext. intros i.
    rewrite N.add_0_l. cbn zeta. destruct i; reflexivity.
Qed.

(* ---------- long-name slots: reader on what the writer produced ------------------------ *)

Lemma repeat_N_length {A} (x : A) n : length (repeat_N x n) = n.
Proof. induction n; cbn [repeat_N length]; congruence. Qed.

Lemma lor_64 K : K < 64 -> N.lor K 64 = K + 64.
Proof.
  intros H. rewrite N.lor_comm. change 64 with (1 * 2 ^ 6).
  rewrite BaseProofs.lor_mul_pow2_add by (change (2 ^ 6) with 64; lia). lia.
Qed.

Lemma process_mid b K part ck :
  1 <= K <= 20 -> lb_index b = K + 1 -> lb_chksum b = ck ->
  lnb_process b (lfn_new K ck part) =
  (do buf <- vec_write13 (lb_buf b) (N.to_nat (13 * (K - 1))) part;
   Ok {| lb_buf := buf; lb_chksum := ck; lb_index := K |}).
Proof.
  intros HK Hi Hc. unfold lnb_process, lfn_new, MAX_LONG_DIR_ENTRIES, LFN_PART_LEN.
  cbn [le_order le_checksum le_name lb_buf lb_chksum lb_index].
  replace ((K / 64) mod 2 =? 0) with true by (symmetry; apply N.eqb_eq; lia).
  replace (K mod 32) with K by lia.
  replace (K =? 0) with false by (symmetry; apply N.eqb_neq; lia).
  replace (20 <? K) with false by (symmetry; apply N.ltb_ge; lia).
  cbn [negb orb]. rewrite Hi, Hc.
  replace (K + 1 =? 0) with false by (symmetry; apply N.eqb_neq; lia).
  replace (K =? K + 1 - 1) with true by (symmetry; apply N.eqb_eq; lia).
  rewrite N.eqb_refl. cbn [negb orb].
  replace (K + 1 - 1) with K by lia. reflexivity.
Qed.

Lemma process_last b K part ck :
  1 <= K <= 20 ->
  lnb_process b (lfn_new (N.lor K LFN_LAST_FLAG) ck part) =
  (do buf <- vec_write13 (vec_resize (lb_buf b) (N.to_nat (K * 13))) (N.to_nat (13 * (K - 1))) part;
   Ok {| lb_buf := buf; lb_chksum := ck; lb_index := K |}).
Proof.
  intros HK. unfold lnb_process, lfn_new, MAX_LONG_DIR_ENTRIES, LFN_PART_LEN, LFN_LAST_FLAG.
  cbn [le_order le_checksum le_name lb_buf lb_chksum lb_index].
  rewrite lor_64 by lia.
  replace (((K + 64) / 64) mod 2 =? 0) with false by (symmetry; apply N.eqb_neq; lia).
  replace ((K + 64) mod 32) with K by lia.
  replace (K =? 0) with false by (symmetry; apply N.eqb_neq; lia).
  replace (20 <? K) with false by (symmetry; apply N.ltb_ge; lia).
  cbn [negb orb]. reflexivity.
Qed.

Lemma vec_write13_ok buf pos part :
  (pos + 13 <= length buf)%nat -> length part = 13%nat ->
  vec_write13 buf pos part = Ok (firstn pos buf ++ part ++ skipn (pos + 13) buf).
Proof.
  intros H Hp. unfold vec_write13.
  replace (Nat.leb (pos + 13) (length buf)) with true by (symmetry; apply Nat.leb_le; exact H).
  rewrite (firstn_all2 part) by lia. reflexivity.
Qed.

(* the entries after the first one, for the full 13-unit chunks cs = c_1 .. c_k, emitted as c_k .. c_1 *)
Lemma phase2 ck : forall (cs : list (list N)) (buf : list N) num index,
  Forall (fun c => length c = 13%nat) cs ->
  (13 * length cs <= length buf)%nat -> (length cs < 20)%nat ->
  index <> 0 -> num = index + N.of_nat (length cs) ->
  lnb_process_all {| lb_buf := buf; lb_chksum := ck; lb_index := N.of_nat (S (length cs)) |}
                  (lfn_gen (rev cs) num index ck)
  = Ok {| lb_buf := concat cs ++ skipn (13 * length cs) buf; lb_chksum := ck; lb_index := 1 |}.
Proof.
  induction cs as [|c cs' IH] using rev_ind; intros buf num index Hall Hlen Hk Hidx Hnum.
  - reflexivity.
  - rewrite rev_unit. cbn [lfn_gen]. rewrite app_length in *. cbn [length] in *.
    apply Forall_app in Hall. destruct Hall as [Hall' Hc]. inversion Hc as [|? ? Hc13 _]; subst.
    replace (index =? 0) with false by (symmetry; apply N.eqb_neq; exact Hidx).
    set (K := N.of_nat (length cs' + 1)).
    replace ((index + K - index) mod 256) with K by (unfold K; lia).
    cbn [lnb_process_all].
    rewrite (process_mid _ K (lfn_part c) ck); cbn [lb_index lb_chksum lb_buf]; try (unfold K; lia).
    rewrite (lfn_part_full c Hc13).
    replace (N.to_nat (13 * (K - 1))) with (13 * length cs')%nat by (unfold K; lia).
    rewrite vec_write13_ok by (try assumption; lia).
    cbn [bind].
    replace K with (N.of_nat (S (length cs'))) by (unfold K; lia).
    rewrite (IH _ (index + N.of_nat (S (length cs'))) (index + 1)); try assumption; try lia.
    + f_equal. f_equal. rewrite concat_app. cbn [concat]. rewrite app_nil_r, <- app_assoc. f_equal.
      rewrite skipn_app. rewrite firstn_length. 
      replace (13 * length cs' - Nat.min (13 * length cs') (length buf))%nat with 0%nat by lia.
      rewrite (skipn_all2 (firstn (13 * length cs') buf)) by (rewrite firstn_length; lia).
      cbn [skipn app]. f_equal. f_equal. lia.
    + rewrite !app_length, firstn_length, skipn_length. lia.
Qed.

Lemma nul_position_app_nonul u r : ~ In 0 u -> nul_position (u ++ 0 :: r) = length u.
Proof.
  induction u as [|x u IH]; intros H; cbn [app nul_position length]; [reflexivity|].
  destruct (x =? 0) eqn:E; [apply N.eqb_eq in E; subst; exfalso; apply H; left; reflexivity|].
  f_equal. apply IH. intros C. apply H. right. exact C.
Qed.

Lemma nul_position_nonul u : ~ In 0 u -> nul_position u = length u.
Proof.
  induction u as [|x u IH]; intros H; cbn [nul_position length]; [reflexivity|].
  destruct (x =? 0) eqn:E; [apply N.eqb_eq in E; subst; exfalso; apply H; left; reflexivity|].
  f_equal. apply IH. intros C. apply H. right. exact C.
Qed.

Lemma vec_resize_prefix u r : vec_resize (u ++ r) (length u) = u.
Proof.
  unfold vec_resize. rewrite firstn_app, firstn_all, Nat.sub_diag. cbn [firstn].
  rewrite app_nil_r, app_length. replace (length u - (length u + length r))%nat with 0%nat by lia.
  cbn [repeat_N]. apply app_nil_r.
Qed.

Theorem lfn_roundtrip_units u ck sfn :
  u <> [] -> (length u <= 255)%nat -> ~ In 0 u -> ck = lfn_checksum sfn ->
  lfn_assemble (lfn_entries u ck) sfn = Ok u.
Proof.
  intros Hne Hlen Hnz Hck.
  destruct (chunks_decomp (length u) u) as [cs [cl [H1 [H2 [H3 [H4 H5]]]]]]; [lia|exact Hne|].
  unfold lfn_assemble, lfn_entries. rewrite <- chunks13_length. unfold chunks13. rewrite H1.
  rewrite rev_unit, app_length. cbn [length lfn_gen N.eqb].
  set (K := N.of_nat (length cs + 1)).
  assert (length cs < 20)%nat as Hk by lia.
  replace ((K - 0) mod 256) with K by (unfold K; lia).
  cbn [lnb_process_all].
  rewrite process_last by (unfold K; lia).
  cbn [lnb_new lb_buf].
  replace (N.to_nat (K * 13)) with (13 * length cs + 13)%nat by (unfold K; lia).
  replace (N.to_nat (13 * (K - 1))) with (13 * length cs)%nat by (unfold K; lia).
  assert (vec_resize [] (13 * length cs + 13) = repeat_N 0 (13 * length cs + 13)) as Hr.
  { unfold vec_resize. rewrite firstn_nil. cbn [app length]. f_equal. lia. }
  rewrite Hr.
  rewrite vec_write13_ok; [|rewrite repeat_N_length; lia|apply lfn_part_length; lia].
  cbn [bind].
  replace K with (N.of_nat (S (length cs))) by (unfold K; lia).
  replace (0 + 1) with 1 by reflexivity.
  rewrite (phase2 ck cs _ (N.of_nat (S (length cs))) 1); try assumption; try lia.
  2:{ rewrite !app_length, firstn_length, repeat_N_length, skipn_length, repeat_N_length.
      rewrite lfn_part_length by lia. lia. }
  cbn [bind]. f_equal.
  (* the assembled buffer is the concatenation of the padded chunks *)
  assert (skipn (13 * length cs)
            (firstn (13 * length cs) (repeat_N 0 (13 * length cs + 13)) ++ lfn_part cl ++
             skipn (13 * length cs + 13) (repeat_N 0 (13 * length cs + 13))) = lfn_part cl) as Hs.
  { rewrite skipn_app, firstn_length, repeat_N_length.
    replace (13 * length cs - Nat.min (13 * length cs) (13 * length cs + 13))%nat with 0%nat by lia.
    rewrite (skipn_all2 (firstn _ _)) by (rewrite firstn_length, repeat_N_length; lia).
    rewrite (skipn_all2 (repeat_N 0 _)) by (rewrite repeat_N_length; lia).
    cbn [skipn app]. apply app_nil_r. }
  rewrite Hs.
  unfold lnb_validate_chksum. cbn [lb_index lb_chksum N.eqb Pos.eqb].
  rewrite <- Hck, N.eqb_refl.
  unfold lnb_into_buf. cbn [lb_index N.eqb Pos.eqb]. unfold lnb_truncate. cbn [lb_buf lb_chksum lb_index].
  unfold lfn_part, len_N, LFN_PART_LEN, MAX_LONG_NAME_LEN.
  destruct (N.of_nat (length cl) <? 13) eqn:E.
  - rewrite app_assoc, H4. rewrite nul_position_app_nonul by exact Hnz.
    replace (255 <? N.of_nat (length u)) with false by (symmetry; apply N.ltb_ge; lia).
    cbn [lb_buf]. apply vec_resize_prefix.
  - rewrite H4. rewrite nul_position_nonul by exact Hnz.
    replace (255 <? N.of_nat (length u)) with false by (symmetry; apply N.ltb_ge; lia).
    cbn [lb_buf]. rewrite <- (app_nil_r u) at 1. apply vec_resize_prefix.
Qed.

(* the property-level statement: an accepted name comes back unit for unit, whatever its last unit is
   (0xFFFF included) and whether or not its length is a multiple of 13 *)
Theorem lfn_roundtrip n ck sfn :
  validate_long_name n = Ok tt -> ck = lfn_checksum sfn ->
  lfn_assemble (lfn_entries (utf16_encode n) ck) sfn = Ok (utf16_encode n).
Proof.
  intros Hv Hck. destruct (validate_spec n) as [[Hok _] _]. destruct (Hok Hv) as [[H1 H2] Hc].
  destruct (valid_name_units n Hc) as [E NI]. rewrite E.
  pose proof (utf8_len_ge_length n).
  apply lfn_roundtrip_units; try assumption; try lia.
  intros C. subst n. cbn [utf8_len] in H1. lia.
Qed.

(* ---------- lossless storage through write_entry / read_dir_entry ------------------------- *)

Theorem lossless_storage n sfn :
  validate_long_name n = Ok tt -> is_dot_name n = false ->
  lfn_assemble (write_entry_lfn_slots n sfn) sfn = Ok (utf16_encode n).
Proof.
  intros V D. unfold write_entry_lfn_slots. rewrite D. apply lfn_roundtrip; [exact V|reflexivity].
Qed.

(* D21: "." and ".." pass validation but are written without long-name slots, so the reader returns no long name *)
Theorem lossless_storage_refuted :
  exists n sfn, validate_long_name n = Ok tt /\
                lfn_assemble (write_entry_lfn_slots n sfn) sfn <> Ok (utf16_encode n).
Proof. exists [46], [126; 49; 32; 32; 32; 32; 32; 32; 32; 32; 32]. vm_compute. split; [reflexivity|discriminate]. Qed.

Theorem entry_slots_checksum n sfn e :
  In e (write_entry_lfn_slots n sfn) -> le_checksum e = lfn_checksum sfn.
Proof.
  intros H. unfold write_entry_lfn_slots in H. destruct (is_dot_name n); [destruct H|].
  exact (proj1 (proj1 (lfn_slots_checksum _ _) e H)).
Qed.
