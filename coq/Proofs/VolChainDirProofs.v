(* VolChainDirProofs.v: a chain-backed directory of a FAT12/16 volume inside whole images (Model/VolChainDir.v), for operations
   that do not make it grow - from the slot layer (Proofs/DirSlotsProofs.v) to the bytes of the directory's clusters and to what
   the independent decoder reads.
   1. the slots of a chain <-> the bytes of its clusters; put_chain_slots: read-back, what it changes
   2. what the decoder reads below the data area (geometry, FAT) is untouched by changes inside data clusters
   3. the slot layer without a free cluster keeps the number of slots; a run that does not answer NotEnoughSpace does not
      depend on the number of free clusters
   4. the operations: frame (vol_chain_frame), the directory's own decoding (vol_chain_create_decodes, ..)
   5. other entries do not depend on the directory's clusters (decode_entries_avoid); a sub-directory of the fixed root inside
      Abs.abs (vol_chain_create_in_root_decodes_partial) *)
From Coq Require Import NArith ZArith Lia List Bool Arith FMapPositive.
From FatVerif Require Import Model.Base Model.Str Model.Slot Model.Time Model.Name Model.ShortName Model.DirSlots
  Spec.Image Spec.Abs Spec.Regions Model.VolDir Model.VolChainDir Proofs.ImageProofs Proofs.NameProofs Proofs.ShortNameProofs
  Proofs.DirSlotsProofs Proofs.RegionsProofs Proofs.VolDirProofs Proofs.VolDirFormat.
From FatVerif Require Model.Lfn Spec.Wf Proofs.TimeProofs Proofs.LfnProofs.
Import ListNotations.
Open Scope N_scope.
Ltac Zify.zify_post_hook ::= Z.to_euclidean_division_equations.

(* ================================================================ 1. slots of a chain <-> bytes of its clusters *)

(* the geometry facts used: a sane FAT12/16 layout (Proofs/VolDirProofs.fixed_root_geom) whose cluster size is a multiple of
   the slot size (every power-of-two sector size >= 32 gives that) *)
(* the facts about the geometry that section 1 needs - the same for a FAT12/16 volume ([chain_geom] below) and for a FAT32
   volume (Proofs/Vol32RootProofs.v): sector and cluster sizes are positive, a cluster holds whole slots.  The lemmas of
   section 1 are proved for [slot_geom] (names ending in _sg); the statements for [chain_geom] follow as corollaries. *)
Definition slot_geom (g : geom) : Prop := 1 <= g_bps g /\ 1 <= g_spc g /\ g_cluster_size g mod 32 = 0.

Definition chain_geom (g : geom) : Prop := fixed_root_geom g /\ g_cluster_size g mod 32 = 0.

(* the clusters of a directory chain: pairwise distinct data clusters *)
Definition chain_ok (g : geom) (l : list N) : Prop := NoDup l /\ Forall (fun c => 2 <= c < g_clusters g + 2) l.

Lemma cluster_size_slots_sg g : slot_geom g -> N.to_nat (g_cluster_size g) = (32 * cluster_slots g)%nat.
Proof. intros (_ & _ & H). unfold cluster_slots. lia. Qed.

Lemma cluster_size_pos_sg g : slot_geom g -> 0 < g_cluster_size g.
Proof. intros (H1 & H2 & _). unfold g_cluster_size. nia. Qed.

Lemma cluster_bytes_length g im c : length (cluster_bytes g im c) = N.to_nat (g_cluster_size g).
Proof. unfold cluster_bytes. apply img_read_length. Qed.

Lemma chain_bytes_length_sg g im l : slot_geom g -> length (chain_bytes g im l) = (32 * (cluster_slots g * length l))%nat.
Proof.
  intros Hg. unfold chain_bytes. induction l as [|c r IH]; cbn [flat_map length]; [lia|].
  rewrite app_length, IH, cluster_bytes_length, (cluster_size_slots_sg g Hg). lia.
Qed.

Lemma chain_dir_shape_sg g im l : slot_geom g ->
  shape (cluster_slots g * length l) (chain_dir_slots g im l) /\ concat (chain_dir_slots g im l) = chain_bytes g im l.
Proof.
  intros Hg. unfold chain_dir_slots, slots_of. apply chunk32_of_len.
  - apply chain_bytes_length_sg. exact Hg.
  - rewrite (chain_bytes_length_sg g im l Hg).
    replace (32 * (cluster_slots g * length l))%nat with ((cluster_slots g * length l) * 32)%nat by lia.
    rewrite Nat.div_mul by lia. lia.
Qed.

(* distinct data clusters occupy disjoint byte ranges, all inside the data area *)
Lemma cluster_off_ge_sg g c : slot_geom g -> g_first_data g * g_bps g <= g_cluster_off g c.
Proof. intros _. unfold g_cluster_off. nia. Qed.

Lemma cluster_ranges_disjoint_sg g c c' : slot_geom g -> 2 <= c -> 2 <= c' -> c <> c' ->
  g_cluster_off g c + g_cluster_size g <= g_cluster_off g c' \/ g_cluster_off g c' + g_cluster_size g <= g_cluster_off g c.
Proof.
  intros _ H1 H2 Hne. unfold g_cluster_off, g_cluster_size.
  destruct (N.lt_ge_cases c c') as [L|L]; [left|right]; nia.
Qed.

Lemma firstn_shape k n ss : shape n ss -> (k <= n)%nat -> shape k (firstn k ss).
Proof. intros [S1 S2] Hk. split; [rewrite firstn_length; lia|apply Forall_firstn'; exact S2]. Qed.
Lemma skipn_shape k n ss : shape n ss -> shape (n - k) (skipn k ss).
Proof. intros [S1 S2]. split; [rewrite skipn_length; lia|apply Forall_skipn'; exact S2]. Qed.

(* nothing outside the clusters of the chain changes *)
Lemma put_chain_outside_sg g : slot_geom g -> forall l im ss o, shape (cluster_slots g * length l) ss ->
  (forall c, In c l -> o < g_cluster_off g c \/ g_cluster_off g c + g_cluster_size g <= o) ->
  img_get (put_chain_slots g im l ss) o = img_get im o.
Proof.
  intros Hg. induction l as [|c r IH]; intros im ss o Hs Ho; cbn [put_chain_slots]; [reflexivity|].
  cbn [length] in Hs.
  rewrite IH.
  - apply img_write_outside. rewrite concat_len32 by (apply Forall_firstn'; exact (proj2 Hs)).
    rewrite firstn_length. destruct Hs as [S1 _]. rewrite S1.
    replace (Nat.min (cluster_slots g) (cluster_slots g * S (length r))) with (cluster_slots g) by lia.
    pose proof (cluster_size_slots_sg g Hg) as Hcs. destruct (Ho c (or_introl eq_refl)) as [H|H]; [left; exact H|right; lia].
  - replace (cluster_slots g * length r)%nat with (cluster_slots g * S (length r) - cluster_slots g)%nat by lia.
    apply skipn_shape. exact Hs.
  - intros c' Hc'. apply Ho. right. exact Hc'.
Qed.

(* the bytes of a cluster that is not in the chain are untouched *)
Lemma put_chain_other_cluster_sg g l im ss c : slot_geom g -> shape (cluster_slots g * length l) ss ->
  Forall (fun x => 2 <= x) l -> 2 <= c -> ~ In c l ->
  cluster_bytes g (put_chain_slots g im l ss) c = cluster_bytes g im c.
Proof.
  intros Hg Hs Hl Hc Hn. unfold cluster_bytes. apply img_read_ext. intros i Hi.
  apply (put_chain_outside_sg g Hg l im ss _ Hs). intros c' Hc'.
  rewrite Forall_forall in Hl. specialize (Hl c' Hc').
  assert (c' <> c) as Hne by (intros ->; contradiction).
  destruct (cluster_ranges_disjoint_sg g c' c Hg Hl Hc Hne) as [D|D]; [right; lia|left; lia].
Qed.

(* READ-BACK: the chain holds exactly the bytes of the slots written *)
Lemma put_chain_bytes_sg g : slot_geom g -> forall l im ss, chain_ok g l -> shape (cluster_slots g * length l) ss ->
  chain_bytes g (put_chain_slots g im l ss) l = concat ss.
Proof.
  intros Hg. induction l as [|c r IH]; intros im ss [ND Hr] Hs.
  - destruct Hs as [S1 _]. rewrite Nat.mul_0_r in S1. destruct ss; [reflexivity|discriminate].
  - inversion ND as [|? ? N1 N2]; subst. inversion Hr as [|? ? R1 R2]; subst.
    cbn [put_chain_slots]. unfold chain_bytes. cbn [flat_map]. fold (chain_bytes g (put_chain_slots g
      (img_write im (g_cluster_off g c) (concat (firstn (cluster_slots g) ss))) r (skipn (cluster_slots g) ss)) r).
    cbn [length] in Hs.
    assert (shape (cluster_slots g * length r) (skipn (cluster_slots g) ss)) as Hs2.
    { replace (cluster_slots g * length r)%nat with (cluster_slots g * S (length r) - cluster_slots g)%nat by lia.
      apply skipn_shape. exact Hs. }
    assert (shape (cluster_slots g) (firstn (cluster_slots g) ss)) as Hs1 by (apply (firstn_shape _ _ _ Hs); lia).
    rewrite (IH _ _ (conj N2 R2) Hs2).
    rewrite (put_chain_other_cluster_sg g r _ _ c Hg Hs2); [|eapply Forall_impl; [|exact R2]; intros a Ha; cbv beta in Ha; lia|lia|exact N1].
    rewrite <- (firstn_skipn (cluster_slots g) ss) at 3. rewrite concat_app. f_equal.
    unfold cluster_bytes. apply img_read_eq.
    + rewrite concat_len32 by exact (proj2 Hs1). rewrite (proj1 Hs1). symmetry. apply cluster_size_slots_sg. exact Hg.
    + intros i Hi. apply img_write_inside. rewrite concat_len32 by exact (proj2 Hs1). rewrite (proj1 Hs1).
      rewrite <- (cluster_size_slots_sg g Hg). exact Hi.
Qed.

Theorem chain_dir_put_sg g im l ss : slot_geom g -> chain_ok g l -> shape (cluster_slots g * length l) ss ->
  chain_dir_slots g (put_chain_slots g im l ss) l = ss.
Proof.
  intros Hg Hl Hs. unfold chain_dir_slots. rewrite (put_chain_bytes_sg g Hg l im ss Hl Hs). apply slots_of_concat. exact (proj2 Hs).
Qed.

(* the bytes of slot (k * i + s) of the directory are the bytes 32 * s .. of cluster number i of the chain *)
Lemma nth_flat_map_uniform {A} (f : A -> list N) n d : forall l i r, (forall x, length (f x) = n) -> (i < length l)%nat -> (r < n)%nat ->
  nth (n * i + r) (flat_map f l) 0 = nth r (f (nth i l d)) 0.
Proof.
  induction l as [|x l IH]; intros i r Hf Hi Hr; cbn [length] in Hi; [lia|]. cbn [flat_map]. destruct i as [|i].
  - rewrite Nat.mul_0_r, Nat.add_0_l. cbn [nth]. apply app_nth1. rewrite Hf. exact Hr.
  - rewrite app_nth2 by (rewrite Hf; lia). rewrite Hf. replace (n * S i + r - n)%nat with (n * i + r)%nat by lia.
    cbn [nth]. apply IH; [exact Hf|lia|exact Hr].
Qed.

Lemma chain_slot_bytes_sg g im l i s j : slot_geom g -> (i < length l)%nat -> (s < cluster_slots g)%nat -> (j < 32)%nat ->
  nth j (nth (cluster_slots g * i + s) (chain_dir_slots g im l) []) 0 =
  img_get im (g_cluster_off g (nth i l 0) + N.of_nat (32 * s + j)).
Proof.
  intros Hg Hi Hs Hj. destruct (chain_dir_shape_sg g im l Hg) as [[S1 S2] S3].
  rewrite <- nth_concat32; [|exact S2|rewrite S1; nia|exact Hj]. rewrite S3. unfold chain_bytes.
  replace (32 * (cluster_slots g * i + s) + j)%nat with ((32 * cluster_slots g) * i + (32 * s + j))%nat by lia.
  rewrite (nth_flat_map_uniform (cluster_bytes g im) (32 * cluster_slots g) 0 l i (32 * s + j));
    [|intros x; rewrite cluster_bytes_length; apply cluster_size_slots_sg; exact Hg|exact Hi|lia].
  unfold cluster_bytes. apply img_read_nth. rewrite (cluster_size_slots_sg g Hg). lia.
Qed.

(* THE harmlessness of rewriting the whole chain: a byte differs from the image before only if it lies in a cluster of the
   chain, in a slot whose new content differs from the slot the directory held at that index *)
Theorem put_chain_slots_changes_sg g im l ss o : slot_geom g -> chain_ok g l -> shape (cluster_slots g * length l) ss ->
  img_get (put_chain_slots g im l ss) o <> img_get im o ->
  exists i s j, (i < length l)%nat /\ (s < cluster_slots g)%nat /\ (j < 32)%nat /\
    o = g_cluster_off g (nth i l 0) + N.of_nat (32 * s + j) /\
    nth (cluster_slots g * i + s) ss [] <> nth (cluster_slots g * i + s) (chain_dir_slots g im l) [].
Proof.
  intros Hg Hl Hs Hne.
  (* o lies in a cluster of the chain *)
  assert (exists c, In c l /\ g_cluster_off g c <= o < g_cluster_off g c + g_cluster_size g) as (c & Hc & Hin).
  { destruct (existsb (fun c => (g_cluster_off g c <=? o) && (o <? g_cluster_off g c + g_cluster_size g)) l) eqn:E.
    - apply existsb_exists in E. destruct E as (c & Hc & E). apply andb_true_iff in E. destruct E as [E1 E2].
      apply N.leb_le in E1. apply N.ltb_lt in E2. exists c. split; [exact Hc|lia].
    - exfalso. apply Hne. apply (put_chain_outside_sg g Hg l im ss o Hs). intros c Hc.
      assert ((g_cluster_off g c <=? o) && (o <? g_cluster_off g c + g_cluster_size g) = false) as F.
      { destruct ((g_cluster_off g c <=? o) && (o <? g_cluster_off g c + g_cluster_size g)) eqn:F; [|reflexivity].
        assert (existsb (fun c => (g_cluster_off g c <=? o) && (o <? g_cluster_off g c + g_cluster_size g)) l = true) as X
          by (apply existsb_exists; exists c; split; assumption). congruence. }
      apply andb_false_iff in F. destruct F as [F|F]; [left; apply N.leb_gt in F; exact F|right; apply N.ltb_ge in F; exact F]. }
  destruct (In_nth l c 0 Hc) as (i & Hi & Hnth).
  set (d := N.to_nat (o - g_cluster_off g c)).
  pose proof (cluster_size_slots_sg g Hg) as Hcs.
  assert (d < 32 * cluster_slots g)%nat as Hd by (unfold d; lia).
  pose proof (Nat.div_mod d 32 ltac:(lia)) as Hdm. pose proof (Nat.mod_upper_bound d 32 ltac:(lia)) as Hm.
  assert (d / 32 < cluster_slots g)%nat as Hk by (apply Nat.div_lt_upper_bound; lia).
  exists i, (d / 32)%nat, (d mod 32)%nat.
  assert (o = g_cluster_off g (nth i l 0) + N.of_nat (32 * (d / 32) + d mod 32)) as Ho by (rewrite Hnth, <- Hdm; unfold d; lia).
  split; [exact Hi|]. split; [exact Hk|]. split; [exact Hm|]. split; [exact Ho|].
  intros E. apply Hne.
  rewrite Ho at 2. rewrite <- (chain_slot_bytes_sg g im l i (d / 32) (d mod 32) Hg Hi Hk Hm), <- E.
  rewrite <- (chain_dir_put_sg g im l ss Hg Hl Hs) at 2.
  rewrite (chain_slot_bytes_sg g (put_chain_slots g im l ss) l i (d / 32) (d mod 32) Hg Hi Hk Hm), <- Ho. reflexivity.
Qed.

Corollary put_chain_slots_same_sg g im l o : slot_geom g -> chain_ok g l ->
  img_get (put_chain_slots g im l (chain_dir_slots g im l)) o = img_get im o.
Proof.
  intros Hg Hl.
  destruct (N.eq_dec (img_get (put_chain_slots g im l (chain_dir_slots g im l)) o) (img_get im o)) as [E|E]; [exact E|].
  destruct (put_chain_slots_changes_sg g im l _ o Hg Hl (proj1 (chain_dir_shape_sg g im l Hg)) E) as (i & s & j & _ & _ & _ & _ & C).
  exfalso. apply C. reflexivity.
Qed.

(* ---------------------------------------------------------------- the same for a FAT12/16 geometry (corollaries) *)
Lemma chain_slot_geom g : chain_geom g -> slot_geom g.
Proof. intros [Hg H]. pose proof (fg_bps g Hg). pose proof (fg_spc g Hg). unfold slot_geom. repeat split; try lia; exact H. Qed.
Lemma cluster_size_slots g : chain_geom g -> N.to_nat (g_cluster_size g) = (32 * cluster_slots g)%nat.
Proof. intros Hg. exact (cluster_size_slots_sg g (chain_slot_geom g Hg)). Qed.
Lemma cluster_size_pos g : chain_geom g -> 0 < g_cluster_size g.
Proof. intros Hg. exact (cluster_size_pos_sg g (chain_slot_geom g Hg)). Qed.
Lemma chain_bytes_length g im l : chain_geom g -> length (chain_bytes g im l) = (32 * (cluster_slots g * length l))%nat.
Proof. intros Hg. exact (chain_bytes_length_sg g im l (chain_slot_geom g Hg)). Qed.
Lemma chain_dir_shape g im l : chain_geom g ->
  shape (cluster_slots g * length l) (chain_dir_slots g im l) /\ concat (chain_dir_slots g im l) = chain_bytes g im l.
Proof. intros Hg. exact (chain_dir_shape_sg g im l (chain_slot_geom g Hg)). Qed.
Lemma cluster_off_ge g c : chain_geom g -> g_first_data g * g_bps g <= g_cluster_off g c.
Proof. intros Hg. exact (cluster_off_ge_sg g c (chain_slot_geom g Hg)). Qed.
Lemma cluster_ranges_disjoint g c c' : chain_geom g -> 2 <= c -> 2 <= c' -> c <> c' ->
  g_cluster_off g c + g_cluster_size g <= g_cluster_off g c' \/ g_cluster_off g c' + g_cluster_size g <= g_cluster_off g c.
Proof. intros Hg. exact (cluster_ranges_disjoint_sg g c c' (chain_slot_geom g Hg)). Qed.
Lemma put_chain_outside g : chain_geom g -> forall l im ss o, shape (cluster_slots g * length l) ss ->
  (forall c, In c l -> o < g_cluster_off g c \/ g_cluster_off g c + g_cluster_size g <= o) ->
  img_get (put_chain_slots g im l ss) o = img_get im o.
Proof. intros Hg. exact (put_chain_outside_sg g (chain_slot_geom g Hg)). Qed.
Lemma put_chain_other_cluster g l im ss c : chain_geom g -> shape (cluster_slots g * length l) ss ->
  Forall (fun x => 2 <= x) l -> 2 <= c -> ~ In c l ->
  cluster_bytes g (put_chain_slots g im l ss) c = cluster_bytes g im c.
Proof. intros Hg. exact (put_chain_other_cluster_sg g l im ss c (chain_slot_geom g Hg)). Qed.
Lemma put_chain_bytes g : chain_geom g -> forall l im ss, chain_ok g l -> shape (cluster_slots g * length l) ss ->
  chain_bytes g (put_chain_slots g im l ss) l = concat ss.
Proof. intros Hg. exact (put_chain_bytes_sg g (chain_slot_geom g Hg)). Qed.
Theorem chain_dir_put g im l ss : chain_geom g -> chain_ok g l -> shape (cluster_slots g * length l) ss ->
  chain_dir_slots g (put_chain_slots g im l ss) l = ss.
Proof. intros Hg. exact (chain_dir_put_sg g im l ss (chain_slot_geom g Hg)). Qed.
Lemma chain_slot_bytes g im l i s j : chain_geom g -> (i < length l)%nat -> (s < cluster_slots g)%nat -> (j < 32)%nat ->
  nth j (nth (cluster_slots g * i + s) (chain_dir_slots g im l) []) 0 =
  img_get im (g_cluster_off g (nth i l 0) + N.of_nat (32 * s + j)).
Proof. intros Hg. exact (chain_slot_bytes_sg g im l i s j (chain_slot_geom g Hg)). Qed.
Theorem put_chain_slots_changes g im l ss o : chain_geom g -> chain_ok g l -> shape (cluster_slots g * length l) ss ->
  img_get (put_chain_slots g im l ss) o <> img_get im o ->
  exists i s j, (i < length l)%nat /\ (s < cluster_slots g)%nat /\ (j < 32)%nat /\
    o = g_cluster_off g (nth i l 0) + N.of_nat (32 * s + j) /\
    nth (cluster_slots g * i + s) ss [] <> nth (cluster_slots g * i + s) (chain_dir_slots g im l) [].
Proof. intros Hg. exact (put_chain_slots_changes_sg g im l ss o (chain_slot_geom g Hg)). Qed.
Corollary put_chain_slots_same g im l o : chain_geom g -> chain_ok g l ->
  img_get (put_chain_slots g im l (chain_dir_slots g im l)) o = img_get im o.
Proof. intros Hg. exact (put_chain_slots_same_sg g im l o (chain_slot_geom g Hg)). Qed.


(* ================================================================ 2. what the decoder reads below the data area *)

(* [im'] holds the bytes of [im] everywhere below the first data cluster: boot sector, FAT copies, fixed root region *)
Definition same_below_data (g : geom) (im im' : image) : Prop :=
  forall o, o < g_first_data g * g_bps g -> img_get im' o = img_get im o.

Lemma data_after_root g : fixed_root_geom g -> g_root_off g + root_bytes g <= g_first_data g * g_bps g.
Proof.
  intros Hg. pose proof (fg_bps g Hg). pose proof (cluster_after_root g 2 ltac:(lia)) as H2.
  unfold g_cluster_off in H2. replace ((2 - 2) * g_spc g) with 0 in H2 by lia. rewrite N.add_0_r in H2. exact H2.
Qed.

Lemma parse_geom_below g im im' : fixed_root_geom g -> same_below_data g im im' -> parse_geom im' = parse_geom im.
Proof.
  intros Hg H. pose proof (root_off_ge g Hg). pose proof (data_after_root g Hg).
  unfold parse_geom, img_u32, img_u16. rewrite !H by lia. reflexivity.
Qed.

Lemma fat_val_below g im im' c : fixed_root_geom g -> same_below_data g im im' -> in_range g c = true ->
  fat_val g im' c = fat_val g im c.
Proof.
  intros Hg H Hc. pose proof (fat0_before_root g (fg_fats g Hg)) as Hb. pose proof (fg_fat g Hg) as Hn.
  pose proof (data_after_root g Hg) as Hd.
  unfold in_range in Hc. apply andb_true_iff in Hc. destruct Hc as [C1 C2]. apply N.leb_le in C1. apply N.ltb_lt in C2.
  unfold fat_val. f_equal. unfold fat_raw. rewrite (g_active_fixed g (fg_bits g Hg)).
  unfold fat_bytes_needed in Hn.
  destruct (g_bits g =? 12) eqn:E12.
  - unfold img_u16. rewrite !H by lia. reflexivity.
  - destruct (g_bits g =? 16) eqn:E16.
    + unfold img_u16. rewrite !H by lia. reflexivity.
    + exfalso. apply N.eqb_neq in E12. apply N.eqb_neq in E16. pose proof (fg_bits g Hg).
      destruct (g_bits_cases g) as [?|[?|?]]; contradiction.
Qed.

Lemma chain_from_below g im im' : fixed_root_geom g -> same_below_data g im im' ->
  forall fuel c, chain_from g im' c fuel = chain_from g im c fuel.
Proof.
  intros Hg H. induction fuel as [|f IH]; intros c; cbn [chain_from]; [reflexivity|].
  destruct (in_range g c) eqn:R; [|reflexivity]. rewrite (fat_val_below g im im' c Hg H R).
  destruct (fat_val g im c); try reflexivity. rewrite IH. reflexivity.
Qed.

Lemma lost_from_below g im im' m : fixed_root_geom g -> same_below_data g im im' ->
  forall n c, 2 <= c -> c + N.of_nat n <= g_clusters g + 2 -> Wf.lost_from g im' m c n = Wf.lost_from g im m c n.
Proof.
  intros Hg H. induction n as [|n IH]; intros c H2 Hn; cbn [Wf.lost_from]; [reflexivity|].
  rewrite (fat_val_below g im im' c Hg H) by (apply in_range_intro; lia). rewrite IH by lia. reflexivity.
Qed.

Lemma count_free_below g im im' : fixed_root_geom g -> same_below_data g im im' -> count_free g im' = count_free g im.
Proof.
  intros Hg H. unfold count_free.
  assert (forall n c, 2 <= c -> c + N.of_nat n <= g_clusters g + 2 -> count_free_from g im' c n = count_free_from g im c n) as X.
  { induction n as [|n IH]; intros c H2 Hn; cbn [count_free_from]; [reflexivity|].
    rewrite (fat_val_below g im im' c Hg H) by (apply in_range_intro; lia). rewrite IH by lia. reflexivity. }
  apply X; lia.
Qed.

Lemma root_region_below g im im' : fixed_root_geom g -> same_below_data g im im' ->
  root_region_slots g im' = root_region_slots g im.
Proof.
  intros Hg H. unfold root_region_slots. f_equal. apply img_read_ext. intros i Hi. apply H.
  pose proof (data_after_root g Hg). lia.
Qed.

Lemma put_chain_below g im l ss : chain_geom g -> shape (cluster_slots g * length l) ss ->
  same_below_data g im (put_chain_slots g im l ss).
Proof.
  intros Hg Hs o Ho. apply (put_chain_outside g Hg l im ss o Hs). intros c _. left.
  pose proof (cluster_off_ge g c Hg). lia.
Qed.

(* ================================================================ 3. the slot layer without a free cluster *)

Lemma write_run_nogrow_shape cs n : forall run ss i r ss', Forall len32 run -> shape n ss ->
  write_run (Chained cs) 0 ss i run = (r, ss') -> shape n ss'.
Proof.
  induction run as [|s run IH]; intros ss i r ss' Hr Hs H; cbn [write_run] in H.
  - injection H as _ <-. exact Hs.
  - inversion Hr as [|? ? R1 R2]; subst. destruct (Nat.ltb i (length ss)).
    + apply (IH _ _ _ _ R2 (set_nth_shape n s R1 ss i Hs) H).
    + injection H as _ <-. exact Hs.
Qed.

Lemma write_entry_nogrow_shape cs n ss name e r ss' : shape n ss -> length (se_name e) = 11%nat ->
  write_entry (Chained cs) 0 ss name e = (r, ss') -> shape n ss'.
Proof.
  intros Hs He H. unfold write_entry, lift in H.
  destruct (validate_long_name name); try (injection H as _ <-; exact Hs).
  destruct (find_free_entries (Chained cs) ss (len_N (entry_run name e))) as [p| | |]; try (injection H as _ <-; exact Hs).
  destruct (write_run (Chained cs) 0 ss (N.to_nat p) (entry_run name e)) as [w ss1] eqn:W.
  injection H as _ <-. exact (write_run_nogrow_shape cs n _ _ _ _ _ (entry_run_len32 name e He) Hs W).
Qed.

Lemma create_entry_nogrow_shape cs n upper oem fat32 ss name attrs cl now wd r ss' : shape n ss ->
  create_entry upper oem fat32 (Chained cs) 0 ss name attrs cl now wd = (r, ss') -> shape n ss'.
Proof.
  intros Hs H. unfold create_entry, lift in H.
  destruct (check_for_existence upper oem ss name (Some wd)) as [[ev|a]| | |] eqn:C; try (injection H as _ <-; exact Hs).
  destruct (check_fresh_inv _ _ _ _ _ _ C) as (_ & HL & _).
  destruct (stamp_create now) as [st| | |]; try (injection H as _ <-; exact Hs).
  destruct (write_entry (Chained cs) 0 ss name (create_sfn_entry fat32 a attrs cl st)) as [w ss1] eqn:W.
  injection H as _ <-. refine (write_entry_nogrow_shape cs n ss name _ w ss1 Hs _ W).
  cbn [create_sfn_entry se_name]. exact (sfn_legal_len a HL).
Qed.

Lemma rename_rewrite_nogrow_shape cs n oem ss ev dst a r ss' : shape n ss -> LfnSpec.listed_at oem true [] ss ev ->
  length a = 11%nat -> rename_rewrite (Chained cs) 0 ss ev dst a = (r, ss') -> shape n ss'.
Proof.
  intros Hs HL Ha H. unfold rename_rewrite in H.
  destruct (write_entry (Chained cs) 0 ss dst (renamed (entry_data ss ev) a)) as [w ss1] eqn:W.
  assert (shape n ss1) as Hs1 by (refine (write_entry_nogrow_shape cs n ss dst _ w ss1 Hs _ W); exact Ha).
  unfold lift in H. destruct w; try (injection H as _ <-; exact Hs1).
  injection H as _ <-. apply (delete_entry_shape n oem ss1 ss ev Hs1); [|exact (proj2 Hs)|exact HL].
  destruct Hs as [-> _]. destruct Hs1 as [-> _]. reflexivity.
Qed.

Lemma rename_in_dir_nogrow_shape cs n upper oem ss src dst r ss' : shape n ss ->
  rename_in_dir upper oem (Chained cs) 0 ss src dst = (r, ss') -> shape n ss'.
Proof.
  intros Hs H. unfold rename_in_dir, lift in H.
  destruct (find_entry upper oem ss src None) as [ev| | |] eqn:F; try (injection H as _ <-; exact Hs).
  destruct (is_special ev); [injection H as _ <-; exact Hs|].
  destruct (find_entry_listed _ _ _ _ _ _ F) as [HL _].
  destruct (check_for_existence upper oem ss dst None) as [[dv|a]| | |] eqn:C; try (injection H as _ <-; exact Hs).
  - destruct (negb (Lfn.ev_end ev =? Lfn.ev_end dv)); [injection H as _ <-; exact Hs|].
    destruct (has_exact_name ev dst); [injection H as _ <-; exact Hs|].
    destruct (other_match upper oem ss ev dst) as [[|]| | |]; try (injection H as _ <-; exact Hs).
    refine (rename_rewrite_nogrow_shape cs n oem ss ev dst _ r ss' Hs HL _ H).
    exact (proj2 (proj2 (listed_range oem ss ev (proj2 Hs) HL))).
  - destruct (check_fresh_inv _ _ _ _ _ _ C) as (_ & HLa & _).
    exact (rename_rewrite_nogrow_shape cs n oem ss ev dst a r ss' Hs HL (sfn_legal_len a HLa) H).
Qed.

(* ---- a run that does not answer NotEnoughSpace never reached the end of the chain: the number of free clusters the
   allocator could have supplied does not matter - [free = 0] is what the library does, whatever the FAT holds *)
Lemma write_run_nogrow_free cs : forall run ss i r ss', write_run (Chained cs) 0 ss i run = (r, ss') ->
  is_nospace r = false -> forall free, write_run (Chained cs) free ss i run = (r, ss').
Proof.
  induction run as [|s run IH]; intros ss i r ss' H Hr free; cbn [write_run] in H |- *; [exact H|].
  destruct (Nat.ltb i (length ss)); [exact (IH _ _ _ _ H Hr free)|].
  injection H as <- _. discriminate.
Qed.

Lemma write_entry_nogrow_free cs ss name e r ss' : write_entry (Chained cs) 0 ss name e = (r, ss') ->
  is_nospace r = false -> forall free, write_entry (Chained cs) free ss name e = (r, ss').
Proof.
  intros H Hr free. unfold write_entry, lift in H |- *.
  destruct (validate_long_name name); try exact H.
  destruct (find_free_entries (Chained cs) ss (len_N (entry_run name e))) as [p| | |]; try exact H.
  destruct (write_run (Chained cs) 0 ss (N.to_nat p) (entry_run name e)) as [w ss1] eqn:W.
  rewrite (write_run_nogrow_free cs _ _ _ w ss1 W); [exact H|].
  injection H as <- _. destruct w as [[]|[]| |]; try reflexivity; discriminate.
Qed.

Theorem create_nogrow_free_irrelevant upper oem fat32 cs ss name attrs cl now wd r ss' :
  create_entry upper oem fat32 (Chained cs) 0 ss name attrs cl now wd = (r, ss') -> is_nospace r = false ->
  forall free, create_entry upper oem fat32 (Chained cs) free ss name attrs cl now wd = (r, ss').
Proof.
  intros H Hr free. unfold create_entry, lift in H |- *.
  destruct (check_for_existence upper oem ss name (Some wd)) as [[ev|a]| | |]; try exact H.
  destruct (stamp_create now) as [st| | |]; try exact H.
  destruct (write_entry (Chained cs) 0 ss name (create_sfn_entry fat32 a attrs cl st)) as [w ss1] eqn:W.
  rewrite (write_entry_nogrow_free cs _ _ _ w ss1 W); [exact H|].
  injection H as <- _. destruct w as [?|[]| |]; try reflexivity; discriminate.
Qed.

Theorem rename_nogrow_free_irrelevant upper oem cs ss src dst r ss' :
  rename_in_dir upper oem (Chained cs) 0 ss src dst = (r, ss') -> is_nospace r = false ->
  forall free, rename_in_dir upper oem (Chained cs) free ss src dst = (r, ss').
Proof.
  intros H Hr free.
  assert (forall ev a, rename_rewrite (Chained cs) 0 ss ev dst a = (r, ss') -> rename_rewrite (Chained cs) free ss ev dst a = (r, ss')) as Rw.
  { intros ev a Ha. unfold rename_rewrite in Ha |- *.
    destruct (write_entry (Chained cs) 0 ss dst (renamed (entry_data ss ev) a)) as [w ss1] eqn:W.
    rewrite (write_entry_nogrow_free cs _ _ _ w ss1 W); [exact Ha|].
    unfold lift in Ha. destruct w as [?|[]| |]; try reflexivity. injection Ha as <- _. discriminate. }
  unfold rename_in_dir, lift in H |- *.
  destruct (find_entry upper oem ss src None) as [ev| | |]; try exact H.
  destruct (is_special ev); [exact H|].
  destruct (check_for_existence upper oem ss dst None) as [[dv|a]| | |]; try exact H.
  - destruct (negb (Lfn.ev_end ev =? Lfn.ev_end dv)); [exact H|]. destruct (has_exact_name ev dst); [exact H|].
    destruct (other_match upper oem ss ev dst) as [[|]| | |]; try exact H. exact (Rw _ _ H).
  - exact (Rw _ _ H).
Qed.

(* ================================================================ 4. the operations of Model/VolChainDir.v *)

(* (a) + (b): what an operation on the directory with chain [l] may change.  Everything outside the clusters of [l] keeps its
   byte - boot sector, FAT copies, fixed root region, every other cluster, anything behind the volume -; a byte that does
   change lies in cluster number i of the chain, in a slot whose content differs from the slot the directory held at that
   index, and is classified "data cluster (nth i l)" by the region classifier of Spec/Regions.v, whatever image / ownership
   map it is asked with; the decoder reads the same geometry, the same FAT values (free count, lost-cluster findings) and the
   same fixed root region. *)
Definition chain_frame (im im' : image) (l : list N) : Prop :=
  let g := parse_geom im in
  (forall o, (forall c, In c l -> o < g_cluster_off g c \/ g_cluster_off g c + g_cluster_size g <= o) ->
             img_get im' o = img_get im o) /\
  (forall o, img_get im' o <> img_get im o ->
     exists i s j, (i < length l)%nat /\ (s < cluster_slots g)%nat /\ (j < 32)%nat /\
       o = g_cluster_off g (nth i l 0) + N.of_nat (32 * s + j) /\
       nth (cluster_slots g * i + s) (chain_dir_slots g im' l) [] <> nth (cluster_slots g * i + s) (chain_dir_slots g im l) [] /\
       (forall imx m, classify g imx m o = RCluster (nth i l 0) (cluster_owner g imx m (nth i l 0)))) /\
  parse_geom im' = g /\
  count_free g im' = count_free g im /\
  (forall c, in_range g c = true -> fat_val g im' c = fat_val g im c) /\
  (forall m, Wf.lost_from g im' m 2 (N.to_nat (g_clusters g)) = Wf.lost_from g im m 2 (N.to_nat (g_clusters g))) /\
  root_region_slots g im' = root_region_slots g im.

Lemma put_chain_confined im l ss : chain_geom (parse_geom im) -> chain_ok (parse_geom im) l ->
  shape (cluster_slots (parse_geom im) * length l) ss -> chain_frame im (put_chain_slots (parse_geom im) im l ss) l.
Proof.
  intros Hg Hl Hs. set (g := parse_geom im) in *. unfold chain_frame. fold g. cbv zeta.
  pose proof (put_chain_below g im l ss Hg Hs) as Hbelow. destruct Hg as [Hf Hm].
  split; [intros o Ho; exact (put_chain_outside g (conj Hf Hm) l im ss o Hs Ho)|]. split.
  { intros o Hne. destruct (put_chain_slots_changes g im l ss o (conj Hf Hm) Hl Hs Hne) as (i & s & j & Hi & Hk & Hj & Ho & Hd).
    exists i, s, j. do 4 (split; [assumption|]). split; [rewrite (chain_dir_put g im l ss (conj Hf Hm) Hl Hs); exact Hd|].
    intros imx m. rewrite Ho. apply classify_cluster_bytes.
    - exact (fixed_root_sane g Hf).
    - destruct Hl as [_ Hr]. rewrite Forall_forall in Hr. apply Hr. apply nth_In. exact Hi.
    - pose proof (cluster_size_slots g (conj Hf Hm)). lia. }
  split; [exact (parse_geom_below g im _ Hf Hbelow)|]. split; [exact (count_free_below g im _ Hf Hbelow)|].
  split; [intros c Hc; exact (fat_val_below g im _ c Hf Hbelow Hc)|].
  split; [intros m; apply (lost_from_below g im _ m Hf Hbelow); lia|]. exact (root_region_below g im _ Hf Hbelow).
Qed.

Lemma vol_chain_apply_some {A} im l (f : slots -> dres A) r im' : vol_chain_apply im l f = Some (r, im') ->
  r = fst (f (chain_dir_slots (parse_geom im) im l)) /\ is_nospace r = false /\
  im' = put_chain_slots (parse_geom im) im l (snd (f (chain_dir_slots (parse_geom im) im l))).
Proof.
  unfold vol_chain_apply. cbv zeta. destruct (is_nospace (fst (f (chain_dir_slots (parse_geom im) im l)))) eqn:E; [discriminate|].
  intros H. injection H as <- <-. repeat split. exact E.
Qed.

Lemma is_fat32_fixed im : fixed_root_geom (parse_geom im) -> is_fat32 im = false.
Proof. intros Hg. unfold is_fat32. apply N.eqb_neq. exact (fg_bits _ Hg). Qed.

Theorem vol_chain_create_confined upper oem im l name now r im' : chain_geom (parse_geom im) -> chain_ok (parse_geom im) l ->
  vol_create_empty_file_chain upper oem im l name now = Some (r, im') -> chain_frame im im' l.
Proof.
  intros Hg Hl H. unfold vol_create_empty_file_chain in H. apply vol_chain_apply_some in H. destruct H as (_ & _ & ->).
  apply put_chain_confined; [exact Hg|exact Hl|]. unfold chain_kind.
  destruct (create_entry upper oem (is_fat32 im) (Chained (cluster_slots (parse_geom im))) 0 (chain_dir_slots (parse_geom im) im l) name 0 None now false)
    as [r0 ss'] eqn:E. cbn [snd].
  exact (create_entry_nogrow_shape _ _ _ _ _ _ _ _ _ _ _ _ _ (proj1 (chain_dir_shape _ im l Hg)) E).
Qed.

Theorem vol_chain_remove_confined upper oem im l name r im' : chain_geom (parse_geom im) -> chain_ok (parse_geom im) l ->
  vol_remove_empty_file_chain upper oem im l name = Some (r, im') -> chain_frame im im' l.
Proof.
  intros Hg Hl H.
  assert (vol_chain_apply im l (fun ss => remove_entry upper oem ss name false) = Some (r, im')) as H'.
  { unfold vol_remove_empty_file_chain in H. destruct (chain_lookup upper oem im l name) as [ev| | |]; try exact H.
    destruct (Lfn.ev_is_dir ev || negb (chain_entry_cluster im ev =? 0)); [discriminate|exact H]. }
  apply vol_chain_apply_some in H'. destruct H' as (_ & _ & ->).
  apply put_chain_confined; [exact Hg|exact Hl|].
  destruct (remove_entry upper oem (chain_dir_slots (parse_geom im) im l) name false) as [r0 ss'] eqn:E. cbn [snd].
  exact (remove_entry_shape _ _ _ _ _ _ _ _ (proj1 (chain_dir_shape _ im l Hg)) E).
Qed.

Theorem vol_chain_rename_confined upper oem im l src dst r im' : chain_geom (parse_geom im) -> chain_ok (parse_geom im) l ->
  vol_rename_in_chain upper oem im l src dst = Some (r, im') -> chain_frame im im' l.
Proof.
  intros Hg Hl H.
  assert (vol_chain_apply im l (fun ss => rename_in_dir upper oem (chain_kind im) 0 ss src dst) = Some (r, im')) as H'.
  { unfold vol_rename_in_chain in H. destruct (chain_lookup upper oem im l src) as [ev| | |]; try exact H.
    destruct (Lfn.ev_is_dir ev); [discriminate|exact H]. }
  apply vol_chain_apply_some in H'. destruct H' as (_ & _ & ->).
  apply put_chain_confined; [exact Hg|exact Hl|]. unfold chain_kind.
  destruct (rename_in_dir upper oem (Chained (cluster_slots (parse_geom im))) 0 (chain_dir_slots (parse_geom im) im l) src dst) as [r0 ss'] eqn:E.
  cbn [snd]. exact (rename_in_dir_nogrow_shape _ _ _ _ _ _ _ _ _ (proj1 (chain_dir_shape _ im l Hg)) E).
Qed.

(* the answers of the model are those of the library whatever the allocator could supply: with ANY number of free clusters
   the slot layer gives the same outcome and the same slots *)
Theorem vol_chain_create_any_free upper oem im l name now r im' free :
  vol_create_empty_file_chain upper oem im l name now = Some (r, im') ->
  exists ss', create_entry upper oem (is_fat32 im) (chain_kind im) free (chain_dir_slots (parse_geom im) im l) name 0 None now false = (r, ss') /\
              im' = put_chain_slots (parse_geom im) im l ss'.
Proof.
  intros H. unfold vol_create_empty_file_chain in H. apply vol_chain_apply_some in H. destruct H as (Hr & Hn & ->).
  destruct (create_entry upper oem (is_fat32 im) (chain_kind im) 0 (chain_dir_slots (parse_geom im) im l) name 0 None now false)
    as [r0 ss'] eqn:E. cbn [fst snd] in *. subst r0. exists ss'. split; [|reflexivity].
  exact (create_nogrow_free_irrelevant upper oem _ _ _ _ _ _ _ _ r ss' E Hn free).
Qed.
Theorem vol_chain_rename_any_free upper oem im l src dst r im' free :
  vol_rename_in_chain upper oem im l src dst = Some (r, im') ->
  exists ss', rename_in_dir upper oem (chain_kind im) free (chain_dir_slots (parse_geom im) im l) src dst = (r, ss') /\
              im' = put_chain_slots (parse_geom im) im l ss'.
Proof.
  intros H.
  assert (vol_chain_apply im l (fun ss => rename_in_dir upper oem (chain_kind im) 0 ss src dst) = Some (r, im')) as H'.
  { unfold vol_rename_in_chain in H. destruct (chain_lookup upper oem im l src) as [ev| | |]; try exact H.
    destruct (Lfn.ev_is_dir ev); [discriminate|exact H]. }
  apply vol_chain_apply_some in H'. destruct H' as (Hr & Hn & ->).
  destruct (rename_in_dir upper oem (chain_kind im) 0 (chain_dir_slots (parse_geom im) im l) src dst) as [r0 ss'] eqn:E.
  cbn [fst snd] in *. subst r0. exists ss'. split; [|reflexivity].
  exact (rename_nogrow_free_irrelevant upper oem _ _ _ _ r ss' E Hn free).
Qed.

(* ---------------------------------------------------------------- (c) the directory's own decoding *)

(* the directory is smaller than the 2^32 bytes the library's u32 slot arithmetic can address *)
Definition chain_small (g : geom) (l : list N) : Prop := N.of_nat (cluster_slots g * length l) < 134217728.

Lemma chain_len_bound g im l : chain_geom g -> chain_small g l -> len_N (chain_dir_slots g im l) < 134217728.
Proof. intros Hg H. unfold len_N. rewrite (proj1 (proj1 (chain_dir_shape g im l Hg))). exact H. Qed.

(* create: the slots of the directory decoded before without issue; a successful create.  The directory decodes to the old
   entries - same fields, same order - with ONE new entry inserted (first fit), carrying the name, a fresh legal alias,
   size 0, no cluster, attributes 0 and the stamps of [now]; labels unchanged, no issue. *)
Theorem vol_chain_create_decodes upper oem im l name now range im' es ls :
  chain_geom (parse_geom im) -> chain_ok (parse_geom im) l -> chain_small (parse_geom im) l ->
  dir_scan (chain_dir_slots (parse_geom im) im l) 0 [] false = (es, ls, []) -> TimeProofs.datetime_valid now = true ->
  vol_create_empty_file_chain upper oem im l name now = Some (Ok (Some range), im') ->
  exists es1 es2 ne st,
    es = es1 ++ es2 /\ dir_scan (chain_dir_slots (parse_geom im) im' l) 0 [] false = (es1 ++ ne :: es2, ls, []) /\
    e_lfn ne = (if is_dot_name name then [] else utf16_encode name) /\ e_lfn_ok ne = true /\
    e_size ne = 0 /\ e_cluster ne = 0 /\ e_attr ne = 0 /\ e_ntres ne = 0 /\
    stamp_create now = Ok st /\
    e_ctime_ms ne = create_time_0 st /\ e_ctime ne = create_time_1 st /\ e_cdate ne = create_date st /\
    e_adate ne = access_date st /\ e_mtime ne = modify_time st /\ e_mdate ne = modify_date st /\
    e_first_slot ne = fst range /\ e_sfn_slot ne + 1 = snd range /\
    sfn_legal_b (e_sfn ne) = true /\ ~ In (e_sfn ne) (map e_sfn es) /\
    (forall lst, dir_entries oem (chain_dir_slots (parse_geom im) im l) = Ok lst ->
                 forall ev, In ev lst -> matches upper oem name ev = false).
Proof.
  intros Hg Hl Hsm Hscan Hnow H. set (g := parse_geom im) in *.
  unfold vol_create_empty_file_chain in H. apply vol_chain_apply_some in H. destruct H as (Hr & _ & ->). fold g in Hr |- *.
  rewrite (is_fat32_fixed im (proj1 Hg)) in *. unfold chain_kind in *. fold g in Hr |- *.
  destruct (create_entry upper oem false (Chained (cluster_slots g)) 0 (chain_dir_slots g im l) name 0 None now false) as [r0 ss'] eqn:E.
  cbn [fst snd] in *. subst r0.
  pose proof (create_entry_nogrow_shape _ _ _ _ _ _ _ _ _ _ _ _ _ (proj1 (chain_dir_shape g im l Hg)) E) as Hsh.
  destruct (create_entry_full upper oem (Chained (cluster_slots g)) 0 _ name 0 None now false es ls range ss' Hscan
              (chain_len_bound g im l Hg Hsm) ltac:(lia) eq_refl Hnow E)
    as (es1 & es2 & ne & a & st & E1 & E2 & _ & ST & E3 & E4 & E5 & HL & HU & E6 & E7 & E8 & E9 & T1 & T2 & T3 & T4 & T5 & T6 & P1 & P2 & M).
  exists es1, es2, ne, st. rewrite (chain_dir_put g im l ss' Hg Hl Hsh). rewrite E5.
  repeat (split; [assumption || reflexivity|]). exact M.
Qed.

(* every other outcome the model covers - the file exists (Ok None), InvalidInput, a rejected name; NOT NotEnoughSpace, which
   is outside the model - leaves every byte of the device as it was *)
Theorem vol_chain_create_failed_unchanged upper oem im l name now r im' :
  chain_geom (parse_geom im) -> chain_ok (parse_geom im) l -> chain_small (parse_geom im) l ->
  vol_create_empty_file_chain upper oem im l name now = Some (r, im') -> (forall range, r <> Ok (Some range)) ->
  forall o, img_get im' o = img_get im o.
Proof.
  intros Hg Hl Hsm H Hr o. set (g := parse_geom im) in *.
  unfold vol_create_empty_file_chain in H. apply vol_chain_apply_some in H. destruct H as (Hrr & Hn & ->). fold g in Hrr |- *.
  unfold chain_kind in *. fold g in Hrr |- *.
  destruct (create_entry upper oem (is_fat32 im) (Chained (cluster_slots g)) 0 (chain_dir_slots g im l) name 0 None now false) as [r0 ss'] eqn:E.
  cbn [fst snd] in *. subst r0.
  assert (ss' = chain_dir_slots g im l) as ->; [|apply put_chain_slots_same; assumption].
  unfold create_entry, lift in E.
  destruct (check_for_existence upper oem (chain_dir_slots g im l) name (Some false)) as [[ev|a]| | |]; try (injection E as _ <-; reflexivity).
  destruct (stamp_create now) as [st| | |]; try (injection E as _ <-; reflexivity).
  destruct (write_entry (Chained (cluster_slots g)) 0 (chain_dir_slots g im l) name (create_sfn_entry (is_fat32 im) a 0 None st)) as [w ss1] eqn:W.
  injection E as <- <-.
  destruct (write_entry_cases (Chained (cluster_slots g)) 0 (chain_dir_slots g im l) name (create_sfn_entry (is_fat32 im) a 0 None st)
              (chain_len_bound g im l Hg Hsm)) as [(rg & s2 & C)|[(x & _ & C)|[(C & _)|(cs & p & pre & mid & post & j & _ & _ & _ & _ & _ & _ & C)]]].
  - rewrite C in W. injection W as <- _. exfalso. apply (Hr rg). reflexivity.
  - rewrite C in W. injection W as _ <-. reflexivity.
  - discriminate C.
  - rewrite C in W. injection W as <- _. discriminate Hn.
Qed.

(* remove of a file without clusters: the directory loses exactly the entry the library's own lookup resolved [name] to *)
Theorem vol_chain_remove_decodes upper oem im l name im' es ls :
  chain_geom (parse_geom im) -> chain_ok (parse_geom im) l ->
  dir_scan (chain_dir_slots (parse_geom im) im l) 0 [] false = (es, ls, []) ->
  Forall attrs_sane (chain_dir_slots (parse_geom im) im l) ->
  vol_remove_empty_file_chain upper oem im l name = Some (Ok tt, im') ->
  exists ev e es1 es2,
    chain_lookup upper oem im l name = Ok ev /\ matches upper oem name ev = true /\
    Lfn.ev_raw_name ev = e_sfn e /\ e_is_dir e = false /\ e_cluster e = 0 /\ e_size e = Lfn.ev_size ev /\
    es = es1 ++ e :: es2 /\ dir_scan (chain_dir_slots (parse_geom im) im' l) 0 [] false = (es1 ++ es2, ls, []).
Proof.
  intros Hg Hl Hscan Hsane H. set (g := parse_geom im) in *.
  unfold vol_remove_empty_file_chain in H. fold g in H.
  destruct (remove_entry upper oem (chain_dir_slots g im l) name false) as [r0 ss'] eqn:E.
  assert (r0 = Ok tt /\ im' = put_chain_slots g im l ss' /\
          forall ev, chain_lookup upper oem im l name = Ok ev -> Lfn.ev_is_dir ev = false /\ chain_entry_cluster im ev = 0)
    as (-> & -> & Hguard).
  { destruct (chain_lookup upper oem im l name) as [ev| | |] eqn:F.
    - destruct (Lfn.ev_is_dir ev || negb (chain_entry_cluster im ev =? 0)) eqn:D; [discriminate|].
      apply vol_chain_apply_some in H. fold g in H. rewrite E in H. cbn [fst snd] in H. destruct H as (-> & _ & ->).
      split; [reflexivity|]. split; [reflexivity|]. intros ev' Hev'. injection Hev' as <-.
      apply orb_false_iff in D. destruct D as [D1 D2]. apply negb_false_iff in D2. apply N.eqb_eq in D2. split; assumption.
    - apply vol_chain_apply_some in H. fold g in H. rewrite E in H. cbn [fst snd] in H. destruct H as (-> & _ & ->).
      split; [reflexivity|]. split; [reflexivity|]. intros; discriminate.
    - apply vol_chain_apply_some in H. fold g in H. rewrite E in H. cbn [fst snd] in H. destruct H as (-> & _ & ->).
      split; [reflexivity|]. split; [reflexivity|]. intros; discriminate.
    - apply vol_chain_apply_some in H. fold g in H. rewrite E in H. cbn [fst snd] in H. destruct H as (-> & _ & ->).
      split; [reflexivity|]. split; [reflexivity|]. intros; discriminate. }
  pose proof (remove_entry_shape _ _ _ _ _ _ _ _ (proj1 (chain_dir_shape g im l Hg)) E) as Hsh.
  destruct (remove_entry_full upper oem _ name false es ls ss' Hscan Hsane E)
    as (ev & e & es1 & es2 & F & M & Hn & Hd & Hc & Hz & E1 & E2 & _).
  destruct (Hguard ev F) as [G1 G2].
  exists ev, e, es1, es2. rewrite (chain_dir_put g im l ss' Hg Hl Hsh).
  split; [exact F|]. split; [exact M|]. split; [exact Hn|]. split; [rewrite Hd; exact G1|].
  split; [|split; [exact Hz|split; assumption]].
  unfold chain_entry_cluster in G2. rewrite (is_fat32_fixed im (proj1 Hg)) in G2. rewrite Hc. lia.
Qed.

(* rename of a file inside the directory: nothing (identical spelling), or the directory loses exactly the source entry and
   gains exactly one entry with the new long name, the source's attributes (bits 6-7 dropped), size and first cluster, under
   a fresh legal alias or - for a respelling that no other entry matches (D27) - the source's own short name *)
Theorem vol_chain_rename_decodes upper oem im l src dst im' es ls :
  chain_geom (parse_geom im) -> chain_ok (parse_geom im) l -> chain_small (parse_geom im) l ->
  dir_scan (chain_dir_slots (parse_geom im) im l) 0 [] false = (es, ls, []) ->
  Forall attrs_sane (chain_dir_slots (parse_geom im) im l) -> Forall bytes_ok (chain_dir_slots (parse_geom im) im l) ->
  vol_rename_in_chain upper oem im l src dst = Some (Ok tt, im') ->
  exists ev e,
    chain_lookup upper oem im l src = Ok ev /\ matches upper oem src ev = true /\ Lfn.ev_is_dir ev = false /\ In e es /\
    Lfn.ev_raw_name ev = e_sfn e /\
    ((exists dv, check_for_existence upper oem (chain_dir_slots (parse_geom im) im l) dst None = Ok (Exists dv) /\
                 Lfn.ev_end dv = Lfn.ev_end ev /\ has_exact_name ev dst = true /\ forall o, img_get im' o = img_get im o) \/
     (exists x y c d ne,
        es = x ++ e :: y /\ x ++ y = c ++ d /\
        dir_scan (chain_dir_slots (parse_geom im) im' l) 0 [] false = (c ++ ne :: d, ls, []) /\
        e_lfn ne = (if is_dot_name dst then [] else utf16_encode dst) /\ e_lfn_ok ne = true /\
        e_attr ne = e_attr e mod 64 /\ e_size ne = e_size e /\ e_cluster ne = e_cluster e /\
        ((exists a, check_for_existence upper oem (chain_dir_slots (parse_geom im) im l) dst None = Ok (Fresh a) /\
                    e_sfn ne = a /\ sfn_legal_b a = true /\ ~ In a (map e_sfn es)) \/
         (exists dv, check_for_existence upper oem (chain_dir_slots (parse_geom im) im l) dst None = Ok (Exists dv) /\
                     Lfn.ev_end dv = Lfn.ev_end ev /\ has_exact_name ev dst = false /\ e_sfn ne = e_sfn e /\
                     (forall lst other, dir_entries oem (chain_dir_slots (parse_geom im) im l) = Ok lst -> In other lst ->
                                        Lfn.ev_end other <> Lfn.ev_end ev -> matches upper oem dst other = false))))).
Proof.
  intros Hg Hl Hsm Hscan Hsane Hby H. set (g := parse_geom im) in *.
  unfold vol_rename_in_chain in H. fold g in H. unfold chain_kind in H. fold g in H.
  destruct (rename_in_dir upper oem (Chained (cluster_slots g)) 0 (chain_dir_slots g im l) src dst) as [r0 ss'] eqn:E.
  assert (r0 = Ok tt /\ im' = put_chain_slots g im l ss' /\
          forall ev, chain_lookup upper oem im l src = Ok ev -> Lfn.ev_is_dir ev = false) as (-> & -> & Hguard).
  { destruct (chain_lookup upper oem im l src) as [ev| | |] eqn:F.
    - destruct (Lfn.ev_is_dir ev) eqn:D; [discriminate|].
      apply vol_chain_apply_some in H. fold g in H. rewrite E in H. cbn [fst snd] in H. destruct H as (-> & _ & ->).
      split; [reflexivity|]. split; [reflexivity|]. intros ev' Hev'. injection Hev' as <-. exact D.
    - apply vol_chain_apply_some in H. fold g in H. rewrite E in H. cbn [fst snd] in H. destruct H as (-> & _ & ->).
      split; [reflexivity|]. split; [reflexivity|]. intros; discriminate.
    - apply vol_chain_apply_some in H. fold g in H. rewrite E in H. cbn [fst snd] in H. destruct H as (-> & _ & ->).
      split; [reflexivity|]. split; [reflexivity|]. intros; discriminate.
    - apply vol_chain_apply_some in H. fold g in H. rewrite E in H. cbn [fst snd] in H. destruct H as (-> & _ & ->).
      split; [reflexivity|]. split; [reflexivity|]. intros; discriminate. }
  pose proof (proj1 (chain_dir_shape g im l Hg)) as Hsh0.
  pose proof (rename_in_dir_nogrow_shape _ _ _ _ _ _ _ _ _ Hsh0 E) as Hsh.
  destruct (rename_in_dir_lists upper oem (Chained (cluster_slots g)) 0 _ src dst es ls ss' Hscan (chain_len_bound g im l Hg Hsm) Hsane Hby (proj2 Hsh0) E)
    as (ev & e & F & M & Hin & Hn & Hd & Hcase).
  exists ev, e. split; [exact F|]. split; [exact M|]. split; [exact (Hguard ev F)|]. split; [exact Hin|]. split; [exact Hn|].
  destruct Hcase as [(dv & C & EE & HX & ->)|(x & y & c & d & ne & E1 & E2 & E3 & L1 & L2 & A1 & A2 & A3 & Hsub)].
  - left. exists dv. do 3 (split; [assumption|]). intros o. apply put_chain_slots_same; assumption.
  - right. exists x, y, c, d, ne. rewrite (chain_dir_put g im l ss' Hg Hl Hsh). do 8 (split; [assumption|]). exact Hsub.
Qed.

(* ================================================================ 5. the rest of the tree does not depend on the directory's clusters *)

(* every cluster a decoded node refers to: its own chain and, for a directory, everything below it *)
Definition node_clusters (n : node) : list N := concat (Wf.node_chains n).
Definition avoids (l : list N) (n : node) : Prop := forall c, In c (node_clusters n) -> ~ In c l.

Lemma node_chains_dir e ch children iss labels :
  Wf.node_chains (NDir e ch children iss labels) =
  (match ch with Some l => [l] | None => [] end) ++ flat_map Wf.node_chains children.
Proof.
  reflexivity.
Qed.

Lemma avoids_dir_inv l e l' children iss labels : avoids l (NDir e (Some l') children iss labels) ->
  (forall c, In c l' -> ~ In c l) /\ Forall (avoids l) children.
Proof.
  intros H. unfold avoids, node_clusters in H. rewrite node_chains_dir in H. cbn [app concat] in H. split.
  - intros c Hc. apply H. apply in_or_app. left. exact Hc.
  - apply Forall_forall. intros n Hn c Hc. apply H. apply in_or_app. right.
    unfold node_clusters in Hc. apply in_concat in Hc. destruct Hc as (x & Hx & Hcx). apply in_concat. exists x. split; [|exact Hcx].
    apply in_flat_map. exists n. split; assumption.
Qed.

Lemma chain_from_ge2 g im : forall fuel c l', chain_from g im c fuel = Some l' -> Forall (fun x => 2 <= x) l'.
Proof.
  induction fuel as [|f IH]; intros c l' H; cbn [chain_from] in H; [discriminate|].
  destruct (in_range g c) eqn:R; [|discriminate].
  assert (2 <= c) as H2 by (unfold in_range in R; apply andb_true_iff in R; destruct R as [R _]; apply N.leb_le in R; exact R).
  destruct (fat_val g im c); try discriminate.
  - injection H as <-. constructor; [exact H2|constructor].
  - destruct (chain_from g im n f) as [l2|] eqn:E; [|discriminate]. injection H as <-. constructor; [exact H2|exact (IH _ _ E)].
Qed.

(* [im'] holds the bytes of [im] in every data cluster outside [l] *)
Definition same_other_clusters (g : geom) (l : list N) (im im' : image) : Prop :=
  forall c, 2 <= c -> ~ In c l -> cluster_bytes g im' c = cluster_bytes g im c.

Lemma chain_bytes_avoid g l im im' l' : same_other_clusters g l im im' -> Forall (fun x => 2 <= x) l' ->
  (forall c, In c l' -> ~ In c l) -> chain_bytes g im' l' = chain_bytes g im l'.
Proof.
  intros H H2 Hd. unfold chain_bytes. induction l' as [|c r IH]; cbn [flat_map]; [reflexivity|].
  inversion H2 as [|? ? A1 A2]; subst. rewrite IH; [|exact A2|intros x Hx; apply Hd; right; exact Hx].
  rewrite (H c A1 (Hd c (or_introl eq_refl))). reflexivity.
Qed.

(* an entry whose decoded node (chain, content, whole sub-tree) refers to no cluster of [l] decodes alike on an image that
   differs only inside the clusters of [l] *)
Lemma node_of_avoid_gen g im im' l : (forall fuel c, chain_from g im' c fuel = chain_from g im c fuel) ->
  same_other_clusters g l im im' ->
  forall d, (forall es, Forall (avoids l) (decode_entries g im d es) -> decode_entries g im' d es = decode_entries g im d es) /\
            (forall e, avoids l (node_of g im d e) -> node_of g im' d e = node_of g im d e).
Proof.
  intros Hcf Hc.
  assert (forall d, (forall es, Forall (avoids l) (decode_entries g im d es) -> decode_entries g im' d es = decode_entries g im d es) ->
                    forall e, avoids l (node_of g im d e) -> node_of g im' d e = node_of g im d e) as Step.
  { intros d Q e Ha. unfold node_of in Ha |- *. rewrite Hcf.
    destruct (e_is_dot e); [reflexivity|].
    destruct (if e_cluster e =? 0 then None else chain_from g im (e_cluster e) (chain_fuel g)) as [l'|] eqn:Ech; [|reflexivity].
    assert (Forall (fun x => 2 <= x) l') as H2.
    { destruct (e_cluster e =? 0); [discriminate|]. exact (chain_from_ge2 g im _ _ _ Ech). }
    destruct (e_is_dir e).
    - destruct (dir_scan (slots_of (chain_bytes g im l')) 0 [] (g_bits g =? 32)) as [[ces labels] iss] eqn:Sc.
      destruct (avoids_dir_inv l e l' _ iss labels Ha) as [Hd Hch].
      rewrite (chain_bytes_avoid g l im im' l' Hc H2 Hd), Sc. rewrite (Q ces Hch). reflexivity.
    - assert (forall c, In c l' -> ~ In c l) as Hd.
      { intros c Hcl. apply Ha. unfold node_clusters. cbn [Wf.node_chains concat]. rewrite app_nil_r. exact Hcl. }
      rewrite (chain_bytes_avoid g l im im' l' Hc H2 Hd). reflexivity. }
  induction d as [|d [IHq IHp]].
  - assert (forall es, Forall (avoids l) (decode_entries g im 0 es) -> decode_entries g im' 0 es = decode_entries g im 0 es) as Q0
      by (intros es _; reflexivity).
    split; [exact Q0|exact (Step 0%nat Q0)].
  - assert (forall es, Forall (avoids l) (decode_entries g im (S d) es) -> decode_entries g im' (S d) es = decode_entries g im (S d) es) as Q.
    { intros es Ha. rewrite !decode_entries_S in *. apply map_ext_in. intros e He. apply IHp.
      rewrite Forall_forall in Ha. apply Ha. apply in_map. exact He. }
    split; [exact Q|exact (Step (S d) Q)].
Qed.

Lemma node_of_avoid g im im' l : fixed_root_geom g -> same_below_data g im im' -> same_other_clusters g l im im' ->
  forall d, (forall es, Forall (avoids l) (decode_entries g im d es) -> decode_entries g im' d es = decode_entries g im d es) /\
            (forall e, avoids l (node_of g im d e) -> node_of g im' d e = node_of g im d e).
Proof. intros Hg Hb Hc. exact (node_of_avoid_gen g im im' l (chain_from_below g im im' Hg Hb) Hc). Qed.

(* what a frame confined to the clusters of [l] gives the decoder *)
Lemma chain_frame_reads im im' l : chain_geom (parse_geom im) -> chain_ok (parse_geom im) l -> chain_frame im im' l ->
  same_below_data (parse_geom im) im im' /\ same_other_clusters (parse_geom im) l im im'.
Proof.
  intros Hg Hl (F1 & _). set (g := parse_geom im) in *. split.
  - intros o Ho. apply F1. intros c _. left. pose proof (cluster_off_ge g c Hg). lia.
  - intros c Hc Hn. unfold cluster_bytes. apply img_read_ext. intros i Hi. apply F1. intros c' Hc'.
    destruct Hl as [_ Hr]. rewrite Forall_forall in Hr. specialize (Hr c' Hc').
    assert (c' <> c) as Hne by (intros ->; contradiction).
    destruct (cluster_ranges_disjoint g c' c Hg ltac:(lia) Hc Hne) as [D|D]; [right; lia|left; lia].
Qed.

Lemma node_of_dir_inv g im d e ed l children iss labels : node_of g im d e = NDir ed (Some l) children iss labels ->
  ed = e /\ e_is_dot e = false /\ e_is_dir e = true /\ e_cluster e <> 0 /\
  chain_from g im (e_cluster e) (chain_fuel g) = Some l /\
  exists ces, dir_scan (slots_of (chain_bytes g im l)) 0 [] (g_bits g =? 32) = (ces, labels, iss) /\
              children = decode_entries g im d ces.
Proof.
  unfold node_of. destruct (e_is_dot e); [discriminate|]. destruct (e_is_dir e); [|discriminate].
  destruct (e_cluster e =? 0) eqn:E0; [discriminate|].
  destruct (chain_from g im (e_cluster e) (chain_fuel g)) as [l'|]; [|discriminate].
  destruct (dir_scan (slots_of (chain_bytes g im l')) 0 [] (g_bits g =? 32)) as [[ces lb] is0] eqn:Sc.
  intros H. injection H as <- <- <- <- <-. split; [reflexivity|]. split; [reflexivity|]. split; [reflexivity|].
  split; [apply N.eqb_neq; exact E0|]. split; [reflexivity|]. exists ces. split; [exact Sc|reflexivity].
Qed.

Lemma node_of_dir_intro g im d e l ces labels iss : e_is_dot e = false -> e_is_dir e = true -> e_cluster e <> 0 ->
  chain_from g im (e_cluster e) (chain_fuel g) = Some l ->
  dir_scan (slots_of (chain_bytes g im l)) 0 [] (g_bits g =? 32) = (ces, labels, iss) ->
  node_of g im d e = NDir e (Some l) (decode_entries g im d ces) iss labels.
Proof.
  intros H1 H2 H3 H4 H5. unfold node_of. rewrite H1, H2. apply N.eqb_neq in H3. rewrite H3, H4, H5. reflexivity.
Qed.

(* (d) a SUB-DIRECTORY OF THE FIXED ROOT inside the whole decoded volume.  The root of [im] holds a directory node with chain
   [l] whose own slots decode without issue; no other node of the root and no child of the directory refers to a cluster of
   [l] ([avoids]: what the no-cross-link clause of Spec/Wf.v gives on a well-formed volume).  create_file in that directory
   made a new entry: the decoded volume is the old one with ONE node - a plain empty file carrying the name - inserted among
   the children of that directory; every other node of the tree (root entries, their sub-trees, the other children and
   their sub-trees) is exactly as before; root issues, labels, geometry, status byte as before.
   PARTIAL: depth 1 only (a directory referenced from the root), FAT12/16 only, and without the write-back of the
   directory's own entry in the root (modification stamp: Model/VolChainDir.v). *)
Theorem vol_chain_create_in_root_decodes_partial upper oem im l name now range im' ra ed children labels rb :
  chain_geom (parse_geom im) -> chain_ok (parse_geom im) l -> chain_small (parse_geom im) l ->
  TimeProofs.datetime_valid now = true ->
  v_root (abs im) = ra ++ NDir ed (Some l) children [] labels :: rb ->
  Forall (avoids l) (ra ++ rb) -> Forall (avoids l) children ->
  vol_create_empty_file_chain upper oem im l name now = Some (Ok (Some range), im') ->
  exists c1 c2 ne st,
    children = c1 ++ c2 /\
    v_root (abs im') = ra ++ NDir ed (Some l) (c1 ++ NFile ne None [] :: c2) [] labels :: rb /\
    e_lfn ne = (if is_dot_name name then [] else utf16_encode name) /\ e_lfn_ok ne = true /\
    e_size ne = 0 /\ e_cluster ne = 0 /\ e_attr ne = 0 /\
    stamp_create now = Ok st /\
    e_ctime_ms ne = create_time_0 st /\ e_ctime ne = create_time_1 st /\ e_cdate ne = create_date st /\
    e_adate ne = access_date st /\ e_mtime ne = modify_time st /\ e_mdate ne = modify_date st /\
    e_first_slot ne = fst range /\ e_sfn_slot ne + 1 = snd range /\
    sfn_legal_b (e_sfn ne) = true /\ ~ In (e_sfn ne) (map e_sfn (map node_entry children)) /\
    v_root_issues (abs im') = v_root_issues (abs im) /\ v_labels (abs im') = v_labels (abs im) /\
    v_geom (abs im') = v_geom (abs im) /\ v_status (abs im') = v_status (abs im) /\
    chain_frame im im' l.
Proof.
  intros Hg Hl Hsm Hnow Hroot Hav Hch H. set (g := parse_geom im) in *.
  pose proof (proj1 Hg) as Hf. pose proof (fg_bits g Hf) as Hbits.
  assert ((g_bits g =? 32) = false) as Hb32 by (apply N.eqb_neq; exact Hbits).
  pose proof (vol_chain_create_confined upper oem im l name now _ im' Hg Hl H) as Hframe.
  destruct (chain_frame_reads im im' l Hg Hl Hframe) as [Hbelow Hother]. fold g in Hbelow, Hother.
  pose proof Hframe as (_ & _ & Hpg & _ & _ & _ & Hrr). fold g in Hpg, Hrr.
  destruct (abs_scan_of im Hbits) as (es & ls & iss & Hscan & Habs). fold g in Hscan, Habs.
  rewrite Habs in Hroot. cbn [abs_fixed v_root] in Hroot. change MAX_DEPTH with (S 23) in Hroot. rewrite decode_entries_S in Hroot.
  apply map_eq_app in Hroot. destruct Hroot as (ea & eb' & -> & Ea & Eb).
  apply map_eq_cons in Eb. destruct Eb as (e0 & eb & -> & Ed & Eb).
  destruct (node_of_dir_inv g im 23 e0 ed l children [] labels Ed) as (-> & D1 & D2 & D3 & D4 & ces & Sc & ->).
  rewrite Hb32 in Sc. fold (chain_dir_slots g im l) in Sc.
  destruct (vol_chain_create_decodes upper oem im l name now range im' ces labels Hg Hl Hsm Sc Hnow H)
    as (es1 & es2 & ne & st & E1 & E2 & E3 & E4 & E5 & E6 & E7 & E8 & ST & T1 & T2 & T3 & T4 & T5 & T6 & P1 & P2 & HL & HU & _).
  fold g in E2.
  (* abs im' *)
  assert (g_bits (parse_geom im') <> 32) as Hbits' by (rewrite Hpg; exact Hbits).
  assert (abs im' = abs_fixed g im' (ea ++ e0 :: eb) ls iss) as Habs'.
  { rewrite <- Hpg. apply abs_fixed_root; [exact Hbits'|]. rewrite Hpg, Hrr. exact Hscan. }
  destruct (node_of_avoid g im im' l Hf Hbelow Hother 23) as [_ P23].
  destruct (node_of_avoid g im im' l Hf Hbelow Hother 22) as [_ P22].
  apply Forall_app in Hav. destruct Hav as [Hra Hrb].
  exists (map (node_of g im 22) es1), (map (node_of g im 22) es2), ne, st.
  change (decode_entries g im 23 ces) with (map (node_of g im 22) ces) in *. rewrite E1, map_app in *.
  split; [reflexivity|]. split.
  { rewrite Habs'. cbn [abs_fixed v_root]. change MAX_DEPTH with (S 23). rewrite decode_entries_S, map_app. cbn [map]. f_equal.
    - rewrite <- Ea. apply map_ext_in. intros e He. apply P23. rewrite Forall_forall in Hra. apply Hra. rewrite <- Ea. apply in_map. exact He.
    - f_equal.
      + rewrite (node_of_dir_intro g im' 23 e0 l (es1 ++ ne :: es2) labels [] D1 D2 D3);
          [|rewrite (chain_from_below g im im' Hf Hbelow); exact D4|rewrite Hb32; exact E2].
        change (decode_entries g im' 23 (es1 ++ ne :: es2)) with (map (node_of g im' 22) (es1 ++ ne :: es2)).
        rewrite map_app. cbn [map]. apply Forall_app in Hch. destruct Hch as [Hc1 Hc2]. f_equal. f_equal; [|f_equal].
        * apply map_ext_in. intros e He. apply P22. rewrite Forall_forall in Hc1. apply Hc1. apply in_map. exact He.
        * apply node_of_empty_file.
          -- unfold e_is_dot. destruct (sfn_legal_not_dot _ HL) as [-> ->]. reflexivity.
          -- unfold e_is_dir. rewrite E7. reflexivity.
          -- exact E6.
        * apply map_ext_in. intros e He. apply P22. rewrite Forall_forall in Hc2. apply Hc2. apply in_map. exact He.
      + rewrite <- Eb. apply map_ext_in. intros e He. apply P23. rewrite Forall_forall in Hrb. apply Hrb. rewrite <- Eb. apply in_map. exact He. }
  do 15 (split; [assumption|]).
  split. { rewrite <- map_app, map_node_entry, map_app. exact HU. }
  rewrite Habs, Habs'. cbn [abs_fixed v_root_issues v_labels v_geom v_status].
  split; [reflexivity|]. split; [reflexivity|]. split; [reflexivity|]. split; [|exact Hframe].
  rewrite (g_status_off_fixed g Hbits). apply Hbelow. pose proof (root_off_ge g Hf). pose proof (data_after_root g Hf). lia.
Qed.

(* ================================================================ 6. an example volume with a sub-directory *)
(* the 64-sector FAT12 volume of Proofs/VolDirFormat.v (device fill 0xD1; 16 root slots at 1536, data area at 2048, 512-byte
   clusters = 16 slots) with a directory "D" put in by hand: root slot 1, first cluster 2 (FAT entry 2 = end of chain in both
   copies), cluster 2 zeroed and holding "." and "..". *)
Definition ex_dir_slot (name0 name1 : N) (cluster : N) : list N :=
  [name0; name1; 32; 32; 32; 32; 32; 32; 32; 32; 32; 16; 0; 0; 0; 0; 33; 0; 33; 0; 0; 0; 0; 0; 33; 0; cluster; 0; 0; 0; 0; 0].
Definition ex_sub_im : image :=
  let i1 := img_write ex_vol_im (1536 + 32) (ex_dir_slot 68 32 2) in
  let i2 := img_write (img_write i1 515 [255; 15]) (1024 + 3) [255; 15] in
  img_write (img_write i2 2048 (repeat_N 0 512)) 2048 (ex_dir_slot 46 32 2 ++ ex_dir_slot 46 46 0).

Lemma ex_sub_premises :
  chain_geom (parse_geom ex_sub_im) /\ chain_ok (parse_geom ex_sub_im) [2] /\ chain_small (parse_geom ex_sub_im) [2] /\
  Wf.wf_issues (fun x => x) ex_sub_im = [] /\
  exists ed d1 d2, v_root (abs ex_sub_im) = [] ++ NDir ed (Some [2]) [NDot d1; NDot d2] [] [] :: [] /\
                   Forall (avoids [2]) ([] ++ []) /\ Forall (avoids [2]) [NDot d1; NDot d2].
Proof.
  destruct ex_vol_premises as (bs & _ & _ & _ & Hg & _).
  assert (parse_geom ex_sub_im = parse_geom ex_vol_im) as Epg by (vm_compute; reflexivity).
  split; [split; [rewrite Epg; exact Hg|vm_compute; reflexivity]|].
  split; [split; [repeat constructor; intros []|repeat constructor; vm_compute; try reflexivity; discriminate]|].
  split; [vm_compute; reflexivity|]. split; [vm_compute; reflexivity|].
  eexists. eexists. eexists. split; [vm_compute; reflexivity|]. split; [constructor|].
  repeat constructor; intros c Hc; vm_compute in Hc; contradiction.
Qed.
