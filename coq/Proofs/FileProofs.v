(* FileProofs.v: Model/FileM.v (src/file.rs) refines the byte-array-with-cursor machine of Spec/ByteFile.v (C02).
   Abstraction: the content of a file is the first [size] bytes of the concatenation of the data of the clusters
   of its FAT chain.  Invariant [FileInv]: the comment of file.rs made formal.  Everything is for an arbitrary
   cluster size cs > 0, arbitrary buffers and offsets, and any FAT store satisfying the get/set laws. *)
From Coq Require Import NArith ZArith Lia List Bool.
From FatVerif Require Import Model.Base Model.Table Model.FileM Spec.ByteFile Proofs.TableProofs.
Open Scope N_scope.
Ltac Zify.zify_post_hook ::= Z.to_euclidean_division_equations.

(* ------------------------------------------------------------ ceil(x / cs) *)
Definition cdiv (cs x : N) : N := (x + cs - 1) / cs.

Section Cdiv.
Variable cs : N.
Hypothesis Hcs : 0 < cs.

Lemma cdiv_0 : cdiv cs 0 = 0.
Proof. unfold cdiv. apply N.div_small. lia. Qed.

Lemma cdiv_unique x q : q * cs < x <= (q + 1) * cs -> cdiv cs x = q + 1.
Proof.
  intros [H1 H2]. unfold cdiv. symmetry.
  apply (N.div_unique (x + cs - 1) cs (q + 1) (x + cs - 1 - cs * (q + 1))); nia.
Qed.

Lemma cdiv_bounds x : 0 < x -> (cdiv cs x - 1) * cs < x /\ x <= cdiv cs x * cs /\ 1 <= cdiv cs x.
Proof.
  intros Hx. unfold cdiv.
  pose proof (N.div_mod (x + cs - 1) cs ltac:(lia)) as E.
  pose proof (N.mod_lt (x + cs - 1) cs ltac:(lia)) as L.
  set (q := (x + cs - 1) / cs) in *. set (r := (x + cs - 1) mod cs) in *.
  assert (1 <= q) by (destruct (N.eq_dec q 0) as [Z|]; [rewrite Z in E; lia|lia]).
  nia.
Qed.

Lemma cdiv_mul k : cdiv cs (k * cs) = k.
Proof.
  destruct (N.eq_dec k 0) as [->|Hk]; [rewrite N.mul_0_l; apply cdiv_0|].
  replace k with (k - 1 + 1) at 2 by lia. apply cdiv_unique. nia.
Qed.

Lemma cdiv_rem x : x mod cs <> 0 -> cdiv cs x = x / cs + 1.
Proof.
  intros H. apply cdiv_unique.
  pose proof (N.div_mod x cs ltac:(lia)). pose proof (N.mod_lt x cs ltac:(lia)). nia.
Qed.

Lemma cdiv_exact x : x mod cs = 0 -> cdiv cs x = x / cs.
Proof.
  intros H. pose proof (N.div_mod x cs ltac:(lia)) as E. rewrite H, N.add_0_r in E.
  rewrite E at 1. rewrite N.mul_comm. apply cdiv_mul.
Qed.

Lemma cdiv_mono x y : x <= y -> cdiv cs x <= cdiv cs y.
Proof. intros H. unfold cdiv. apply N.div_le_mono; lia. Qed.

Lemma cdiv_le x : cdiv cs x <= x.
Proof.
  destruct (N.eq_dec x 0) as [->|Hx]; [rewrite cdiv_0; lia|].
  pose proof (cdiv_bounds x ltac:(lia)). nia.
Qed.

Lemma cdiv_eq_0 x : cdiv cs x = 0 -> x = 0.
Proof. intros H. destruct (N.eq_dec x 0); [assumption|]. pose proof (cdiv_bounds x ltac:(lia)). lia. Qed.

(* the cluster index of a position strictly inside (j*cs, (j+1)*cs] *)
Lemma cdiv_in x j : j * cs < x -> x <= (j + 1) * cs -> cdiv cs x - 1 = j.
Proof. intros H1 H2. rewrite (cdiv_unique x j) by lia. lia. Qed.

Lemma div_bounds x : (x / cs) * cs <= x /\ x < (x / cs + 1) * cs /\ x = (x / cs) * cs + x mod cs /\ x mod cs < cs.
Proof.
  pose proof (N.div_mod x cs ltac:(lia)). pose proof (N.mod_lt x cs ltac:(lia)). nia.
Qed.
End Cdiv.

(* ------------------------------------------------------------ lists of equally sized blocks *)
Definition cat (d : N -> list N) (l : list N) : list N := concat (map d l).

Lemma cat_app d l1 l2 : cat d (l1 ++ l2) = cat d l1 ++ cat d l2.
Proof. unfold cat. rewrite map_app, concat_app. reflexivity. Qed.

Lemma cat_cons d c l : cat d (c :: l) = d c ++ cat d l.
Proof. reflexivity. Qed.

Lemma cat_length d n : forall l, (forall c, length (d c) = n) -> length (cat d l) = (length l * n)%nat.
Proof.
  induction l as [|a l IH]; intros H; [reflexivity|].
  rewrite cat_cons, app_length, IH, H by exact H. cbn [length]. lia.
Qed.

Lemma cat_ext d d' : forall l, (forall x, In x l -> d' x = d x) -> cat d' l = cat d l.
Proof.
  induction l as [|a l IH]; intros H; [reflexivity|].
  rewrite !cat_cons, H by (left; reflexivity). rewrite IH; [reflexivity|]. intros x Hx. apply H. right; exact Hx.
Qed.

Lemma skipn_app_exact {A} (a b : list A) n : length a = n -> skipn n (a ++ b) = b.
Proof. intros <-. rewrite skipn_app, skipn_all, Nat.sub_diag. reflexivity. Qed.

Lemma firstn_app_exact {A} (a b : list A) n : length a = n -> firstn n (a ++ b) = a.
Proof. intros <-. rewrite firstn_app, firstn_all, Nat.sub_diag. cbn. apply app_nil_r. Qed.

Lemma skipn_add {A} (l : list A) a b : skipn (a + b) l = skipn b (skipn a l).
Proof.
  revert l. induction a as [|a IH]; intros l; [reflexivity|].
  destruct l as [|x l]; [cbn; rewrite skipn_nil; reflexivity|]. cbn. apply IH.
Qed.

(* reading inside block number [length l1] *)
Lemma cat_read d n l1 c l2 o k :
  (forall x, length (d x) = n) -> (o + k <= n)%nat ->
  firstn k (skipn (length l1 * n + o) (cat d (l1 ++ c :: l2))) = firstn k (skipn o (d c)).
Proof.
  intros Hlen Hok. rewrite cat_app, cat_cons, skipn_add.
  rewrite skipn_app_exact by (apply cat_length; exact Hlen).
  rewrite skipn_app. rewrite firstn_app.
  replace (k - length (skipn o (d c)))%nat with 0%nat by (rewrite skipn_length, Hlen; lia).
  cbn [firstn]. apply app_nil_r.
Qed.

(* writing inside block number [length l1] *)
Lemma cat_write d n l1 c l2 o bs :
  (forall x, length (d x) = n) -> (o + length bs <= n)%nat ->
  cat d l1 ++ blk_write (d c) (N.of_nat o) bs ++ cat d l2
  = write_at (cat d (l1 ++ c :: l2)) (length l1 * n + o) bs.
Proof.
  intros Hlen Hok. unfold write_at, blk_write. rewrite Nat2N.id.
  rewrite cat_app, cat_cons.
  assert (length (cat d l1) = (length l1 * n)%nat) as L1 by (apply cat_length; exact Hlen).
  rewrite firstn_app, (@firstn_all2 _ _ (cat d l1)) by lia.
  replace (length l1 * n + o - length (cat d l1))%nat with o by lia.
  rewrite (firstn_app o (d c)).
  replace (o - length (d c))%nat with 0%nat by (rewrite Hlen; lia). cbn [firstn]. rewrite app_nil_r.
  replace (length l1 * n + o + length bs)%nat with (length l1 * n + (o + length bs))%nat by lia.
  rewrite (skipn_add _ (length l1 * n) (o + length bs)), (skipn_app_exact (cat d l1)) by exact L1.
  rewrite (skipn_app (o + length bs) (d c)). replace (o + length bs - length (d c))%nat with 0%nat by (rewrite Hlen; lia).
  cbn [skipn]. rewrite <- !app_assoc. reflexivity.
Qed.

Lemma blk_write_length d o bs n : length d = n -> (N.to_nat o + length bs <= n)%nat -> length (blk_write d o bs) = n.
Proof.
  intros Hd Hok. unfold blk_write. rewrite !app_length, firstn_length, skipn_length. lia.
Qed.

Lemma write_at_length c p bs : (p <= length c)%nat -> length (write_at c p bs) = Nat.max (length c) (p + length bs).
Proof. intros H. unfold write_at. rewrite !app_length, firstn_length, skipn_length. lia. Qed.

(* cutting a written array at the new size = writing into the array cut at the old size *)
Lemma firstn_write_at X p bs sz :
  (p <= sz)%nat -> (sz <= length X)%nat -> (p + length bs <= length X)%nat ->
  firstn (Nat.max sz (p + length bs)) (write_at X p bs) = write_at (firstn sz X) p bs.
Proof.
  intros Hp Hsz Hb. unfold write_at.
  rewrite firstn_firstn, Nat.min_l by lia.
  assert (length (firstn p X) = p) as Lp by (rewrite firstn_length; lia).
  rewrite firstn_app, firstn_all2 by lia. f_equal. rewrite Lp.
  rewrite firstn_app, firstn_all2 by lia. f_equal.
  destruct (Nat.le_gt_cases (p + length bs) sz) as [Hle|Hgt].
  - rewrite Nat.max_l by lia. rewrite skipn_firstn_comm. f_equal. lia.
  - rewrite Nat.max_r by lia. replace (p + length bs - p - length bs)%nat with 0%nat by lia. cbn [firstn].
    rewrite skipn_all2; [reflexivity|]. rewrite firstn_length. lia.
Qed.

Lemma firstn_skipn_firstn {A} (l : list A) k p sz : (p + k <= sz)%nat -> firstn k (skipn p (firstn sz l)) = firstn k (skipn p l).
Proof.
  intros H. rewrite skipn_firstn_comm, firstn_firstn, Nat.min_l by lia. reflexivity.
Qed.

Lemma nth_error_split_len {A} (l : list A) j c : nth_error l j = Some c -> exists l1 l2, l = l1 ++ c :: l2 /\ length l1 = j.
Proof. apply nth_error_split. Qed.

Lemma nth_error_Some_len {A} (l : list A) i x : nth_error l i = Some x -> (i < length l)%nat.
Proof. intros H. apply nth_error_Some. congruence. Qed.

Lemma nth_error_mid {A} (l1 : list A) c l2 : nth_error (l1 ++ c :: l2) (length l1) = Some c.
Proof. rewrite nth_error_app2 by lia. rewrite Nat.sub_diag. reflexivity. Qed.

(* a duplicate-free list of numbers from [2, total+2) has at most total elements *)
Lemma nodup_range_length (l : list N) total :
  NoDup l -> (forall x, In x l -> 2 <= x < total + 2) -> (length l <= N.to_nat total)%nat.
Proof.
  intros Hnd Hr.
  assert (incl l (map N.of_nat (seq 2 (N.to_nat total)))) as Hi.
  { intros x Hx. apply in_map_iff. exists (N.to_nat x). split; [apply N2Nat.id|].
    apply in_seq. specialize (Hr x Hx). lia. }
  pose proof (NoDup_incl_length Hnd Hi) as H. rewrite map_length, seq_length in H. exact H.
Qed.

Lemma NoDup_app_parts {A} (l1 l2 : list A) : NoDup (l1 ++ l2) ->
  NoDup l1 /\ NoDup l2 /\ forall x, In x l1 -> In x l2 -> False.
Proof.
  induction l1 as [|a l1 IH]; cbn [app]; intros H.
  - split; [constructor|]. split; [exact H|]. intros x [].
  - inversion H as [|? ? Hni Hnd]; subst. destruct (IH Hnd) as (H1 & H2 & H3). split; [|split; [exact H2|]].
    + constructor; [|exact H1]. intros Hin. apply Hni. apply in_or_app. left. exact Hin.
    + intros x [<-|Hx] Hx2; [apply Hni; apply in_or_app; right; exact Hx2|exact (H3 x Hx Hx2)].
Qed.

Lemma list_set_length {A} (x : A) : forall l i, length (list_set l i x) = length l.
Proof. induction l as [|a l IH]; intros [|i]; cbn [list_set length]; try reflexivity. rewrite IH. reflexivity. Qed.

Lemma nth_error_list_set_eq {A} (x : A) : forall l i, (i < length l)%nat -> nth_error (list_set l i x) i = Some x.
Proof.
  induction l as [|a l IH]; intros [|i] H; cbn [length] in H; try lia; cbn [list_set nth_error]; [reflexivity|].
  apply IH. lia.
Qed.

Lemma nth_error_list_set_neq {A} (x : A) : forall l i j, i <> j -> nth_error (list_set l i x) j = nth_error l j.
Proof.
  induction l as [|a l IH]; intros [|i] [|j] H; cbn [list_set nth_error]; try reflexivity; try congruence.
  apply IH. congruence.
Qed.

Lemma nth_error_ext_eq {A} : forall (a b : list A), (forall i, nth_error a i = nth_error b i) -> a = b.
Proof.
  induction a as [|x a IH]; intros [|y b] H.
  - reflexivity.
  - specialize (H 0%nat). discriminate.
  - specialize (H 0%nat). discriminate.
  - pose proof (H 0%nat) as H0. cbn in H0. injection H0 as ->. f_equal. apply IH. intros i. exact (H (S i)).
Qed.

(* ============================================================ the file layer over a lawful FAT store *)
Section FileLaws.
Variable T : Type.
Variable get : T -> N -> res fatv.
Variable set : T -> N -> fatv -> res T.
Variable val : T -> N -> fatv.            (* what the store holds *)
Variable okc : N -> Prop.                  (* addressable entries *)
Variable okv : fatv -> Prop.               (* storable values *)
Variable inv : T -> Prop.                  (* store invariant kept by [set]; [fun _ => True] for the pure store *)
Hypothesis get_val : forall t c, inv t -> okc c -> get t c = Ok (val t c).
Hypothesis set_ok : forall t c v, inv t -> okc c -> okv v ->
  exists t', set t c v = Ok t' /\ inv t' /\ val t' c = v /\ forall c', c' <> c -> okc c' -> val t' c' = val t c'.
Hypothesis okv_free : okv Free.
Hypothesis okv_eoc : okv Eoc.
Variable cs total : N.
Hypothesis Hcs : 0 < cs.
Hypothesis Hokc : forall x, 2 <= x < total + 2 -> okc x.
Hypothesis Hokd : forall n, 2 <= n < total + 2 -> okv (Data n).

Let chain := chain T val.
Let fworld := fworld T.

(* ------------------------------------------------------------ chains *)
Definition nextv (t : T) (c : N) : option N := match val t c with Data n => Some n | _ => None end.

Lemma ci_next_val t c : inv t -> okc c ->
  ci_next T get t (ci_new c) =
  ({| ci_cluster := nextv t c; ci_err := false |}, match nextv t c with Some n => Some (Ok n) | None => None end).
Proof.
  intros Hst H. unfold ci_next, ci_new. cbn [ci_err ci_cluster].
  rewrite (get_next_val T get val okc inv get_val) by assumption. reflexivity.
Qed.

Lemma chain_nth_next t : forall l f j c, chain t f l -> nth_error l j = Some c -> nextv t c = nth_error l (S j).
Proof.
  induction l as [|a l IH]; intros f j c Hc Hn; [destruct j; discriminate|].
  inversion Hc as [c0 Hnd E1 E2|c0 n l0 Hv Hc' E1 E2]; subst.
  - destruct j as [|j]; [|destruct j; discriminate]. cbn in Hn. injection Hn as <-.
    unfold nextv. cbn [nth_error]. destruct (val t a) eqn:E; try reflexivity. exfalso. exact (Hnd _ eq_refl).
  - destruct j as [|j].
    + cbn in Hn. injection Hn as <-. unfold nextv. rewrite Hv.
      destruct (chain_head T val _ _ _ Hc') as [l' ->]. reflexivity.
    + cbn [nth_error] in Hn |- *. exact (IH n j c Hc' Hn).
Qed.

Lemma chain_suffix t : forall l1 f c l2, chain t f (l1 ++ c :: l2) -> chain t c (c :: l2).
Proof.
  induction l1 as [|a l1 IH]; intros f c l2 Hc.
  - cbn [app] in Hc. destruct (chain_head T val _ _ _ Hc) as [l' E]. injection E as -> _. exact Hc.
  - cbn [app] in Hc. inversion Hc as [c0 Hnd E1 E2|c0 n l0 Hv Hc' E1 E2]; subst.
    + destruct l1; discriminate.
    + exact (IH n c l2 Hc').
Qed.

(* cut a chain after [c]: the prefix up to c is a chain in any store that agrees on the prefix and ends at c *)
Lemma chain_cut t t' : forall l1 f c l2, chain t f (l1 ++ c :: l2) ->
  (forall x, In x l1 -> val t' x = val t x) -> (forall n, val t' c <> Data n) -> chain t' f (l1 ++ [c]).
Proof.
  induction l1 as [|a l1 IH]; intros f c l2 Hc Hfr Hend.
  - cbn [app] in *. destruct (chain_head T val _ _ _ Hc) as [l' E]. injection E as -> _. apply chain_end. exact Hend.
  - cbn [app] in *. inversion Hc as [c0 Hnd E1 E2|c0 n l0 Hv Hc' E1 E2]; subst.
    + destruct l1; discriminate.
    + apply chain_step with n.
      * rewrite Hfr by (left; reflexivity). exact Hv.
      * apply (IH n c l2 Hc'); [|exact Hend]. intros x Hx. apply Hfr. right; exact Hx.
Qed.

(* extend a chain after its last cluster [p] *)
Lemma chain_extend t t' : forall l1 f p c, chain t f (l1 ++ [p]) ->
  (forall x, In x l1 -> val t' x = val t x) -> val t' p = Data c -> (forall n, val t' c <> Data n) ->
  chain t' f (l1 ++ [p; c]).
Proof.
  induction l1 as [|a l1 IH]; intros f p c Hc Hfr Hp Hend.
  - cbn [app] in *. destruct (chain_head T val _ _ _ Hc) as [l' E]. injection E as -> _.
    apply chain_step with c; [exact Hp|]. apply chain_end. exact Hend.
  - cbn [app] in *. inversion Hc as [c0 Hnd E1 E2|c0 n l0 Hv Hc' E1 E2]; subst.
    + destruct l1; discriminate.
    + apply chain_step with n.
      * rewrite Hfr by (left; reflexivity). exact Hv.
      * apply (IH n p c Hc'); [|exact Hp|exact Hend]. intros x Hx. apply Hfr. right; exact Hx.
Qed.

Lemma chain_nonempty t f l : chain t f l -> l <> [].
Proof. intros H E. destruct (chain_head T val _ _ _ H) as [l' E']. congruence. Qed.

(* ------------------------------------------------------------ abstraction and invariants *)
Definition content (w : fworld) (l : list N) (sz : N) : list N := firstn (N.to_nat sz) (cat (w_data T w) l).

Definition WorldInv (w : fworld) : Prop :=
  inv (w_fat T w) /\ fi_inv T val (w_fat T w) (w_fi T w) total /\ forall c, length (w_data T w c) = N.to_nat cs.

Lemma W_inv w : WorldInv w -> inv (w_fat T w).
Proof. intros H. apply H. Qed.
Lemma W_fi w : WorldInv w -> fi_inv T val (w_fat T w) (w_fi T w) total.
Proof. intros H. apply H. Qed.
Lemma W_data w : WorldInv w -> forall c, length (w_data T w c) = N.to_nat cs.
Proof. intros H. apply H. Qed.

(* [sz] = the size recorded in the entry, [l] = the cluster chain of the file *)
Record FileInv (w : fworld) (h : fhandle) (sz : N) (l : list N) : Prop := {
  inv_entry : exists e, h_entry h = Some e /\ ed_first e = h_first h /\ ed_size e = Some sz;
  inv_size : sz <= u32_max;
  inv_chain : match h_first h with Some f => chain (w_fat T w) f l | None => l = [] end;
  inv_nodup : NoDup l;
  inv_range : forall x, In x l -> 2 <= x < total + 2 /\ val (w_fat T w) x <> Free;
  inv_len : N.of_nat (length l) = cdiv cs sz;
  inv_off : h_off h <= sz;
  (* "if offset points between clusters current_cluster is the previous cluster"; None iff offset = 0 *)
  inv_cur : h_cur h = if h_off h =? 0 then None else nth_error l (N.to_nat (cdiv cs (h_off h) - 1))
}.

Lemma inv_first_none w h sz l : FileInv w h sz l -> (h_first h = None <-> sz = 0).
Proof.
  intros I. pose proof (inv_chain _ _ _ _ I) as Hc. pose proof (inv_len _ _ _ _ I) as Hl. split.
  - intros E. rewrite E in Hc. subst l. cbn [length] in Hl. apply (cdiv_eq_0 cs Hcs). lia.
  - intros ->. rewrite (cdiv_0 cs Hcs) in Hl. destruct (h_first h) as [f|]; [|reflexivity].
    exfalso. apply (chain_nonempty _ _ _ Hc). destruct l; [reflexivity|cbn [length] in Hl; lia].
Qed.

Lemma inv_size_eq w h sz l : FileInv w h sz l -> h_size h = Some sz.
Proof. intros I. destruct (inv_entry _ _ _ _ I) as (e & He & _ & Hs). unfold h_size. rewrite He. exact Hs. Qed.

Lemma inv_head w h sz l : FileInv w h sz l -> h_first h = nth_error l 0.
Proof.
  intros I. pose proof (inv_chain _ _ _ _ I) as Hc. destruct (h_first h) as [f|].
  - destruct (chain_head T val _ _ _ Hc) as [l' ->]. reflexivity.
  - subst l. reflexivity.
Qed.

Lemma inv_cur_some w h sz l : FileInv w h sz l -> h_off h <> 0 ->
  exists c, h_cur h = Some c /\ nth_error l (N.to_nat (cdiv cs (h_off h) - 1)) = Some c.
Proof.
  intros I Hne. pose proof (inv_cur _ _ _ _ I) as Hc. destruct (N.eqb_spec (h_off h) 0) as [|_]; [contradiction|].
  pose proof (cdiv_bounds cs Hcs (h_off h) ltac:(lia)) as (_ & _ & B).
  pose proof (cdiv_mono cs Hcs _ _ (inv_off _ _ _ _ I)) as M. pose proof (inv_len _ _ _ _ I) as L.
  destruct (nth_error l (N.to_nat (cdiv cs (h_off h) - 1))) as [c|] eqn:E.
  - exists c. split; [exact Hc|reflexivity].
  - apply nth_error_None in E. lia.
Qed.

Lemma inv_okc w h sz l x : FileInv w h sz l -> In x l -> okc x.
Proof. intros I Hx. apply Hokc. apply (inv_range _ _ _ _ I x Hx). Qed.

(* the cluster that holds the byte at the cursor: shared by read and write *)
Lemma cluster_at w h sz l : inv (w_fat T w) -> FileInv w h sz l ->
  (if h_off h mod cs =? 0 then next_cluster_of T get (w_fat T w) h else Ok (h_cur h))
  = Ok (nth_error l (N.to_nat (h_off h / cs))).
Proof.
  intros Hst I. destruct (N.eqb_spec (h_off h mod cs) 0) as [Hm|Hm].
  - unfold next_cluster_of. destruct (N.eq_dec (h_off h) 0) as [H0|H0].
    + rewrite (inv_cur _ _ _ _ I), H0. cbn [N.eqb]. rewrite (inv_head _ _ _ _ I).
      rewrite N.div_0_l by lia. reflexivity.
    + destruct (inv_cur_some _ _ _ _ I H0) as (c & Hcur & Hn). rewrite Hcur.
      rewrite ci_next_val by (try exact Hst; apply (inv_okc _ _ _ _ c I); eapply nth_error_In; exact Hn). cbn [snd].
      pose proof (inv_chain _ _ _ _ I) as Hc. destruct (h_first h) as [f|].
      2:{ subst l. destruct (N.to_nat (cdiv cs (h_off h) - 1)); discriminate. }
      rewrite (chain_nth_next _ _ _ _ _ Hc Hn).
      pose proof (cdiv_exact cs Hcs _ Hm) as Ex. pose proof (cdiv_bounds cs Hcs (h_off h) ltac:(lia)) as (_ & _ & B).
      set (q := h_off h / cs) in *. clearbody q.
      replace (S (N.to_nat (cdiv cs (h_off h) - 1))) with (N.to_nat q) by lia.
      destruct (nth_error l (N.to_nat q)); reflexivity.
  - assert (h_off h <> 0) as H0 by (intros E; rewrite E in Hm; apply Hm; apply N.mod_0_l; lia).
    destruct (inv_cur_some _ _ _ _ I H0) as (c & Hcur & Hn). rewrite Hcur, <- Hn.
    rewrite (cdiv_rem cs Hcs _ Hm). set (q := h_off h / cs). clearbody q. replace (q + 1 - 1) with q by lia. reflexivity.
Qed.

Lemma nth_split_N (l : list N) j c : nth_error l (N.to_nat j) = Some c ->
  exists l1 l2, l = l1 ++ c :: l2 /\ N.of_nat (length l1) = j.
Proof. intros H. destruct (nth_error_split _ _ H) as (l1 & l2 & E & L). exists l1, l2. split; [exact E|lia]. Qed.

(* ------------------------------------------------------------ read *)
Theorem file_read_spec w h sz l n :
  WorldInv w -> FileInv w h sz l ->
  exists h' bs, file_read T get cs w h n = Ok (w, h', bs) /\
    let k := len_N bs in
    bs = firstn (N.to_nat k) (skipn (N.to_nat (h_off h)) (content w l sz)) /\
    k <= N.min n (sz - h_off h) /\ (0 < k \/ N.min n (sz - h_off h) = 0) /\
    h_off h' = h_off h + k /\ FileInv w h' sz l.
Proof.
  intros (Hst & _ & Hdata) I. unfold file_read. rewrite (cluster_at _ _ _ _ Hst I). cbn [bind].
  pose proof (inv_off _ _ _ _ I) as Hoff. pose proof (inv_len _ _ _ _ I) as Hlen.
  pose proof (div_bounds cs Hcs (h_off h)) as (D1 & D2 & D3 & D4).
  destruct (nth_error l (N.to_nat (h_off h / cs))) as [cc|] eqn:En.
  - rewrite (inv_size_eq _ _ _ _ I). unfold u32_sub.
    destruct (N.leb_spec (h_off h) sz) as [_|]; [|lia]. cbn [bind].
    set (oic := h_off h mod cs) in *.
    set (rs := N.min (N.min n (cs - oic)) (sz - h_off h)).
    destruct (N.eqb_spec rs 0) as [Hz|Hz].
    + exists h, []. split; [reflexivity|]. cbn [len_N length N.of_nat N.to_nat firstn].
      split; [reflexivity|]. split; [lia|]. split; [right; lia|]. split; [lia|exact I].
    + destruct (nth_split_N _ _ _ En) as (l1 & l2 & El & L1).
      assert (len_N (firstn (N.to_nat rs) (skipn (N.to_nat oic) (w_data T w cc))) = rs) as Lb.
      { unfold len_N. rewrite firstn_length, skipn_length, Hdata. lia. }
      rewrite Lb. destruct (N.eqb_spec rs 0) as [|_]; [contradiction|].
      eexists _, _. split; [reflexivity|]. rewrite Lb. cbn [h_off]. cbv zeta.
      split; [|split; [lia|split; [left; lia|split; [reflexivity|]]]].
      * unfold content. rewrite firstn_skipn_firstn by lia.
        replace (N.to_nat (h_off h)) with (length l1 * N.to_nat cs + N.to_nat oic)%nat by nia.
        rewrite El. symmetry. apply cat_read; [exact Hdata|lia].
      * destruct I as [Ie Is Ic Ind Ir Il Io Icur]. constructor; cbn [h_entry h_first h_off h_cur]; try assumption; [lia|].
        destruct (N.eqb_spec (h_off h + rs) 0) as [|_]; [lia|].
        rewrite (cdiv_in cs Hcs (h_off h + rs) (h_off h / cs)) by lia. symmetry. exact En.
  - apply nth_error_None in En.
    assert (h_off h = sz) as Heq.
    { destruct (N.eq_dec sz 0) as [->|Hnz]; [lia|].
      pose proof (cdiv_bounds cs Hcs sz ltac:(lia)) as (_ & B2 & _). nia. }
    exists h, []. split; [reflexivity|]. cbn [len_N length N.of_nat N.to_nat firstn].
    split; [reflexivity|]. split; [lia|]. split; [right; lia|]. split; [lia|exact I].
Qed.

(* ------------------------------------------------------------ seek *)
Lemma inv_move w h sz l off' cur' : FileInv w h sz l -> off' <= sz ->
  cur' = (if off' =? 0 then None else nth_error l (N.to_nat (cdiv cs off' - 1))) ->
  FileInv w {| h_first := h_first h; h_cur := cur'; h_off := off'; h_entry := h_entry h |} sz l.
Proof.
  intros [Ie Is Ic Ind Ir Il Io Icur] Ho Hc. constructor; cbn [h_entry h_first h_off h_cur]; assumption.
Qed.

(* walking n steps from the first cluster of a chain that is long enough reaches its n-th element *)
Lemma seek_walk_chain t (Hst : inv t) : forall n l f i, chain t f l -> (forall x, In x l -> okc x) -> (n < length l)%nat ->
  exists c, nth_error l n = Some c /\ seek_walk T get cs t (ci_new f) f i n = Ok (c, None).
Proof.
  induction n as [|n IH]; intros l f i Hc Hok Hn.
  - destruct (chain_head T val _ _ _ Hc) as [l' ->]. exists f. split; reflexivity.
  - cbn [seek_walk]. destruct (chain_head T val _ _ _ Hc) as [l' ->].
    rewrite ci_next_val by (try exact Hst; apply Hok; left; reflexivity).
    inversion Hc as [c0 Hnd E1 E2|c0 m l0 Hv Hc' E1 E2]; subst.
    + cbn [length] in Hn. lia.
    + unfold nextv. rewrite Hv.
      destruct (IH l' m (i + 1) Hc' (fun x Hx => Hok x (or_intror Hx)) ltac:(cbn [length] in Hn; lia)) as (c & Hnth & Hw).
      exists c. split; [exact Hnth|exact Hw].
Qed.

Lemma seek_wide sz off pos :
  match pos with
  | FromCurrent x => Some (Z.of_N off + x)%Z
  | FromStart x => Some (Z.of_N x)
  | FromEnd o => option_map (fun s => (Z.of_N s + o)%Z) (Some sz)
  end = Some (seek_target sz off pos).
Proof. destruct pos; reflexivity. Qed.

Theorem file_seek_spec w h sz l pos :
  WorldInv w -> FileInv w h sz l ->
  let tg := seek_target sz (h_off h) pos in
  if (tg <? 0)%Z then file_seek T get cs w h pos = Err EInvalidInput
  else exists h', file_seek T get cs w h pos = Ok (w, h', N.min (Z.to_N tg) sz) /\
         h_off h' = N.min (Z.to_N tg) sz /\ FileInv w h' sz l.
Proof.
  intros W I tg. unfold file_seek. rewrite (inv_size_eq _ _ _ _ I), seek_wide. fold tg.
  pose proof (inv_size _ _ _ _ I) as Hsz. pose proof (inv_off _ _ _ _ I) as Hoff. unfold u32_max in Hsz.
  destruct (Z.ltb_spec tg 0) as [Hneg|Hpos].
  - destruct (Z.ltb_spec (Z.of_N sz) tg) as [|_]; [lia|]. unfold try_u32.
    destruct (Z.leb_spec 0 tg) as [|_]; [lia|]. reflexivity.
  - set (new := N.min (Z.to_N tg) sz).
    assert ((if (Z.of_N sz <? tg)%Z then Some sz else try_u32 tg) = Some new) as ->.
    { destruct (Z.ltb_spec (Z.of_N sz) tg) as [Hlt|Hge]; [f_equal; unfold new; lia|].
      unfold try_u32, u32_max. destruct (Z.leb_spec 0 tg) as [_|]; [|lia].
      destruct (Z.leb_spec tg (Z.of_N 4294967295)) as [_|]; [|lia]. cbn [andb]. f_equal. unfold new. lia. }
    assert (new <= sz) as Hnew by (unfold new; lia). clearbody new.
    destruct (N.eqb_spec new (h_off h)) as [->|Hne].
    { exists h. split; [reflexivity|]. split; [reflexivity|exact I]. }
    assert (forall x, x <= sz -> clusters_from_bytes cs x = cdiv cs x) as Hcfb.
    { intros x Hx. unfold clusters_from_bytes. change ((x + cs - 1) / cs) with (cdiv cs x).
      apply N.mod_small. pose proof (cdiv_le cs Hcs x). unfold two32. lia. }
    rewrite (Hcfb new Hnew), (Hcfb (h_off h) Hoff).
    destruct (N.eqb_spec new 0) as [->|Hn0].
    { cbn [bind]. eexists. split; [reflexivity|]. split; [reflexivity|]. apply inv_move; [exact I|lia|reflexivity]. }
    pose proof (cdiv_bounds cs Hcs new ltac:(lia)) as (_ & _ & Bn).
    destruct (N.eqb_spec (cdiv cs new) (cdiv cs (h_off h))) as [Heq|Hneq].
    { cbn [bind]. eexists. split; [reflexivity|]. split; [reflexivity|]. apply inv_move; [exact I|exact Hnew|].
      destruct (N.eqb_spec new 0) as [|_]; [contradiction|].
      rewrite (inv_cur _ _ _ _ I). destruct (N.eqb_spec (h_off h) 0) as [E0|_].
      - rewrite E0, (cdiv_0 cs Hcs) in Heq. lia.
      - rewrite Heq. reflexivity. }
    pose proof (inv_chain _ _ _ _ I) as Hc. pose proof (inv_len _ _ _ _ I) as Hl.
    pose proof (cdiv_mono cs Hcs _ _ Hnew) as Hm.
    destruct (h_first h) as [first|] eqn:Ef.
    + unfold u32_sub. destruct (N.leb_spec 1 (cdiv cs new)) as [_|]; [|lia]. cbn [bind].
      destruct (seek_walk_chain (w_fat T w) (W_inv _ W) (N.to_nat (cdiv cs new - 1)) l first 0 Hc
                  (fun x Hx => inv_okc _ _ _ _ x I Hx) ltac:(lia)) as (c & Hnth & Hw).
      rewrite Hw. cbn [bind]. eexists. split; [reflexivity|]. split; [reflexivity|].
      rewrite <- Ef. apply inv_move; [exact I|exact Hnew|].
      destruct (N.eqb_spec new 0) as [|_]; [contradiction|]. symmetry. exact Hnth.
    + subst l. cbn [length] in Hl. lia.
Qed.

(* ------------------------------------------------------------ the entry editor *)
Lemma opt_N_eqb_eq a b : opt_N_eqb a b = true -> a = b.
Proof.
  destruct a as [x|], b as [y|]; cbn [opt_N_eqb]; try discriminate; [|reflexivity].
  intros H. apply N.eqb_eq in H. congruence.
Qed.

Lemma ed_set_first_first e c : ed_first (ed_set_first e c) = c.
Proof. unfold ed_set_first. destruct (opt_N_eqb c (ed_first e)) eqn:E; [symmetry; apply opt_N_eqb_eq; exact E|reflexivity]. Qed.
Lemma ed_set_first_size e c : ed_size (ed_set_first e c) = ed_size e.
Proof. unfold ed_set_first. destruct (opt_N_eqb c (ed_first e)); reflexivity. Qed.
Lemma ed_set_size_first e s : ed_first (ed_set_size e s) = ed_first e.
Proof. unfold ed_set_size. destruct (ed_size e) as [n|]; [|reflexivity]. destruct (s =? n); reflexivity. Qed.
Lemma ed_set_size_size e s n : ed_size e = Some n -> ed_size (ed_set_size e s) = Some s.
Proof.
  intros H. unfold ed_set_size. rewrite H. destruct (N.eqb_spec s n) as [->|]; [exact H|reflexivity].
Qed.

(* ------------------------------------------------------------ frame: what another handle needs from a step *)
Lemma FileInv_frame w w' h sz l :
  FileInv w h sz l -> (forall x, In x l -> val (w_fat T w') x = val (w_fat T w) x) -> FileInv w' h sz l.
Proof.
  intros [Ie Is Ic Ind Ir Il Io Icur] Hfr. constructor; try assumption.
  - destruct (h_first h) as [f|]; [|exact Ic]. eapply chain_frame; [exact Ic|exact Hfr].
  - intros x Hx. rewrite (Hfr x Hx). exact (Ir x Hx).
Qed.

Lemma content_frame w w' l sz :
  (forall x, In x l -> w_data T w' x = w_data T w x) -> content w' l sz = content w l sz.
Proof. intros H. unfold content. rewrite (cat_ext _ _ l H). reflexivity. Qed.

Lemma chain_fuel_ok w h sz l : FileInv w h sz l -> (length l < chain_fuel total)%nat.
Proof.
  intros I. pose proof (nodup_range_length l total (inv_nodup _ _ _ _ I) (fun x Hx => proj1 (inv_range _ _ _ _ I x Hx))).
  unfold chain_fuel. lia.
Qed.

Lemma inv_alloc_info w h sz l x : FileInv w h sz l -> In x l -> okc x /\ 2 <= x < total + 2 /\ val (w_fat T w) x <> Free.
Proof. intros I Hx. destruct (inv_range _ _ _ _ I x Hx) as [R F]. split; [apply Hokc; exact R|split; assumption]. Qed.

(* ------------------------------------------------------------ truncate *)
Theorem file_truncate_spec w h sz l :
  WorldInv w -> FileInv w h sz l ->
  let keep := N.to_nat (cdiv cs (h_off h)) in
  exists w' h', file_truncate T get set total w h = Ok (w', h') /\
    w_data T w' = w_data T w /\ h_off h' = h_off h /\
    FileInv w' h' (h_off h) (firstn keep l) /\ WorldInv w' /\
    content w' (firstn keep l) (h_off h) = firstn (N.to_nat (h_off h)) (content w l sz) /\
    (forall x, In x (skipn keep l) -> val (w_fat T w') x = Free) /\
    (forall x, ~ In x l -> okc x -> val (w_fat T w') x = val (w_fat T w) x) /\
    count_spec T val (w_fat T w') 2 (N.to_nat total)
    = count_spec T val (w_fat T w) 2 (N.to_nat total) + N.of_nat (length (skipn keep l)).
Proof.
  intros (Hst & Hfi & Hdata) I keep. unfold file_truncate.
  destruct (inv_entry _ _ _ _ I) as (e & He & Hef & Hes). rewrite He.
  pose proof (inv_off _ _ _ _ I) as Hoff. pose proof (inv_size _ _ _ _ I) as Hsz.
  pose proof (inv_chain _ _ _ _ I) as Hc. pose proof (inv_len _ _ _ _ I) as Hl.
  pose proof (inv_nodup _ _ _ _ I) as Hnd. pose proof (chain_fuel_ok _ _ _ _ I) as Hfuel.
  destruct (N.eq_dec (h_off h) 0) as [H0|H0].
  - (* cut at 0: the whole chain is released *)
    rewrite (inv_cur _ _ _ _ I). unfold keep. rewrite H0, (cdiv_0 cs Hcs). cbn [N.eqb negb N.to_nat firstn skipn].
    destruct (h_first h) as [f|] eqn:Ef.
    + destruct (fs_free_chain_inv T get set val okc okv inv get_val set_ok okv_free (w_fat T w) (w_fi T w) total f l
                  (chain_fuel total) Hst Hokc Hfi Hc Hnd (fun x Hx => inv_alloc_info _ _ _ _ x I Hx) Hfuel)
        as (t' & fi' & Hr & Hst' & Hfi' & Hcnt & Hfree & Hfr).
      rewrite Hr. cbn [bind]. eexists _, _. split; [reflexivity|]. cbn [w_data w_fat w_fi h_off].
      split; [reflexivity|]. split; [reflexivity|]. split; [|split; [split; [|split]; assumption|]].
      * constructor; cbn [h_entry h_first h_off h_cur w_fat].
        -- eexists. split; [reflexivity|]. rewrite ed_set_first_first, ed_set_first_size. split; [reflexivity|].
           eapply ed_set_size_size. exact Hes.
        -- lia.
        -- reflexivity.
        -- constructor.
        -- intros x [].
        -- rewrite (cdiv_0 cs Hcs). reflexivity.
        -- lia.
        -- try rewrite H0; reflexivity.
      * split; [reflexivity|]. split; [exact Hfree|]. split; [exact Hfr|exact Hcnt].
    + subst l. eexists _, _. split; [reflexivity|]. split; [reflexivity|]. split; [reflexivity|].
      split; [|split; [split; [|split]; assumption|]].
      * constructor; cbn [h_entry h_first h_off h_cur w_fat].
        -- eexists. split; [reflexivity|]. rewrite ed_set_first_first, ed_set_first_size. split; [reflexivity|].
           eapply ed_set_size_size. exact Hes.
        -- lia.
        -- reflexivity.
        -- constructor.
        -- intros x [].
        -- rewrite (cdiv_0 cs Hcs). reflexivity.
        -- lia.
        -- try rewrite H0; reflexivity.
      * split; [reflexivity|]. split; [intros x []|]. split; [reflexivity|]. cbn [length N.of_nat]. lia.
  - (* cut inside the file: current_cluster becomes the last cluster *)
    destruct (inv_cur_some _ _ _ _ I H0) as (c & Hcur & Hn). rewrite Hcur.
    destruct (N.eqb_spec (h_off h) 0) as [|_]; [contradiction|].
    pose proof (cdiv_bounds cs Hcs (h_off h) ltac:(lia)) as (B1 & B2 & B3).
    destruct (nth_split_N _ _ _ Hn) as (l1 & l2 & El & L1).
    assert (keep = length (l1 ++ [c])) as Hk by (unfold keep; rewrite app_length; cbn [length]; lia).
    assert (l = (l1 ++ [c]) ++ l2) as El' by (rewrite El, <- app_assoc; reflexivity).
    assert (firstn keep l = l1 ++ [c]) as Ekeep by (rewrite El', Hk; apply firstn_app_exact; reflexivity).
    assert (skipn keep l = l2) as Eskip by (rewrite El', Hk; apply skipn_app_exact; reflexivity).
    rewrite Ekeep, Eskip. clear Ekeep Eskip.
    destruct (h_first h) as [f|] eqn:Ef; [|subst l; destruct l1; discriminate].
    rewrite El in Hc, Hnd.
    pose proof (chain_suffix _ _ _ _ _ Hc) as Hcs2.
    destruct (NoDup_app_parts _ _ Hnd) as (Hnd1 & Hnd2 & Hdisj).
    destruct (fs_truncate_chain_inv T get set val okc okv inv get_val set_ok okv_free okv_eoc (w_fat T w) (w_fi T w) total c l2
                (chain_fuel total) Hst Hokc Hfi Hcs2 Hnd2
                (fun x Hx => inv_alloc_info _ _ _ _ x I ltac:(rewrite El; apply in_or_app; right; exact Hx))
                ltac:(rewrite El, app_length in Hfuel; cbn [length] in Hfuel; lia))
      as (t' & fi' & Hr & Hst' & Hfi' & Hce & Hfree & Hfr & Hcnt).
    rewrite Hr. cbn [bind]. eexists _, _. split; [reflexivity|]. cbn [w_data w_fat w_fi h_off].
    split; [reflexivity|]. split; [reflexivity|].
    split; [|split; [split; [|split]; assumption|]].
    + constructor; cbn [h_entry h_first h_off h_cur w_fat].
      * eexists. split; [reflexivity|]. rewrite ed_set_size_first. split; [congruence|].
        eapply ed_set_size_size. exact Hes.
      * lia.
      * apply (chain_cut (w_fat T w) t' l1 f c l2 Hc).
        -- intros x Hx. apply Hfr; [exact (Hdisj x Hx)|]. apply (inv_okc _ _ _ _ x I). rewrite El. apply in_or_app. left. exact Hx.
        -- intros n. rewrite Hce. discriminate.
      * replace (l1 ++ c :: l2) with ((l1 ++ [c]) ++ l2) in Hnd by (rewrite <- app_assoc; reflexivity).
        exact (proj1 (NoDup_app_parts _ _ Hnd)).
      * intros x Hx. destruct (inv_range _ _ _ _ I x ltac:(rewrite El; apply in_app_or in Hx; apply in_or_app;
          destruct Hx as [Hx|[<-|[]]]; [left; exact Hx|right; left; reflexivity])) as [R F]. split; [exact R|].
        apply in_app_or in Hx. destruct Hx as [Hx|[<-|[]]].
        -- rewrite Hfr; [exact F|exact (Hdisj x Hx)|apply Hokc; exact R].
        -- rewrite Hce. discriminate.
      * rewrite app_length. cbn [length]. lia.
      * lia.
      * destruct (N.eqb_spec (h_off h) 0) as [|_]; [contradiction|].
        replace (N.to_nat (cdiv cs (h_off h) - 1)) with (length l1) by lia. symmetry. apply nth_error_mid.
    + split; [|split; [exact Hfree|split; [|exact Hcnt]]].
      * unfold content. cbn [w_data]. rewrite firstn_firstn, Nat.min_l by lia.
        rewrite El'. rewrite (cat_app _ (l1 ++ [c]) l2), (firstn_app _ (cat (w_data T w) (l1 ++ [c]))).
        replace (N.to_nat (h_off h) - length (cat (w_data T w) (l1 ++ [c])))%nat with 0%nat.
        2:{ rewrite (cat_length _ (N.to_nat cs)) by exact Hdata. rewrite app_length. cbn [length]. nia. }
        cbn [firstn]. rewrite app_nil_r. reflexivity.
      * intros x Hx Hokx. apply Hfr; [|exact Hokx]. intros Hin. apply Hx. rewrite El. apply in_or_app. right. exact Hin.
Qed.

(* ------------------------------------------------------------ write *)
Lemma cursor_at_end w h sz l : FileInv w h sz l -> nth_error l (N.to_nat (h_off h / cs)) = None -> h_off h = sz.
Proof.
  intros I En. apply nth_error_None in En.
  pose proof (inv_off _ _ _ _ I) as Hoff. pose proof (inv_len _ _ _ _ I) as Hlen.
  pose proof (div_bounds cs Hcs (h_off h)) as (D1 & D2 & D3 & D4).
  destruct (N.eq_dec sz 0) as [->|Hnz]; [lia|].
  pose proof (cdiv_bounds cs Hcs sz ltac:(lia)) as (_ & B2 & _).
  set (q := h_off h / cs) in *. clearbody q. nia.
Qed.

Lemma data_write_same d c o bs : data_write d c o bs c = blk_write (d c) o bs.
Proof. unfold data_write. rewrite N.eqb_refl. reflexivity. Qed.
Lemma data_write_other d c o bs x : x <> c -> data_write d c o bs x = d x.
Proof. intros H. unfold data_write. destruct (N.eqb_spec x c); [contradiction|reflexivity]. Qed.

Lemma NoDup_snoc {A} (l : list A) c : NoDup l -> ~ In c l -> NoDup (l ++ [c]).
Proof.
  induction l as [|a l IH]; intros Hnd Hni; cbn [app].
  - constructor; [intros []|constructor].
  - inversion Hnd as [|? ? Ha Hnd']; subst. constructor.
    + intros Hin. apply in_app_or in Hin. destruct Hin as [Hin|[<-|[]]]; [contradiction|]. apply Hni. left; reflexivity.
    + apply IH; [exact Hnd'|]. intros Hin. apply Hni. right; exact Hin.
Qed.

(* the data part of a write into cluster number off/cs of a chain that is already long enough *)
Lemma write_into w h sz l buf cc ws :
  WorldInv w ->
  (exists e, h_entry h = Some e /\ ed_first e = h_first h /\ ed_size e = Some sz) -> sz <= u32_max ->
  match h_first h with Some f => chain (w_fat T w) f l | None => l = [] end ->
  NoDup l -> (forall x, In x l -> 2 <= x < total + 2 /\ val (w_fat T w) x <> Free) ->
  h_off h <= sz ->
  nth_error l (N.to_nat (h_off h / cs)) = Some cc ->
  N.of_nat (length l) = cdiv cs (N.max sz (h_off h + ws)) ->
  0 < ws -> ws <= len_N buf -> ws <= cs - h_off h mod cs -> h_off h + ws <= u32_max ->
  let bs := firstn (N.to_nat ws) buf in
  let w2 := {| w_fat := w_fat T w; w_fi := w_fi T w; w_data := data_write (w_data T w) cc (h_off h mod cs) bs |} in
  let h2 := h_after_write {| h_first := h_first h; h_cur := Some cc; h_off := h_off h + ws; h_entry := h_entry h |} in
  let sz' := N.max sz (h_off h + ws) in
  FileInv w2 h2 sz' l /\ WorldInv w2 /\ h_off h2 = h_off h + ws /\
  content w2 l sz' = write_at (firstn (N.to_nat sz) (cat (w_data T w) l)) (N.to_nat (h_off h)) bs /\
  (forall x, x <> cc -> w_data T w2 x = w_data T w x).
Proof.
  intros (Hst & Hfi & Hdata) (e & He & Hef & Hes) Hsz Hc Hnd Hr Hoff En Hlen Hws1 Hws2 Hws3 Hws4 bs w2 h2 sz'.
  pose proof (div_bounds cs Hcs (h_off h)) as (D1 & D2 & D3 & D4).
  set (oic := h_off h mod cs) in *. set (j := h_off h / cs) in *. clearbody oic j.
  assert (length bs = N.to_nat ws) as Lbs by (unfold bs; rewrite firstn_length; unfold len_N in Hws2; lia).
  destruct (nth_split_N _ _ _ En) as (l1 & l2 & El & L1).
  assert (sz' <= N.of_nat (length l) * cs) as Hcap.
  { rewrite Hlen. fold sz'. destruct (N.eq_dec sz' 0) as [->|Hz]; [lia|]. apply (cdiv_bounds cs Hcs sz'). lia. }
  split; [|split; [|split; [reflexivity|split]]].
  - constructor; unfold h2, h_after_write; cbn [h_entry h_first h_off h_cur w_fat].
    + rewrite He, Hes. eexists. split; [reflexivity|].
      destruct (N.ltb_spec sz (h_off h + ws)) as [Hlt|Hge].
      * rewrite ed_set_size_first. split; [exact Hef|]. rewrite (ed_set_size_size _ _ _ Hes). f_equal. unfold sz'. lia.
      * split; [exact Hef|]. rewrite Hes. f_equal. unfold sz'. lia.
    + unfold sz', u32_max in *. lia.
    + exact Hc.
    + exact Hnd.
    + exact Hr.
    + exact Hlen.
    + unfold sz'. lia.
    + destruct (N.eqb_spec (h_off h + ws) 0) as [|_]; [lia|].
      rewrite (cdiv_in cs Hcs (h_off h + ws) j) by lia. symmetry. exact En.
  - split; [exact Hst|]. split; [exact Hfi|]. intros x. unfold w2. cbn [w_data]. unfold data_write. destruct (x =? cc); [|apply Hdata].
    apply blk_write_length; [apply Hdata|lia].
  - unfold content, w2. cbn [w_data].
    set (d := w_data T w) in *. set (d2 := data_write d cc oic bs).
    rewrite El in Hnd. destruct (NoDup_app_parts _ _ Hnd) as (_ & Hnd2 & Hdisj).
    inversion Hnd2 as [|? ? Hcc2 _]; subst.
    assert (cat d2 (l1 ++ cc :: l2) = write_at (cat d (l1 ++ cc :: l2)) (N.to_nat (h_off h)) bs) as ->.
    { rewrite cat_app, cat_cons.
      rewrite (cat_ext d d2 l1) by (intros x Hx; apply data_write_other; intros ->; exact (Hdisj cc Hx (or_introl eq_refl))).
      rewrite (cat_ext d d2 l2) by (intros x Hx; apply data_write_other; intros ->; contradiction).
      unfold d2. rewrite data_write_same.
      replace oic with (N.of_nat (N.to_nat oic)) at 1 by apply N2Nat.id.
      replace (N.to_nat (h_off h)) with (length l1 * N.to_nat cs + N.to_nat oic)%nat by nia.
      apply cat_write; [exact Hdata|lia]. }
    rewrite app_length in Hcap. cbn [length] in Hcap.
    assert (length (cat d (l1 ++ cc :: l2)) = (length (l1 ++ cc :: l2) * N.to_nat cs)%nat) as LX by (apply cat_length; exact Hdata).
    rewrite app_length in LX. cbn [length] in LX.
    replace (N.to_nat sz') with (Nat.max (N.to_nat sz) (N.to_nat (h_off h) + length bs)) by (unfold sz'; lia).
    apply firstn_write_at; [lia| |]; rewrite LX; unfold sz' in Hcap; nia.
  - intros x Hx. unfold w2. cbn [w_data]. apply data_write_other. exact Hx.
Qed.

Lemma fs_alloc_ok_inv t fi prev t' fi' c :
  fs_alloc T get set t fi prev total = Ok (t', fi', c) ->
  alloc_cluster T get set t prev (fi_next fi) total = Ok (t', c).
Proof.
  unfold fs_alloc. destruct (alloc_cluster T get set t prev (fi_next fi) total) as [[t1 c1]|e| |]; cbn [bind]; try discriminate.
  cbn [fi_free]. destruct (fi_free fi) as [[|p]|]; try discriminate; intros E; injection E as <- _ <-; reflexivity.
Qed.

(* allocation at the end of the file: the chain grows by one cluster that was free *)
Lemma alloc_extend w h sz l t' fi' c :
  WorldInv w -> FileInv w h sz l -> h_off h = sz -> sz mod cs = 0 ->
  fs_alloc T get set (w_fat T w) (w_fi T w) (h_cur h) total = Ok (t', fi', c) ->
  let w1 := {| w_fat := t'; w_fi := fi'; w_data := w_data T w |} in
  let h1 := match h_first h with None => h_set_first h c | Some _ => h end in
  val (w_fat T w) c = Free /\ 2 <= c < total + 2 /\ ~ In c l /\ WorldInv w1 /\
  (exists e, h_entry h1 = Some e /\ ed_first e = h_first h1 /\ ed_size e = Some sz) /\
  match h_first h1 with Some f => chain t' f (l ++ [c]) | None => l ++ [c] = [] end /\
  NoDup (l ++ [c]) /\ (forall x, In x (l ++ [c]) -> 2 <= x < total + 2 /\ val t' x <> Free) /\
  h_off h1 = h_off h /\ (forall x, ~ In x (l ++ [c]) -> okc x -> val t' x = val (w_fat T w) x).
Proof.
  intros (Hst & Hfi & Hdata) I Heq Hmod Ea w1 h1.
  destruct (inv_entry _ _ _ _ I) as (e & He & Hef & Hes).
  pose proof (inv_chain _ _ _ _ I) as Hc. pose proof (inv_len _ _ _ _ I) as Hl.
  pose proof (inv_nodup _ _ _ _ I) as Hnd. pose proof (inv_range _ _ _ _ I) as Hr.
  assert (match h_cur h with
          | Some p => okc p /\ (forall n, 2 <= n < total + 2 -> okv (Data n)) /\ val (w_fat T w) p <> Free
          | None => True end) as Hprev.
  { destruct (N.eq_dec (h_off h) 0) as [H0|H0].
    - rewrite (inv_cur _ _ _ _ I), H0. exact Logic.I.
    - destruct (inv_cur_some _ _ _ _ I H0) as (p & Hcur & Hn). rewrite Hcur.
      apply nth_error_In in Hn. destruct (inv_alloc_info _ _ _ _ p I Hn) as (A & _ & B). split; [exact A|split; [exact Hokd|exact B]]. }
  pose proof (fs_alloc_inv T get set val okc okv inv get_val set_ok okv_eoc (w_fat T w) (w_fi T w) (h_cur h) total Hst Hfi Hokc Hprev) as Hinv.
  rewrite Ea in Hinv. destruct Hinv as (Hst' & Hfi' & Hcr & Hcf & _).
  assert (~ In c l) as Hcl by (intros Hin; destruct (Hr c Hin) as [_ F]; contradiction).
  pose proof (alloc_ok T get set val okc okv inv get_val set_ok okv_eoc (w_fat T w) (h_cur h) (fi_next (w_fi T w)) total t' c
                Hst (proj2 Hfi) Hokc ltac:(destruct (h_cur h); [split; [apply Hprev|apply Hprev]|exact Logic.I]) (fs_alloc_ok_inv _ _ _ _ _ _ Ea))
    as (_ & _ & _ & Hpost).
  split; [exact Hcf|]. split; [exact Hcr|]. split; [exact Hcl|]. split; [split; [exact Hst'|split; [exact Hfi'|exact Hdata]]|].
  destruct (N.eq_dec (h_off h) 0) as [H0|H0].
  - (* empty file: the new cluster becomes the first one *)
    assert (sz = 0) as Hz by lia. pose proof (proj2 (inv_first_none _ _ _ _ I) Hz) as Ef.
    rewrite (inv_cur _ _ _ _ I), H0 in Hpost. cbn [N.eqb] in Hpost. destruct Hpost as (Hce & Hfr).
    unfold h1. rewrite Ef in *. subst l. unfold h_set_first. cbn [h_entry h_first h_off app]. rewrite He.
    split; [|split; [|split; [|split; [|split]]]].
    + eexists. split; [reflexivity|]. rewrite ed_set_first_first, ed_set_first_size. split; [reflexivity|exact Hes].
    + apply chain_end. intros n. rewrite Hce. discriminate.
    + constructor; [intros []|constructor].
    + intros x [<-|[]]. split; [exact Hcr|]. rewrite Hce. discriminate.
    + reflexivity.
    + intros x Hx Hokx. apply Hfr; [|exact Hokx]. intros ->. apply Hx. left; reflexivity.
  - (* the new cluster is linked after current_cluster, the last cluster of the chain *)
    destruct (inv_cur_some _ _ _ _ I H0) as (p & Hcur & Hn). rewrite Hcur in Hpost.
    destruct Hpost as (Hpd & Hce & Hfr).
    destruct (nth_split_N _ _ _ Hn) as (l1 & l2 & El & L1).
    assert (l2 = []) as ->.
    { pose proof (cdiv_bounds cs Hcs (h_off h) ltac:(lia)) as (_ & _ & B). rewrite Heq in *.
      rewrite El, app_length in Hl. cbn [length] in Hl. destruct l2; [reflexivity|cbn [length] in Hl; lia]. }
    assert (p <> c) as Hpc by (intros ->; apply Hcl; rewrite El; apply in_or_app; right; left; reflexivity).
    specialize (Hce Hpc).
    destruct (h_first h) as [f|] eqn:Ef; [|subst l; destruct l1; discriminate].
    unfold h1. cbn [h_entry h_first h_off]. rewrite Ef.
    rewrite El in Hnd. destruct (NoDup_app_parts _ _ Hnd) as (_ & _ & Hdisj).
    split; [|split; [|split; [|split; [|split]]]].
    + exists e. split; [exact He|split; [exact Hef|exact Hes]].
    + rewrite El in Hc |- *. rewrite <- app_assoc. cbn [app]. apply (chain_extend (w_fat T w) t' l1 f p c Hc); [|exact Hpd|].
      * intros x Hx. apply Hfr.
        -- intros ->. apply Hcl. rewrite El. apply in_or_app. left. exact Hx.
        -- intros ->. exact (Hdisj p Hx (or_introl eq_refl)).
        -- apply (inv_okc _ _ _ _ x I). rewrite El. apply in_or_app. left. exact Hx.
      * intros n. rewrite Hce. discriminate.
    + apply NoDup_snoc; [rewrite El; exact Hnd|exact Hcl].
    + intros x Hx. apply in_app_or in Hx. destruct Hx as [Hx|[<-|[]]].
      * destruct (Hr x Hx) as [R F]. split; [exact R|].
        destruct (N.eq_dec x p) as [->|Hxp]; [rewrite Hpd; discriminate|].
        rewrite Hfr; [exact F| |exact Hxp|apply Hokc; exact R]. intros ->. contradiction.
      * split; [exact Hcr|]. rewrite Hce. discriminate.
    + reflexivity.
    + intros x Hx Hokx. apply Hfr; [| |exact Hokx].
      * intros ->. apply Hx. apply in_or_app. right. left. reflexivity.
      * intros ->. apply Hx. apply in_or_app. left. rewrite El. apply in_or_app. right. left. reflexivity.
Qed.

Theorem file_write_spec w h sz l buf :
  WorldInv w -> FileInv w h sz l ->
  match file_write T get set cs total w h buf with
  | Ok (w', h', k) =>
      k <= len_N buf /\ (0 < k \/ buf = [] \/ h_off h = u32_max) /\ h_off h' = h_off h + k /\
      exists l',
        (l' = l \/ exists c, l' = l ++ [c] /\ val (w_fat T w) c = Free /\ 2 <= c < total + 2) /\
        FileInv w' h' (N.max sz (h_off h + k)) l' /\ WorldInv w' /\
        content w' l' (N.max sz (h_off h + k))
        = write_at (content w l sz) (N.to_nat (h_off h)) (firstn (N.to_nat k) buf) /\
        (forall x, ~ In x l' -> okc x -> val (w_fat T w') x = val (w_fat T w) x) /\
        (forall x, ~ In x l' -> w_data T w' x = w_data T w x)
  | Err e => e = ENotEnoughSpace /\ (forall x, 2 <= x < total + 2 -> val (w_fat T w) x <> Free) /\
             h_off h = sz /\ sz mod cs = 0
  | Panic => False
  | OutOfFuel => False
  end.
Proof.
  intros W I. unfold file_write.
  pose proof (inv_off _ _ _ _ I) as Hoff. pose proof (inv_size _ _ _ _ I) as Hsz. pose proof (inv_len _ _ _ _ I) as Hlen.
  pose proof (div_bounds cs Hcs (h_off h)) as (D1 & D2 & D3 & D4).
  pose proof (cluster_at _ _ _ _ (W_inv _ W) I) as Hsel.
  unfold MAX_FILE_SIZE.
  set (ws := N.min (N.min (len_N buf) (cs - h_off h mod cs)) (u32_max - h_off h)).
  assert (ws <= len_N buf /\ ws <= cs - h_off h mod cs /\ h_off h + ws <= u32_max /\
          (ws = 0 -> len_N buf = 0 \/ h_off h = u32_max)) as (Hw1 & Hw2 & Hw3 & Hw0).
  { unfold ws, u32_max in *. clear Hsel D1 D2 D3. set (r := h_off h mod cs) in *. clearbody r. lia. }
  clearbody ws.
  destruct (N.eqb_spec ws 0) as [Hz|Hz].
  { (* nothing to write *)
    split; [lia|]. split.
    { destruct buf as [|b buf]; [right; left; reflexivity|]. right. right.
      destruct (Hw0 Hz) as [Hb|Hb]; [unfold len_N in Hb; cbn [length] in Hb; lia|exact Hb]. }
    split; [lia|]. exists l. split; [left; reflexivity|]. rewrite N.add_0_r, N.max_l by lia.
    split; [exact I|]. split; [exact W|]. split; [|split; reflexivity].
    cbn [N.to_nat firstn]. unfold write_at. cbn [length app]. rewrite Nat.add_0_r, firstn_skipn. reflexivity. }
  assert (0 < ws) as Hwpos by lia.
  destruct (inv_entry _ _ _ _ I) as (e & He & Hef & Hes).
  destruct (N.eqb_spec (h_off h mod cs) 0) as [Hm|Hm].
  - rewrite Hsel. cbn [bind]. destruct (nth_error l (N.to_nat (h_off h / cs))) as [cc|] eqn:En.
    + (* the next cluster exists *)
      cbn [bind h_first h_off h_entry w_fat w_fi w_data].
      assert (N.of_nat (length l) = cdiv cs (N.max sz (h_off h + ws))) as Hlen'.
      { rewrite Hlen. destruct (N.max_spec sz (h_off h + ws)) as [[Hlt ->]|[Hle ->]]; [|reflexivity].
        apply N.le_antisymm; [apply (cdiv_mono cs Hcs); lia|].
        assert (N.to_nat (h_off h / cs) < length l)%nat as Hj by (apply nth_error_Some; congruence).
        rewrite <- Hlen. clear Hsel. set (q := h_off h / cs) in *. set (r := h_off h mod cs) in *. clearbody q r.
        rewrite (cdiv_unique cs Hcs (h_off h + ws) q) by lia. lia. }
      destruct (write_into w h sz l buf cc ws W (ex_intro _ e (conj He (conj Hef Hes))) Hsz (inv_chain _ _ _ _ I)
                  (inv_nodup _ _ _ _ I) (inv_range _ _ _ _ I) Hoff En Hlen' Hwpos Hw1 Hw2 Hw3) as (I2 & W2 & Ho2 & Hcont & Hdfr).
      split; [exact Hw1|]. split; [left; exact Hwpos|]. split; [exact Ho2|].
      exists l. split; [left; reflexivity|]. split; [exact I2|]. split; [exact W2|]. split; [exact Hcont|].
      split; [reflexivity|]. intros x Hx. apply Hdfr. intros ->. apply Hx. eapply nth_error_In. exact En.
    + (* end of chain reached: allocate *)
      pose proof (cursor_at_end _ _ _ _ I En) as Heq.
      assert (sz mod cs = 0) as Hmz by (rewrite <- Heq; exact Hm).
      destruct (fs_alloc T get set (w_fat T w) (w_fi T w) (h_cur h) total) as [[[t' fi'] c]|er| |] eqn:Ea; cbn [bind].
      * destruct (alloc_extend w h sz l t' fi' c W I Heq Hmz Ea) as (Hcf & Hcr & Hcl & W1 & He1 & Hc1 & Hnd1 & Hr1 & Ho1 & Hfr1).
        set (w1 := {| w_fat := t'; w_fi := fi'; w_data := w_data T w |}) in *.
        set (h1 := match h_first h with None => h_set_first h c | Some _ => h end) in *.
        assert (N.of_nat (length l) = h_off h / cs) as Hlj.
        { rewrite Hlen, <- Heq. apply (cdiv_exact cs Hcs). exact Hm. }
        assert (nth_error (l ++ [c]) (N.to_nat (h_off h1 / cs)) = Some c) as En1.
        { rewrite Ho1. replace (N.to_nat (h_off h / cs)) with (length l) by lia. apply nth_error_mid. }
        assert (N.of_nat (length (l ++ [c])) = cdiv cs (N.max sz (h_off h1 + ws))) as Hlen1.
        { rewrite Ho1, app_length. cbn [length]. rewrite N.max_r by lia.
          set (q := h_off h / cs) in *. clearbody q. rewrite (cdiv_unique cs Hcs (h_off h + ws) q) by lia. lia. }
        destruct (write_into w1 h1 sz (l ++ [c]) buf c ws W1 He1 Hsz Hc1 Hnd1 Hr1 ltac:(rewrite Ho1; exact Hoff) En1 Hlen1
                    Hwpos Hw1 ltac:(rewrite Ho1; exact Hw2) ltac:(rewrite Ho1; exact Hw3)) as (I2 & W2 & Ho2 & Hcont & Hdfr).
        rewrite Ho1 in *.
        split; [exact Hw1|]. split; [left; exact Hwpos|]. split; [exact Ho2|].
        exists (l ++ [c]). split; [right; exists c; split; [reflexivity|split; assumption]|].
        split; [exact I2|]. split; [exact W2|]. split; [|split].
        -- rewrite Hcont. unfold content. cbn [w_data w1]. f_equal.
           rewrite cat_app, firstn_app.
           replace (N.to_nat sz - length (cat (w_data T w) l))%nat with 0%nat.
           2:{ rewrite (cat_length _ (N.to_nat cs)) by apply (W_data _ W). set (q := h_off h / cs) in *. clearbody q. nia. }
           cbn [firstn]. apply app_nil_r.
        -- exact Hfr1.
        -- intros x Hx. apply Hdfr. intros ->. apply Hx. apply in_or_app. right. left. reflexivity.
      * (* no space *)
        pose proof (fs_alloc_inv T get set val okc okv inv get_val set_ok okv_eoc (w_fat T w) (w_fi T w) (h_cur h) total (W_inv _ W) (W_fi _ W) Hokc) as Hinv.
        rewrite Ea in Hinv. destruct Hinv as (-> & Hnf).
        { destruct (N.eq_dec (h_off h) 0) as [H0|H0].
          - rewrite (inv_cur _ _ _ _ I), H0. exact Logic.I.
          - destruct (inv_cur_some _ _ _ _ I H0) as (p & Hcur & Hn). rewrite Hcur.
            apply nth_error_In in Hn. destruct (inv_alloc_info _ _ _ _ p I Hn) as (A & _ & B). split; [exact A|split; [exact Hokd|exact B]]. }
        split; [reflexivity|]. split; [exact Hnf|]. split; assumption.
      * pose proof (fs_alloc_inv T get set val okc okv inv get_val set_ok okv_eoc (w_fat T w) (w_fi T w) (h_cur h) total (W_inv _ W) (W_fi _ W) Hokc) as Hinv.
        rewrite Ea in Hinv. apply Hinv.
        destruct (N.eq_dec (h_off h) 0) as [H0|H0].
        -- rewrite (inv_cur _ _ _ _ I), H0. exact Logic.I.
        -- destruct (inv_cur_some _ _ _ _ I H0) as (p & Hcur & Hn). rewrite Hcur.
           apply nth_error_In in Hn. destruct (inv_alloc_info _ _ _ _ p I Hn) as (A & _ & B). split; [exact A|split; [exact Hokd|exact B]].
      * pose proof (fs_alloc_inv T get set val okc okv inv get_val set_ok okv_eoc (w_fat T w) (w_fi T w) (h_cur h) total (W_inv _ W) (W_fi _ W) Hokc) as Hinv.
        rewrite Ea in Hinv. apply Hinv.
        destruct (N.eq_dec (h_off h) 0) as [H0|H0].
        -- rewrite (inv_cur _ _ _ _ I), H0. exact Logic.I.
        -- destruct (inv_cur_some _ _ _ _ I H0) as (p & Hcur & Hn). rewrite Hcur.
           apply nth_error_In in Hn. destruct (inv_alloc_info _ _ _ _ p I Hn) as (A & _ & B). split; [exact A|split; [exact Hokd|exact B]].
  - (* inside a cluster: current_cluster is the cluster of the cursor *)
    injection Hsel as Hcur. rewrite Hcur.
    destruct (nth_error l (N.to_nat (h_off h / cs))) as [cc|] eqn:En.
    2:{ pose proof (cursor_at_end _ _ _ _ I En) as Heq. apply nth_error_None in En.
        destruct (N.eq_dec sz 0) as [Z|NZ]; [rewrite Z in Heq; rewrite Heq in Hm; apply Hm; apply N.mod_0_l; lia|].
        pose proof (cdiv_bounds cs Hcs sz ltac:(lia)) as (_ & B2 & _).
        set (q := h_off h / cs) in *. set (r := h_off h mod cs) in *. clearbody q r. nia. }
    cbn [bind h_first h_off h_entry w_fat w_fi w_data].
    assert (N.of_nat (length l) = cdiv cs (N.max sz (h_off h + ws))) as Hlen'.
    { rewrite Hlen. destruct (N.max_spec sz (h_off h + ws)) as [[Hlt ->]|[Hle ->]]; [|reflexivity].
      apply N.le_antisymm; [apply (cdiv_mono cs Hcs); lia|].
      assert (N.to_nat (h_off h / cs) < length l)%nat as Hj by (apply nth_error_Some; congruence).
      rewrite <- Hlen. set (q := h_off h / cs) in *. set (r := h_off h mod cs) in *. clearbody q r.
      rewrite (cdiv_unique cs Hcs (h_off h + ws) q) by lia. lia. }
    destruct (write_into w h sz l buf cc ws W (ex_intro _ e (conj He (conj Hef Hes))) Hsz (inv_chain _ _ _ _ I)
                (inv_nodup _ _ _ _ I) (inv_range _ _ _ _ I) Hoff En Hlen' Hwpos Hw1 Hw2 Hw3) as (I2 & W2 & Ho2 & Hcont & Hdfr).
    split; [exact Hw1|]. split; [left; exact Hwpos|]. split; [exact Ho2|].
    exists l. split; [left; reflexivity|]. split; [exact I2|]. split; [exact W2|]. split; [exact Hcont|].
    split; [reflexivity|]. intros x Hx. apply Hdfr. intros ->. apply Hx. eapply nth_error_In. exact En.
Qed.

(* ------------------------------------------------------------ extents *)
Fixpoint ext_sizes (l : list N) (bl : N) : list (N * N) :=
  match l with
  | [] => []
  | c :: r => (c, N.min cs bl) :: ext_sizes r (bl - N.min cs bl)
  end.

Lemma ext_walk_chain t (Hst : inv t) : forall l' f bl fuel, chain t f (f :: l') -> (forall x, In x (f :: l') -> okc x) ->
  (length l' < fuel)%nat -> ext_walk T get cs t (ci_new f) bl fuel = Ok (ext_sizes l' bl).
Proof.
  induction l' as [|a l' IH]; intros f bl fuel Hc Hok Hfuel; (destruct fuel as [|fuel]; [cbn [length] in Hfuel; lia|]);
    cbn [ext_walk]; rewrite ci_next_val by (try exact Hst; apply Hok; left; reflexivity).
  - inversion Hc as [c0 Hnd E1 E2|c0 m l0 Hv Hc' E1 E2]; subst.
    + unfold nextv. destruct (val t f) eqn:E; try reflexivity. exfalso. exact (Hnd _ eq_refl).
    + destruct (chain_head T val _ _ _ Hc') as [l'' E]. discriminate.
  - inversion Hc as [c0 Hnd E1 E2|c0 m l0 Hv Hc' E1 E2]; subst.
    assert (m = a) as -> by (destruct (chain_head T val _ _ _ Hc') as [l'' E]; congruence).
    unfold nextv. rewrite Hv.
    change {| ci_cluster := Some a; ci_err := false |} with (ci_new a).
    rewrite (IH a (bl - N.min cs bl) fuel Hc' (fun x Hx => Hok x (or_intror Hx)) ltac:(cbn [length] in Hfuel; lia)).
    reflexivity.
Qed.

Lemma ext_sizes_fst : forall l bl, map fst (ext_sizes l bl) = l.
Proof. induction l as [|c r IH]; intros bl; [reflexivity|]. cbn [ext_sizes map fst]. rewrite IH. reflexivity. Qed.

Definition ext_bytes (d : N -> list N) (ex : list (N * N)) : list N :=
  concat (map (fun e => firstn (N.to_nat (snd e)) (d (fst e))) ex).
Definition ext_total (ex : list (N * N)) : N := fold_right (fun e a => snd e + a) 0 ex.

Lemma ext_sizes_bytes d : (forall c, length (d c) = N.to_nat cs) ->
  forall l bl, ext_bytes d (ext_sizes l bl) = firstn (N.to_nat bl) (cat d l).
Proof.
  intros Hd. induction l as [|c r IH]; intros bl.
  - cbn. rewrite firstn_nil. reflexivity.
  - cbn [ext_sizes]. unfold ext_bytes. cbn [map concat fst snd]. fold (ext_bytes d (ext_sizes r (bl - N.min cs bl))).
    rewrite IH, cat_cons, firstn_app, Hd.
    destruct (N.le_gt_cases bl cs) as [Hle|Hgt].
    + rewrite N.min_r by lia. f_equal. replace (N.to_nat (bl - bl)) with 0%nat by lia.
      replace (N.to_nat bl - N.to_nat cs)%nat with 0%nat by lia. reflexivity.
    + rewrite N.min_l by lia.
      rewrite (@firstn_all2 _ (N.to_nat cs) (d c)), (@firstn_all2 _ (N.to_nat bl) (d c)) by (rewrite Hd; lia).
      f_equal. f_equal. lia.
Qed.

Lemma ext_sizes_total : forall l bl, bl <= N.of_nat (length l) * cs -> ext_total (ext_sizes l bl) = bl.
Proof.
  induction l as [|c r IH]; intros bl H.
  - cbn [length N.of_nat] in H. cbn. lia.
  - cbn [ext_sizes ext_total fold_right snd]. fold (ext_total (ext_sizes r (bl - N.min cs bl))).
    rewrite IH; [lia|]. cbn [length] in H. nia.
Qed.

Lemma inv_capacity w h sz l : FileInv w h sz l -> sz <= N.of_nat (length l) * cs.
Proof.
  intros I. rewrite (inv_len _ _ _ _ I). destruct (N.eq_dec sz 0) as [->|Hz]; [lia|].
  apply (cdiv_bounds cs Hcs sz). lia.
Qed.

Lemma content_length w h sz l : WorldInv w -> FileInv w h sz l -> len_N (content w l sz) = sz.
Proof.
  intros (_ & _ & Hd) I. unfold len_N, content. rewrite firstn_length, (cat_length _ (N.to_nat cs)) by exact Hd.
  pose proof (inv_capacity _ _ _ _ I). nia.
Qed.

(* the extents list the clusters of the chain in order; their sizes sum to the file size and the bytes found
   at those extents are the content *)
Theorem file_extents_spec w h sz l :
  WorldInv w -> FileInv w h sz l ->
  exists ex, file_extents T get cs total w h = Ok ex /\ map fst ex = l /\ ext_total ex = sz /\
             ext_bytes (w_data T w) ex = content w l sz /\
             forall e, In e ex -> 0 <= snd e <= cs.
Proof.
  intros W I. exists (ext_sizes l sz). split; [|split; [apply ext_sizes_fst|split; [|split]]].
  - unfold file_extents. rewrite (inv_size_eq _ _ _ _ I).
    pose proof (inv_chain _ _ _ _ I) as Hc. destruct (h_first h) as [f|]; [|subst l; reflexivity].
    destruct (chain_head T val _ _ _ Hc) as [l' ->].
    rewrite (ext_walk_chain (w_fat T w) (W_inv _ W) l' f (sz - N.min cs sz) (chain_fuel total) Hc (fun x Hx => inv_okc _ _ _ _ x I Hx)).
    + reflexivity.
    + pose proof (chain_fuel_ok _ _ _ _ I) as F. cbn [length] in F. lia.
  - apply ext_sizes_total. exact (inv_capacity _ _ _ _ I).
  - unfold content. apply ext_sizes_bytes. apply (W_data _ W).
  - clear. revert sz. induction l as [|c r IH]; intros sz e He; [destruct He|].
    cbn [ext_sizes] in He. destruct He as [<-|He]; [cbn [snd]; lia|exact (IH _ e He)].
Qed.

(* ------------------------------------------------------------ one step refines the byte-array machine *)
Definition disjoint (a b : list N) : Prop := forall x, In x a -> In x b -> False.

Lemma bytes_eqb_refl : forall a, bytes_eqb a a = true.
Proof.
  unfold bytes_eqb. intros a. rewrite Nat.eqb_refl. cbn [andb].
  induction a as [|x a IH]; [reflexivity|]. cbn [combine forallb fst snd]. rewrite N.eqb_refl. exact IH.
Qed.

Lemma firstn_incl {A} (l : list A) n x : In x (firstn n l) -> In x l.
Proof. intros H. rewrite <- (firstn_skipn n l). apply in_or_app. left. exact H. Qed.

Theorem file_step_refines w h sz l op :
  WorldInv w -> FileInv w h sz l ->
  exists w' h' r sz' l', file_step T get set cs total w h op = (w', h', r) /\
    WorldInv w' /\ FileInv w' h' sz' l' /\
    bf_step (content w l sz, h_off h) op r = Some (content w' l' sz', h_off h') /\
    (forall h2 sz2 l2, FileInv w h2 sz2 l2 -> disjoint l l2 ->
       FileInv w' h2 sz2 l2 /\ content w' l2 sz2 = content w l2 sz2 /\ disjoint l' l2).
Proof.
  intros W I. pose proof (content_length _ _ _ _ W I) as Lc.
  assert (forall h2 sz2 l2, FileInv w h2 sz2 l2 -> disjoint l l2 ->
            FileInv w h2 sz2 l2 /\ content w l2 sz2 = content w l2 sz2 /\ disjoint l l2) as Hsame
    by (intros h2 sz2 l2 I2 D; split; [exact I2|split; [reflexivity|exact D]]).
  destruct op as [n|d|p|]; unfold file_step.
  - (* read *)
    destruct (file_read_spec w h sz l n W I) as (h' & bs & Hr & Hbs & Hk1 & Hk2 & Ho & I').
    rewrite Hr. cbn [of_res]. exists w, h', (RBytes bs), sz, l. split; [reflexivity|]. split; [exact W|]. split; [exact I'|].
    split; [|exact Hsame]. cbn [bf_step]. rewrite Lc.
    destruct (N.leb_spec (len_N bs) (N.min n (sz - h_off h))) as [_|]; [|lia]. cbn [andb].
    assert (((0 <? len_N bs) || (N.min n (sz - h_off h) =? 0)) = true) as ->.
    { destruct Hk2 as [Hp|Hz]; [apply N.ltb_lt in Hp; rewrite Hp; reflexivity|rewrite Hz, N.eqb_refl; apply orb_true_r]. }
    cbn [andb]. rewrite <- Hbs, bytes_eqb_refl, Ho. reflexivity.
  - (* write *)
    pose proof (file_write_spec w h sz l d W I) as Hw.
    destruct (file_write T get set cs total w h d) as [[[w' h'] k]|e| |]; cbn [of_res]; [| |contradiction|contradiction].
    + destruct Hw as (Hk1 & Hk2 & Ho & l' & Hl' & I' & W' & Hcont & Hvfr & Hdfr).
      exists w', h', (RCount k), (N.max sz (h_off h + k)), l'. split; [reflexivity|]. split; [exact W'|]. split; [exact I'|]. split.
      * cbn [bf_step]. destruct (N.leb_spec k (len_N d)) as [_|]; [|lia]. cbn [andb].
        assert (((0 <? k) || (len_N d =? 0) || (h_off h =? MAX_FILE_SIZE)) = true) as ->.
        { destruct Hk2 as [Hp|[->|Hm]].
          - apply N.ltb_lt in Hp. rewrite Hp. reflexivity.
          - cbn [len_N length N.of_nat N.eqb]. rewrite orb_true_r. reflexivity.
          - unfold MAX_FILE_SIZE. rewrite Hm, N.eqb_refl. apply orb_true_r. }
        rewrite Hcont, Ho. reflexivity.
      * intros h2 sz2 l2 I2 D.
        assert (disjoint l' l2) as D'.
        { destruct Hl' as [->|(c & -> & Hcf & _)]; [exact D|]. intros x Hx Hx2. apply in_app_or in Hx.
          destruct Hx as [Hx|[<-|[]]]; [exact (D x Hx Hx2)|]. destruct (inv_range _ _ _ _ I2 c Hx2) as [_ F]. contradiction. }
        split; [|split; [|exact D']].
        -- apply (FileInv_frame w w' h2 sz2 l2 I2). intros x Hx. apply Hvfr; [intros Hin; exact (D' x Hin Hx)|exact (inv_okc _ _ _ _ x I2 Hx)].
        -- apply content_frame. intros x Hx. apply Hdfr. intros Hin. exact (D' x Hin Hx).
    + destruct Hw as (-> & _). exists w, h, (RFail ENotEnoughSpace), sz, l. split; [reflexivity|]. split; [exact W|]. split; [exact I|].
      split; [reflexivity|exact Hsame].
  - (* seek *)
    pose proof (file_seek_spec w h sz l p W I) as Hs. cbv zeta in Hs.
    destruct (Z.ltb_spec (seek_target sz (h_off h) p) 0) as [Hneg|Hpos].
    + rewrite Hs. cbn [of_res]. exists w, h, (RFail EInvalidInput), sz, l. split; [reflexivity|]. split; [exact W|]. split; [exact I|].
      split; [|exact Hsame]. cbn [bf_step]. rewrite Lc. destruct (Z.ltb_spec (seek_target sz (h_off h) p) 0) as [_|]; [reflexivity|lia].
    + destruct Hs as (h' & Hr & Ho & I'). rewrite Hr. cbn [of_res].
      exists w, h', (RPos (N.min (Z.to_N (seek_target sz (h_off h) p)) sz)), sz, l.
      split; [reflexivity|]. split; [exact W|]. split; [exact I'|]. split; [|exact Hsame].
      cbn [bf_step]. rewrite Lc. destruct (Z.leb_spec 0 (seek_target sz (h_off h) p)) as [_|]; [|lia].
      rewrite N.eqb_refl. cbn [andb]. rewrite Ho. reflexivity.
  - (* truncate *)
    destruct (file_truncate_spec w h sz l W I) as (w' & h' & Hr & Hd & Ho & I' & W' & Hcont & _ & Hvfr & _).
    rewrite Hr. cbn [of_res]. eexists w', h', RDone, (h_off h), _. split; [reflexivity|]. split; [exact W'|]. split; [exact I'|].
    split; [cbn [bf_step]; rewrite Hcont, Ho; reflexivity|].
    intros h2 sz2 l2 I2 D. split; [|split].
    + apply (FileInv_frame w w' h2 sz2 l2 I2). intros x Hx. apply Hvfr; [intros Hin; exact (D x Hin Hx)|exact (inv_okc _ _ _ _ x I2 Hx)].
    + apply content_frame. intros x _. rewrite Hd. reflexivity.
    + intros x Hx Hx2. exact (D x (firstn_incl _ _ _ Hx) Hx2).
Qed.

(* ------------------------------------------------------------ histories on one handle *)
Theorem file_run_refines : forall ops w h sz l,
  WorldInv w -> FileInv w h sz l ->
  exists w' h' rs sz' l', file_run T get set cs total w h ops = (w', h', rs) /\
    WorldInv w' /\ FileInv w' h' sz' l' /\
    bf_run (content w l sz, h_off h) ops rs = Some (content w' l' sz', h_off h').
Proof.
  induction ops as [|o ops IH]; intros w h sz l W I.
  - exists w, h, [], sz, l. split; [reflexivity|]. split; [exact W|]. split; [exact I|reflexivity].
  - destruct (file_step_refines w h sz l o W I) as (w1 & h1 & r & sz1 & l1 & Hs & W1 & I1 & Hb & _).
    destruct (IH w1 h1 sz1 l1 W1 I1) as (w2 & h2 & rs & sz2 & l2 & Hr & W2 & I2 & Hbr).
    exists w2, h2, (r :: rs), sz2, l2. split.
    + cbn [file_run]. rewrite Hs, Hr. reflexivity.
    + split; [exact W2|]. split; [exact I2|]. cbn [bf_run]. rewrite Hb. exact Hbr.
Qed.

Definition empty_file : fhandle := file_new None (Some {| ed_first := None; ed_size := Some 0; ed_dirty := false |}).

Lemma empty_file_inv w : FileInv w empty_file 0 [].
Proof.
  constructor; cbn.
  - eexists. split; [reflexivity|]. split; reflexivity.
  - unfold u32_max. lia.
  - reflexivity.
  - constructor.
  - intros x [].
  - rewrite (cdiv_0 cs Hcs). reflexivity.
  - lia.
  - reflexivity.
Qed.

Theorem file_run_from_empty ops w :
  WorldInv w ->
  exists w' h' rs sz' l', file_run T get set cs total w empty_file ops = (w', h', rs) /\
    WorldInv w' /\ FileInv w' h' sz' l' /\ bf_run ([], 0) ops rs = Some (content w' l' sz', h_off h').
Proof.
  intros W. destruct (file_run_refines ops w empty_file 0 [] W (empty_file_inv w)) as (w' & h' & rs & sz' & l' & H).
  exists w', h', rs, sz', l'. exact H.
Qed.

(* ------------------------------------------------------------ several open files, interleaved *)
(* ghost state per handle: (size, chain) *)
Definition MultiInv (w : fworld) (hs : list fhandle) (gs : list (N * list N)) : Prop :=
  length hs = length gs /\
  (forall i h g, nth_error hs i = Some h -> nth_error gs i = Some g -> FileInv w h (fst g) (snd g)) /\
  (forall i j g1 g2, i <> j -> nth_error gs i = Some g1 -> nth_error gs j = Some g2 -> disjoint (snd g1) (snd g2)).

Fixpoint views (w : fworld) (hs : list fhandle) (gs : list (N * list N)) : list (list N * N) :=
  match hs, gs with
  | h :: hs', g :: gs' => (content w (snd g) (fst g), h_off h) :: views w hs' gs'
  | _, _ => []
  end.

Lemma nth_error_views w : forall hs gs i,
  nth_error (views w hs gs) i =
  match nth_error hs i, nth_error gs i with
  | Some h, Some g => Some (content w (snd g) (fst g), h_off h)
  | _, _ => None
  end.
Proof.
  induction hs as [|h hs IH]; intros [|g gs] [|i]; cbn [views nth_error]; try reflexivity.
  - destruct (nth_error hs i); reflexivity.
  - apply IH.
Qed.

Lemma disjoint_sym a b : disjoint a b -> disjoint b a.
Proof. intros H x Hb Ha. exact (H x Ha Hb). Qed.

Theorem multi_run_refines : forall ops w hs gs,
  WorldInv w -> MultiInv w hs gs ->
  exists w' hs' rs gs', multi_run T get set cs total w hs ops = (w', hs', rs) /\
    WorldInv w' /\ MultiInv w' hs' gs' /\
    bf_multi (views w hs gs) ops rs = Some (views w' hs' gs').
Proof.
  induction ops as [|[i o] ops IH]; intros w hs gs W M.
  - exists w, hs, [], gs. split; [reflexivity|]. split; [exact W|]. split; [exact M|reflexivity].
  - destruct M as (ML & MI & MD). cbn [multi_run bf_multi]. rewrite nth_error_views.
    destruct (nth_error hs i) as [h|] eqn:Eh.
    2:{ destruct (IH w hs gs W (conj ML (conj MI MD))) as (w' & hs' & rs & gs' & Hr & H). exists w', hs', rs, gs'. split; [exact Hr|exact H]. }
    assert (i < length hs)%nat as Hi by (apply nth_error_Some; congruence).
    destruct (nth_error gs i) as [g|] eqn:Eg; [|apply nth_error_None in Eg; lia].
    destruct (file_step_refines w h (fst g) (snd g) o W (MI i h g Eh Eg)) as (w1 & h1 & r & sz1 & l1 & Hs & W1 & I1 & Hb & Hfr).
    assert (MultiInv w1 (list_set hs i h1) (list_set gs i (sz1, l1))) as M1.
    { split; [rewrite !list_set_length; exact ML|]. split.
      - intros j h' g' Hh' Hg'. destruct (Nat.eq_dec i j) as [<-|Hij].
        + rewrite nth_error_list_set_eq in Hh' by lia. rewrite nth_error_list_set_eq in Hg' by lia. injection Hh' as <-. injection Hg' as <-. exact I1.
        + rewrite nth_error_list_set_neq in Hh' by exact Hij. rewrite nth_error_list_set_neq in Hg' by exact Hij.
          exact (proj1 (Hfr h' (fst g') (snd g') (MI j h' g' Hh' Hg') (MD i j g g' Hij Eg Hg'))).
      - intros j k g1 g2 Hjk Hg1 Hg2.
        destruct (Nat.eq_dec i j) as [<-|Hij]; [|destruct (Nat.eq_dec i k) as [<-|Hik]].
        + rewrite nth_error_list_set_eq in Hg1 by lia. injection Hg1 as <-. rewrite nth_error_list_set_neq in Hg2 by exact Hjk.
          destruct (nth_error hs k) as [hk|] eqn:Ehk; [|apply nth_error_None in Ehk; apply nth_error_Some_len in Hg2; lia].
          exact (proj2 (proj2 (Hfr hk (fst g2) (snd g2) (MI k hk g2 Ehk Hg2) (MD i k g g2 Hjk Eg Hg2)))).
        + rewrite nth_error_list_set_eq in Hg2 by lia. injection Hg2 as <-. rewrite nth_error_list_set_neq in Hg1 by exact Hij.
          destruct (nth_error hs j) as [hj|] eqn:Ehj; [|apply nth_error_None in Ehj; apply nth_error_Some_len in Hg1; lia].
          apply disjoint_sym. exact (proj2 (proj2 (Hfr hj (fst g1) (snd g1) (MI j hj g1 Ehj Hg1) (MD i j g g1 Hij Eg Hg1)))).
        + rewrite nth_error_list_set_neq in Hg1 by assumption. rewrite nth_error_list_set_neq in Hg2 by assumption. exact (MD j k g1 g2 Hjk Hg1 Hg2). }
    destruct (IH w1 (list_set hs i h1) (list_set gs i (sz1, l1)) W1 M1) as (w2 & hs2 & rs & gs2 & Hr & W2 & M2 & Hbr).
    exists w2, hs2, (r :: rs), gs2. rewrite Hs, Hr. split; [reflexivity|]. split; [exact W2|]. split; [exact M2|].
    rewrite Hb.
    assert (list_set (views w hs gs) i (content w1 l1 sz1, h_off h1) = views w1 (list_set hs i h1) (list_set gs i (sz1, l1))) as ->; [|exact Hbr].
    apply nth_error_ext_eq. intros j. rewrite nth_error_views. destruct (Nat.eq_dec i j) as [<-|Hij].
    + rewrite !nth_error_list_set_eq; [reflexivity|lia|lia|].
      assert (nth_error (views w hs gs) i <> None) as Hv by (rewrite nth_error_views, Eh, Eg; discriminate).
      apply nth_error_Some in Hv. exact Hv.
    + rewrite !nth_error_list_set_neq by exact Hij. rewrite nth_error_views.
      destruct (nth_error hs j) as [hj|] eqn:Ehj; [|reflexivity]. destruct (nth_error gs j) as [gj|] eqn:Egj; [|reflexivity].
      rewrite (proj1 (proj2 (Hfr hj (fst gj) (snd gj) (MI j hj gj Ehj Egj) (MD i j g gj Hij Eg Egj)))). reflexivity.
Qed.

End FileLaws.
