(* FormatImageAbs.v: tie of C06 to the independent decoder Spec/Abs.v: the image written by format_volume decodes to the
   geometry of its boot sector and to the empty volume (no entry, no decode issue, the label, the root chain [2] on FAT32,
   FS-info words, free count), and Spec/Wf.v finds no well-formedness issue. *)
From Coq Require Import NArith ZArith Lia List Bool.
From FatVerif Require Import Model.Base Model.Slot Model.Table Spec.Image Model.Fat Model.Format Spec.FormatSpec
  Model.FormatImage Spec.FormatImageSpec Proofs.BaseProofs Proofs.ImageProofs Proofs.TableProofs Proofs.FatProofs Proofs.FormatProofs
  Proofs.FormatImageProofs.
From FatVerif Require Spec.Abs Spec.Wf.
Import ListNotations.
Open Scope N_scope.
Ltac Zify.zify_post_hook ::= Z.to_euclidean_division_equations.

(* field widths *)
Definition fields_ok (b : fbpb) : Prop :=
  fb_bytes_per_sector b < 65536 /\ fb_sectors_per_cluster b < 256 /\ fb_reserved_sectors b < 65536 /\ fb_fats b < 256 /\
  fb_root_entries b < 65536 /\ fb_total_sectors_16 b < 65536 /\ fb_media b < 256 /\ fb_sectors_per_fat_16 b < 65536 /\
  fb_total_sectors_32 b < 4294967296 /\ fb_sectors_per_fat_32 b < 4294967296 /\ fb_extended_flags b < 65536 /\
  fb_root_dir_first_cluster b < 4294967296 /\ fb_fs_info_sector b < 65536 /\ fb_backup_boot_sector b < 65536 /\
  (fb_is_fat32 b = false -> fb_extended_flags b = 0 /\ fb_root_dir_first_cluster b = 0 /\ fb_fs_info_sector b = 0 /\
                            fb_backup_boot_sector b = 0).

Lemma u16_le v : v < 65536 -> v mod 256 + 256 * ((v / 256) mod 256) = v.
Proof. intros H. lia. Qed.
Lemma u32_le v : v < 4294967296 ->
  v mod 256 + 256 * ((v / 256) mod 256) + 65536 * ((v / 256 / 256) mod 256 + 256 * ((v / 256 / 256 / 256) mod 256)) = v.
Proof. intros H. lia. Qed.

Lemma parse_geom_serialized im b t : fields_ok b ->
  (forall i, (i < 512)%nat -> img_get im (N.of_nat i) = nth i (fmt_serialize_boot (format_boot_sector_with b t)) 0) ->
  Abs.parse_geom im = geom_of b.
Proof.
  intros (B1 & B2 & B3 & B4 & B5 & B6 & B7 & B8 & B9 & B10 & B11 & B12 & B13 & B14 & B15) H.
  assert (forall k, (k <? 512)%nat = true -> img_get im (N.of_nat k) = nth k (fmt_serialize_boot (format_boot_sector_with b t)) 0) as H'.
  { intros k Hk. apply H. apply Nat.ltb_lt. exact Hk. }
  unfold Abs.parse_geom, geom_of, img_u32, img_u16.
  repeat match goal with |- context [img_get im ?p] =>
    let k := eval vm_compute in (N.to_nat p) in
    replace (img_get im p) with (nth k (fmt_serialize_boot (format_boot_sector_with b t)) 0)
      by (symmetry; apply (H' k); reflexivity)
  end.
  unfold fmt_serialize_boot, format_boot_sector_with, sp_total_sectors, sp_fat_size.
  destruct (negb (fat_type_eqb t Format.Fat32)); cbn [fbs_bootjmp fbs_oem_name fbs_bpb];
    unfold oem_name_mswin41, fmt_serialize_bpb; destruct (fb_is_fat32 b) eqn:E32; cbn [le_encode app nth];
    unfold fb_is_fat32 in E32;
    rewrite ?(u16_le _ B1), ?(u16_le _ B3), ?(u16_le _ B5), ?(u16_le _ B6), ?(u16_le _ B8), ?(u16_le _ B11), ?(u16_le _ B13),
      ?(u16_le _ B14), ?(u32_le _ B9), ?(u32_le _ B10), ?(u32_le _ B12), ?(N.mod_small _ _ B2), ?(N.mod_small _ _ B4),
      ?(N.mod_small _ _ B7), ?E32;
    try reflexivity.
  all: destruct (B15 eq_refl) as (-> & -> & -> & ->); reflexivity.
Qed.

(* ------------------------------------------------------------------ the fields of an accepted boot sector fit their widths *)
Lemma accepted_fields o ts bs t : builder_range o -> ts < 4294967296 ->
  format_boot_sector_validated o ts = Ok (bs, t) -> fields_ok (fbs_bpb bs) /\ fb_reserved_1 (fbs_bpb bs) = 0.
Proof.
  intros Hb Hts. assert (ts <= 4294967295) as Hts' by lia. rewrite format_eq by assumption. intros H.
  destruct (format_pure_ok_inv _ _ _ _ H) as (spf & Hin & Hspc & Hok & Hspf & Hlate & ->).
  pose proof (try_ok_facts o ts _ t Hb Hts' Hspc Hok) as Hf.
  pose proof (builder_bps o Hb) as [Hbin Hbps].
  pose proof Hb as (_ & _ & _ & Hroot & Hfats & Hmedia & _).
  destruct Hf as [F1 F2 F3 F4 F5 F6]. rewrite <- Hspf in *.
  unfold late_reject, validate_rejects in Hlate. rewrite !orb_false_iff in Hlate.
  destruct Hlate as (L1 & L2 & L3). apply N.ltb_ge in L2.
  rewrite boot_with_bpb. pose proof (reserved_of_cases t) as Hr.
  split; [|reflexivity].
  unfold fields_ok. rewrite mk_bpb_is32 by lia.
  cbn [mk_bpb fb_bytes_per_sector fb_sectors_per_cluster fb_reserved_sectors fb_fats fb_root_entries fb_total_sectors_16 fb_media
    fb_sectors_per_fat_16 fb_total_sectors_32 fb_sectors_per_fat_32 fb_extended_flags fb_root_dir_first_cluster fb_fs_info_sector
    fb_backup_boot_sector].
  unfold u16_max.
  destruct (fat_type_eqb t Format.Fat32) eqn:E32.
  - cbn [negb andb] in *. change (0 =? 0) with true. cbv iota. repeat split; try lia; try (intros; discriminate).
  - cbn [negb andb] in L1. apply N.ltb_ge in L1.
    destruct (65535 <? ts) eqn:Ets; [|apply N.ltb_ge in Ets].
    + change (0 =? 0) with true. cbv iota. repeat split; try lia; intros _; repeat split.
    + destruct (ts =? 0) eqn:E0; repeat split; try lia; intros _; repeat split.
Qed.

(* ------------------------------------------------------------------ the decoder's geometry *)
Lemma g_clusters_of b : 1 <= fb_bytes_per_sector b -> Abs.g_clusters (geom_of b) = sp_clusters b.
Proof.
  intros H. unfold Abs.g_clusters, Abs.g_first_data, Abs.g_root_sectors, geom_of, sp_clusters, sp_meta_sectors, sp_root_dir_sectors.
  cbn [Abs.g_total_sectors Abs.g_reserved Abs.g_fats Abs.g_spf Abs.g_root_entries Abs.g_bps Abs.g_spc].
  replace (fb_root_entries b * 32 + fb_bytes_per_sector b - 1) with (fb_root_entries b * 32 + (fb_bytes_per_sector b - 1)) by lia.
  reflexivity.
Qed.

Lemma g_bits_of b t : 1 <= fb_bytes_per_sector b -> from_clusters (sp_clusters b) = t ->
  Abs.g_bits (geom_of b) = bits_per_fat_entry t.
Proof.
  intros H Ht. unfold Abs.g_bits. rewrite (g_clusters_of b H). unfold from_clusters in Ht.
  destruct (sp_clusters b <? 4085); [subst t; reflexivity|]. destruct (sp_clusters b <? 65525); subst t; reflexivity.
Qed.

Definition conv (v : fatv) : Abs.fatval :=
  match v with Free => Abs.FFree | Bad => Abs.FBad | Eoc => Abs.FEoc | Data n => Abs.FNext n end.

Lemma g_active_0 b : fb_extended_flags b = 0 -> Abs.g_active (geom_of b) = 0.
Proof.
  intros H. unfold Abs.g_active, Abs.g_mirroring. cbn [geom_of Abs.g_ext_flags]. rewrite H.
  destruct (Abs.g_bits _ =? 32); reflexivity.
Qed.

(* the decoder's view of a FAT entry is the store view of FatProofs (below the FAT32 special cluster numbers) *)
Lemma fat_val_conv im b t c : 1 <= fb_bytes_per_sector b -> fb_extended_flags b = 0 -> from_clusters (sp_clusters b) = t ->
  c < 268435447 ->
  Abs.fat_val (geom_of b) im c = conv (val_ft (to_fat_type t) (fi_fat_store im b) c).
Proof.
  intros Hb Hfl Ht Hc. unfold Abs.fat_val, Abs.fat_raw, Abs.fat_classify.
  rewrite (g_active_0 b Hfl), (g_bits_of b t Hb Ht).
  assert (Abs.g_fat_off (geom_of b) 0 = fi_fat_pos b) as ->.
  { unfold Abs.g_fat_off, fi_fat_pos. cbn [geom_of Abs.g_reserved Abs.g_spf Abs.g_bps]. rewrite N.mul_0_l, N.add_0_r. reflexivity. }
  set (p := fi_fat_pos b).
  destruct t; cbn [bits_per_fat_entry to_fat_type val_ft N.eqb Pos.eqb].
  - unfold val12, raw12_at, word12, ebyte, img_u16, off12. cbn [fi_fat_store fs_img fs_base]. fold p.
    replace (p + c + c / 2) with (p + (c + c / 2)) by lia. replace (p + (c + c / 2) + 1) with (p + (c + c / 2 + 1)) by lia.
    set (w := img_get im (p + (c + c / 2)) + 256 * img_get im (p + (c + c / 2 + 1))).
    set (v := if c mod 2 =? 0 then w mod 4096 else w / 16). unfold classify12.
    change (4095 - 8) with 4087. change (4095 - 7) with 4088.
    destruct (v =? 0); [reflexivity|]. destruct (v =? 4087); [reflexivity|]. destruct (4088 <=? v); reflexivity.
  - unfold val16, word16, ebyte, img_u16. cbn [fi_fat_store fs_img fs_base]. fold p.
    replace (p + 2 * c + 1) with (p + (2 * c + 1)) by lia.
    set (v := img_get im (p + 2 * c) + 256 * img_get im (p + (2 * c + 1))). unfold classify16.
    change (65535 - 8) with 65527. change (65535 - 7) with 65528.
    destruct (v =? 0); [reflexivity|]. destruct (v =? 65527); [reflexivity|]. destruct (65528 <=? v); reflexivity.
  - unfold val32, word32, ebyte, img_u32, img_u16. cbn [fi_fat_store fs_img fs_base]. fold p.
    replace (p + 4 * c + 1) with (p + (4 * c + 1)) by lia. replace (p + 4 * c + 2) with (p + (4 * c + 2)) by lia.
    replace (p + (4 * c + 2) + 1) with (p + (4 * c + 3)) by lia.
    set (w := img_get im (p + 4 * c) + 256 * img_get im (p + (4 * c + 1)) +
              65536 * (img_get im (p + (4 * c + 2)) + 256 * img_get im (p + (4 * c + 3)))).
    replace (img_get im (p + 4 * c) + 256 * img_get im (p + (4 * c + 1)) + 65536 * img_get im (p + (4 * c + 2)) +
             16777216 * img_get im (p + (4 * c + 3))) with w by (unfold w; lia).
    set (v := w mod 268435456). unfold classify32. rewrite (special32_small c Hc).
    change (268435455 - 8) with 268435447. change (268435455 - 7) with 268435448.
    destruct (v =? 0); [reflexivity|]. destruct (v =? 268435447); [reflexivity|]. destruct (268435448 <=? v); reflexivity.
Qed.

Lemma count_free_from_cnt g im f : forall n c, (forall x, c <= x < c + N.of_nat n -> Abs.fat_val g im x = conv (f x)) ->
  Abs.count_free_from g im c n = cnt f c n.
Proof.
  induction n as [|n IH]; intros c H; cbn [Abs.count_free_from cnt]; [reflexivity|].
  rewrite (H c) by lia. rewrite IH by (intros x Hx; apply H; lia). destruct (f c); reflexivity.
Qed.

Lemma lost_from_nil g im owned : forall n c,
  (forall x, c <= x < c + N.of_nat n ->
     Abs.fat_val g im x = Abs.FFree \/ Abs.fat_val g im x = Abs.FBad \/
     FMapPositive.PositiveMap.find (N.succ_pos x) owned = Some tt) ->
  Wf.lost_from g im owned c n = [].
Proof.
  induction n as [|n IH]; intros c H; cbn [Wf.lost_from]; [reflexivity|].
  rewrite IH by (intros x Hx; apply H; lia). rewrite app_nil_r.
  destruct (H c ltac:(lia)) as [-> |[-> | Hf]]; try reflexivity. rewrite Hf. destruct (Abs.fat_val g im c); reflexivity.
Qed.

(* ================================================================== (g) the image decodes to the empty volume *)
Theorem image_decodes_empty o ts im0 bs t im fold : builder_range o -> ts < 4294967296 -> bytes_ok im0 ->
  format_boot_sector_validated o ts = Ok (bs, t) -> format_image o ts im0 = Ok im ->
  let b := fbs_bpb bs in
  let total := sp_clusters b in
  let v := Abs.abs im in
  Abs.parse_geom im = geom_of b /\
  Abs.g_clusters (geom_of b) = total /\ Abs.g_bits (geom_of b) = bits_per_fat_entry t /\
  Abs.v_root v = [] /\ Abs.v_root_issues v = [] /\ Abs.v_labels v = expected_labels o /\
  Abs.v_root_chain v = (if sp_is32 t then Some [2] else None) /\
  (t = Format.Fat32 -> Abs.v_fsinfo_free v = Abs.count_free (Abs.parse_geom im) im /\ Abs.v_fsinfo_next v = 3) /\
  Abs.count_free (Abs.parse_geom im) im = (if sp_is32 t then total - 1 else total) - bad_range_clusters total /\
  Wf.wf_issues fold im = [].
Proof.
  intros Hb Hts Hb0 Hv E b total v.
  destruct (accepted_geo o ts bs t Hb Hts Hv) as (g & Hg & Hbf & Hbs & Hlen & Hbok & Hmed & Hbps & Hfats & T1 & T3 & T5 & H16).
  destruct (accepted_fields o ts bs t Hb Hts Hv) as [Hfields Hres1].
  destruct (image_boot_sector o ts im0 bs t im Hb Hts Hb0 Hv E) as (Hboot & _ & _).
  destruct (image_root_dir o ts im0 bs t im Hb Hts Hb0 Hv E) as (_ & Hscan).
  destruct (image_fat o ts im0 bs t im Hb Hts Hb0 Hv E) as (_ & _ & Hdata & _). cbv zeta in Hdata.
  destruct (image_free_space o ts im0 bs t im Hb Hts Hb0 Hv E) as (Hcount & _ & Hfsi). cbv zeta in Hcount, Hfsi.
  destruct (format_ok_valid o ts bs t Hb Hts Hv) as (_ & _ & _ & _ & _ & _ & _ & _ & _ & Hre & _).
  fold b in Hbf, T1, T3, T5, Hfields, Hres1, Hscan, Hdata, Hcount, Hfsi, Hre. fold total in Hdata, Hcount, Hfsi, T5.
  pose proof (geo_bps g t Hg) as HB. rewrite <- (bf_bps _ _ _ Hbf) in HB.
  assert (1 <= fb_bytes_per_sector b) as Hb1 by lia.
  assert (from_clusters total = t) as Hty by (rewrite <- T5; apply Hg).
  pose proof (bf_flags _ _ _ Hbf) as Hfl.
  assert (total <= max_clusters t) as Hmax by (rewrite <- T5; apply Hg).
  (* geometry *)
  assert (Abs.parse_geom im = geom_of b) as Hpg.
  { apply (parse_geom_serialized im b t Hfields). intros i Hi. unfold b. rewrite <- Hbs. rewrite <- Hboot.
    rewrite img_read_nth by exact Hi. reflexivity. }
  pose proof (g_clusters_of b Hb1) as Hcl. fold total in Hcl.
  pose proof (g_bits_of b t Hb1 Hty) as Hbits.
  assert (forall c, c < total + 2 -> Abs.fat_val (geom_of b) im c = conv (val_ft (to_fat_type t) (fi_fat_store im b) c)) as Hconv.
  { intros c Hc. apply fat_val_conv; try assumption. destruct t; cbn [max_clusters] in Hmax; lia. }
  (* root directory *)
  assert (exists ss, Abs.root_slots (geom_of b) im = ((if sp_is32 t then Some [2] else None), ss) /\
                     Abs.dir_scan ss 0 [] (Abs.g_bits (geom_of b) =? 32) = ([], expected_labels o, [])) as (ss & Hrs & Hds).
  { unfold Abs.root_slots. rewrite Hbits. destruct t; cbn [bits_per_fat_entry N.eqb Pos.eqb sp_is32].
    - eexists. split; [reflexivity|]. 
      change (Abs.g_root_off (geom_of b)) with (fi_root_pos b). cbn [geom_of Abs.g_root_entries].
      destruct (H16 ltac:(discriminate)) as (Hne & Hrds & _). cbn [fat_type_eqb] in Hre.
      apply Hscan.
      + rewrite Hre. lia.
      + unfold fi_root_len. cbn [sp_is32]. rewrite <- T3, Hrds, (bf_bps _ _ _ Hbf), Hre.
        pose proof (geo_bps g _ Hg). rewrite N2Nat.id. 
        pose proof (N.div_mod (o_max_root_dir_entries o * 32 + q_bps g - 1) (q_bps g) ltac:(lia)).
        pose proof (N.mod_lt (o_max_root_dir_entries o * 32 + q_bps g - 1) (q_bps g) ltac:(lia)). nia.
    - eexists. split; [reflexivity|].
      change (Abs.g_root_off (geom_of b)) with (fi_root_pos b). cbn [geom_of Abs.g_root_entries].
      destruct (H16 ltac:(discriminate)) as (Hne & Hrds & _). cbn [fat_type_eqb] in Hre.
      apply Hscan.
      + rewrite Hre. lia.
      + unfold fi_root_len. cbn [sp_is32]. rewrite <- T3, Hrds, (bf_bps _ _ _ Hbf), Hre.
        pose proof (geo_bps g _ Hg). rewrite N2Nat.id. 
        pose proof (N.div_mod (o_max_root_dir_entries o * 32 + q_bps g - 1) (q_bps g) ltac:(lia)).
        pose proof (N.mod_lt (o_max_root_dir_entries o * 32 + q_bps g - 1) (q_bps g) ltac:(lia)). nia.
    - cbn [geom_of Abs.g_root_cluster]. rewrite (bf_rootcl _ _ _ Hbf). unfold if32. cbn [fat_type_eqb].
      unfold Abs.chain_fuel. cbn [Abs.chain_from].
      assert (65525 <= total) as Htot.
      { unfold from_clusters in Hty. destruct (total <? 4085); [discriminate|]. destruct (total <? 65525) eqn:E2; [discriminate|].
        apply N.ltb_ge in E2. exact E2. }
      assert (Abs.in_range (geom_of b) 2 = true) as ->.
      { unfold Abs.in_range. rewrite Hcl. apply andb_true_iff. split; [reflexivity|apply N.ltb_lt; lia]. }
      rewrite (Hconv 2 ltac:(lia)). rewrite (Hdata 2 ltac:(lia)). cbn [sp_is32 andb N.eqb Pos.eqb conv].
      eexists. split; [reflexivity|].
      unfold Abs.chain_bytes. cbn [flat_map]. rewrite app_nil_r. unfold Abs.cluster_bytes.
      cbn [fat_type_eqb] in Hre.
      assert (Abs.g_cluster_off (geom_of b) 2 = fi_root_pos b) as ->.
      { unfold Abs.g_cluster_off, Abs.g_first_data, Abs.g_root_sectors, fi_root_pos.
        cbn [geom_of Abs.g_reserved Abs.g_fats Abs.g_spf Abs.g_root_entries Abs.g_bps Abs.g_spc]. rewrite Hre.
        replace ((0 * 32 + fb_bytes_per_sector b - 1) / fb_bytes_per_sector b) with 0 by (symmetry; apply N.div_small; lia).
        lia. }
      apply Hscan.
      + unfold Abs.g_cluster_size. cbn [geom_of Abs.g_bps Abs.g_spc].
        destruct Hg as (_ & Hspc & _). rewrite <- (bf_spc _ _ _ Hbf) in Hspc. nia.
      + unfold fi_root_len, Abs.g_cluster_size. cbn [sp_is32 geom_of Abs.g_bps Abs.g_spc]. rewrite N2Nat.id. lia. }
  (* the decoded volume *)
  assert (Abs.abs im = {| Abs.v_geom := geom_of b; Abs.v_root_chain := (if sp_is32 t then Some [2] else None);
                          Abs.v_root := []; Abs.v_root_issues := []; Abs.v_labels := expected_labels o;
                          Abs.v_status := img_get im (Abs.g_status_off (geom_of b));
                          Abs.v_fsinfo_free := (if Abs.g_bits (geom_of b) =? 32
                                                then img_u32 im (Abs.g_fsinfo_sector (geom_of b) * Abs.g_bps (geom_of b) + 488) else 0);
                          Abs.v_fsinfo_next := (if Abs.g_bits (geom_of b) =? 32
                                                then img_u32 im (Abs.g_fsinfo_sector (geom_of b) * Abs.g_bps (geom_of b) + 492) else 0) |}) as Habs.
  { unfold Abs.abs. rewrite Hpg. cbv zeta. rewrite Hrs. rewrite Hds. reflexivity. }
  split; [exact Hpg|]. split; [exact Hcl|]. split; [exact Hbits|].
  unfold v. rewrite Habs. cbn [Abs.v_root Abs.v_root_issues Abs.v_labels Abs.v_root_chain Abs.v_fsinfo_free Abs.v_fsinfo_next].
  split; [reflexivity|]. split; [reflexivity|]. split; [reflexivity|]. split; [reflexivity|].
  assert (Abs.count_free (Abs.parse_geom im) im =
          count_spec fstore (val_ft (to_fat_type t)) (fi_fat_store im b) 2 (N.to_nat total)) as Hcf.
  { rewrite Hpg. unfold Abs.count_free. rewrite Hcl.
    apply (count_free_from_cnt (geom_of b) im (val_ft (to_fat_type t) (fi_fat_store im b))).
    intros x Hx. apply Hconv. lia. }
  split.
  { intros E32. destruct (Hfsi E32) as (_ & _ & W1 & W2 & _). rewrite Hbits, E32. cbn [bits_per_fat_entry N.eqb Pos.eqb].
    change (Abs.g_fsinfo_sector (geom_of b) * Abs.g_bps (geom_of b)) with (fi_fsinfo_pos b).
    split; [rewrite Hcf; exact W1|exact W2]. }
  split; [rewrite Hcf; exact Hcount|].
  (* no well-formedness issue *)
  unfold Wf.wf_issues. rewrite Habs.
  cbn [Abs.v_geom Abs.v_root_chain Abs.v_root Abs.v_root_issues]. rewrite Hbits.
  destruct t; cbn [bits_per_fat_entry N.eqb Pos.eqb sp_is32 app Wf.nodes_chains flat_map concat Wf.own_clusters map
                   Wf.names_issues Wf.has_dup Wf.nodes_issues filter Wf.depth_exceeded existsb Abs.MAX_DEPTH];
    rewrite ?app_nil_r; cbn [app].
  - rewrite Hcl. apply lost_from_nil. intros x Hx. rewrite (Hconv x ltac:(lia)), (Hdata x ltac:(lia)). cbn [sp_is32 andb].
    unfold data_val. destruct (268435440 <=? x); cbn [conv]; auto.
  - rewrite Hcl. apply lost_from_nil. intros x Hx. rewrite (Hconv x ltac:(lia)), (Hdata x ltac:(lia)). cbn [sp_is32 andb].
    unfold data_val. destruct (268435440 <=? x); cbn [conv]; auto.
  - change (FMapPositive.PositiveMap.find (N.succ_pos 2) (FMapPositive.PositiveMap.empty unit)) with (@None unit).
    cbv iota. cbn [app]. rewrite ?app_nil_r. rewrite Hcl. apply lost_from_nil. intros x Hx.
    rewrite (Hconv x ltac:(lia)), (Hdata x ltac:(lia)). cbn [sp_is32 andb].
    destruct (N.eqb_spec x 2) as [->|Hne].
    + right; right. reflexivity.
    + unfold data_val. destruct (268435440 <=? x); cbn [conv]; auto.
Qed.
