(* VolDirTreeProofs.v: what is PROVED IN GENERAL about Model/VolDirTree.v (every image, every name, every clock value):
   - the outcome equations of create_dir in the fixed root, one per path of the code: an existing directory / a failing check /
     a failing allocation hand the image and the latch back UNCHANGED; a failing entry write after a successful allocation
     answers the entry write's error with the state AFTER free_cluster_chain (fix D25) - [vol_create_dir_gives_back]; success;
   - inversion: a create_dir that does not create leaves image and latch as they were UNLESS the allocation had succeeded
     ([vol_create_dir_not_created_cases]) - there is no other path that writes;
   - remove of a directory: every answer other than Ok hands image and latch back unchanged ([vol_remove_dir_failed_unchanged]);
     a directory that is not empty for the code is DirectoryIsNotEmpty ([vol_remove_dir_nonempty]); success is the FAT release
     followed by the deletion loop ([vol_remove_dir_empty_unfold]); a file is not this function's business.
   NOT proved in general here (stated in Props/C01.v, C03.v, C05.v as comments next to the `_partial` theorems; computed on a
   concrete volume in Proofs/VolDirTreeExamples.v; compared byte for byte with the library by tools/props/cvoltree_corr.py):
   the decode (Spec/Abs.abs) of the image after a successful create_dir / remove, the accounting and the preservation of
   Spec/Wf.wf_issues = []. *)
From Coq Require Import NArith ZArith Lia List Bool Arith.
From FatVerif Require Import Model.Base Model.Str Model.Slot Model.Time Model.Name Model.Table Model.Fat Model.FileM Model.DirSlots
  Model.VolDir Model.VolFile Model.VolChainDir Model.VolChainGrow Model.VolRemove Model.VolDirTree Spec.Image Spec.Abs
  Proofs.ImageProofs Proofs.TableProofs Proofs.FatProofs Proofs.CrossProofs Proofs.RegionsProofs Proofs.DirSlotsProofs Proofs.VolDirProofs Proofs.VolFileProofs
  Proofs.VolSessionProofs Proofs.VolRemoveProofs Proofs.VolChainGrowProofs.
From FatVerif Require Model.Lfn Spec.Wf.
Import ListNotations.
Open Scope N_scope.
Ltac Zify.zify_post_hook ::= Z.to_euclidean_division_equations.

Lemma forallb_false_ex {A} (f : A -> bool) (l : list A) : forallb f l = false -> exists x, In x l /\ f x = false.
Proof.
  induction l as [|x r IH]; [discriminate|]. cbn [forallb]. destruct (f x) eqn:D.
  - cbn [andb]. intros E. destruct (IH E) as (y & I & F). exists y. split; [right; exact I|exact F].
  - intros _. exists x. split; [left; reflexivity|exact D].
Qed.

Section VolDirTreeProofs.
  Variable upper : N -> list N.
  Variable oem : N -> N.

  Let mk := vol_create_dir_root upper oem.
  Let rd := vol_remove_dir_root upper oem.
  Let check (im : image) (name : str) := check_for_existence upper oem (root_region_slots (parse_geom im) im) name (Some true).

  (* ---------------------------------------------------------------- create_dir: one equation per path *)
  Lemma vol_create_dir_exists im fi name now ev :
    check im name = Ok (Exists ev) -> mk im fi name now = (Ok None, (im, fi)).
  Proof. unfold check, mk, vol_create_dir_root. intros ->. reflexivity. Qed.

  Lemma vol_create_dir_check_failed im fi name now r :
    check im name = r -> (forall x, r <> Ok x) ->
    mk im fi name now = (match r with Ok _ => Ok None | Err e => Err e | Panic => Panic | OutOfFuel => OutOfFuel end, (im, fi)).
  Proof.
    unfold check, mk, vol_create_dir_root. intros -> H.
    destruct r as [x|e| |]; try reflexivity. exfalso; exact (H x eq_refl).
  Qed.

  Lemma vol_create_dir_alloc_failed im fi name now a r :
    check im name = Ok (Fresh a) -> vol_alloc_new_cluster (parse_geom im) im fi = r -> (forall x, r <> Ok x) ->
    mk im fi name now = (match r with Ok _ => Ok None | Err e => Err e | Panic => Panic | OutOfFuel => OutOfFuel end, (im, fi)).
  Proof.
    unfold check, mk, vol_create_dir_root. intros -> -> H.
    destruct r as [x|e| |]; try reflexivity. exfalso; exact (H x eq_refl).
  Qed.

  (* D25: the entry write fails after the allocation - the answer is the entry write's error and the state is the one AFTER
     FileSystem::free_cluster_chain(cluster) ran on the image that holds whatever write_entry wrote *)
  Lemma vol_create_dir_gives_back im fi name now a im1 fi1 c st e ss' im3 fi3 :
    let g := parse_geom im in
    check im name = Ok (Fresh a) -> vol_alloc_new_cluster g im fi = Ok (im1, fi1, c) -> stamp_create now = Ok st ->
    write_entry FixedRoot 0 (root_region_slots g im1) name (create_sfn_entry false a ATTR_DIRECTORY (Some c) st) = (Err e, ss') ->
    vol_free_chain g (put_root_slots g im1 ss') fi1 c = Ok (im3, fi3) ->
    mk im fi name now = (Err e, (im3, fi3)).
  Proof. unfold check, mk, vol_create_dir_root. cbv zeta. intros -> -> -> -> ->. reflexivity. Qed.

  Lemma vol_create_dir_created im fi name now a im1 fi1 c st p q ss' r1 im3 r2 im4 :
    let g := parse_geom im in
    check im name = Ok (Fresh a) -> vol_alloc_new_cluster g im fi = Ok (im1, fi1, c) -> stamp_create now = Ok st ->
    write_entry FixedRoot 0 (root_region_slots g im1) name (create_sfn_entry false a ATTR_DIRECTORY (Some c) st) = (Ok (p, q), ss') ->
    vol_write_entry_cluster g (put_root_slots g im1 ss') c DOT_NAME
      (create_sfn_entry false DOT ATTR_DIRECTORY (written_first_cluster c) st) = (Ok r1, im3) ->
    vol_write_entry_cluster g im3 c DOTDOT_NAME (create_sfn_entry false DOTDOT ATTR_DIRECTORY None st) = (Ok r2, im4) ->
    mk im fi name now = (Ok (Some (p, q, c)), (im4, fi1)).
  Proof. unfold check, mk, vol_create_dir_root. cbv zeta. intros -> -> -> -> -> ->. reflexivity. Qed.

  (* inversion: whatever create_dir answers, image and latch are as before unless the allocation succeeded *)
  Theorem vol_create_dir_not_created_cases im fi name now r im' fi' :
    mk im fi name now = (r, (im', fi')) ->
    (im' = im /\ fi' = fi /\ (forall x, r <> Ok (Some x))) \/
    (exists a im1 fi1 c, check im name = Ok (Fresh a) /\ vol_alloc_new_cluster (parse_geom im) im fi = Ok (im1, fi1, c)).
  Proof.
    unfold check, mk, vol_create_dir_root. intros H.
    destruct (check_for_existence upper oem _ name (Some true)) as [[ev|a]|e| |];
      try (injection H as <- <- <-; left; repeat split; intros x; discriminate).
    destruct (vol_alloc_new_cluster (parse_geom im) im fi) as [[[im1 fi1] c]|e| |];
      try (injection H as <- <- <-; left; repeat split; intros x; discriminate).
    right. exists a, im1, fi1, c. split; reflexivity.
  Qed.

  (* ---------------------------------------------------------------- remove of a directory *)
  Theorem vol_remove_dir_failed_unchanged im fi name r im' fi' :
    rd im fi name = Some (r, im', fi') -> r <> Ok tt -> im' = im /\ fi' = fi.
  Proof.
    unfold rd, vol_remove_dir_root. intros H Hr.
    destruct (root_lookup upper oem im name) as [ev|e| |]; try (injection H as <- <- <-; split; reflexivity).
    destruct (negb (Lfn.ev_is_dir ev)); [discriminate|].
    destruct (is_special ev); [injection H as <- <- <-; split; reflexivity|].
    destruct (root_entry_cluster ev =? 0); [discriminate|].
    destruct (chain_from _ _ _ _) as [l|]; [|discriminate].
    destruct (dir_is_empty _ _ _ _) as [[|]|e| |]; try (injection H as <- <- <-; split; reflexivity).
    destruct (vol_free_chain _ _ _ _) as [[im1 fi1]|e| |]; try discriminate.
    injection H as <- <- <-. exfalso; apply Hr; reflexivity.
  Qed.

  Theorem vol_remove_dir_nonempty im fi name ev l :
    let g := parse_geom im in
    root_lookup upper oem im name = Ok ev -> Lfn.ev_is_dir ev = true -> is_special ev = false ->
    root_entry_cluster ev <> 0 -> chain_from g im (root_entry_cluster ev) (Abs.chain_fuel g) = Some l ->
    dir_is_empty oem g im l = Ok false ->
    rd im fi name = Some (Err EDirectoryIsNotEmpty, im, fi).
  Proof.
    unfold rd, vol_remove_dir_root. cbv zeta. intros -> -> -> Hc -> ->. cbn [negb].
    apply N.eqb_neq in Hc. rewrite Hc. reflexivity.
  Qed.

  Theorem vol_remove_dir_empty_unfold im fi name ev l im1 fi1 :
    let g := parse_geom im in
    root_lookup upper oem im name = Ok ev -> Lfn.ev_is_dir ev = true -> is_special ev = false ->
    root_entry_cluster ev <> 0 -> chain_from g im (root_entry_cluster ev) (Abs.chain_fuel g) = Some l ->
    dir_is_empty oem g im l = Ok true -> vol_free_chain g im fi (root_entry_cluster ev) = Ok (im1, fi1) ->
    rd im fi name = Some (Ok tt, put_root_slots g im1 (delete_entry (root_region_slots g im1) ev), fi1).
  Proof.
    unfold rd, vol_remove_dir_root. cbv zeta. intros -> -> -> Hc -> -> ->. cbn [negb].
    apply N.eqb_neq in Hc. rewrite Hc. reflexivity.
  Qed.

  (* what "not empty" means, exactly as Dir::is_empty reads it: some listed entry (Dir::iter(): live, not a volume label) whose
     rendered short name is neither "." nor ".." *)
  Theorem dir_is_empty_false_iff g im l es :
    dir_entries oem (chain_dir_slots g im l) = Ok es ->
    (dir_is_empty oem g im l = Ok false <-> exists ev, In ev es /\ is_dot_entry ev = false).
  Proof.
    intros H. unfold dir_is_empty. rewrite H. cbn [bind]. split.
    - intros E. injection E as E. exact (forallb_false_ex is_dot_entry es E).
    - intros (ev & I & F). f_equal. destruct (forallb is_dot_entry es) eqn:E; [|reflexivity].
      rewrite forallb_forall in E. rewrite (E ev I) in F. discriminate.
  Qed.
End VolDirTreeProofs.

(* ================================================================ alloc_cluster(None, zero = true) on the image
   (compare Proofs/VolChainGrowProofs.vol_alloc_dir_cluster_spec, the variant with a predecessor) *)
Section AllocNew.
Variable g : geom.
Hypothesis Hg : fixed_root_geom g.
Let ft := ft_of g.
Let total := g_clusters g.

Theorem vol_alloc_new_cluster_spec im fi :
  FatProofs.bytes_ok im -> fi_inv fstore (val_ft ft) (store_of g im) fi total ->
  match vol_alloc_new_cluster g im fi with
  | Ok (im1, fi1, c) =>
    2 <= c < total + 2 /\ fat_val g im c = FFree /\ fat_val g im1 c = FEoc /\
    (forall x, 2 <= x < total + 2 -> x <> c -> fat_val g im1 x = fat_val g im x) /\
    (forall a, ~ in_store_area g a -> ~ in_cluster g c a -> img_get im1 a = img_get im a) /\
    cluster_bytes g im1 c = repeat_N 0 (N.to_nat (g_cluster_size g)) /\
    FatProofs.bytes_ok im1 /\ fi_inv fstore (val_ft ft) (store_of g im1) fi1 total /\
    count_free g im1 + 1 = count_free g im
  | Err e => e = ENotEnoughSpace /\ (forall x, 2 <= x < total + 2 -> fat_val g im x <> FFree)
  | Panic => False
  | OutOfFuel => False
  end.
Proof.
  intros Hb Hfi. pose proof (fixed_root_vgeom_ok g Hg) as Hok.
  pose proof (vol_mirrors_pos g Hok) as Hm. destruct (Hrange g Hok) as (Hokc & Hokd). fold ft total in Hokc, Hokd.
  set (s0 := store_of g im).
  assert (inv_step ft (vol_base g) (g_fat_bytes g) (vol_mirrors g) s0 s0) as Hinv0.
  { apply inv_step_refl. unfold inv_g, s0, store_of. cbn [fs_base fs_size fs_mirrors fs_img]. repeat split. exact Hb. }
  assert (forall x, 2 <= x < total + 2 -> fatv_of (fat_val g im x) = val_ft ft s0 x) as Hv0
    by (intros x R; exact (fat_val_store g im x (range_small g x Hok R))).
  pose proof (fs_alloc_inv fstore (fat_get ft) (fat_set ft) (val_ft ft) (okcg ft (g_fat_bytes g)) (okv_step ft)
                (inv_step ft (vol_base g) (g_fat_bytes g) (vol_mirrors g) s0)
                (law_step_get ft (vol_base g) (g_fat_bytes g) (vol_mirrors g) s0)
                (law_step_set ft (vol_base g) (g_fat_bytes g) (vol_mirrors g) Hm s0) (okv_step_eoc ft)
                s0 fi None total Hinv0 Hfi Hokc I) as HA.
  unfold vol_alloc_new_cluster. fold ft total s0.
  destruct (fs_alloc fstore (fat_get ft) (fat_set ft) s0 fi None total) as [[[t' fi'] c]|e| |] eqn:Ea; cbn [bind];
    [|destruct HA as [-> HA]; split; [reflexivity|]|exact HA|exact HA].
  2:{ intros x R E. apply (HA x R). rewrite <- (Hv0 x R), E. reflexivity. }
  destruct HA as (Hinv' & Hfi' & Hc & Hfree & _).
  destruct (alloc_ok fstore (fat_get ft) (fat_set ft) (val_ft ft) (okcg ft (g_fat_bytes g)) (okv_step ft)
              (inv_step ft (vol_base g) (g_fat_bytes g) (vol_mirrors g) s0)
              (law_step_get ft (vol_base g) (g_fat_bytes g) (vol_mirrors g) s0)
              (law_step_set ft (vol_base g) (g_fat_bytes g) (vol_mirrors g) Hm s0) (okv_step_eoc ft)
              s0 None (fi_next fi) total t' c Hinv0 (proj2 Hfi) Hokc I
              (fs_alloc_is_alloc _ _ _ _ _ _ _ _ _ Ea)) as (_ & _ & _ & Hcv & Hfr).
  destruct Hinv' as ((B & S & M & Hb1) & Hout & _).
  pose proof (store_of_img g t' B S M) as Est.
  set (zs := repeat_N 0 (N.to_nat (g_cluster_size g))).
  set (im1 := img_write (fs_img t') (g_cluster_off g c) zs).
  assert (length zs = N.to_nat (g_cluster_size g)) as Lz by apply repeat_N_length.
  assert (forall a, in_store_area g a -> img_get im1 a = img_get (fs_img t') a) as Hin1.
  { intros a Ha. unfold im1. apply img_write_outside. rewrite Lz, N2Nat.id.
    destruct (N.lt_ge_cases a (g_cluster_off g c)) as [L|L]; [left; exact L|].
    destruct (N.lt_ge_cases a (g_cluster_off g c + g_cluster_size g)) as [L2|L2]; [|right; exact L2].
    exfalso. apply (in_cluster_not_store g Hg c a ltac:(lia)); [unfold in_cluster; lia|exact Ha]. }
  assert (forall x, 2 <= x < total + 2 -> fatv_of (fat_val g im1 x) = val_ft ft t' x) as Hv1.
  { intros x R. rewrite (fat_val_same_store g Hg (fs_img t') im1 x R Hin1).
    rewrite (fat_val_store g (fs_img t') x (range_small g x Hok R)). fold ft. rewrite Est. reflexivity. }
  split; [exact Hc|]. split.
  { pose proof (Hv0 c Hc) as E. rewrite Hfree in E. destruct (fat_val g im c); cbn [fatv_of] in E; try discriminate. reflexivity. }
  split.
  { pose proof (Hv1 c Hc) as E. rewrite Hcv in E. destruct (fat_val g im1 c); cbn [fatv_of] in E; try discriminate. reflexivity. }
  split.
  { intros x R X1. apply fatv_of_inj. rewrite (Hv1 x R), (Hfr x X1 (Hokc x R)). symmetry. exact (Hv0 x R). }
  split.
  { intros a Hns Hnc. unfold im1. rewrite img_write_outside.
    - apply Hout. unfold in_store_area in Hns. lia.
    - rewrite Lz, N2Nat.id. unfold in_cluster in Hnc. lia. }
  split.
  { unfold cluster_bytes, im1. rewrite <- Lz. apply VolFileProofs.img_read_write_same. }
  assert (FatProofs.bytes_ok im1) as Hb1'.
  { unfold im1. apply img_write_bytes_ok; [exact Hb1|]. intros b Hin. unfold zs in Hin.
    destruct (In_nth _ _ 0 Hin) as (i & _ & <-). rewrite nth_repeat_N. lia. }
  split; [exact Hb1'|]. split.
  { destruct Hfi' as [F1 F2]. split; [|exact F2]. destruct (fi_free fi') as [n|]; [|exact I]. rewrite F1.
    unfold count_spec. apply (cnt_ext g). intros x Hx. assert (2 <= x < total + 2) as R by (unfold total; lia).
    rewrite <- (Hv1 x R). exact (fat_val_store g im1 x (range_small g x Hok R)). }
  rewrite !(VolRemoveProofs.count_free_store g Hok). fold ft total.
  assert (count_spec fstore (val_ft ft) (store_of g im1) 2 (N.to_nat total) = count_spec fstore (val_ft ft) t' 2 (N.to_nat total)) as ->.
  { unfold count_spec. apply (cnt_ext g). intros x Hx. assert (2 <= x < total + 2) as R by lia.
    rewrite <- (Hv1 x R). symmetry. exact (fat_val_store g im1 x (range_small g x Hok R)). }
  fold s0. unfold count_spec.
  set (tm := fun x => if x =? c then Eoc else val_ft ft s0 x).
  assert (cnt tm 2 (N.to_nat total) + 1 = cnt (val_ft ft s0) 2 (N.to_nat total)) as H1.
  { pose proof (cnt_update (val_ft ft s0) tm c (N.to_nat total) 2 ltac:(lia)) as Hu.
    assert (forall y, y <> c -> tm y = val_ft ft s0 y) as Hy.
    { intros y Hy. unfold tm. destruct (N.eqb_spec y c); [contradiction|reflexivity]. }
    specialize (Hu Hy). assert (tm c = Eoc) as Htc by (unfold tm; rewrite N.eqb_refl; reflexivity).
    rewrite Htc, Hfree in Hu. cbn [is_free] in Hu. lia. }
  rewrite <- H1. f_equal. apply cnt_ext_free. intros x Hxr. unfold tm.
  assert (2 <= x < total + 2) as R by lia.
  destruct (N.eqb_spec x c) as [->|Hxc]; [rewrite Hcv; reflexivity|].
  rewrite (Hfr x Hxc (Hokc x R)). reflexivity.
Qed.
End AllocNew.

(* ================================================================ D25 on the image, in general
   create_dir in the fixed root of a FAT12/16 volume whose entry write fails AFTER the allocation (the root has no room for the run):
   the answer is the entry write's error - NotEnoughSpace - and the cluster IS given back.  Exactly this holds afterwards:
   every FAT entry the decoder reads has the value it had before the call (the cluster is free again), count_free is unchanged,
   every byte outside the FAT copies and outside the cluster is unchanged (the root in particular: nothing was written there),
   the cluster itself stays ZEROED (the zero fill of alloc_cluster is not undone), and the latch is the allocator's latch (moved
   hint) with its count incremented again - consistent with the table. *)
Section GiveBack.
Variable upper : N -> list N.
Variable oem : N -> N.

Theorem vol_create_dir_nospace_gives_back im fi name now a im1 fi1 c st e ss' :
  let g := parse_geom im in
  fixed_root_geom g -> FatProofs.bytes_ok im -> fi_inv fstore (val_ft (ft_of g)) (store_of g im) fi (g_clusters g) ->
  check_for_existence upper oem (root_region_slots g im) name (Some true) = Ok (Fresh a) ->
  vol_alloc_new_cluster g im fi = Ok (im1, fi1, c) -> stamp_create now = Ok st ->
  write_entry FixedRoot 0 (root_region_slots g im1) name (create_sfn_entry false a ATTR_DIRECTORY (Some c) st) = (Err e, ss') ->
  exists im',
    vol_create_dir_root upper oem im fi name now = (Err e, (im', map_free fi1 (fun n => n + 1))) /\
    (e = ENotEnoughSpace \/ validate_long_name name = Err e) /\
    2 <= c < g_clusters g + 2 /\ fat_val g im c = FFree /\
    (forall x, 2 <= x < g_clusters g + 2 -> fat_val g im' x = fat_val g im x) /\
    count_free g im' = count_free g im /\
    (forall o, ~ in_store_area g o -> ~ in_cluster g c o -> img_get im' o = img_get im o) /\
    cluster_bytes g im' c = repeat_N 0 (N.to_nat (g_cluster_size g)) /\
    FatProofs.bytes_ok im' /\ fi_inv fstore (val_ft (ft_of g)) (store_of g im') (map_free fi1 (fun n => n + 1)) (g_clusters g).
Proof.
  intros g Hg Hb Hfi Hck Hal Hst Hw. pose proof (fixed_root_vgeom_ok g Hg) as Hok.
  pose proof (vol_alloc_new_cluster_spec g Hg im fi Hb Hfi) as HA. rewrite Hal in HA.
  destruct HA as (Hc & Hfree & Heoc & Hoth & Hframe & Hz & Hb1 & Hfi1 & Hcnt).
  destruct (write_entry_fixed_root_full_unchanged 0 _ name _ (Err e) ss' (root_len_bound g im1 (fg_root g Hg)) Hw
              ltac:(intros; discriminate)) as (Ess & x & Ex & _ & Hkind).
  injection Ex as <-. subst ss'.
  set (im2 := put_root_slots g im1 (root_region_slots g im1)).
  assert (forall o, img_get im2 o = img_get im1 o) as Hs by (intros o; apply put_root_slots_same).
  assert (FatProofs.bytes_ok im2) as Hb2 by (intros o; rewrite Hs; apply Hb1).
  assert (forall x, 2 <= x < g_clusters g + 2 -> fat_val g im2 x = fat_val g im1 x) as Hv2
    by (intros x R; apply (fat_val_same_store g Hg im1 im2 x R); intros o _; apply Hs).
  assert (count_free g im2 = count_free g im1) as Hc2 by (apply (count_free_frame g im1 im2 Hg); intros o _; apply Hs).
  assert (fi_inv fstore (val_ft (ft_of g)) (store_of g im2) fi1 (g_clusters g)) as Hfi2.
  { destruct Hfi1 as [F1 F2]. split; [|exact F2]. destruct (fi_free fi1) as [n|]; [|exact I]. rewrite F1.
    rewrite <- !(VolRemoveProofs.count_free_store g Hok). symmetry. exact Hc2. }
  assert (chain_from g im2 c (Abs.chain_fuel g) = Some [c]) as Hch.
  { unfold Abs.chain_fuel. cbn [chain_from].
    assert (in_range g c = true) as -> by (unfold in_range; apply andb_true_intro; split; [apply N.leb_le|apply N.ltb_lt]; lia).
    rewrite (Hv2 c Hc), Heoc. reflexivity. }
  assert (NoDup [c]) as Hnd by (constructor; [intros []|constructor]).
  destruct (vol_free_chain_spec g Hok im2 fi1 c [c] Hb2 Hfi2 ltac:(lia) Hch Hnd)
    as (im3 & Hfr3 & Hb3 & Hfi3 & Hout3 & Hall3 & Hoth3 & _ & Hcnt3).
  change (N.of_nat (length [c])) with 1 in Hfr3, Hfi3, Hcnt3.
  exists im3. split.
  { exact (vol_create_dir_gives_back upper oem im fi name now a im1 fi1 c st e _ im3 _ Hck Hal Hst Hw Hfr3). }
  split; [exact Hkind|]. split; [exact Hc|]. split; [exact Hfree|]. split.
  { intros y R. destruct (N.eq_dec y c) as [->|Hne].
    - rewrite (Hall3 c (or_introl eq_refl)). symmetry. exact Hfree.
    - rewrite (Hoth3 y R) by (intros [E|[]]; apply Hne; symmetry; exact E). rewrite (Hv2 y R). exact (Hoth y R Hne). }
  split; [rewrite Hcnt3, Hc2; exact Hcnt|]. split.
  { intros o Hns Hnc. rewrite (Hout3 o Hns), Hs. exact (Hframe o Hns Hnc). }
  split.
  { rewrite <- Hz. unfold cluster_bytes. apply img_read_ext. intros i Hi. rewrite Hout3, Hs; [reflexivity|].
    apply (in_cluster_not_store g Hg c); [lia|]. unfold in_cluster. lia. }
  split; [exact Hb3|exact Hfi3].
Qed.
End GiveBack.

(* ================================================================ remove of an EMPTY directory: the table side, in general
   The entry resolves to a directory whose chain is [l] (distinct clusters - implied by well-formedness) and that is empty for
   the code.  Then remove succeeds; every cluster of l was allocated and is FFree afterwards, every other FAT entry keeps its value,
   count_free grows by exactly length l, the latch is map_free (+ length l) and consistent with the new table, and nothing changes
   outside the FAT copies and the root region (the directory's own clusters keep their bytes). *)
Section RemoveDir.
Variable upper : N -> list N.
Variable oem : N -> N.

Theorem vol_remove_dir_empty_reclaims im fi name ev l :
  let g := parse_geom im in
  fixed_root_geom g -> FatProofs.bytes_ok im -> fi_inv fstore (val_ft (ft_of g)) (store_of g im) fi (g_clusters g) ->
  root_lookup upper oem im name = Ok ev -> Lfn.ev_is_dir ev = true -> is_special ev = false ->
  root_entry_cluster ev <> 0 -> chain_from g im (root_entry_cluster ev) (Abs.chain_fuel g) = Some l -> NoDup l ->
  dir_is_empty oem g im l = Ok true ->
  exists im',
    vol_remove_dir_root upper oem im fi name = Some (Ok tt, im', map_free fi (fun n => n + N.of_nat (length l))) /\
    (forall x, In x l -> 2 <= x < g_clusters g + 2 /\ fat_val g im x <> FFree /\ fat_val g im' x = FFree) /\
    (forall x, 2 <= x < g_clusters g + 2 -> ~ In x l -> fat_val g im' x = fat_val g im x) /\
    count_free g im' = count_free g im + N.of_nat (length l) /\
    (forall o, ~ in_store_area g o -> (o < g_root_off g \/ g_root_off g + root_bytes g <= o) -> img_get im' o = img_get im o) /\
    fi_inv fstore (val_ft (ft_of g)) (store_of g im') (map_free fi (fun n => n + N.of_nat (length l))) (g_clusters g).
Proof.
  intros g Hg Hb Hfi Hlk Hd Hsp Hc Hch Hnd Hem. pose proof (fixed_root_vgeom_ok g Hg) as Hok.
  destruct (vol_free_chain_spec g Hok im fi (root_entry_cluster ev) l Hb Hfi Hc Hch Hnd)
    as (im1 & Hfr & Hb1 & Hfi1 & Hout1 & Hall & Hoth & Hwas & Hcnt).
  set (ss := root_region_slots g im).
  assert (root_region_slots g im1 = ss) as Hrs1.
  { unfold ss, root_region_slots. f_equal. apply VolFileProofs.img_read_ext. intros i Hi. apply Hout1.
    apply (root_not_store g _ Hg). lia. }
  destruct (find_entry_listed upper oem ss name None ev Hlk) as [HL _].
  pose proof (proj1 (root_region_shape g im)) as Hs. fold ss in Hs.
  pose proof (delete_entry_shape (root_slot_count g) oem ss ss ev Hs eq_refl (proj2 Hs) HL) as Hsh.
  set (im' := put_root_slots g im1 (delete_entry ss ev)).
  pose proof (put_same_outside g im1 (delete_entry ss ev) Hsh) as Hout12. fold im' in Hout12.
  assert (forall x, 2 <= x < g_clusters g + 2 -> fat_val g im' x = fat_val g im1 x) as Hv.
  { intros x R. apply (fat_val_same_store g Hg im1 im' x R). intros a Ha. apply Hout12. left. exact (proj2 (store_area_before_root g a Hg Ha)). }
  assert (count_free g im' = count_free g im1) as Hc2 by exact (count_free_frame g im1 im' Hg Hout12).
  exists im'. split.
  { rewrite (vol_remove_dir_empty_unfold upper oem im fi name ev l im1 _ Hlk Hd Hsp Hc Hch Hem Hfr). fold g. rewrite Hrs1. reflexivity. }
  split.
  { intros x Hx. destruct (Hwas x Hx) as (R & NF). split; [exact R|]. split; [exact NF|]. rewrite (Hv x R). exact (Hall x Hx). }
  split; [intros x R Hn; rewrite (Hv x R); exact (Hoth x R Hn)|].
  split; [rewrite Hc2; exact Hcnt|]. split.
  { intros o Hns Hnr. rewrite (Hout12 o Hnr). exact (Hout1 o Hns). }
  destruct Hfi1 as [F1 F2]. split; [|exact F2].
  destruct (fi_free (map_free fi (fun n => n + N.of_nat (length l)))) as [n|]; [|exact I]. rewrite F1.
  rewrite <- !(VolRemoveProofs.count_free_store g Hok). symmetry. exact Hc2.
Qed.
End RemoveDir.
