(* Extraction of the executable model and spec to OCaml (ExtrOcamlBasic only:
   bool, option, unit, list, prod, sumbool, sumor map to OCaml's; N/positive/nat stay Coq data).
   ONE Separate Extraction command listing every module (a second one would overwrite shared modules). *)
From Coq Require Import Extraction ExtrOcamlBasic.
From FatVerif Require Import
  Model.Base
  Model.Time
  Model.Str
  Model.Slot
  Model.Table
  Model.Fat
  Model.Lfn
  Spec.Image
  Spec.Abs
  Spec.Wf
  Spec.Regions
  Spec.Tree
  Spec.LfnSpec.
Separate Extraction
  Model.Base
  Model.Time
  Model.Str
  Model.Slot
  Model.Table
  Model.Fat
  Model.Lfn
  Spec.Image
  Spec.Abs
  Spec.Wf
  Spec.Regions
  Spec.Tree
  Spec.LfnSpec.
