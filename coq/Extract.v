(* Extraction of the executable model and spec to OCaml (ExtrOcamlBasic only:
   bool, option, unit, list, prod, sumbool, sumor map to OCaml's; N/positive/nat stay Coq data). *)
From Coq Require Import Extraction ExtrOcamlBasic.
From FatVerif Require Import Model.Base Model.Time.
From FatVerif Require Import Model.Str Model.Slot Model.Name Model.ShortName.
Separate Extraction
  Model.Base Model.Time
  Model.Str Model.Slot Model.Name Model.ShortName.
