(* Extraction of the executable model and spec to OCaml (ExtrOcamlBasic only:
   bool, option, unit, list, prod, sumbool, sumor map to OCaml's; N/positive/nat stay Coq data). *)
From Coq Require Import Extraction ExtrOcamlBasic.
From FatVerif Require Import Model.Base Model.Time.
From FatVerif Require Import Model.Bpb Spec.BpbSpec.
Separate Extraction
  Model.Base Model.Time
  Model.Bpb Spec.BpbSpec.
