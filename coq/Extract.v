(* Extraction of the executable model and spec to OCaml (ExtrOcamlBasic only:
   bool, option, unit, list, prod, sumbool, sumor map to OCaml's; N/positive/nat stay Coq data). *)
From Coq Require Import Extraction ExtrOcamlBasic.
From FatVerif Require Import Model.Base Model.Time Model.Str Model.Slot Spec.Image Spec.Abs Spec.Wf Spec.Tree.
From FatVerif Require Import Model.Table Model.Fat.
Separate Extraction
  Model.Base Model.Time Model.Str Model.Slot Spec.Image Spec.Abs Spec.Wf Spec.Tree
  Model.Table Model.Fat.
