(* Extraction of the executable model and spec to OCaml (ExtrOcamlBasic only:
   bool, option, unit, list, prod, sumbool, sumor map to OCaml's; N/positive/nat stay Coq data). *)
From Coq Require Import Extraction ExtrOcamlBasic.
From FatVerif Require Import Model.Base Model.Time.
(* C17 / C19: long-name builder, directory listing, its spec *)
From FatVerif Require Import Model.Str Model.Slot Model.Lfn Spec.LfnSpec.
(* ONE command listing every module: a second Separate Extraction would overwrite shared modules
   (Time.ml ...) with only the definitions it needs *)
Separate Extraction
  Model.Base Model.Time
  Model.Str Model.Slot Model.Lfn Spec.LfnSpec.
