(* VolStatus.v: the volume DIRTY BIT inside the image model - the status byte of the boot sector (offset 0x25 on FAT12/16, 0x41
   on FAT32: Spec/Abs.g_status_off, the byte Proofs/RegionsProofs.classify_status_iff names "status byte") as src/fs.rs
   handles it between mount and unmount.  Model/Flags.v is the abstract state machine (mount byte, current_status_flags, the
   byte on the device); here the byte IS the byte of the device image, and the image-level operations of Model/VolDir.v,
   Model/VolFile.v, Model/VolSession.v and Model/VolRemove.v are wrapped into "mounted" versions that perform the status write
   exactly when the code does.

   The code (read line by line):
   - FileSystem::new: current_status_flags = bpb.status_flags() = FsStatusFlags::decode(reserved_1)      [vol_mount_status]
   - FileSystem::set_dirty_flag(dirty): flags = bpb.status_flags(); flags.dirty |= dirty; if flags == current -> nothing; else
     seek(0x25 / 0x41), write_u8(flags.encode() | (reserved_1 & !3)), current = flags.                   [vol_set_dirty_flag;
     the byte is Flags.set_dirty_flag's disk_byte: status_value]
   - FsIoAdapter::write (the stream under the FAT DiskSlice and under the fixed root directory): the DEVICE WRITE FIRST, then,
     if size > 0, set_dirty_flag(true).  So a directory or FAT operation marks the volume dirty iff it performs at least one
     device write, and the first such write precedes the status write.  On the image (one image per call, the status byte is
     disjoint from FAT copies, root region and data area) the order is invisible: result = image of the operation, then the
     status byte.  create_file: the entry run is written iff the call answers Ok (Some _) (a failed call writes nothing in a
     fixed root: C01_vol_create_failed_unchanged); remove: iff Ok (the FAT entries of the chain, or at least the slot rewrite);
     rename: iff the root region changed (the no-op branch "destination is the stored spelling of the source" and every failure
     write nothing; a performed rename writes a new short slot over a free one, whose first byte changes).
   - File::write: after the early exit for write_size == 0 and BEFORE the cluster is looked up / allocated:
     set_dirty_flag(true).  So a write of at least one byte marks the volume dirty even when it then fails (NotEnoughSpace)
     or rewrites bytes with the same values.
   - File::truncate: no call of its own; truncate_cluster_chain / free_cluster_chain write FAT entries through the adapter:
     dirty iff current_cluster is Some (the end-of-chain mark is always rewritten) or the file has a first cluster to free.
   - File::read, File::seek: nothing.  File::flush / drop: DirEntryEditor::flush writes to fs.disk directly - NO status write,
     by design (time stamps / size write-back).  flush_fs_info likewise (FAT32 only; not part of the FAT12/16 image model).
   - unmount / Drop for FileSystem: flush_fs_info, then set_dirty_flag(false): the mount-time byte comes back.  [vol_unmount]
   Executable; extracted (model runner modes csess / cvol).  No proofs here. *)
From Coq Require Import NArith List Bool.
From FatVerif Require Import Model.Base Model.Str Model.Slot Model.Time Model.Table Model.Fat Model.FileM Model.DirSlots
  Model.Flags Model.VolDir Model.VolFile Model.VolSession Model.VolRemove Spec.Image Spec.Abs.
Import ListNotations.
Open Scope N_scope.

(* ---------------------------------------------------------------- the byte *)
(* what set_dirty_flag(dirty) writes on a volume whose status byte was [mb] at mount: encode(flags) | (mb & !3) *)
Definition status_value (mb : N) (dirty : bool) : N :=
  let m := sf_decode mb in
  N.lor (sf_encode {| sf_dirty := sf_dirty m || dirty; sf_io_error := sf_io_error m |}) ((mb / 4) * 4).

Definition vol_mark_dirty (g : geom) (im : image) (mount_byte : N) : image :=
  img_set im (g_status_off g) (status_value mount_byte true).
Definition vol_unmount_status (g : geom) (im : image) (mount_byte : N) : image :=
  img_set im (g_status_off g) (status_value mount_byte false).

(* FileSystem::new: the status part of the mounted file system (Flags.fstat; disk_byte = the byte of the image) *)
Definition vol_mount_status (g : geom) (im : image) : fstat := st_mount (img_get im (g_status_off g)).

(* "flags == current_flags" fails *)
Definition flags_change (s : fstat) (dirty : bool) : bool :=
  let m := sf_decode (mount_byte s) in
  negb (sf_eqb {| sf_dirty := sf_dirty m || dirty; sf_io_error := sf_io_error m |} (current s)).

(* FileSystem::set_dirty_flag(dirty) on the image *)
Definition vol_set_dirty_flag (g : geom) (im : image) (s : fstat) (dirty : bool) : image * fstat :=
  ((if flags_change s dirty
    then (if dirty then vol_mark_dirty g im (mount_byte s) else vol_unmount_status g im (mount_byte s))
    else im),
   set_dirty_flag s dirty).

(* an operation whose image is [im1]; [marks]: the code passes set_dirty_flag(true) during it *)
Definition marked (g : geom) (marks : bool) (im1 : image) (s : fstat) : image * fstat :=
  if marks then vol_set_dirty_flag g im1 s true else (im1, s).

(* unmount / drop of the FileSystem (FAT12/16: no FS-info sector to write) *)
Definition vol_unmount (g : geom) (im : image) (s : fstat) : image * fstat := vol_set_dirty_flag g im s false.

(* ---------------------------------------------------------------- when the code marks *)
Definition res_ok {A} (r : res A) : bool := match r with Ok _ => true | _ => false end.
Definition created (r : res (option (N * N))) : bool := match r with Ok (Some _) => true | _ => false end.

Fixpoint slots_eqb (a b : list (list N)) : bool :=
  match a, b with
  | [], [] => true
  | x :: a', y :: b' => list_eqb x y && slots_eqb a' b'
  | _, _ => false
  end.

(* File::write's write_size *)
Definition write_size (cs : N) (h : fhandle) (d : list N) : N :=
  N.min (N.min (len_N d) (cs - h_off h mod cs)) (MAX_FILE_SIZE - h_off h).

(* one call on a handle in state [h] (before the call) with answer [r] *)
Definition step_marks (cs : N) (h : fhandle) (o : fop) (r : fresult) : bool :=
  match o with
  | FWrite d => negb (write_size cs h d =? 0)
  | FTruncate =>
    match r with
    | RDone => match h_cur h with Some _ => true | None => match h_first h with Some _ => true | None => false end end
    | _ => false
    end
  | _ => false
  end.

(* ---------------------------------------------------------------- the mounted operations *)
Section VolStatus.
  Variable upper : N -> list N.
  Variable oem : N -> N.

  (* root_dir().create_file(name) *)
  Definition vols_create_empty_file_root (im : image) (s : fstat) (name : str) (now : datetime)
    : res (option (N * N)) * image * fstat :=
    let '(r, im1) := vol_create_empty_file_root upper oem im name now in
    let '(im2, s2) := marked (parse_geom im) (created r) im1 s in (r, im2, s2).

  (* root_dir().remove(name), file without clusters (Model/VolDir.v) *)
  Definition vols_remove_empty_file_root (im : image) (s : fstat) (name : str) : option (res unit * image * fstat) :=
    match vol_remove_empty_file_root upper oem im name with
    | Some (r, im1) => let '(im2, s2) := marked (parse_geom im) (res_ok r) im1 s in Some (r, im2, s2)
    | None => None
    end.

  (* root_dir().rename(src, &root_dir(), dst) of a file *)
  Definition vols_rename_in_root (im : image) (s : fstat) (src dst : str) : option (res unit * image * fstat) :=
    match vol_rename_in_root upper oem im src dst with
    | Some (r, im1) =>
      let g := parse_geom im in
      let wrote := negb (slots_eqb (root_region_slots g im) (root_region_slots g im1)) in
      let '(im2, s2) := marked g wrote im1 s in Some (r, im2, s2)
    | None => None
    end.

  (* root_dir().remove(name), file with or without clusters (Model/VolRemove.v) *)
  Definition vols_remove_file_root (im : image) (fi : fsinfo) (s : fstat) (name : str)
    : option (res unit * image * fsinfo * fstat) :=
    match vol_remove_file_root upper oem im fi name with
    | Some (r, im1, fi1) => let '(im2, s2) := marked (parse_geom im) (res_ok r) im1 s in Some (r, im2, fi1, s2)
    | None => None
    end.

  (* create_file when it creates, with the handle (Model/VolSession.v sess_create) *)
  Definition sesss_create (im : image) (fi : fsinfo) (s : fstat) (name : str) (now : datetime) : option (sstate * fstat) :=
    match sess_create upper oem im fi name now with
    | Some st =>
      let '(im2, s2) := marked (parse_geom im) true (s_im st) s in
      Some ({| s_im := im2; s_fi := s_fi st; s_h := s_h st; s_en := s_en st |}, s2)
    | None => None
    end.
End VolStatus.

(* File::{read,write,seek,truncate} on the image (Model/VolFile.v vol_step) *)
Definition vols_step (g : geom) (st : vstate) (s : fstat) (o : fop) : vstate * fstat * fresult :=
  let '((im1, fi1, h1), r) := vol_step g st o in
  let '(im2, s2) := marked g (step_marks (g_cluster_size g) (snd st) o r) im1 s in
  ((im2, fi1, h1), s2, r).

Fixpoint vols_run (g : geom) (st : vstate) (s : fstat) (ops : list fop) : vstate * fstat * list fresult :=
  match ops with
  | [] => (st, s, [])
  | o :: rest => let '(st1, s1, r) := vols_step g st s o in
                 let '(st2, s2, rs) := vols_run g st1 s1 rest in (st2, s2, r :: rs)
  end.

(* the same with the time stamps of the handle's editor (Model/VolSession.v sess_step) *)
Definition sesss_step (g : geom) (acc : bool) (st : sstate) (s : fstat) (on : fop * datetime) : sstate * fstat * fresult :=
  let '(st1, r) := sess_step g acc st on in
  let '(im2, s2) := marked g (step_marks (g_cluster_size g) (s_h st) (fst on) r) (s_im st1) s in
  ({| s_im := im2; s_fi := s_fi st1; s_h := s_h st1; s_en := s_en st1 |}, s2, r).

Fixpoint sesss_run (g : geom) (acc : bool) (st : sstate) (s : fstat) (ops : list (fop * datetime))
  : sstate * fstat * list fresult :=
  match ops with
  | [] => (st, s, [])
  | o :: rest => let '(st1, s1, r) := sesss_step g acc st s o in
                 let '(st2, s2, rs) := sesss_run g acc st1 s1 rest in (st2, s2, r :: rs)
  end.

(* File::flush / drop of the handle: the entry write-back goes to the device directly - no status write *)
Definition sesss_flush (g : geom) (st : sstate) (s : fstat) : sstate * fstat := (vol_flush_entry g st, s).
