(* FileM.v: model of src/file.rs (File::{read,write,seek,truncate,extents}) over the cluster-chain layer of
   Model/Table.v.  One Gallina function per Rust function, read line by line from the current source
   (seek computes the target in 128 bits and clamps first).

   World = abstract FAT store (Section parameters T/get/set exactly as in Table.v) + the FS-info latch of
   fs.rs + the data area as a total map  cluster -> list of bytes (cluster_size bytes each).  Device data
   writes are write-through: a write of k bytes at offset o of cluster c replaces bytes [o, o+k) of that
   cluster's data.  A handle carries the size / first-cluster part of its DirEntryEditor ([editor]: set_size and
   set_first_cluster change the entry and mark it dirty only if the value changes).

   Out of scope here (other layers): timestamps (so [ed_dirty] is the dirtiness caused by size/first-cluster
   changes only), the volume dirty flag, the zeroing of directory clusters, the hi/lo split of the first-cluster
   field (identity for cluster numbers the FAT width can address), short device reads/writes (the data map is
   total; a cluster whose stored data is shorter than the request yields a short count exactly like the Rust).
   Cluster size is ONE number [cs] (the Rust multiplies sectors_per_cluster * bytes_per_sector; the u32
   products n*spc <= n*cs that occur here are bounded by a file offset, see [bytes_from_clusters]).
   The profile is the debug build: u32 subtraction underflow and debug_assert! failures are [Panic].
   On [Err]/[Panic] the result carries no state, like everywhere in this model: the caller keeps the old one
   (fault-free, the only error of this layer is raised before anything is modified).  No proofs here. *)
From Coq Require Import ZArith.
From FatVerif Require Import Model.Base Model.Table.
Open Scope N_scope.

Definition MAX_FILE_SIZE : N := u32_max.

(* ---- the size / first-cluster part of DirEntryEditor (dir_entry.rs) ---- *)
Record editor := { ed_first : option N; ed_size : option N (* None: directory *); ed_dirty : bool }.

Definition opt_N_eqb (a b : option N) : bool :=
  match a, b with Some x, Some y => x =? y | None, None => true | _, _ => false end.

(* DirEntryEditor::set_first_cluster: if first_cluster != self.data.first_cluster() { set; dirty = true } *)
Definition ed_set_first (e : editor) (c : option N) : editor :=
  if opt_N_eqb c (ed_first e) then e else {| ed_first := c; ed_size := ed_size e; ed_dirty := true |}.

(* DirEntryEditor::set_size: match self.data.size() { Some(n) if size != n => { set; dirty = true } _ => {} } *)
Definition ed_set_size (e : editor) (s : N) : editor :=
  match ed_size e with
  | Some n => if s =? n then e else {| ed_first := ed_first e; ed_size := Some s; ed_dirty := true |}
  | None => e
  end.

(* struct File (entry = None: the root directory) *)
Record fhandle := { h_first : option N; h_cur : option N; h_off : N; h_entry : option editor }.

(* File::size / File::is_dir *)
Definition h_size (h : fhandle) : option N := match h_entry h with Some e => ed_size e | None => None end.

(* File::new *)
Definition file_new (first : option N) (entry : option editor) : fhandle :=
  {| h_first := first; h_cur := None; h_off := 0; h_entry := entry |}.

(* File::set_first_cluster *)
Definition h_set_first (h : fhandle) (c : N) : fhandle :=
  {| h_first := Some c; h_cur := h_cur h; h_off := h_off h;
     h_entry := match h_entry h with Some e => Some (ed_set_first e (Some c)) | None => None end |}.

(* io::SeekFrom: Start(u64), End(i64), Current(i64) *)
Inductive seekfrom := FromStart (x : N) | FromEnd (o : Z) | FromCurrent (o : Z).
Definition z_of_sign (neg : bool) (m : N) : Z := if neg then (- Z.of_N m)%Z else Z.of_N m.

(* u32::try_from(i128).ok() *)
Definition try_u32 (n : Z) : option N :=
  if ((0 <=? n) && (n <=? Z.of_N u32_max))%Z then Some (Z.to_N n) else None.

(* data-area write of [bs] at offset [o] of one cluster's bytes *)
Definition blk_write (d : list N) (o : N) (bs : list N) : list N :=
  firstn (N.to_nat o) d ++ bs ++ skipn (N.to_nat o + length bs) d.

Definition chain_fuel (total : N) : nat := S (S (N.to_nat total)).

Fixpoint list_set {A} (l : list A) (i : nat) (x : A) : list A :=
  match l, i with
  | [], _ => []
  | _ :: r, O => x :: r
  | a :: r, S k => a :: list_set r k x
  end.

Section FileM.
Variable T : Type.
Variable get : T -> N -> res fatv.
Variable set : T -> N -> fatv -> res T.
Variable cs : N.       (* fs.cluster_size() *)
Variable total : N.    (* fs.total_clusters *)

Record fworld := { w_fat : T; w_fi : fsinfo; w_data : N -> list N }.

Definition data_write (data : N -> list N) (c o : N) (bs : list N) : N -> list N :=
  fun x => if x =? c then blk_write (data c) o bs else data x.

(* BiosParameterBlock::clusters_from_bytes: ((bytes + cluster_size - 1) / cluster_size) as u32, in u64 *)
Definition clusters_from_bytes (b : N) : N := ((b + cs - 1) / cs) mod two32.
(* FileSystem::bytes_from_clusters(n) as u32 (sectors_from_clusters is a u32 product n*spc <= n*cs; every use
   below has n*cs <= a file offset, so the debug-build overflow check cannot fire before the cast truncates) *)
Definition bytes_from_clusters (n : N) : N := (n * cs) mod two32.

(* the "next cluster" lookup shared by read and write:
   match self.current_cluster { None => self.first_cluster, Some(n) => fs.cluster_iter(n).next() ... } *)
Definition next_cluster_of (t : T) (h : fhandle) : res (option N) :=
  match h_cur h with
  | None => Ok (h_first h)
  | Some n =>
    match snd (ci_next T get t (ci_new n)) with
    | Some (Err e) => Err e
    | Some (Ok m) => Ok (Some m)
    | Some Panic => Panic
    | Some OutOfFuel => OutOfFuel
    | None => Ok None
    end
  end.

(* ---- Read for File ---- returns the (unchanged) world, the handle and the bytes delivered *)
Definition file_read (w : fworld) (h : fhandle) (n : N) : res (fworld * fhandle * list N) :=
  do cc_opt <- (if h_off h mod cs =? 0 then next_cluster_of (w_fat w) h else Ok (h_cur h));
  match cc_opt with
  | None => Ok (w, h, [])
  | Some cc =>
    let oic := h_off h mod cs in
    let blc := cs - oic in
    (* bytes_left_in_file: s - self.offset in u32 *)
    do blf <- match h_size h with Some s => u32_sub s (h_off h) | None => Ok blc end;
    let rs := N.min (N.min n blc) blf in
    if rs =? 0 then Ok (w, h, []) else
    let bs := firstn (N.to_nat rs) (skipn (N.to_nat oic) (w_data w cc)) in
    let rb := len_N bs in
    if rb =? 0 then Ok (w, h, []) else
    Ok (w, {| h_first := h_first h; h_cur := Some cc; h_off := h_off h + rb; h_entry := h_entry h |}, bs)
  end.

(* update_dir_entry_after_write (without set_modified) *)
Definition h_after_write (h : fhandle) : fhandle :=
  {| h_first := h_first h; h_cur := h_cur h; h_off := h_off h;
     h_entry := match h_entry h with
                | Some e => Some (match ed_size e with
                                  | Some s => if s <? h_off h then ed_set_size e (h_off h) else e
                                  | None => e end)
                | None => None end |}.

(* ---- Write for File ---- ONE call writes at most up to the end of the current cluster *)
Definition file_write (w : fworld) (h : fhandle) (buf : list N) : res (fworld * fhandle * N) :=
  let oic := h_off h mod cs in
  let blc := cs - oic in
  let blm := MAX_FILE_SIZE - h_off h in
  let ws := N.min (N.min (len_N buf) blc) blm in
  if ws =? 0 then Ok (w, h, 0) else
  do (w1, h1, cc) <-
    (if h_off h mod cs =? 0 then
       do nx <- next_cluster_of (w_fat w) h;
       match nx with
       | Some n => Ok (w, h, n)
       | None =>
         (* end of chain reached - allocate new cluster, linked after current_cluster *)
         do (t', fi', c) <- fs_alloc T get set (w_fat w) (w_fi w) (h_cur h) total;
         let w' := {| w_fat := t'; w_fi := fi'; w_data := w_data w |} in
         Ok (w', match h_first h with None => h_set_first h c | Some _ => h end, c)
       end
     else match h_cur h with
          | Some n => Ok (w, h, n)
          | None => Panic            (* "Offset inside cluster but no cluster allocated" *)
          end);
  (* disk.write(&buf[..write_size]) is write-through and complete: written_bytes = write_size > 0 *)
  let bs := firstn (N.to_nat ws) buf in
  let w2 := {| w_fat := w_fat w1; w_fi := w_fi w1; w_data := data_write (w_data w1) cc oic bs |} in
  Ok (w2, h_after_write {| h_first := h_first h1; h_cur := Some cc; h_off := h_off h1 + ws; h_entry := h_entry h1 |}, ws).

(* the loop of File::seek: for i in 0..clusters_to_skip { cluster = match iter.next() { Some(r) => r?,
   None => { new_offset = bytes_from_clusters(i + 1) as u32; break } } }
   result: the cluster reached and, if the chain ended early, the adjusted offset *)
Fixpoint seek_walk (t : T) (it : citer) (cluster i : N) (n : nat) : res (N * option N) :=
  match n with
  | O => Ok (cluster, None)
  | S k =>
    let '(it', r) := ci_next T get t it in
    match r with
    | Some (Ok c) => seek_walk t it' c (i + 1) k
    | Some (Err e) => Err e
    | Some Panic => Panic
    | Some OutOfFuel => OutOfFuel
    | None => Ok (cluster, Some (bytes_from_clusters (i + 1)))
    end
  end.

(* ---- Seek for File ---- returns the handle and the new position *)
Definition file_seek (w : fworld) (h : fhandle) (pos : seekfrom) : res (fworld * fhandle * N) :=
  let size_opt := h_size h in
  let wide : option Z :=
    match pos with
    | FromCurrent x => Some (Z.of_N (h_off h) + x)%Z
    | FromStart x => Some (Z.of_N x)
    | FromEnd o => option_map (fun s => (Z.of_N s + o)%Z) size_opt
    end in
  let new_opt : option N :=
    match wide, size_opt with
    | Some n, Some size => if (Z.of_N size <? n)%Z then Some size else try_u32 n
    | Some n, None => try_u32 n
    | None, _ => None
    end in
  match new_opt with
  | None => Err EInvalidInput
  | Some new =>
    if new =? h_off h then Ok (w, h, h_off h) else
    let nic := clusters_from_bytes new in
    let oic := clusters_from_bytes (h_off h) in
    do (new', cl) <-
      (if new =? 0 then Ok (new, None)
       else if nic =? oic then Ok (new, h_cur h)
       else match h_first h with
            | Some first =>
              (* debug_assert!(new_offset_in_clusters > 0); clusters_to_skip = new_offset_in_clusters - 1 *)
              do skip <- u32_sub nic 1;
              do (c, adj) <- seek_walk (w_fat w) (ci_new first) first 0 (N.to_nat skip);
              Ok (match adj with Some o => o | None => new end, Some c)
            | None => Ok (0, None)     (* empty file - always seek to 0 *)
            end);
    Ok (w, {| h_first := h_first h; h_cur := cl; h_off := new'; h_entry := h_entry h |}, new')
  end.

(* ---- File::truncate ---- *)
Definition file_truncate (w : fworld) (h : fhandle) : res (fworld * fhandle) :=
  match h_entry h with
  | None => Panic                (* "Trying to truncate a file without an entry" *)
  | Some e =>
    let e1 := ed_set_size e (h_off h) in
    let e2 := if h_off h =? 0 then ed_set_first e1 None else e1 in
    match h_cur h with
    | Some c =>
      if h_off h =? 0 then Panic else      (* debug_assert!(self.offset > 0) *)
      do (t', fi') <- fs_truncate_chain T get set (w_fat w) (w_fi w) c (chain_fuel total);
      Ok ({| w_fat := t'; w_fi := fi'; w_data := w_data w |},
          {| h_first := h_first h; h_cur := h_cur h; h_off := h_off h; h_entry := Some e2 |})
    | None =>
      if negb (h_off h =? 0) then Panic else   (* debug_assert!(self.offset == 0) *)
      match h_first h with
      | Some n =>
        do (t', fi') <- fs_free_chain T get set (w_fat w) (w_fi w) n (chain_fuel total);
        Ok ({| w_fat := t'; w_fi := fi'; w_data := w_data w |},
            {| h_first := None; h_cur := h_cur h; h_off := h_off h; h_entry := Some e2 |})
      | None => Ok (w, {| h_first := h_first h; h_cur := h_cur h; h_off := h_off h; h_entry := Some e2 |})
      end
    end
  end.

(* ---- File::extents ---- once(first).chain(cluster_iter(first)).map(size = min(cluster_size, bytes_left);
   bytes_left -= size).  An extent is (cluster, size): Extent.offset = offset_from_cluster(cluster).
   The Rust iterator is lazy and unbounded; the model collects it with fuel.  An error item ends the list and is
   returned instead of it. *)
Fixpoint ext_walk (t : T) (it : citer) (bleft : N) (fuel : nat) : res (list (N * N)) :=
  match fuel with
  | O => OutOfFuel
  | S k =>
    let '(it', r) := ci_next T get t it in
    match r with
    | None => Ok []
    | Some (Ok c) => let s := N.min cs bleft in do rest <- ext_walk t it' (bleft - s) k; Ok ((c, s) :: rest)
    | Some (Err e) => Err e
    | Some Panic => Panic
    | Some OutOfFuel => OutOfFuel
    end
  end.

Definition file_extents (w : fworld) (h : fhandle) : res (list (N * N)) :=
  match h_size h with
  | None => Ok []
  | Some bleft =>
    match h_first h with
    | None => Ok []
    | Some first =>
      let s := N.min cs bleft in
      do rest <- ext_walk (w_fat w) (ci_new first) (bleft - s) (chain_fuel total);
      Ok ((first, s) :: rest)
    end
  end.

(* ---- one step of a single-handle history ---- *)
Inductive fop := FRead (n : N) | FWrite (data : list N) | FSeek (pos : seekfrom) | FTruncate.
Inductive fresult := RBytes (bs : list N) | RCount (k : N) | RPos (p : N) | RDone | RFail (e : error) | RPanic | RFuel.

Definition of_res {A} (r : res A) (f : A -> fworld * fhandle * fresult) (w : fworld) (h : fhandle)
  : fworld * fhandle * fresult :=
  match r with
  | Ok a => f a
  | Err e => (w, h, RFail e)
  | Panic => (w, h, RPanic)
  | OutOfFuel => (w, h, RFuel)
  end.

Definition file_step (w : fworld) (h : fhandle) (o : fop) : fworld * fhandle * fresult :=
  match o with
  | FRead n => of_res (file_read w h n) (fun '(w', h', bs) => (w', h', RBytes bs)) w h
  | FWrite d => of_res (file_write w h d) (fun '(w', h', k) => (w', h', RCount k)) w h
  | FSeek p => of_res (file_seek w h p) (fun '(w', h', q) => (w', h', RPos q)) w h
  | FTruncate => of_res (file_truncate w h) (fun '(w', h') => (w', h', RDone)) w h
  end.

Fixpoint file_run (w : fworld) (h : fhandle) (ops : list fop) : fworld * fhandle * list fresult :=
  match ops with
  | [] => (w, h, [])
  | o :: r => let '(w1, h1, x) := file_step w h o in
              let '(w2, h2, xs) := file_run w1 h1 r in (w2, h2, x :: xs)
  end.

(* several open files over one world: an operation names the handle (by index) it is applied to; an index
   without a handle is skipped *)
Fixpoint multi_run (w : fworld) (hs : list fhandle) (ops : list (nat * fop)) : fworld * list fhandle * list fresult :=
  match ops with
  | [] => (w, hs, [])
  | (i, o) :: r =>
    match nth_error hs i with
    | None => multi_run w hs r
    | Some h => let '(w1, h1, x) := file_step w h o in
                let '(w2, hs2, xs) := multi_run w1 (list_set hs i h1) r in (w2, hs2, x :: xs)
    end
  end.

End FileM.

