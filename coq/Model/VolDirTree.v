(* VolDirTree.v: DIRECTORIES created in and removed from the FIXED ROOT of a FAT12/FAT16 volume, on whole device images.
   src/dir.rs  Dir::create_dir(name) / Dir::remove(name) called on fs.root_dir() with a one-component path.

   Dir::create_dir (line by line):
     let r = self.check_for_existence(name, Some(true))?;      validate_long_name, then the lookup: an existing DIRECTORY is returned
                                                               (Ok, nothing written), an existing FILE is InvalidInput, otherwise the
                                                               generated alias                          [DirSlots.check_for_existence]
     let cluster = self.fs.alloc_cluster(None, true)?;         ONE cluster, no predecessor, ZEROED        [vol_alloc_new_cluster]
                                                               NotEnoughSpace here has written nothing
     let sfn_entry = self.create_sfn_entry(short_name, DIRECTORY, Some(cluster));   stamps of the time provider
     let entry = match self.write_entry(name, sfn_entry) {     the entry in the root region               [DirSlots.write_entry FixedRoot]
         Err(err) => { self.fs.free_cluster_chain(cluster)?; return Err(err); }     D25 (087b5c6): the cluster is given back - the FAT
                                                               entry is Free again, the latch count is incremented again; the ZERO FILL
                                                               of the cluster and the moved next-free hint STAY   [VolRemove.vol_free_chain]
     let dir = entry.to_dir();                                 a File stream on the chain [cluster]
     dir.write_entry(".",  create_sfn_entry(generate_dot(),    DIRECTORY, entry.first_cluster()))?;    slot 0 of the new cluster
     dir.write_entry("..", create_sfn_entry(generate_dotdot(), DIRECTORY, None))?;                     slot 1: `self.stream.is_root_dir()`
                                                               holds for the fixed root, so ".." carries cluster 0
     "." and ".." have no long-name slots (write_entry: alloc_sfn_entry = find_free_entries(1)); a failure of these two writes is
     returned with `?` WITHOUT any roll-back (the entry and the cluster stay).  In a zeroed cluster of >= 64 bytes both writes find
     their slot inside the cluster (Proofs/VolDirTreeProofs.v), the directory never grows here.
   Clock: create_sfn_entry asks the time provider three times; the model takes ONE [now] for the call.  The returned Dir's File
   carries an editor for the new root entry; the two writes through it call set_modified(now) - with the same [now] the encoded
   stamp is the one just written, so the write-back at drop rewrites at most the same bytes (the executor's clock is fixed during
   a call).  With a clock that moves between the three calls the stamps of the three slots would differ: not modelled.

   Dir::remove of a directory (line by line):
     let e = self.find_entry(name, None, None)?;               [VolDir.root_lookup]; an error is the call's error, nothing written
     if e.is_dir() && (short name == "." || "..") -> InvalidInput                                          [DirSlots.is_special]
     if e.is_dir() && !e.to_dir().is_empty()? -> DirectoryIsNotEmpty         NOTHING has been written
         is_empty: `for r in self.iter() { let e = r?; if short_file_name_as_bytes() is neither "." nor ".." { return Ok(false) } } Ok(true)`
         Dir::iter() skips deleted slots, long-name slots and VOLUME LABELS and stops at the end marker: a directory holding only
         ".", "..", deleted slots and volume-label slots is EMPTY for the code (whatever the cluster fields of "." / ".." say).
         The directory is read through its chain ([Abs.chain_from] from the entry's first cluster; the stream follows the same links).
     if let Some(n) = e.first_cluster() { self.fs.free_cluster_chain(n)?; }                               [VolRemove.vol_free_chain]
     the deletion loop over the entry's slots in the root                                                 [DirSlots.delete_entry]
   Order of device writes as in the code: FAT entries first, then the root slots.
   Answers None (outside this model): the name is a file (Model/VolRemove.v); a directory entry whose first cluster is 0 (to_dir()
   is then the root itself); a chain the decoder cannot walk; a chain walk of free_cluster_chain that fails half way.
   [dir_is_empty] evaluates the whole listing before it looks at the names, the code stops at the first other name: the two
   differ only when the iterator fails BEHIND a first other entry (the model then reports that failure) - Lfn.read_dir fails only
   by Panic on u32 overflow of the position, which a directory of < 2^32 bytes does not reach.
   NOT part of these functions (Model/VolStatus.v): the dirty flag of the status byte, the device flush.
   Executable; extracted (model cvol: mkdir / rmdir).  No proofs here (Proofs/VolDirTreeProofs.v). *)
From Coq Require Import NArith List Bool.
From FatVerif Require Import Model.Base Model.Str Model.Slot Model.Time Model.Name Model.ShortName Model.Table Model.Fat Model.FileM
  Model.DirSlots Model.VolDir Model.VolFile Model.VolSession Model.VolChainDir Model.VolChainGrow Model.VolRemove Spec.Image Spec.Abs.
From FatVerif Require Model.Lfn.
Import ListNotations.
Open Scope N_scope.

(* FileSystem::alloc_cluster(None, zero = true): Table.fs_alloc without a predecessor on the FAT store of the image, then the zero
   fill of the whole cluster (compare Model/VolChainGrow.vol_alloc_dir_cluster, which links behind a predecessor) *)
Definition vol_alloc_new_cluster (g : geom) (im : image) (fi : fsinfo) : res (image * fsinfo * N) :=
  do (s', fi', c) <- fs_alloc fstore (fat_get (ft_of g)) (fat_set (ft_of g)) (store_of g im) fi None (g_clusters g);
  Ok (img_write (fs_img s') (g_cluster_off g c) (repeat_N 0 (N.to_nat (g_cluster_size g))), fi', c).

(* dir.write_entry(name, e) on the directory whose chain is the single cluster [c], without growth ([free = 0]) *)
Definition vol_write_entry_cluster (g : geom) (im : image) (c : N) (name : str) (e : sfn_entry) : res (N * N) * image :=
  let '(w, ss') := write_entry (Chained (cluster_slots g)) 0 (chain_dir_slots g im [c]) name e in
  (w, put_chain_slots g im [c] ss').

(* DirEntry::first_cluster() of the entry just written, FAT12/16: the low word; 0 = None *)
Definition written_first_cluster (c : N) : option N := if c mod 65536 =? 0 then None else Some (c mod 65536).

Definition DOT_NAME : str := [46].
Definition DOTDOT_NAME : str := [46; 46].

Section VolDirTree.
  Variable upper : N -> list N.     (* char_to_uppercase *)
  Variable oem : N -> N.            (* OemCpConverter::decode *)

  (* root_dir().create_dir(name).
     (Ok None, im, fi): a directory of that name exists, nothing written.
     (Ok (Some (p, q, c)), im', fi'): created; slots p .. q-1 of the root, cluster c.
     (Err e, ..): see the header; after a failed entry write the state is the one AFTER the give-back. *)
  Definition vol_create_dir_root (im : image) (fi : fsinfo) (name : str) (now : datetime)
    : res (option (N * N * N)) * (image * fsinfo) :=
    let g := parse_geom im in
    match check_for_existence upper oem (root_region_slots g im) name (Some true) with
    | Ok (Exists _) => (Ok None, (im, fi))
    | Ok (Fresh a) =>
      match vol_alloc_new_cluster g im fi with
      | Ok (im1, fi1, c) =>
        match stamp_create now with
        | Ok st =>
          let '(w, ss') := write_entry FixedRoot 0 (root_region_slots g im1) name (create_sfn_entry false a ATTR_DIRECTORY (Some c) st) in
          let im2 := put_root_slots g im1 ss' in
          match w with
          | Ok (p, q) =>
            let '(w1, im3) := vol_write_entry_cluster g im2 c DOT_NAME
                                (create_sfn_entry false DOT ATTR_DIRECTORY (written_first_cluster c) st) in
            match w1 with
            | Ok _ =>
              let '(w2, im4) := vol_write_entry_cluster g im3 c DOTDOT_NAME (create_sfn_entry false DOTDOT ATTR_DIRECTORY None st) in
              match w2 with
              | Ok _ => (Ok (Some (p, q, c)), (im4, fi1))
              | Err e => (Err e, (im4, fi1))
              | Panic => (Panic, (im4, fi1))
              | OutOfFuel => (OutOfFuel, (im4, fi1))
              end
            | Err e => (Err e, (im3, fi1))
            | Panic => (Panic, (im3, fi1))
            | OutOfFuel => (OutOfFuel, (im3, fi1))
            end
          | Err e =>
            (* no entry refers to the new cluster - give it back; a failing give-back is the call's error *)
            match vol_free_chain g im2 fi1 c with
            | Ok (im3, fi3) => (Err e, (im3, fi3))
            | Err e2 => (Err e2, (im2, fi1))
            | Panic => (Panic, (im2, fi1))
            | OutOfFuel => (OutOfFuel, (im2, fi1))
            end
          | Panic => (Panic, (im2, fi1))
          | OutOfFuel => (OutOfFuel, (im2, fi1))
          end
        | Err e => (Err e, (im1, fi1))
        | Panic => (Panic, (im1, fi1))
        | OutOfFuel => (OutOfFuel, (im1, fi1))
        end
      | Err e => (Err e, (im, fi))
      | Panic => (Panic, (im, fi))
      | OutOfFuel => (OutOfFuel, (im, fi))
      end
    | Err e => (Err e, (im, fi))
    | Panic => (Panic, (im, fi))
    | OutOfFuel => (OutOfFuel, (im, fi))
    end.

  (* Dir::is_empty on the directory with chain [l] *)
  Definition is_dot_entry (ev : Lfn.entry_view) : bool :=
    str_eqb (Lfn.ev_short ev) DOT_NAME || str_eqb (Lfn.ev_short ev) DOTDOT_NAME.
  Definition dir_is_empty (g : geom) (im : image) (l : list N) : res bool :=
    do es <- dir_entries oem (chain_dir_slots g im l);
    Ok (forallb is_dot_entry es).

  (* root_dir().remove(name) of a DIRECTORY *)
  Definition vol_remove_dir_root (im : image) (fi : fsinfo) (name : str) : option (res unit * image * fsinfo) :=
    let g := parse_geom im in
    match root_lookup upper oem im name with
    | Ok ev =>
      if negb (Lfn.ev_is_dir ev) then None
      else if is_special ev then Some (Err EInvalidInput, im, fi)
      else
        let c := root_entry_cluster ev in
        if c =? 0 then None
        else
          match chain_from g im c (Abs.chain_fuel g) with
          | None => None
          | Some l =>
            match dir_is_empty g im l with
            | Ok true =>
              match vol_free_chain g im fi c with
              | Ok (im1, fi') => Some (Ok tt, put_root_slots g im1 (delete_entry (root_region_slots g im1) ev), fi')
              | _ => None
              end
            | Ok false => Some (Err EDirectoryIsNotEmpty, im, fi)
            | Err e => Some (Err e, im, fi)
            | Panic => Some (Panic, im, fi)
            | OutOfFuel => Some (OutOfFuel, im, fi)
            end
          end
    | Err e => Some (Err e, im, fi)
    | Panic => Some (Panic, im, fi)
    | OutOfFuel => Some (OutOfFuel, im, fi)
    end.

  (* root_dir().remove(name) of whatever the name resolves to: a directory (above) or a file (Model/VolRemove.v) *)
  Definition vol_remove_root (im : image) (fi : fsinfo) (name : str) : option (res unit * image * fsinfo) :=
    match root_lookup upper oem im name with
    | Ok ev => if Lfn.ev_is_dir ev then vol_remove_dir_root im fi name else vol_remove_file_root upper oem im fi name
    | _ => vol_remove_dir_root im fi name
    end.
End VolDirTree.
