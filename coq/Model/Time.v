(* Time.v: model of src/time.rs (DOS date/time packing) and of the time fields of a
   short directory entry (src/dir_entry.rs DirFileEntryData::{set_,}{created,modified,accessed}). *)
From FatVerif Require Import Model.Base.
Open Scope N_scope.

Definition MIN_YEAR : N := 1980.
Definition MAX_YEAR : N := 2107.

Record date := { year : N; month : N; day : N }.
Record time := { hour : N; min : N; sec : N; millis : N }.
Record datetime := { dt_date : date; dt_time : time }.

(* Date::new / Time::new assertions *)
Definition date_valid (d : date) : bool :=
  (MIN_YEAR <=? year d) && (year d <=? MAX_YEAR) && (1 <=? month d) && (month d <=? 12)
  && (1 <=? day d) && (day d <=? 31).
Definition time_valid (t : time) : bool :=
  (hour t <=? 23) && (min t <=? 59) && (sec t <=? 59) && (millis t <=? 999).

(* Date::decode: ((dos_date >> 9) + MIN_YEAR, (dos_date >> 5) & 0xF, dos_date & 0x1F) *)
Definition date_decode (w : N) : date :=
  {| year := w / 512 + MIN_YEAR; month := (w / 32) mod 16; day := w mod 32 |}.

(* Date::encode: ((year - MIN_YEAR) << 9) | (month << 5) | day     (u16 arithmetic;
   `year - MIN_YEAR` panics below 1980 in a debug build, shifts drop high bits) *)
Definition date_encode (d : date) : res N :=
  if year d <? MIN_YEAR then Panic
  else Ok (N.lor (N.lor (((year d - MIN_YEAR) * 512) mod two16) ((month d * 32) mod two16)) (day d)).

(* Time::decode(dos_time, dos_time_hi_res) *)
Definition time_decode (w hi : N) : time :=
  {| hour := w / 2048; min := (w / 32) mod 64;
     sec := (w mod 32) * 2 + hi / 100; millis := (hi mod 100) * 10 |}.

(* Time::encode -> (dos_time, dos_time_hi_res as u8) *)
Definition time_encode (t : time) : N * N :=
  (N.lor (N.lor ((hour t * 2048) mod two16) ((min t * 32) mod two16)) (sec t / 2),
   ((millis t / 10) + (sec t mod 2) * 100) mod 256).

Definition datetime_decode (dw tw hi : N) : datetime :=
  {| dt_date := date_decode dw; dt_time := time_decode tw hi |}.

(* --- the three stamps of a short entry (byte offsets inside the 32-byte slot) ---------
   13: create_time_0 (u8, 10 ms units)   14-15: create_time_1   16-17: create_date
   18-19: access_date                    22-23: modify_time     24-25: modify_date        *)
Record stamps := { create_time_0 : N; create_time_1 : N; create_date : N;
                   access_date : N; modify_time : N; modify_date : N }.

Definition st_created (s : stamps) : datetime := datetime_decode (create_date s) (create_time_1 s) (create_time_0 s).
Definition st_accessed (s : stamps) : date := date_decode (access_date s).
Definition st_modified (s : stamps) : datetime := datetime_decode (modify_date s) (modify_time s) 0.

Definition st_set_created (s : stamps) (dt : datetime) : res stamps :=
  do d <- date_encode (dt_date dt);
  let '(w, hi) := time_encode (dt_time dt) in
  Ok {| create_time_0 := hi; create_time_1 := w; create_date := d;
        access_date := access_date s; modify_time := modify_time s; modify_date := modify_date s |}.

Definition st_set_accessed (s : stamps) (d : date) : res stamps :=
  do w <- date_encode d;
  Ok {| create_time_0 := create_time_0 s; create_time_1 := create_time_1 s; create_date := create_date s;
        access_date := w; modify_time := modify_time s; modify_date := modify_date s |}.

Definition st_set_modified (s : stamps) (dt : datetime) : res stamps :=
  do d <- date_encode (dt_date dt);
  let '(w, _) := time_encode (dt_time dt) in
  Ok {| create_time_0 := create_time_0 s; create_time_1 := create_time_1 s; create_date := create_date s;
        access_date := access_date s; modify_time := w; modify_date := d |}.

(* documented resolutions *)
Definition round_created (t : time) : time :=
  {| hour := hour t; min := min t; sec := sec t; millis := (millis t / 10) * 10 |}.
Definition round_modified (t : time) : time :=
  {| hour := hour t; min := min t; sec := (sec t / 2) * 2; millis := 0 |}.

Definition date_eqb (a b : date) : bool :=
  (year a =? year b) && (month a =? month b) && (day a =? day b).
Definition time_eqb (a b : time) : bool :=
  (hour a =? hour b) && (min a =? min b) && (sec a =? sec b) && (millis a =? millis b).
Definition datetime_eqb (a b : datetime) : bool :=
  date_eqb (dt_date a) (dt_date b) && time_eqb (dt_time a) (dt_time b).

(* DirEntryEditor::set_* : compare against the decoded stored value before marking dirty *)
Record editor_t := { ed_st : stamps; ed_dirty : bool }.
Definition ed_set_created (e : editor_t) (dt : datetime) : res editor_t :=
  if datetime_eqb dt (st_created (ed_st e)) then Ok e
  else do s <- st_set_created (ed_st e) dt; Ok {| ed_st := s; ed_dirty := true |}.
Definition ed_set_accessed (e : editor_t) (d : date) : res editor_t :=
  if date_eqb d (st_accessed (ed_st e)) then Ok e
  else do s <- st_set_accessed (ed_st e) d; Ok {| ed_st := s; ed_dirty := true |}.
Definition ed_set_modified (e : editor_t) (dt : datetime) : res editor_t :=
  if datetime_eqb dt (st_modified (ed_st e)) then Ok e
  else do s <- st_set_modified (ed_st e) dt; Ok {| ed_st := s; ed_dirty := true |}.

(* --- stamping rules (Dir::create_sfn_entry, File::update_dir_entry_after_write, File::read) --- *)
Definition stamps_zero : stamps :=
  {| create_time_0 := 0; create_time_1 := 0; create_date := 0; access_date := 0; modify_time := 0; modify_date := 0 |}.

(* create_sfn_entry: set_created(now); set_accessed(now.date); set_modified(now) on a fresh entry *)
Definition stamp_create (now : datetime) : res stamps :=
  do s1 <- st_set_created stamps_zero now;
  do s2 <- st_set_accessed s1 (dt_date now);
  st_set_modified s2 now.

(* a successful File::write chunk: editor.set_modified(now) *)
Definition stamp_write (e : editor_t) (now : datetime) : res editor_t := ed_set_modified e now.

(* a successful File::read: editor.set_accessed(today) iff update_accessed_date *)
Definition stamp_read (e : editor_t) (update_accessed_date : bool) (today : date) : res editor_t :=
  if update_accessed_date then ed_set_accessed e today else Ok e.
