(* FlushM.v: the device-level shape of File::flush / Drop for File (src/file.rs, src/dir_entry.rs):
   DirEntryEditor::flush writes the 32-byte short entry at its remembered absolute position iff it is dirty
   (and clears the dirty mark), then the device is flushed.  The device is write-through: [apply_events] replays
   a log on an image; what is durable after a power cut that loses every write issued after some later point is the
   image after a prefix of the log that contains the flush. *)
From FatVerif Require Import Model.Base Spec.Image.
Open Scope N_scope.

Inductive dev_event := DWrite (off : N) (bytes : list N) | DFlush.

Definition file_flush (dirty : bool) (pos : N) (entry : list N) : list dev_event * bool :=
  ((if dirty then [DWrite pos entry] else []) ++ [DFlush], false).

Fixpoint apply_events (im : image) (evs : list dev_event) : image :=
  match evs with
  | [] => im
  | DWrite off bs :: r => apply_events (img_write im off bs) r
  | DFlush :: r => apply_events im r
  end.

(* a write-back cache that honours flush: [cur] is what reads see, [dur] what survives a power cut; a write changes
   [cur] only, a device flush makes [cur] durable *)
Fixpoint cache_run (cur dur : image) (evs : list dev_event) : image * image :=
  match evs with
  | [] => (cur, dur)
  | DWrite off bs :: r => cache_run (img_write cur off bs) dur r
  | DFlush :: r => cache_run cur cur r
  end.
