(* Bpb.v: executable model of mounting, as far as the boot sector and the FAT32 FS-information sector
   decide it:  src/boot_sector.rs  (BiosParameterBlock::deserialize, BootSector::deserialize, validate_*,
   the derived geometry functions)  and the FS-info part of  FileSystem::new  in src/fs.rs
   (FsInfoSector::deserialize, validate_and_fix).  One Gallina function per Rust function.
   u32/u64 arithmetic carries a build profile: [Debug] panics on overflow, [Release] wraps.
   No proofs here. *)
From FatVerif Require Import Model.Base.
Open Scope N_scope.

(* ---------- fixed-width arithmetic under a build profile ---------- *)
Inductive profile := Debug | Release.

Definition p_add (p : profile) (a b : N) : res N :=
  match p with Debug => u32_add a b | Release => Ok (w32_add a b) end.
Definition p_mul (p : profile) (a b : N) : res N :=
  match p with Debug => u32_mul a b | Release => Ok (w32_mul a b) end.
Definition p_sub (p : profile) (a b : N) : res N :=
  match p with Debug => u32_sub a b | Release => Ok (w32_sub a b) end.
(* u64 *)
Definition p64_add (p : profile) (a b : N) : res N :=
  match p with Debug => if a + b <=? u64_max then Ok (a + b) else Panic | Release => Ok ((a + b) mod two64) end.
Definition p64_mul (p : profile) (a b : N) : res N :=
  match p with Debug => if a * b <=? u64_max then Ok (a * b) else Panic | Release => Ok ((a * b) mod two64) end.
(* division and remainder panic on a zero divisor in every profile *)
Definition p_div (a b : N) : res N := if b =? 0 then Panic else Ok (a / b).
Definition p_rem (a b : N) : res N := if b =? 0 then Panic else Ok (a mod b).

(* ---------- byte access (rdr.read_u8 / read_u16_le / read_u32_le at a fixed position) ---------- *)
Definition byte_at (bs : list N) (i : nat) : N := nth i bs 0.
Definition u16_at (bs : list N) (i : nat) : N := byte_at bs i + 256 * byte_at bs (i + 1).
Definition u32_at (bs : list N) (i : nat) : N :=
  byte_at bs i + 256 * byte_at bs (i + 1) + 65536 * byte_at bs (i + 2) + 16777216 * byte_at bs (i + 3).
Definition bytes_at (bs : list N) (i n : nat) : list N := firstn n (skipn i bs).

(* ---------- BiosParameterBlock ---------- *)
Record bpb := {
  bytes_per_sector : N;       (* u16 *)
  sectors_per_cluster : N;    (* u8 *)
  reserved_sectors : N;       (* u16 *)
  fats : N;                   (* u8 *)
  root_entries : N;           (* u16 *)
  total_sectors_16 : N;       (* u16 *)
  media : N;                  (* u8 *)
  sectors_per_fat_16 : N;     (* u16 *)
  sectors_per_track : N;      (* u16 *)
  heads : N;                  (* u16 *)
  hidden_sectors : N;         (* u32 *)
  total_sectors_32 : N;       (* u32 *)
  (* extended BPB (FAT32 layout only; Default = 0 otherwise) *)
  sectors_per_fat_32 : N;     (* u32 *)
  extended_flags : N;         (* u16 *)
  fs_version : N;             (* u16 *)
  root_dir_first_cluster : N; (* u32 *)
  fs_info_sector : N;         (* u16 *)
  backup_boot_sector : N;     (* u16 *)
  reserved_0 : list N;        (* 12 bytes *)
  drive_num : N;              (* u8 *)
  reserved_1 : N;             (* u8 *)
  ext_sig : N;                (* u8 *)
  volume_id : N;              (* u32 *)
  volume_label : list N;      (* 11 bytes *)
  fs_type_label : list N      (* 8 bytes *)
}.

Definition is_fat32 (b : bpb) : bool := sectors_per_fat_16 b =? 0.

(* BiosParameterBlock::deserialize.  [bs] is the whole boot sector; the BPB starts at byte 11.
   The reader is sequential: the fields after total_sectors_32 sit at 36.. in the FAT12/16 layout and at
   64.. in the FAT32 layout (28 more bytes were consumed), decided by sectors_per_fat_16 = 0. *)
Definition bpb_deserialize (bs : list N) : bpb :=
  let f32 := u16_at bs 22 =? 0 in
  let o := if f32 then 64%nat else 36%nat in
  let sig := byte_at bs (o + 2) in
  let ext_ok := sig =? 0x29 in
  {| bytes_per_sector := u16_at bs 11;
     sectors_per_cluster := byte_at bs 13;
     reserved_sectors := u16_at bs 14;
     fats := byte_at bs 16;
     root_entries := u16_at bs 17;
     total_sectors_16 := u16_at bs 19;
     media := byte_at bs 21;
     sectors_per_fat_16 := u16_at bs 22;
     sectors_per_track := u16_at bs 24;
     heads := u16_at bs 26;
     hidden_sectors := u32_at bs 28;
     total_sectors_32 := u32_at bs 32;
     sectors_per_fat_32 := if f32 then u32_at bs 36 else 0;
     extended_flags := if f32 then u16_at bs 40 else 0;
     fs_version := if f32 then u16_at bs 42 else 0;
     root_dir_first_cluster := if f32 then u32_at bs 44 else 0;
     fs_info_sector := if f32 then u16_at bs 48 else 0;
     backup_boot_sector := if f32 then u16_at bs 50 else 0;
     reserved_0 := if f32 then bytes_at bs 52 12 else repeat_N 0 12;
     drive_num := byte_at bs o;
     reserved_1 := byte_at bs (o + 1);
     ext_sig := sig;
     volume_id := if ext_ok then u32_at bs (o + 3) else 0;
     volume_label := if ext_ok then bytes_at bs (o + 7) 11 else repeat_N 0 11;
     fs_type_label := if ext_ok then bytes_at bs (o + 18) 8 else repeat_N 0 8 |}.

(* ---------- accessors and derived geometry ---------- *)
Definition sectors_per_fat (b : bpb) : N := if is_fat32 b then sectors_per_fat_32 b else sectors_per_fat_16 b.
Definition total_sectors (b : bpb) : N := if total_sectors_16 b =? 0 then total_sectors_32 b else total_sectors_16 b.
Definition DIR_ENTRY_SIZE : N := 32.
Definition RESERVED_FAT_ENTRIES : N := 2.

Definition root_dir_sectors (p : profile) (b : bpb) : res N :=
  do root_dir_bytes <- p_mul p (root_entries b) DIR_ENTRY_SIZE;
  do t <- p_add p root_dir_bytes (bytes_per_sector b);
  do t1 <- p_sub p t 1;
  p_div t1 (bytes_per_sector b).

Definition sectors_per_all_fats (p : profile) (b : bpb) : res N := p_mul p (fats b) (sectors_per_fat b).

Definition first_data_sector (p : profile) (b : bpb) : res N :=
  do rds <- root_dir_sectors p b;
  do fat_sectors <- sectors_per_all_fats p b;
  do t <- p_add p (reserved_sectors b) fat_sectors;
  p_add p t rds.

Definition total_clusters (p : profile) (b : bpb) : res N :=
  do fds <- first_data_sector p b;
  do data_sectors <- p_sub p (total_sectors b) fds;
  p_div data_sectors (sectors_per_cluster b).

Definition cluster_size (p : profile) (b : bpb) : res N := p_mul p (sectors_per_cluster b) (bytes_per_sector b).

(* u64::from(sectors) * u64::from(bytes_per_sector) *)
Definition bytes_from_sectors (p : profile) (b : bpb) (sectors : N) : res N := p64_mul p sectors (bytes_per_sector b).

Inductive fat_type := Fat12 | Fat16 | Fat32.
Definition FAT16_MIN_CLUSTERS : N := 4085.
Definition FAT32_MIN_CLUSTERS : N := 65525.
Definition fat_type_from_clusters (total : N) : fat_type :=
  if total <? FAT16_MIN_CLUSTERS then Fat12 else if total <? FAT32_MIN_CLUSTERS then Fat16 else Fat32.
Definition bits_per_fat_entry (t : fat_type) : N := match t with Fat12 => 12 | Fat16 => 16 | Fat32 => 32 end.
Definition is_Fat32 (t : fat_type) : bool := match t with Fat32 => true | _ => false end.

Definition decode_dirty (flags : N) : bool := negb (flags mod 2 =? 0).           (* flags & 1 != 0 *)
Definition decode_io_error (flags : N) : bool := negb ((flags / 2) mod 2 =? 0).  (* flags & 2 != 0 *)

(* ---------- validation ---------- *)
Definition corrupted {A} : res A := Err ECorruptedFileSystem.

Definition validate_bytes_per_sector (b : bpb) : res unit :=
  if negb (is_pow2 (bytes_per_sector b)) then corrupted
  else if (bytes_per_sector b <? 512) || (4096 <? bytes_per_sector b) then corrupted
  else Ok tt.

Definition validate_sectors_per_cluster (p : profile) (b : bpb) : res unit :=
  if negb (is_pow2 (sectors_per_cluster b)) then corrupted
  else
    do bytes_per_cluster <- p_mul p (bytes_per_sector b) (sectors_per_cluster b);
    Ok tt (* > 32 KiB: warning only *).

Definition validate_reserved_sectors (b : bpb) : res unit :=
  let f32 := is_fat32 b in
  if reserved_sectors b <? 1 then corrupted
  else if f32 && (reserved_sectors b <=? backup_boot_sector b) then corrupted
  else if f32 && (reserved_sectors b <=? fs_info_sector b) then corrupted
  else Ok tt.

Definition validate_fats (b : bpb) : res unit :=
  if fats b =? 0 then corrupted else Ok tt (* > 2: warning only *).

Definition validate_root_entries (p : profile) (b : bpb) : res unit :=
  let f32 := is_fat32 b in
  if f32 && negb (root_entries b =? 0) then corrupted
  else if negb f32 && (root_entries b =? 0) then corrupted
  else
    do rb <- p_mul p (root_entries b) DIR_ENTRY_SIZE;
    do r <- p_rem rb (bytes_per_sector b);
    Ok tt (* r != 0: warning only *).

Definition validate_total_sectors (p : profile) (b : bpb) : res unit :=
  let f32 := is_fat32 b in
  if f32 && negb (total_sectors_16 b =? 0) then corrupted
  else if (total_sectors_16 b =? 0) && (total_sectors_32 b =? 0) then corrupted
  else if negb (total_sectors_16 b =? 0) && negb (total_sectors_32 b =? 0)
          && negb (total_sectors_16 b =? total_sectors_32 b) then corrupted
  else
    let total := total_sectors b in
    do rds <- root_dir_sectors p b;
    do all_fats_64 <- p64_mul p (fats b) (sectors_per_fat b);
    do t <- p64_add p (reserved_sectors b) all_fats_64;
    do first_data_sector_64 <- p64_add p t rds;
    if total <=? first_data_sector_64 then corrupted
    else
      do fds <- first_data_sector p b;
      if total <=? fds then corrupted else Ok tt.

Definition validate_sectors_per_fat (b : bpb) : res unit :=
  if is_fat32 b && (sectors_per_fat_32 b =? 0) then corrupted else Ok tt.

Definition validate_total_clusters (p : profile) (b : bpb) : res unit :=
  let f32 := is_fat32 b in
  do tc <- total_clusters p b;
  let ft := fat_type_from_clusters tc in
  if negb (Bool.eqb f32 (is_Fat32 ft)) then corrupted
  else if is_Fat32 ft && (0x0FFFFFFF <? tc) then corrupted
  else
    do bad_root <-
      (if is_Fat32 ft then
         if root_dir_first_cluster b <? RESERVED_FAT_ENTRIES then Ok true
         else do d <- p_sub p (root_dir_first_cluster b) RESERVED_FAT_ENTRIES; Ok (tc <=? d)
       else Ok false);
    if (bad_root : bool) then corrupted
    else
      do x <- p64_mul p (sectors_per_fat b) (bytes_per_sector b);
      do y <- p64_mul p x 8;
      do total_fat_entries <- p_div y (bits_per_fat_entry ft);
      let usable_fat_entries := total_fat_entries - RESERVED_FAT_ENTRIES (* saturating_sub *) in
      Ok tt (* usable < total_clusters: warning only *).

Definition bpb_validate (p : profile) (b : bpb) : res unit :=
  if negb (fs_version b =? 0) then corrupted
  else
    do _ <- validate_bytes_per_sector b;
    do _ <- validate_sectors_per_cluster p b;
    do _ <- validate_reserved_sectors b;
    do _ <- validate_fats b;
    do _ <- validate_root_entries p b;
    do _ <- validate_total_sectors p b;
    do _ <- validate_sectors_per_fat b;
    do _ <- validate_total_clusters p b;
    Ok tt.

(* ---------- BootSector ---------- *)
Record boot_sector := {
  bs_bootjmp : list N;     (* 3 bytes *)
  bs_oem_name : list N;    (* 8 bytes *)
  bs_bpb : bpb;
  bs_boot_code : list N;   (* 420 (FAT32 layout) or 448 bytes read; the array is 448 long, zero padded *)
  bs_boot_sig : N * N
}.

(* a device that cannot deliver 512 bytes makes read_exact fail: the storage's own
   unexpected-eof error, wrapped as Error::Io *)
Definition boot_deserialize (bs : list N) : res boot_sector :=
  if len_N bs <? 512 then Err EIo
  else
    let b := bpb_deserialize bs in
    Ok {| bs_bootjmp := bytes_at bs 0 3;
          bs_oem_name := bytes_at bs 3 8;
          bs_bpb := b;
          bs_boot_code := if is_fat32 b then bytes_at bs 90 420 ++ repeat_N 0 28 else bytes_at bs 62 448;
          bs_boot_sig := (byte_at bs 510, byte_at bs 511) |}.

Definition boot_validate (p : profile) (boot : boot_sector) (strict : bool) : res unit :=
  if strict && negb ((fst (bs_boot_sig boot) =? 0x55) && (snd (bs_boot_sig boot) =? 0xAA)) then corrupted
  else bpb_validate p (bs_bpb boot) (* unknown jump opcode: warning only *).

(* ---------- FS information sector ---------- *)
Record fsinfo := { fi_free : option N; fi_next : option N }.
Definition fsinfo_default : fsinfo := {| fi_free := None; fi_next := None |}.
Definition LEAD_SIG : N := 0x41615252.
Definition STRUC_SIG : N := 0x61417272.
Definition TRAIL_SIG : N := 0xAA550000.

(* [s]: the bytes the device delivers from the FS-info position on (512 of them unless the device ends).
   Sequential reads: lead(4) reserved(480) struc(4) free(4) next(4) reserved2(12) trail(4). *)
Definition fsinfo_deserialize (s : list N) : res fsinfo :=
  if len_N s <? 4 then Err EIo
  else if negb (u32_at s 0 =? LEAD_SIG) then corrupted
  else if len_N s <? 488 then Err EIo
  else if negb (u32_at s 484 =? STRUC_SIG) then corrupted
  else if len_N s <? 512 then Err EIo
  else if negb (u32_at s 508 =? TRAIL_SIG) then corrupted
  else
    let free := u32_at s 488 in
    let next := u32_at s 492 in
    Ok {| fi_free := if free =? 0xFFFFFFFF then None else Some free;
          fi_next := if next =? 0xFFFFFFFF then None
                     else if (next =? 0) || (next =? 1) then None else Some next |}.

Definition fsinfo_validate_and_fix (p : profile) (fi : fsinfo) (total_clusters : N) : res fsinfo :=
  do max_valid_cluster_number <- p_add p total_clusters RESERVED_FAT_ENTRIES;
  Ok {| fi_free := match fi_free fi with
                   | Some n => if total_clusters <? n then None else Some n
                   | None => None end;
        fi_next := match fi_next fi with
                   | Some n => if max_valid_cluster_number <? n then None else Some n
                   | None => None end |}.

(* ---------- FileSystem::new ---------- *)
Record mounted := {
  m_fat_type : fat_type;
  m_cluster_size : N;
  m_total_clusters : N;
  m_first_data_sector : N;
  m_root_dir_sectors : N;
  m_free : option N;          (* fs_info.free_cluster_count after mount *)
  m_next : option N;          (* fs_info.next_free_cluster after mount *)
  m_dirty : bool;
  m_io_error : bool;
  m_volume_id : N
}.

(* byte offset at which FileSystem::new reads the FS-info sector (meaningful for the FAT32 layout) *)
Definition fsinfo_offset (bs : list N) : N :=
  let b := bpb_deserialize bs in fs_info_sector b * bytes_per_sector b.

(* [bs]: what the device delivers at offset 0 (512 bytes);  [fsi]: what it delivers at [fsinfo_offset bs]. *)
Definition mount (p : profile) (bs fsi : list N) (strict : bool) : res mounted :=
  do boot <- boot_deserialize bs;
  do _ <- boot_validate p boot strict;
  let b := bs_bpb boot in
  do rds <- root_dir_sectors p b;
  do fds <- first_data_sector p b;
  do tc <- total_clusters p b;
  let ft := fat_type_from_clusters tc in
  do fi0 <- (if is_Fat32 ft
             then do off <- bytes_from_sectors p b (fs_info_sector b); fsinfo_deserialize fsi
             else Ok fsinfo_default);
  let dirty := decode_dirty (reserved_1 b) in
  let fi1 := if dirty then {| fi_free := None; fi_next := fi_next fi0 |} else fi0 in
  do fi <- fsinfo_validate_and_fix p fi1 tc;
  do cs <- cluster_size p b;  (* FileSystem::cluster_size(), evaluated by every later use *)
  Ok {| m_fat_type := ft; m_cluster_size := cs; m_total_clusters := tc;
        m_first_data_sector := fds; m_root_dir_sectors := rds;
        m_free := fi_free fi; m_next := fi_next fi;
        m_dirty := dirty; m_io_error := decode_io_error (reserved_1 b);
        m_volume_id := volume_id b |}.
