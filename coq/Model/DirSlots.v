(* DirSlots.v: the directory SLOT layer of src/dir.rs.  One directory is the list of its 32-byte slots
   (a [list (list N)]); the functions below are the slot-level effect of
     Dir::find_free_entries, Dir::write_entry (+ alloc_and_write_lfn_entries / alloc_sfn_entry), the slot
     deletion loop of Dir::remove / Dir::rename_internal, Dir::find_entry, Dir::check_for_existence,
     Dir::create_sfn_entry, and the directory part of create_file / create_dir / rename_internal.
   The stream below the directory is abstracted to what the slot layer can observe of it:
     - a FIXED root (FAT12/16, a DiskSlice): a write at the end of the region returns 0 bytes, write_all turns that
       into Err(WriteZero); reading at the end gives UnexpectedEof, which DirEntryData::deserialize turns into an
       all-zero entry (= end marker);
     - a CHAIN-backed directory (a File): a write at the end of the chain allocates one zero-filled cluster
       ([cluster_slots] slots, > 0) while free clusters remain ([free] of them), else Err(NotEnoughSpace); reading
       at the end gives the same all-zero entry.
   Cluster and root sizes are multiples of 32, and DirEntryData::serialize starts with the 11 name bytes, so a slot is
   either written completely or not at all: failures are slot-granular and leave the slots written so far (a chain that
   cannot grow: finding "nospace during entry write", modelled faithfully).  A FIXED root that cannot take the new run is
   refused by find_free_entries with NotEnoughSpace before anything is written (13fd5fe; formerly D5/D20: WriteZero after
   a partial run).  Every function returns the outcome AND the resulting slots.
   No proofs here. *)
From FatVerif Require Import Model.Base Model.Str Model.Slot Model.Time Model.Name Model.ShortName.
From FatVerif Require Model.Lfn.
Open Scope N_scope.

Inductive dkind := FixedRoot | Chained (cluster_slots : nat).

Definition slots := list (list N).
Definition dres (A : Type) : Type := (res A * slots)%type.

(* `?` on a computation that cannot touch the slots *)
Definition lift {A B} (r : res A) (ss : slots) (f : A -> dres B) : dres B :=
  match r with
  | Ok a => f a
  | Err e => (Err e, ss)
  | Panic => (Panic, ss)
  | OutOfFuel => (OutOfFuel, ss)
  end.

Definition zero_slot : list N := repeat_N 0 32.

Fixpoint set_nth {A} (i : nat) (x : A) (l : list A) : list A :=
  match l with
  | [] => []
  | y :: r => match i with O => x :: r | S j => y :: set_nth j x r end
  end.

(* ---------- Dir::find_free_entries ---------------------------------------------------------
   loop { raw = deserialize; if raw.is_end() {..return} else if raw.is_deleted() {..} else {num_free = 0}; i += 1 }
   first_free, num_free, i are u32 (checked arithmetic of a debug build).  Running out of slots is the UnexpectedEof
   case of deserialize: an all-zero entry, i.e. an end marker at index = number of slots.
   The loop has two exits; the result carries which one was taken: (true, first_free) = the is_end() branch (end marker,
   or end of the slot list), (false, first_free) = the is_deleted() branch with num_free == num_entries. *)
Fixpoint find_free_go (ss : slots) (num first_free num_free i : N) : res (bool * N) :=
  match ss with
  | [] => Ok (true, if num_free =? 0 then i else first_free)
  | s :: r =>
    let raw := slot_decode s in
    if slot_is_end raw then Ok (true, if num_free =? 0 then i else first_free)
    else if slot_is_deleted raw then
      let ff := if num_free =? 0 then i else first_free in
      do nf <- u32_add num_free 1;
      if nf =? num then Ok (false, ff)
      else do i' <- u32_add i 1; find_free_go r num ff nf i'
    else
      do i' <- u32_add i 1; find_free_go r num first_free 0 i'
  end.

Definition is_fixed (k : dkind) : bool := match k with FixedRoot => true | Chained _ => false end.

(* Both exits compute pos = u64::from(first_free * DIR_ENTRY_SIZE): the product is computed in u32 (checked).
   In the is_end() branch of a FIXED root (DirRawStream::Root(slice); since 13fd5fe):
       if pos + u64::from(num_entries) * u64::from(DIR_ENTRY_SIZE) > slice.size() { return Err(NotEnoughSpace) }
   - u64 arithmetic that cannot overflow (pos < 2^32, num_entries < 2^32); slice.size() is the byte size of the whole root
   region, here 32 * the number of slots of [ss] (for a FixedRoot [ss] is the WHOLE region, to the end of its last
   sector).  The is_deleted() exit has no such check (the run it found lies inside the region).  Nothing has been
   written at this point.  Result: the slot index at which the caller starts writing. *)
Definition find_free_entries (k : dkind) (ss : slots) (num : N) : res N :=
  do r <- find_free_go ss num 0 0 0;
  let '(at_end, ff) := r in
  do pos <- u32_mul ff DIR_ENTRY_SIZE;
  if at_end && is_fixed k && (len_N ss * DIR_ENTRY_SIZE <? pos + num * DIR_ENTRY_SIZE) then Err ENotEnoughSpace
  else Ok ff.

(* ---------- writing consecutive slots through the stream ------------------------------------
   [i] is the stream position in slots.  find_free_entries never positions the stream beyond the end (its result is
   <= the number of slots), so [i <= length ss] always holds here; a position at the end is the "write at EOF" case.
   The stream itself is modelled faithfully: a DiskSlice write at its end still returns 0 bytes (WriteZero).  Since
   13fd5fe find_free_entries refuses a run that does not fit into a fixed root, so write_entry never reaches that branch
   (Proofs/DirSlotsProofs.write_entry_fixed_root_total). *)
Fixpoint write_run (k : dkind) (free : nat) (ss : slots) (i : nat) (run : slots) : res unit * slots :=
  match run with
  | [] => (Ok tt, ss)
  | s :: r =>
    if Nat.ltb i (length ss) then write_run k free (set_nth i s ss) (S i) r
    else
      match k with
      | FixedRoot => (Err EWriteZero, ss)
      | Chained cs =>
        match free with
        | O => (Err ENotEnoughSpace, ss)
        | S free' => write_run k free' (ss ++ s :: repeat_N zero_slot (cs - 1)) (S i) r
        end
      end
  end.

(* ---------- Dir::write_entry ------------------------------------------------------------------ *)

(* the slots of one entry in directory order: the long-name run (none for "." and ".."), then the short slot *)
Definition entry_run (name : str) (e : sfn_entry) : slots :=
  map lfn_encode (write_entry_lfn_slots name (se_name e)) ++ [sfn_encode e].

(* Ok (start, end): the offset_range of the returned DirEntry, in slots (end exclusive) *)
Definition write_entry (k : dkind) (free : nat) (ss : slots) (name : str) (e : sfn_entry) : dres (N * N) :=
  lift (validate_long_name name) ss (fun _ =>
    let run := entry_run name e in
    (* num_entries = lfn_iter.len() as u32 + 1, or find_free_entries(1) for the dot names *)
    lift (find_free_entries k ss (len_N run)) ss (fun p =>
      let '(r, ss') := write_run k free ss (N.to_nat p) run in
      (do _ <- r; Ok (p, p + len_N run), ss'))).

(* ---------- the deletion loop of remove / rename_internal -------------------------------------
   for each slot of offset_range: deserialize, set_deleted, seek back, serialize.  (Through the codec the attribute
   byte loses bits 6-7: FileAttributes::from_bits_truncate.) *)
Definition set_deleted (s : slot) : slot :=
  match s with
  | SFile e => SFile {| se_name := DELETED_FLAG :: tl (se_name e); se_attrs := se_attrs e; se_reserved_0 := se_reserved_0 e;
                        se_create_time_0 := se_create_time_0 e; se_create_time_1 := se_create_time_1 e;
                        se_create_date := se_create_date e; se_access_date := se_access_date e;
                        se_first_cluster_hi := se_first_cluster_hi e; se_modify_time := se_modify_time e;
                        se_modify_date := se_modify_date e; se_first_cluster_lo := se_first_cluster_lo e;
                        se_size := se_size e |}
  | SLfn e => SLfn {| le_order := DELETED_FLAG; le_name := le_name e; le_attrs := le_attrs e;
                      le_entry_type := le_entry_type e; le_checksum := le_checksum e; le_reserved_0 := le_reserved_0 e |}
  end.
Definition mark_deleted_slot (bs : list N) : list N := slot_encode (set_deleted (slot_decode bs)).

(* slots first .. last-1 (an offset_range produced by the reader, so inside the directory) *)
Definition mark_deleted (ss : slots) (first last : N) : slots :=
  let a := N.to_nat first in
  let b := N.to_nat last in
  firstn a ss ++ map mark_deleted_slot (firstn (b - a) (skipn a ss)) ++ skipn b ss.

(* ---------- Dir::create_sfn_entry ------------------------------------------------------------- *)
Definition create_sfn_entry (fat32 : bool) (short_name : list N) (attrs : N) (first_cluster : option N) (st : stamps)
  : sfn_entry :=
  let n := match first_cluster with Some c => c | None => 0 end in
  {| se_name := short_name; se_attrs := attrs; se_reserved_0 := 0;
     se_create_time_0 := create_time_0 st; se_create_time_1 := create_time_1 st; se_create_date := create_date st;
     se_access_date := access_date st;
     se_first_cluster_hi := if fat32 then (n / 65536) mod 65536 else 0;
     se_modify_time := modify_time st; se_modify_date := modify_date st;
     se_first_cluster_lo := n mod 65536; se_size := 0 |}.

(* DirFileEntryData::renamed *)
Definition renamed (e : sfn_entry) (new_name : list N) : sfn_entry :=
  {| se_name := new_name; se_attrs := se_attrs e; se_reserved_0 := se_reserved_0 e;
     se_create_time_0 := se_create_time_0 e; se_create_time_1 := se_create_time_1 e; se_create_date := se_create_date e;
     se_access_date := se_access_date e; se_first_cluster_hi := se_first_cluster_hi e;
     se_modify_time := se_modify_time e; se_modify_date := se_modify_date e;
     se_first_cluster_lo := se_first_cluster_lo e; se_size := se_size e |}.

Section Dir.
  Variable upper : N -> list N.     (* char_to_uppercase *)
  Variable oem : N -> N.            (* OemCpConverter::decode *)
  Variable fat32 : bool.

  (* DirEntry::eq_name on what the iterator yields *)
  Definition matches (name : str) (ev : Lfn.entry_view) : bool :=
    eq_name upper oem (Lfn.ev_lfn ev) (Lfn.ev_raw_name ev) name.

  (* Dir::iter(): volume labels are skipped *)
  Definition dir_entries (ss : slots) : res (list Lfn.entry_view) := Lfn.read_dir Lfn.VecBuf oem true ss.

  Definition kind_check (ev : Lfn.entry_view) (is_dir : option bool) : res Lfn.entry_view :=
    match is_dir with
    | Some d => if Bool.eqb (Lfn.ev_is_dir ev) d then Ok ev else Err EInvalidInput
    | None => Ok ev
    end.

  (* Dir::find_entry without a generator: the first entry that matches *)
  Definition find_entry (ss : slots) (name : str) (is_dir : option bool) : res Lfn.entry_view :=
    do l <- dir_entries ss;
    match find (matches name) l with
    | Some ev => kind_check ev is_dir
    | None => Err ENotFound
    end.

  (* Dir::check_for_existence: validate, then the find_entry / generate / next_iteration loop.  When no entry matches,
     every entry was visited and fed to add_existing: that is [alias_for] on the raw short names of all entries.
     Fuel S (K / 9) suffices for K entries (Proofs/ShortNameProofs.gen_terminates). *)
  Inductive existence := Exists (ev : Lfn.entry_view) | Fresh (alias : list N).
  Definition check_for_existence (ss : slots) (name : str) (is_dir : option bool) : res existence :=
    do _ <- validate_long_name name;
    do l <- dir_entries ss;
    match find (matches name) l with
    | Some ev => do ev' <- kind_check ev is_dir; Ok (Exists ev')
    | None => do a <- alias_for name (map Lfn.ev_raw_name l) (S (Nat.div (length l) 9)); Ok (Fresh a)
    end.

  (* the directory part of create_file (attrs = 0, no cluster, want_dir = false) and create_dir (attrs = DIRECTORY,
     the freshly allocated cluster, want_dir = true).  Ok None: the entry already existed, nothing is written.
     (Not a slot matter: when write_entry fails, create_dir gives the freshly allocated cluster back - 087b5c6.) *)
  Definition create_entry (k : dkind) (free : nat) (ss : slots) (name : str) (attrs : N) (cluster : option N)
             (now : datetime) (want_dir : bool) : dres (option (N * N)) :=
    lift (check_for_existence ss name (Some want_dir)) ss (fun r =>
      match r with
      | Exists _ => (Ok None, ss)
      | Fresh a =>
        lift (stamp_create now) ss (fun st =>
          let '(w, ss') := write_entry k free ss name (create_sfn_entry fat32 a attrs cluster st) in
          (do range <- w; Ok (Some range), ss'))
      end).

  (* the short entry data of a listed entry: the slot just before its end offset *)
  Definition entry_data (ss : slots) (ev : Lfn.entry_view) : sfn_entry :=
    match slot_decode (nth (N.to_nat (Lfn.ev_end ev / DIR_ENTRY_SIZE - 1)) ss []) with
    | SFile e => e
    | SLfn _ => create_sfn_entry false [] 0 None stamps_zero     (* unreachable: a listed entry ends in a short slot *)
    end.

  Definition delete_entry (ss : slots) (ev : Lfn.entry_view) : slots :=
    mark_deleted ss (Lfn.ev_begin ev / DIR_ENTRY_SIZE) (Lfn.ev_end ev / DIR_ENTRY_SIZE).

  (* the slot part of Dir::remove: find the entry; "." and ".." directory entries are refused (InvalidInput); a
     directory must be empty ([child_nonempty] = what is_empty() of the child reports, DirectoryIsNotEmpty); the cluster
     chain is freed by the layer below; then the deletion loop *)
  Definition is_special (ev : Lfn.entry_view) : bool :=
    Lfn.ev_is_dir ev && (str_eqb (Lfn.ev_short ev) [46] || str_eqb (Lfn.ev_short ev) [46; 46]).
  Definition remove_entry (ss : slots) (name : str) (child_nonempty : bool) : dres unit :=
    lift (find_entry ss name None) ss (fun ev =>
      if is_special ev then (Err EInvalidInput, ss)
      else if Lfn.ev_is_dir ev && child_nonempty then (Err EDirectoryIsNotEmpty, ss)
      else (Ok tt, delete_entry ss ev)).

  (* DirEntry::has_exact_name: the entry is stored under exactly this spelling - the long-name units equal
     name.encode_utf16(), or, for an entry without a long name, the rendered short name (short_name.as_bytes(), e.g.
     "B.TXT") equals the UTF-8 bytes of the name *)
  Definition has_exact_name (ev : Lfn.entry_view) (name : str) : bool :=
    match Lfn.ev_lfn ev with
    | [] => str_eqb (Lfn.ev_short ev) (utf8_encode name)
    | lfn => str_eqb lfn (utf16_encode name)
    end.

  (* the tail of rename_internal (order since d9f4de8): FIRST write_entry of e.data.renamed(short_name) under the new name -
     when it fails the call returns with the source untouched -, THEN the deletion loop over the source's offset_range,
     reading the slots as they are after the write (write_entry only writes into free slots or appends, so the source's
     slots are where they were: Proofs/DirSlotsProofs.rename_slots_refines).  The new entry therefore never reuses the
     slots of the source. *)
  Definition rename_rewrite (k : dkind) (free : nat) (ss : slots) (e : Lfn.entry_view) (dst : str) (short_name : list N)
    : dres unit :=
    let '(w, ss1) := write_entry k free ss dst (renamed (entry_data ss e) short_name) in
    lift w ss1 (fun _ => (Ok tt, delete_entry ss1 e)).

  (* rename_internal with dst_dir = self.  ORDER of the code: find the source ("." and ".." directory entries are
     refused: InvalidInput), check the destination, write the new entry, then delete the source slots.
     When the destination name resolves to an existing entry: another entry -> AlreadyExists; the SOURCE ENTRY ITSELF
     (is_same_entry: equal entry_pos, i.e. the same short slot) -> nothing happens only if the entry is stored under
     exactly this spelling (has_exact_name); otherwise (another case of the long name, or the entry's own alias) the
     entry is REWRITTEN with the new long name and the SAME raw short name (the copy of e.raw_short_name()), through
     the same write-then-delete path - unless ANOTHER entry of the directory matches the new spelling too: AlreadyExists,
     nothing changes ([other_match]: D27, fixed in 7e5011a).  (This branch used to be an unconditional no-op: D22, fixed
     in 46d26a5.)
     Outside this layer (tree level, other directories): for a source DIRECTORY the walk from dst_dir up the ".."
     entries that refuses a move into itself (InvalidInput, before the existence check), and after a successful write
     the update of the moved directory's own ".." entry. *)
  (* since 7e5011a (D27), in the "destination resolves to the source itself, in another spelling" branch, before the entry is
     rewritten:   for r in dst_dir.iter() { let other = r?; if !other.is_same_entry(&e) && other.eq_name(dst_name) { return
     Err(AlreadyExists) } }   - check_for_existence stops at the FIRST match; when that is the source (e.g. through its alias)
     a LATER entry may match the new spelling too (e.g. through an expanding case mapping: its long name "\u{DF}~1" against
     "ss~1").  Dir::iter() skips volume labels; is_same_entry compares entry_pos (the position of the short slot; here the
     end offset, as in the test above).  Ok true: such an entry exists. *)
  Definition other_match (ss : slots) (e : Lfn.entry_view) (dst : str) : res bool :=
    do l <- dir_entries ss;
    Ok (existsb (fun other => negb (Lfn.ev_end other =? Lfn.ev_end e) && matches dst other) l).

  Definition rename_in_dir (k : dkind) (free : nat) (ss : slots) (src dst : str) : dres unit :=
    lift (find_entry ss src None) ss (fun e =>
      if is_special e then (Err EInvalidInput, ss) else
      lift (check_for_existence ss dst None) ss (fun r =>
        match r with
        | Exists dst_e =>
          if negb (Lfn.ev_end e =? Lfn.ev_end dst_e) then (Err EAlreadyExists, ss)
          else if has_exact_name e dst then (Ok tt, ss)
          else lift (other_match ss e dst) ss (fun other =>
                 if other then (Err EAlreadyExists, ss)
                 else rename_rewrite k free ss e dst (Lfn.ev_raw_name e))
        | Fresh a => rename_rewrite k free ss e dst a
        end)).

  (* rename_internal into another directory: (source slots, destination slots).
     NOT part of these two slot lists (tree level): a source DIRECTORY is first checked against dst_dir and its
     ancestors (walk up the ".." entries; InvalidInput when the moved directory is met), and after the new entry is
     written the ".." entry INSIDE the moved directory is set to the first cluster of dst_dir (0 for the root) - a
     write into a third directory, the moved one. *)
  Definition rename_across (kd : dkind) (freed : nat) (src_ss dst_ss : slots) (src dst : str) : res unit * (slots * slots) :=
    match find_entry src_ss src None with
    | Ok e =>
      if is_special e then (Err EInvalidInput, (src_ss, dst_ss)) else
      match check_for_existence dst_ss dst None with
      | Ok (Exists _) => (Err EAlreadyExists, (src_ss, dst_ss))      (* entries of different directories are never the same *)
      | Ok (Fresh a) =>
        (* the new entry first; the source is deleted only when that write succeeded (d9f4de8) *)
        let '(w, dst1) := write_entry kd freed dst_ss dst (renamed (entry_data src_ss e) a) in
        match w with
        | Ok _ => (Ok tt, (delete_entry src_ss e, dst1))
        | Err x => (Err x, (src_ss, dst1))
        | Panic => (Panic, (src_ss, dst1))
        | OutOfFuel => (OutOfFuel, (src_ss, dst1))
        end
      | Err x => (Err x, (src_ss, dst_ss))
      | Panic => (Panic, (src_ss, dst_ss))
      | OutOfFuel => (OutOfFuel, (src_ss, dst_ss))
      end
    | Err x => (Err x, (src_ss, dst_ss))
    | Panic => (Panic, (src_ss, dst_ss))
    | OutOfFuel => (OutOfFuel, (src_ss, dst_ss))
    end.
End Dir.
