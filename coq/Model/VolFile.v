(* VolFile.v: the file layer (Model/FileM.v = src/file.rs) over ONE device image.

   FileM.v runs over an abstract world: a FAT store, the FS-info latch and a data map cluster -> bytes.  Here the
   world is read off a raw image [im] with geometry [g] (Spec/Abs.v [geom], e.g. [parse_geom im]):
     - the FAT store is the DiskSlice fs.rs builds (fat_slice): the image itself, base = the first (mirroring) or
       the active (no mirroring) FAT copy, size = one copy, mirrors = number of copies or 1;
     - the data of cluster c = the [g_cluster_size g] bytes at [g_cluster_off g c].
   One step of the image-level machine [vol_step]: run the FileM step on that world; the FAT entry writes have
   then been applied to the image by the store itself ([Fat.slice_write]: every mirrored copy, at device offsets);
   the data bytes a write call delivers are written through at [g_cluster_off g c + offset mod cluster_size].
   State between steps = the image, the in-memory FS-info latch and the handle - nothing else.

   [fat_sync]/[img_effect] are the same effect for a world that is only RELATED to an image (Proofs/VolFileProofs.v
   [Embeds]).  Executable; extracted (model runner mode c02v).  No proofs here. *)
From Coq Require Import ZArith.
From FatVerif Require Import Model.Base Model.Table Model.Fat Model.FileM Spec.Image Spec.Abs.
Open Scope N_scope.

Definition ft_of (g : geom) : fat_type :=
  if g_bits g =? 12 then Fat12 else if g_bits g =? 16 then Fat16 else Fat32.

(* FileSystem::fat_slice: (fat_first_sector, mirrors) = if mirroring enabled { (first, fats) } else
   { (first + active_fat * sectors_per_fat, 1) } *)
Definition vol_base (g : geom) : N := g_fat_off g (g_active g).
Definition vol_mirrors (g : geom) : nat := if g_mirroring g then N.to_nat (g_fats g) else 1%nat.

(* the executable form of Proofs/VolFileProofs.v [vgeom_ok]: non-degenerate sizes, the data area starts inside the
   volume, the active table copy exists, one copy holds an entry for every cluster and the width can number them *)
Definition fat_fitsb (ft : fat_type) (size total : N) : bool :=
  match ft with
  | Fat12 => ((total + 1) + (total + 1) / 2 + 2 <=? size) && (total + 2 <=? 4087)
  | Fat16 => (2 * (total + 2) <=? size) && (total + 2 <=? 65527)
  | Fat32 => (4 * (total + 2) <=? size) && (total + 2 <=? 268435447)
  end.
Definition vgeom_okb (g : geom) : bool :=
  (0 <? g_bps g) && (0 <? g_spc g) && (g_first_data g <=? g_total_sectors g) && (g_active g <? g_fats g)
  && fat_fitsb (ft_of g) (g_fat_bytes g) (g_clusters g).

Definition store_of (g : geom) (im : image) : fstore :=
  {| fs_img := im; fs_base := vol_base g; fs_size := g_fat_bytes g; fs_mirrors := vol_mirrors g |}.

Definition world_of (g : geom) (im : image) (fi : fsinfo) : fworld fstore :=
  {| w_fat := store_of g im; w_fi := fi; w_data := cluster_bytes g im |}.

(* the data write of one File::write call: [k] bytes of [d] into the cluster the handle is on afterwards, at the
   offset the cursor had inside its cluster: (cluster, offset in cluster, bytes) *)
Definition step_write (cs : N) (h h' : fhandle) (o : fop) (r : fresult) : option (N * N * list N) :=
  match o, r, h_cur h' with
  | FWrite d, RCount k, Some cc => Some (cc, h_off h mod cs, firstn (N.to_nat k) d)
  | _, _, _ => None
  end.

Definition data_effect (g : geom) (im : image) (h h' : fhandle) (o : fop) (r : fresult) : image :=
  match step_write (g_cluster_size g) h h' o r with
  | Some (cc, oo, bs) => img_write im (g_cluster_off g cc + oo) bs
  | None => im
  end.

Definition vstate : Type := image * fsinfo * fhandle.

Definition vol_step (g : geom) (st : vstate) (o : fop) : vstate * fresult :=
  let '(im, fi, h) := st in
  let '(w', h', r) := file_step fstore (fat_get (ft_of g)) (fat_set (ft_of g)) (g_cluster_size g) (g_clusters g)
                        (world_of g im fi) h o in
  ((data_effect g (fs_img (w_fat fstore w')) h h' o r, w_fi fstore w', h'), r).

Fixpoint vol_run (g : geom) (st : vstate) (ops : list fop) : vstate * list fresult :=
  match ops with
  | [] => (st, [])
  | o :: rest => let '(st1, r) := vol_step g st o in
                 let '(st2, rs) := vol_run g st1 rest in (st2, r :: rs)
  end.

(* File::extents on the image: Extent { offset = offset_from_cluster(cluster), size } *)
Definition vol_extents (g : geom) (st : vstate) : res (list (N * N)) :=
  let '(im, fi, h) := st in
  do ex <- file_extents fstore (fat_get (ft_of g)) (g_cluster_size g) (g_clusters g) (world_of g im fi) h;
  Ok (map (fun e => (g_cluster_off g (fst e), snd e)) ex).

(* the bytes found on the device at a list of (device offset, length) ranges *)
Definition read_ranges (im : image) (ex : list (N * N)) : list N :=
  flat_map (fun e => img_read im (fst e) (N.to_nat (snd e))) ex.

(* what the independent decoder (Spec/Abs.v decode_entries, the NFile case) reports as the content of a file whose
   directory entry holds first cluster [first] (0 = none) and size [sz] *)
Definition decode_file (g : geom) (im : image) (first sz : N) : list N :=
  match (if first =? 0 then None else chain_from g im first (Abs.chain_fuel g)) with
  | Some l => firstn (N.to_nat sz) (chain_bytes g im l)
  | None => []
  end.

Definition first_field (h : fhandle) : N := match h_first h with Some f => f | None => 0 end.

(* ---- the same effect for a world that carries its own store image: copy the bytes of the store's table area
   (all mirrored copies) to the device image, then the data write *)
Definition fat_sync (g : geom) (s : fstore) (im : image) : image :=
  img_write im (vol_base g)
    (img_read (fs_img s) (vol_base g) (vol_mirrors g * N.to_nat (g_fat_bytes g))).

Definition img_effect (g : geom) (im : image) (w' : fworld fstore) (h h' : fhandle) (o : fop) (r : fresult) : image :=
  data_effect g (fat_sync g (w_fat fstore w') im) h h' o r.

Fixpoint img_run (g : geom) (im : image) (w : fworld fstore) (h : fhandle) (ops : list fop) : image :=
  match ops with
  | [] => im
  | o :: rest =>
    let '(w1, h1, r) := file_step fstore (fat_get (ft_of g)) (fat_set (ft_of g)) (g_cluster_size g) (g_clusters g) w h o in
    img_run g (img_effect g im w1 h h1 o r) w1 h1 rest
  end.
