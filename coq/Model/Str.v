(* Str.v: Rust strings as lists of Unicode scalar values (what a &str can hold), UTF-8 length,
   UTF-16 encoding/decoding (str::encode_utf16, char::decode_utf16). Code points and units are N. *)
From FatVerif Require Import Model.Base.
Open Scope N_scope.

Definition str := list N.

(* a Rust char: a Unicode scalar value *)
Definition is_scalar (c : N) : bool := (c <? 55296) || ((57343 <? c) && (c <=? 1114111)).
Definition str_valid (s : str) : bool := forallb is_scalar s.

Definition utf8_char_len (c : N) : N :=
  if c <? 128 then 1 else if c <? 2048 then 2 else if c <? 65536 then 3 else 4.
Fixpoint utf8_len (s : str) : N :=
  match s with [] => 0 | c :: r => utf8_char_len c + utf8_len r end.

(* UTF-8 encoding (used by the executor protocol: names travel as UTF-8 hex) *)
Definition utf8_encode_char (c : N) : list N :=
  if c <? 128 then [c]
  else if c <? 2048 then [192 + c / 64; 128 + c mod 64]
  else if c <? 65536 then [224 + c / 4096; 128 + (c / 64) mod 64; 128 + c mod 64]
  else [240 + c / 262144; 128 + (c / 4096) mod 64; 128 + (c / 64) mod 64; 128 + c mod 64].
Definition utf8_encode (s : str) : list N := flat_map utf8_encode_char s.

(* lenient UTF-8 decoder for well-formed input produced by the executor (fuel = byte count) *)
Fixpoint utf8_decode (bs : list N) : str :=
  match bs with
  | [] => []
  | b0 :: r =>
    if b0 <? 128 then b0 :: utf8_decode r
    else if b0 <? 224 then
      match r with b1 :: r' => ((b0 - 192) * 64 + (b1 - 128)) :: utf8_decode r' | _ => [] end
    else if b0 <? 240 then
      match r with b1 :: b2 :: r' => ((b0 - 224) * 4096 + (b1 - 128) * 64 + (b2 - 128)) :: utf8_decode r' | _ => [] end
    else
      match r with b1 :: b2 :: b3 :: r' =>
        ((b0 - 240) * 262144 + (b1 - 128) * 4096 + (b2 - 128) * 64 + (b3 - 128)) :: utf8_decode r' | _ => [] end
  end.

(* str::encode_utf16 *)
Definition utf16_encode_char (c : N) : list N :=
  if c <? 65536 then [c]
  else [55296 + (c - 65536) / 1024; 56320 + (c - 65536) mod 1024].
Definition utf16_encode (s : str) : list N := flat_map utf16_encode_char s.

(* char::decode_utf16: each item is Some scalar or None (unpaired surrogate) *)
Definition is_high_surrogate (u : N) : bool := (55296 <=? u) && (u <=? 56319).
Definition is_low_surrogate (u : N) : bool := (56320 <=? u) && (u <=? 57343).
Fixpoint utf16_decode (us : list N) : list (option N) :=
  match us with
  | [] => []
  | u :: r =>
    if is_high_surrogate u then
      match r with
      | v :: r' => if is_low_surrogate v
                   then Some (65536 + (u - 55296) * 1024 + (v - 56320)) :: utf16_decode r'
                   else None :: utf16_decode r
      | [] => [None]
      end
    else if is_low_surrogate u then None :: utf16_decode r
    else Some u :: utf16_decode r
  end.

(* String::from_utf16_lossy *)
Definition utf16_decode_lossy (us : list N) : str :=
  map (fun o => match o with Some c => c | None => 65533 end) (utf16_decode us).

(* char::to_ascii_uppercase *)
Definition ascii_upper (c : N) : N := if (97 <=? c) && (c <=? 122) then c - 32 else c.
Definition ascii_lower (c : N) : N := if (65 <=? c) && (c <=? 90) then c + 32 else c.

Definition str_eqb (a b : str) : bool :=
  (fix go (a b : list N) : bool :=
     match a, b with
     | [], [] => true
     | x :: a', y :: b' => (x =? y) && go a' b'
     | _, _ => false
     end) a b.
