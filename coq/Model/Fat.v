(* Fat.v: the byte-level FAT stores of src/table.rs (Fat12/Fat16/Fat32 get/set) on top of the FAT
   DiskSlice of src/fs.rs (fat_slice: begin, size of one table, number of mirrored copies).
   A store is an image plus the slice geometry; reads come from the first (or active) copy, writes go to
   every mirrored copy.  The u32 offset arithmetic of get_raw/set_raw (cluster * 2, cluster * 4,
   cluster + cluster / 2) panics on overflow as in a debug build. *)
From FatVerif Require Import Model.Base Model.Slot Model.Table Spec.Image.
Open Scope N_scope.

Record fstore := { fs_img : image; fs_base : N; fs_size : N; fs_mirrors : nat }.

Definition with_img (s : fstore) (im : image) : fstore :=
  {| fs_img := im; fs_base := fs_base s; fs_size := fs_size s; fs_mirrors := fs_mirrors s |}.

(* DiskSlice::seek(Start(off)) then read_exact of n bytes *)
Definition slice_read (s : fstore) (off : N) (n : nat) : res (list N) :=
  if fs_size s <? off then Err EInvalidInput
  else if off + N.of_nat n <=? fs_size s then Ok (img_read (fs_img s) (fs_base s + off) n)
  else Err EUnexpectedEof.

(* DiskSlice::write: the same bytes at the same relative offset of every mirror *)
Fixpoint write_mirrors (im : image) (pos size : N) (bs : list N) (k : nat) (i : N) : image :=
  match k with
  | O => im
  | S k' => write_mirrors (img_write im (pos + i * size) bs) pos size bs k' (i + 1)
  end.

(* seek(Start(off)) then write_all: past the end of the table DiskSlice::write returns 0, i.e. WriteZero
   (a partial prefix may have been written in that case; it is dropped here: out-of-table accesses are
   excluded by the theorems' [okc] premise) *)
Definition slice_write (s : fstore) (off : N) (bs : list N) : res fstore :=
  if fs_size s <? off then Err EInvalidInput
  else if off + len_N bs <=? fs_size s
       then Ok (with_img s (write_mirrors (fs_img s) (fs_base s + off) (fs_size s) bs (fs_mirrors s) 0))
       else Err EWriteZero.

(* ---------------------------------------------------------------- FAT16 *)
Definition classify16 (v : N) : fatv :=
  if v =? 0 then Free else if v =? 65527 then Bad else if 65528 <=? v then Eoc else Data v.
Definition raw16 (v : fatv) : N :=
  match v with Free => 0 | Bad => 65527 | Eoc => 65535 | Data n => n end.

(* [cluster * 2] is a u32 multiplication: a debug build panics on overflow (cluster >= 2^31) *)
Definition get16 (s : fstore) (c : N) : res fatv :=
  do off <- u32_mul c 2;
  do bs <- slice_read s off 2; Ok (classify16 (le_decode bs)).
Definition set16 (s : fstore) (c : N) (v : fatv) : res fstore :=
  do off <- u32_mul c 2;
  slice_write s off (u16_bytes (raw16 v mod 65536)).

(* ---------------------------------------------------------------- FAT32 *)
Definition special32 (c : N) : bool := (268435447 <=? c) && (c <=? 268435455).   (* 0x0FFFFFF7 ..= 0x0FFFFFFF *)
Definition classify32 (c v : N) : fatv :=
  if v =? 0 then (if special32 c then Bad else Free)
  else if v =? 268435447 then Bad
  else if 268435448 <=? v then Eoc
  else if special32 c then Bad
  else Data v.
Definition raw32 (v : fatv) : N :=
  match v with Free => 0 | Bad => 268435447 | Eoc => 268435455 | Data n => n end.

(* [cluster * 4] is a u32 multiplication (debug build: panic for cluster >= 2^30) *)
Definition get32 (s : fstore) (c : N) : res fatv :=
  do off <- u32_mul c 4;
  do bs <- slice_read s off 4; Ok (classify32 c (le_decode bs mod 268435456)).
Definition set32 (s : fstore) (c : N) (v : fatv) : res fstore :=
  do off <- u32_mul c 4;
  do bs <- slice_read s off 4;
  let old_reserved := (le_decode bs / 268435456) * 268435456 in
  if (match v with Free => true | _ => false end) && special32 c then Panic
  else slice_write s off (u32_bytes (N.lor (raw32 v mod two32) old_reserved)).

(* ---------------------------------------------------------------- FAT12 *)
Definition classify12 (v : N) : fatv :=
  if v =? 0 then Free else if v =? 4087 then Bad else if 4088 <=? v then Eoc else Data v.
Definition raw12 (v : fatv) : N :=
  match v with Free => 0 | Bad => 4087 | Eoc => 4095 | Data n => n end.

(* [cluster + cluster / 2] is a u32 addition (debug build: panic on overflow) *)
Definition get12_raw (s : fstore) (c : N) : res N :=
  do off <- u32_add c (c / 2);
  do bs <- slice_read s off 2;
  let w := le_decode bs in
  Ok (if c mod 2 =? 0 then w mod 4096 else w / 16).
Definition get12 (s : fstore) (c : N) : res fatv := do v <- get12_raw s c; Ok (classify12 v).

Definition set12 (s : fstore) (c : N) (v : fatv) : res fstore :=
  do off <- u32_add c (c / 2);
  do bs <- slice_read s off 2;
  let old := le_decode bs in
  let raw := raw12 v mod 65536 in                      (* raw_val as u16 *)
  let packed :=
    if c mod 2 =? 0 then N.lor ((old / 4096) * 4096) raw                 (* (old & 0xF000) | raw *)
    else N.lor (old mod 16) ((raw * 16) mod 65536) in                    (* (old & 0x000F) | (raw << 4) *)
  slice_write s off (u16_bytes packed).

(* dispatch on the FAT width *)
Inductive fat_type := Fat12 | Fat16 | Fat32.
Definition fat_get (ft : fat_type) : fstore -> N -> res fatv :=
  match ft with Fat12 => get12 | Fat16 => get16 | Fat32 => get32 end.
Definition fat_set (ft : fat_type) : fstore -> N -> fatv -> res fstore :=
  match ft with Fat12 => set12 | Fat16 => set16 | Fat32 => set32 end.
