(* VolChainDir.v: the directory SLOT layer (Model/DirSlots.v) embedded into whole device IMAGES for a directory that is backed by
   a CLUSTER CHAIN - a sub-directory of any FAT width, or the FAT32 root -, for operations that do NOT make the directory grow.
   src/dir.rs  Dir::create_file / Dir::remove / Dir::rename called on a Dir whose stream is DirRawStream::File(File) with a
   one-component path.  (Model/VolDir.v is the same for the FIXED root region of a FAT12/16 volume.)

   The directory is given by its chain [l] (the clusters in chain order, as Abs.chain_from reads them from the FAT).  Its slots
   are what the independent decoder scans: Abs.slots_of (Abs.chain_bytes g im l) - the 32-byte slots of the clusters of [l], in
   order.  Each operation is: read the slots, run the EXISTING slot-layer function of Model/DirSlots.v with kind
   [Chained (cluster_slots g)] and NO free cluster at its disposal ([free = 0]), write the resulting slots back cluster by
   cluster at Abs.g_cluster_off (the address src/fs.rs offset_from_cluster computes: C11_library_cluster_offset_classified).

   Why [free = 0] is the library's behaviour whenever the answer is not NotEnoughSpace.
   - A File-backed directory stream grows only when a write reaches the end of the chain (File::write allocates).  The slot layer
     consults [free] in exactly that situation (Model/DirSlots.write_run: position = number of slots).  With [free = 0] it then
     answers NotEnoughSpace (after the long-name slots that still fitted: the recorded class "nospace during entry write").
     So: if the run with [free = 0] does NOT answer NotEnoughSpace, no write reached the end of the chain, and the run with any
     other [free] is the same, slot for slot (Proofs/VolChainDirProofs.create_nogrow_free_irrelevant).  If it DOES, the library
     would try to allocate a cluster: outside this model - the functions below answer [None].
   - As in Model/VolDir.v the library writes only the slots it changes; [put_chain_slots] rewrites all slots of the chain, the
     unchanged ones with the bytes they hold (Proofs/VolChainDirProofs.put_chain_slots_changes).
   - NOT part of these functions: the FAT (untouched: nothing is allocated or freed); the dirty flag and the device flush
     (as in Model/VolDir.v); and the write-back of the directory's OWN entry in its parent: every write through the
     directory's File marks its editor (modification time/date), and dropping the Dir writes that entry - 32 bytes in ANOTHER
     directory (src/file.rs File::drop -> flush; Appendix A of DESIGN.md "Hidden destructors").  The FAT32 root has no such
     entry.  The theorems below speak about the clusters of [l] and about everything decoded from them.
   - Scope of remove / rename as in Model/VolDir.v: remove of a file without clusters; rename of a file.
   No proofs here. *)
From Coq Require Import NArith List Bool.
From FatVerif Require Import Model.Base Model.Str Model.Slot Model.Time Model.Name Model.ShortName Model.DirSlots
  Spec.Image Spec.Abs.
From FatVerif Require Model.Lfn.
Import ListNotations.
Open Scope N_scope.

(* slots per cluster *)
Definition cluster_slots (g : geom) : nat := N.to_nat (g_cluster_size g / 32).

(* the slots Abs.decode_entries / Abs.root_slots scan for a directory with chain [l] *)
Definition chain_dir_slots (g : geom) (im : image) (l : list N) : slots := slots_of (chain_bytes g im l).

(* write the slots back, [cluster_slots g] per cluster, at the device offset of each cluster *)
Fixpoint put_chain_slots (g : geom) (im : image) (l : list N) (ss : slots) : image :=
  match l with
  | [] => im
  | c :: r =>
    put_chain_slots g (img_write im (g_cluster_off g c) (concat (firstn (cluster_slots g) ss))) r (skipn (cluster_slots g) ss)
  end.

Definition is_nospace {A} (r : res A) : bool := match r with Err ENotEnoughSpace => true | _ => false end.

(* run a slot-layer function on the directory; None: it would have to grow *)
Definition vol_chain_apply {A} (im : image) (l : list N) (f : slots -> dres A) : option (res A * image) :=
  let g := parse_geom im in
  let r := f (chain_dir_slots g im l) in
  if is_nospace (fst r) then None else Some (fst r, put_chain_slots g im l (snd r)).

Section Vol.
  Variable upper : N -> list N.     (* char_to_uppercase *)
  Variable oem : N -> N.            (* OemCpConverter::decode *)

  Definition chain_kind (im : image) : dkind := Chained (cluster_slots (parse_geom im)).
  Definition is_fat32 (im : image) : bool := g_bits (parse_geom im) =? 32.

  (* dir.create_file(name), one component: as Model/VolDir.vol_create_empty_file_root *)
  Definition vol_create_empty_file_chain (im : image) (l : list N) (name : str) (now : datetime)
    : option (res (option (N * N)) * image) :=
    vol_chain_apply im l (fun ss => create_entry upper oem (is_fat32 im) (chain_kind im) 0 ss name 0 None now false).

  Definition chain_lookup (im : image) (l : list N) (name : str) : res Lfn.entry_view :=
    find_entry upper oem (chain_dir_slots (parse_geom im) im l) name None.

  (* first_cluster() of a listed entry: the high word counts on FAT32 only *)
  Definition chain_entry_cluster (im : image) (ev : Lfn.entry_view) : N :=
    (if is_fat32 im then Lfn.ev_cluster_hi ev * 65536 else 0) + Lfn.ev_cluster_lo ev.

  (* dir.remove(name) of a FILE WITHOUT CLUSTERS *)
  Definition vol_remove_empty_file_chain (im : image) (l : list N) (name : str) : option (res unit * image) :=
    let go := vol_chain_apply im l (fun ss => remove_entry upper oem ss name false) in
    match chain_lookup im l name with
    | Ok ev => if Lfn.ev_is_dir ev || negb (chain_entry_cluster im ev =? 0) then None else go
    | _ => go
    end.

  (* dir.rename(src, &dir, dst) of a FILE *)
  Definition vol_rename_in_chain (im : image) (l : list N) (src dst : str) : option (res unit * image) :=
    let go := vol_chain_apply im l (fun ss => rename_in_dir upper oem (chain_kind im) 0 ss src dst) in
    match chain_lookup im l src with
    | Ok ev => if Lfn.ev_is_dir ev then None else go
    | _ => go
    end.
End Vol.
