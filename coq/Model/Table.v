(* Table.v: model of the cluster-chain logic of src/table.rs over an abstract FAT store
   (alloc_cluster, find_free, count_free, ClusterIterator::{next,free,truncate}) and of the free-space
   latches of src/fs.rs (FsInfoSector, FileSystem::{alloc_cluster,free_cluster_chain,truncate_cluster_chain,
   stats}).  The store is a Section parameter: [get]/[set] may fail with an I/O error, which is how
   device faults reach this layer (C09).  The byte-level stores (FAT12/16/32 over an image with mirroring)
   are in Model/Fat.v. *)
From FatVerif Require Import Model.Base.
Open Scope N_scope.

Inductive fatv := Free | Bad | Eoc | Data (n : N).   (* table.rs FatValue *)

Definition RESERVED_FAT_ENTRIES : N := 2.

Section Table.
Variable T : Type.
Variable get : T -> N -> res fatv.
Variable set : T -> N -> fatv -> res T.

(* get_next_cluster *)
Definition get_next (t : T) (c : N) : res (option N) :=
  do v <- get t c; Ok (match v with Data n => Some n | _ => None end).

(* Fat16/Fat32::find_free: while cluster < end { if free return; cluster += 1 } Err(NotEnoughSpace) *)
Fixpoint find_free_from (t : T) (c : N) (n : nat) : res N :=
  match n with
  | O => Err ENotEnoughSpace
  | S k => do v <- get t c; match v with Free => Ok c | _ => find_free_from t (c + 1) k end
  end.
Definition find_free (t : T) (start end_ : N) : res N := find_free_from t start (N.to_nat (end_ - start)).

(* Fat12::find_free: loop { if free return; cluster += 1; if cluster == end return Err }  (tests after the increment) *)
Fixpoint find_free12_from (t : T) (c : N) (end_ : N) (fuel : nat) : res N :=
  match fuel with
  | O => OutOfFuel
  | S k => do v <- get t c;
           match v with
           | Free => Ok c
           | _ => if c + 1 =? end_ then Err ENotEnoughSpace else find_free12_from t (c + 1) end_ k
           end
  end.

(* table::alloc_cluster (with the fix: only NotEnoughSpace of the first scan triggers the wrap-around scan) *)
Definition alloc_cluster (t : T) (prev : option N) (hint : option N) (total : N) : res (T * N) :=
  let end_ := total + RESERVED_FAT_ENTRIES in
  let start := match hint with Some n => if n <? end_ then n else RESERVED_FAT_ENTRIES | None => RESERVED_FAT_ENTRIES end in
  do c <- match find_free t start end_ with
          | Ok n => Ok n
          | Err ENotEnoughSpace => if RESERVED_FAT_ENTRIES <? start then find_free t RESERVED_FAT_ENTRIES start
                                   else Err ENotEnoughSpace
          | Err e => Err e
          | Panic => Panic
          | OutOfFuel => OutOfFuel
          end;
  do t1 <- set t c Eoc;
  do t2 <- match prev with Some p => set t1 p (Data c) | None => Ok t1 end;
  Ok (t2, c).

(* count_free: entries 2 .. end-1 *)
Fixpoint count_free_from (t : T) (c : N) (n : nat) : res N :=
  match n with
  | O => Ok 0
  | S k => do v <- get t c; do r <- count_free_from t (c + 1) k;
           Ok (match v with Free => 1 + r | _ => r end)
  end.
Definition count_free (t : T) (total : N) : res N := count_free_from t RESERVED_FAT_ENTRIES (N.to_nat total).

(* ClusterIterator: cluster = Some c means "positioned on c"; err latches *)
Record citer := { ci_cluster : option N; ci_err : bool }.

(* Iterator::next *)
Definition ci_next (t : T) (it : citer) : citer * option (res N) :=
  if ci_err it then (it, None) else
  match ci_cluster it with
  | None => (it, None)
  | Some c =>
    match get_next t c with
    | Ok nx => ({| ci_cluster := nx; ci_err := false |}, match nx with Some n => Some (Ok n) | None => None end)
    | Err e => ({| ci_cluster := Some c; ci_err := true |}, Some (Err e))
    | Panic => (it, Some Panic)
    | OutOfFuel => (it, Some OutOfFuel)
    end
  end.

(* ClusterIterator::free (with the fix: an error of next() is returned) *)
Fixpoint ci_free (t : T) (it : citer) (fuel : nat) : res (T * N) :=
  match fuel with
  | O => OutOfFuel
  | S k =>
    match ci_cluster it with
    | None => Ok (t, 0)
    | Some n =>
      let '(it', r) := ci_next t it in
      match r with
      | Some (Err e) => Err e
      | Some Panic => Panic
      | Some OutOfFuel => OutOfFuel
      | _ => do t1 <- set t n Free; do (t2, cnt) <- ci_free t1 it' k; Ok (t2, cnt + 1)
      end
    end
  end.

(* ClusterIterator::truncate *)
Definition ci_truncate (t : T) (it : citer) (fuel : nat) : res (T * N) :=
  match ci_cluster it with
  | None => Ok (t, 0)
  | Some n =>
    let '(it', r) := ci_next t it in
    match r with
    | Some (Err e) => Err e
    | Some Panic => Panic
    | Some OutOfFuel => OutOfFuel
    | _ => do t1 <- set t n Eoc; ci_free t1 it' fuel
    end
  end.

Definition ci_new (c : N) : citer := {| ci_cluster := Some c; ci_err := false |}.

(* ---- free-space latches (fs.rs FsInfoSector + FileSystem wrappers) ---- *)
Record fsinfo := { fi_free : option N; fi_next : option N; fi_dirty : bool }.

(* FsInfoSector::map_free_clusters(map_fn : Fn(u32) -> Option<u32>): the count is replaced by the result and the latch marked
   dirty; a None result FORGETS the count (the stored count is only a hint on volumes written by other implementations) *)
Definition map_free_opt (fi : fsinfo) (f : N -> option N) : fsinfo :=
  match fi_free fi with
  | Some n => {| fi_free := f n; fi_next := fi_next fi; fi_dirty := true |}
  | None => fi
  end.
(* the case of a map that always has a result (used in specifications: "the count grows by k") *)
Definition map_free (fi : fsinfo) (f : N -> N) : fsinfo := map_free_opt fi (fun n => Some (f n)).
(* u32::checked_sub(1) / u32::checked_add(k) *)
Definition checked_sub1 (n : N) : option N := if n =? 0 then None else Some (n - 1).
Definition checked_add32 (n k : N) : option N := if n + k <=? u32_max then Some (n + k) else None.

(* FileSystem::alloc_cluster without the zeroing of directory clusters (done by the caller's layer) *)
Definition fs_alloc (t : T) (fi : fsinfo) (prev : option N) (total : N) : res (T * fsinfo * N) :=
  do (t', c) <- alloc_cluster t prev (fi_next fi) total;
  let nxt := if c + 1 <? total + RESERVED_FAT_ENTRIES then c + 1 else RESERVED_FAT_ENTRIES in
  let fi1 := {| fi_free := fi_free fi; fi_next := Some nxt; fi_dirty := true |} in
  (* map_free_clusters(|n| n.checked_sub(1)): a stored count of 0 is forgotten, not decremented *)
  Ok (t', map_free_opt fi1 checked_sub1, c).

Definition fs_free_chain (t : T) (fi : fsinfo) (c : N) (fuel : nat) : res (T * fsinfo) :=
  do (t', k) <- ci_free t (ci_new c) fuel; Ok (t', map_free_opt fi (fun n => checked_add32 n k)).

Definition fs_truncate_chain (t : T) (fi : fsinfo) (c : N) (fuel : nat) : res (T * fsinfo) :=
  do (t', k) <- ci_truncate t (ci_new c) fuel; Ok (t', map_free_opt fi (fun n => checked_add32 n k)).

Definition fs_stats (t : T) (fi : fsinfo) (total : N) : res (fsinfo * N) :=
  match fi_free fi with
  | Some n => Ok (fi, n)
  | None => do n <- count_free t total;
            Ok ({| fi_free := Some n; fi_next := fi_next fi; fi_dirty := true |}, n)
  end.

End Table.

(* ---- the pure store: a total map without faults (instance used in examples and in the abstract proofs) ---- *)
Definition pfat := N -> fatv.
Definition pget (t : pfat) (c : N) : res fatv := Ok (t c).
Definition pset (t : pfat) (c : N) (v : fatv) : res pfat := Ok (fun x => if x =? c then v else t x).
