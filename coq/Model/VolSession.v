(* VolSession.v: ONE FILE SESSION on a whole device image of a FAT12/FAT16 volume - the composition of the two image-level
   halves through the directory ENTRY:
     Model/VolDir.v   vol_create_empty_file_root   root_dir().create_file(name): the entry run in the fixed root region;
     Model/VolFile.v  vol_step / vol_run           File::{read,write,seek,truncate}: FAT copies and data area;
     here                                          the DirEntryEditor of the handle (src/dir_entry.rs) and File::flush / Drop
                                                   (src/file.rs flush, flush_dir_entry, update_dir_entry_after_write).

   What the code does (read line by line):
   - Dir::write_entry returns a DirEntry { data: raw_entry, entry_pos: <absolute device offset of the SHORT slot> , .. };
     create_file answers  entry.to_file() = File::new(entry.first_cluster(), Some(entry.editor()), fs)  with
     editor() = DirEntryEditor { data: entry.data.clone(), pos: entry.entry_pos, dirty: false }.  open_file does the same
     with the DirEntry the directory iterator DESERIALISED from the device.  [sess_open] is that second form: the record is
     [Slot.slot_decode] of the 32 bytes of the short slot.  For a handle returned by create_file the two records are the
     same (Proofs/VolSessionProofs.v sess_open_created: decoding the serialised record gives the record back).
   - The editor's record is ONE DirFileEntryData.  Model/FileM.v carries its first-cluster / size part in the handle
     ([editor]: ed_first = data.first_cluster(fat_type), ed_size = data.size(), ed_dirty = "set_first_cluster / set_size
     changed something").  The remaining fields live here in [en_data]; the record the library holds is [sess_entry]:
     [en_data] with the two fields overwritten (set_first_cluster: first_cluster_lo = n & 0xFFFF, first_cluster_hi = n >> 16
     ONLY on FAT32; set_size).  Overwriting with unchanged values is the identity, so nothing is lost by the split.
   - Time stamps.  File::write, after written_bytes > 0:  update_dir_entry_after_write: now = time_provider.
     get_current_date_time(); e.set_modified(now); then set_size.  DirEntryEditor::set_modified(now): if now !=
     DateTime::decode(modify_date, modify_time, 0) { modify_date = now.date.encode(); modify_time = now.time.encode().0;
     dirty = true } - the comparison is against the DECODED stored value (2-second resolution, no milliseconds), so a clock
     with an odd second or non-zero milliseconds always re-stamps and marks dirty (Model/Time.v ed_set_modified).
     File::read, after read_bytes > 0 and only with the mount option update_accessed_date: e.set_accessed(today).
     seek and truncate do not stamp.  The clock is an argument of every step (the executor's scripted `clock`).
     Date::encode of a year below 1980 panics in a debug build (Model/Time.v date_encode); the public constructors of
     Date/DateTime assert validity, the theorems assume it; the model answers RPanic.
   - File::flush (and Drop for File, which calls flush and ignores the result): flush_dir_entry = editor.flush(fs):
     if dirty { seek(pos); data.serialize(disk) ; dirty = false }, then disk.flush()  (Model/FlushM.v file_flush is
     this event shape).  serialize writes the 32 bytes of [Slot.sfn_encode] at [pos].
   - entry_pos of an entry in the fixed root: the DiskSlice of the root starts at g_root_off, the short slot is the last
     slot of the run vol_create_empty_file_root reports ((p, q) -> slot q - 1): pos = g_root_off + 32 * (q - 1).
   NOT modelled here: the volume dirty flag (set_dirty_flag(true) before the first device write of a session sets bit 0
   of the status byte at 0x25; unmount clears it: Model/Flags.v, C12) - between mount and unmount the device differs from
   the image of this model in exactly that bit; device errors; a second handle on the same file.
   Executable; extracted (model runner mode csess).  No proofs here. *)
From Coq Require Import ZArith.
From FatVerif Require Import Model.Base Model.Str Model.Slot Model.Time Model.Table Model.Fat Model.FileM Model.DirSlots
  Model.VolDir Model.VolFile Model.FlushM Spec.Image Spec.Abs.
Open Scope N_scope.

(* ---------------------------------------------------------------- the short slot of an entry in the fixed root *)
Definition root_slot_off (g : geom) (k : N) : N := g_root_off g + 32 * k.
Definition root_slot_bytes (g : geom) (im : image) (k : N) : list N := img_read im (root_slot_off g k) 32.

Definition is32 (g : geom) : bool := g_bits g =? 32.

(* ---------------------------------------------------------------- DirFileEntryData: the fields the editor changes *)
Definition stamps_of (e : sfn_entry) : stamps :=
  {| create_time_0 := se_create_time_0 e; create_time_1 := se_create_time_1 e; create_date := se_create_date e;
     access_date := se_access_date e; modify_time := se_modify_time e; modify_date := se_modify_date e |}.

Definition with_stamps (e : sfn_entry) (s : stamps) : sfn_entry :=
  {| se_name := se_name e; se_attrs := se_attrs e; se_reserved_0 := se_reserved_0 e;
     se_create_time_0 := create_time_0 s; se_create_time_1 := create_time_1 s; se_create_date := create_date s;
     se_access_date := access_date s; se_first_cluster_hi := se_first_cluster_hi e;
     se_modify_time := modify_time s; se_modify_date := modify_date s;
     se_first_cluster_lo := se_first_cluster_lo e; se_size := se_size e |}.

(* DirFileEntryData::set_first_cluster(cluster, fat_type) *)
Definition sfn_set_first (fat32 : bool) (e : sfn_entry) (c : option N) : sfn_entry :=
  let n := match c with Some x => x | None => 0 end in
  {| se_name := se_name e; se_attrs := se_attrs e; se_reserved_0 := se_reserved_0 e;
     se_create_time_0 := se_create_time_0 e; se_create_time_1 := se_create_time_1 e; se_create_date := se_create_date e;
     se_access_date := se_access_date e;
     se_first_cluster_hi := if fat32 then (n / 65536) mod 65536 else se_first_cluster_hi e;
     se_modify_time := se_modify_time e; se_modify_date := se_modify_date e;
     se_first_cluster_lo := n mod 65536; se_size := se_size e |}.

(* DirFileEntryData::set_size *)
Definition sfn_set_size (e : sfn_entry) (s : N) : sfn_entry :=
  {| se_name := se_name e; se_attrs := se_attrs e; se_reserved_0 := se_reserved_0 e;
     se_create_time_0 := se_create_time_0 e; se_create_time_1 := se_create_time_1 e; se_create_date := se_create_date e;
     se_access_date := se_access_date e; se_first_cluster_hi := se_first_cluster_hi e;
     se_modify_time := se_modify_time e; se_modify_date := se_modify_date e;
     se_first_cluster_lo := se_first_cluster_lo e; se_size := s |}.

(* ---------------------------------------------------------------- the handle's editor beyond FileM's part *)
(* en_slot: index of the short slot in the root region (editor.pos = root_slot_off g en_slot);
   en_data: the DirFileEntryData (its first-cluster and size fields are superseded by the FileM editor of the handle);
   en_tdirty: the part of editor.dirty caused by set_modified / set_accessed *)
Record sentry := { en_slot : N; en_data : sfn_entry; en_tdirty : bool }.

(* state of the session: device image, FS-info latch, File, the rest of its editor *)
Record sstate := { s_im : image; s_fi : fsinfo; s_h : fhandle; s_en : sentry }.

(* DirEntry::to_file() on the entry whose short slot is slot [k] of the root (assert!(!self.is_dir()) -> None, as for a
   slot that is no short entry: not a state the callers below reach) *)
Definition sess_open (g : geom) (im : image) (k : N) : option (fhandle * sentry) :=
  match slot_decode (root_slot_bytes g im k) with
  | SFile e =>
    if sfn_is_dir e then None
    else let fc := sfn_first_cluster e (is32 g) in
         Some (file_new fc (Some {| ed_first := fc; ed_size := Some (se_size e); FileM.ed_dirty := false |}),
               {| en_slot := k; en_data := e; en_tdirty := false |})
  | SLfn _ => None
  end.

(* the DirFileEntryData the library holds: first cluster and size as the FileM editor has them *)
Definition sess_entry (g : geom) (h : fhandle) (en : sentry) : sfn_entry :=
  match h_entry h with
  | Some ed =>
    let e1 := sfn_set_first (is32 g) (en_data en) (ed_first ed) in
    match ed_size ed with Some s => sfn_set_size e1 s | None => e1 end
  | None => en_data en
  end.

(* editor.dirty *)
Definition sess_dirty (h : fhandle) (en : sentry) : bool :=
  (match h_entry h with Some ed => FileM.ed_dirty ed | None => false end) || en_tdirty en.

(* the stamping a call does after it succeeded ([acc] = the mount option update_accessed_date) *)
Definition stamp_after (acc : bool) (en : sentry) (o : fop) (r : fresult) (now : datetime) : res sentry :=
  let ed := {| ed_st := stamps_of (en_data en); Time.ed_dirty := en_tdirty en |} in
  let upd (x : res editor_t) : res sentry :=
    do ed' <- x;
    Ok {| en_slot := en_slot en; en_data := with_stamps (en_data en) (ed_st ed'); en_tdirty := Time.ed_dirty ed' |} in
  match o, r with
  | FWrite _, RCount k => if k =? 0 then Ok en else upd (stamp_write ed now)
  | FRead _, RBytes bs => match bs with [] => Ok en | _ => upd (stamp_read ed acc (dt_date now)) end
  | _, _ => Ok en
  end.

(* one call on the handle, under the clock value [now] *)
Definition sess_step (g : geom) (acc : bool) (st : sstate) (on : fop * datetime) : sstate * fresult :=
  let '(o, now) := on in
  let '((im', fi', h'), r) := vol_step g (s_im st, s_fi st, s_h st) o in
  match stamp_after acc (s_en st) o r now with
  | Ok en' => ({| s_im := im'; s_fi := fi'; s_h := h'; s_en := en' |}, r)
  | _ => ({| s_im := im'; s_fi := fi'; s_h := h'; s_en := s_en st |}, RPanic)
  end.

Fixpoint sess_run (g : geom) (acc : bool) (st : sstate) (ops : list (fop * datetime)) : sstate * list fresult :=
  match ops with
  | [] => (st, [])
  | o :: rest => let '(st1, r) := sess_step g acc st o in
                 let '(st2, rs) := sess_run g acc st1 rest in (st2, r :: rs)
  end.

(* File::flush / drop: the device events, and the state afterwards *)
Definition clear_dirty (h : fhandle) : fhandle :=
  {| h_first := h_first h; h_cur := h_cur h; h_off := h_off h;
     h_entry := match h_entry h with
                | Some ed => Some {| ed_first := ed_first ed; ed_size := ed_size ed; FileM.ed_dirty := false |}
                | None => None
                end |}.

Definition flush_events (g : geom) (st : sstate) : list dev_event :=
  fst (file_flush (sess_dirty (s_h st) (s_en st)) (root_slot_off g (en_slot (s_en st)))
                  (sfn_encode (sess_entry g (s_h st) (s_en st)))).

Definition vol_flush_entry (g : geom) (st : sstate) : sstate :=
  {| s_im := apply_events (s_im st) (flush_events g st); s_fi := s_fi st; s_h := clear_dirty (s_h st);
     s_en := {| en_slot := en_slot (s_en st); en_data := sess_entry g (s_h st) (s_en st); en_tdirty := false |} |}.

(* ---------------------------------------------------------------- the whole session *)
Section Session.
  Variable upper : N -> list N.     (* char_to_uppercase *)
  Variable oem : N -> N.            (* OemCpConverter::decode *)

  (* root_dir().create_file(name) when it creates: the image with the new entry run and the handle bound to it.
     None: every other outcome (error; an existing file is opened instead - that handle is [sess_open] on ITS slot) *)
  Definition sess_create (im : image) (fi : fsinfo) (name : str) (now : datetime) : option sstate :=
    match vol_create_empty_file_root upper oem im name now with
    | (Ok (Some (_, q)), im1) =>
      match sess_open (parse_geom im1) im1 (q - 1) with
      | Some (h, en) => Some {| s_im := im1; s_fi := fi; s_h := h; s_en := en |}
      | None => None
      end
    | _ => None
    end.

  (* create_file(name) under clock [now]; the calls [ops], each under its own clock value; flush (or drop) *)
  Definition vol_session (acc : bool) (im : image) (fi : fsinfo) (name : str) (now : datetime)
             (ops : list (fop * datetime)) : option (sstate * list fresult) :=
    match sess_create im fi name now with
    | Some st => let '(st', rs) := sess_run (parse_geom (s_im st)) acc st ops in
                 Some (vol_flush_entry (parse_geom (s_im st)) st', rs)
    | None => None
    end.
End Session.
