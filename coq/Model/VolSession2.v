(* VolSession2.v: SEVERAL FILES PER SESSION on one device image of a FAT12/FAT16 volume.

   Model/VolSession.v is one File handle bound to its directory entry on a whole image.  Here the session holds a LIST of
   such handles: every one is a [VolSession] handle (the File of Model/FileM.v + the rest of its DirEntryEditor, [sentry])
   created by root_dir().create_file; what they share is what the library shares between open files of one FileSystem:
     - the device image (boot sector, FAT copies, root region, data area),
     - the in-memory FS-info latch (fs.rs fs_info: free count / next free hint).
   Nothing else is shared: each File owns its DirEntryEditor (a COPY of the 32-byte record made when the handle was
   created), its first cluster, its current cluster and its offset.

   Steps (the calls an application can make between mount and unmount on these handles):
     [s2_create]  root_dir().create_file(name) under clock [now] when it creates a new entry: [VolSession.sess_create] on the
                  current image; the new handle is appended (handle index = creation order);
     [SOp i o now]  the call [o] on handle [i] under the clock value [now]: [VolSession.sess_step] = Model/VolFile.vol_step on
                  the SHARED image and latch + the time stamps the call puts into handle i's own editor;
     [SFlush i]   File::flush on handle i, or the drop of handle i (Drop for File calls flush and ignores the result):
                  [VolSession.vol_flush_entry] = the 32-byte entry at handle i's remembered position iff ITS editor is dirty,
                  then a device flush.  A dropped handle cannot be addressed again by the program; the model keeps its
                  record (its chain stays allocated to the file on the device), a later [SFlush] of it writes nothing.
   A step that addresses a handle index that does not exist is skipped (no result), like [FileM.multi_run] and
   [ByteFile.bf_multi] do.
   [mvol_step] / [mvol_run] is the file layer alone over one image with several handles (no entries, no clock): the
   image-level form of [FileM.multi_run].
   NOT modelled: two handles on the SAME file (the library does not coordinate them), sub-directories, FAT32, the volume
   dirty flag (see Model/VolSession.v), device errors.
   Executable; extracted (model runner mode csess2).  No proofs here. *)
From Coq Require Import ZArith.
From FatVerif Require Import Model.Base Model.Str Model.Slot Model.Time Model.Table Model.Fat Model.FileM Model.DirSlots
  Model.VolDir Model.VolFile Model.FlushM Model.VolSession Spec.Image Spec.Abs.
Open Scope N_scope.

(* ---------------------------------------------------------------- the file layer alone: several handles, one image *)
Definition mvstate : Type := image * fsinfo * list fhandle.

Definition mvol_step (g : geom) (st : mvstate) (io : nat * fop) : mvstate * option fresult :=
  let '(im, fi, hs) := st in
  match nth_error hs (fst io) with
  | Some h => let '((im', fi', h'), r) := vol_step g (im, fi, h) (snd io) in
              ((im', fi', list_set hs (fst io) h'), Some r)
  | None => (st, None)
  end.

Fixpoint mvol_run (g : geom) (st : mvstate) (ops : list (nat * fop)) : mvstate * list fresult :=
  match ops with
  | [] => (st, [])
  | io :: rest =>
    let '(st1, r) := mvol_step g st io in
    let '(st2, rs) := mvol_run g st1 rest in
    (st2, match r with Some x => x :: rs | None => rs end)
  end.

(* ---------------------------------------------------------------- the session *)
(* one open file: the File and the rest of its DirEntryEditor *)
Record shandle := { sh_h : fhandle; sh_en : sentry }.

Record s2state := { s2_im : image; s2_fi : fsinfo; s2_hs : list shandle }.

Inductive s2op :=
| SOp (i : nat) (o : fop) (now : datetime)
| SFlush (i : nat).

(* handle [x] of the session as a one-file session state of Model/VolSession.v *)
Definition sstate_of (st : s2state) (x : shandle) : sstate :=
  {| s_im := s2_im st; s_fi := s2_fi st; s_h := sh_h x; s_en := sh_en x |}.

Definition s2_put (st : s2state) (i : nat) (s1 : sstate) : s2state :=
  {| s2_im := s_im s1; s2_fi := s_fi s1; s2_hs := list_set (s2_hs st) i {| sh_h := s_h s1; sh_en := s_en s1 |} |}.

Definition s2_step (g : geom) (acc : bool) (st : s2state) (op : s2op) : s2state * option fresult :=
  match op with
  | SOp i o now =>
    match nth_error (s2_hs st) i with
    | Some x => let '(s1, r) := sess_step g acc (sstate_of st x) (o, now) in (s2_put st i s1, Some r)
    | None => (st, None)
    end
  | SFlush i =>
    match nth_error (s2_hs st) i with
    | Some x => (s2_put st i (vol_flush_entry g (sstate_of st x)), None)
    | None => (st, None)
    end
  end.

Fixpoint s2_run (g : geom) (acc : bool) (st : s2state) (ops : list s2op) : s2state * list fresult :=
  match ops with
  | [] => (st, [])
  | op :: rest =>
    let '(st1, r) := s2_step g acc st op in
    let '(st2, rs) := s2_run g acc st1 rest in
    (st2, match r with Some x => x :: rs | None => rs end)
  end.

(* the file calls of an op list, as the multi-file byte-array machine reads them *)
Definition file_ops (ops : list s2op) : list (nat * fop) :=
  flat_map (fun op => match op with SOp i o _ => [(i, o)] | SFlush _ => [] end) ops.

(* the device events of one step that are device FLUSHES: only File::flush / drop issues one (Model/FlushM.v file_flush:
   always, as its last event) *)
Definition s2_flushes (op : s2op) : bool := match op with SFlush _ => true | SOp _ _ _ => false end.

Definition s2_dirty (x : shandle) : bool := sess_dirty (sh_h x) (sh_en x).

Section Session2.
  Variable upper : N -> list N.     (* char_to_uppercase *)
  Variable oem : N -> N.            (* OemCpConverter::decode *)

  (* root_dir().create_file(name) when it creates a new entry; None: every other outcome *)
  Definition s2_create (st : s2state) (name : str) (now : datetime) : option s2state :=
    match sess_create upper oem (s2_im st) (s2_fi st) name now with
    | Some s1 => Some {| s2_im := s_im s1; s2_fi := s_fi s1; s2_hs := s2_hs st ++ [{| sh_h := s_h s1; sh_en := s_en s1 |}] |}
    | None => None
    end.

  Fixpoint s2_creates (st : s2state) (reqs : list (str * datetime)) : option s2state :=
    match reqs with
    | [] => Some st
    | q :: r => match s2_create st (fst q) (snd q) with Some st1 => s2_creates st1 r | None => None end
    end.

  (* mount ; create_file for every request ; the steps *)
  Definition vol_session2 (acc : bool) (im : image) (fi : fsinfo) (reqs : list (str * datetime)) (ops : list s2op)
    : option (s2state * list fresult) :=
    match s2_creates {| s2_im := im; s2_fi := fi; s2_hs := [] |} reqs with
    | Some st => Some (s2_run (parse_geom im) acc st ops)
    | None => None
    end.
End Session2.

(* ---------------------------------------------------------------- what survives a power cut, at the granularity of calls:
   the device is flushed by File::flush / drop only, as the last event of the call, so the durable image (Model/FlushM.v
   cache_run: the image as of the last device flush) is the image the session had right after its last [SFlush] step *)
Fixpoint s2_durable (g : geom) (acc : bool) (st : s2state) (dur : image) (ops : list s2op) : image :=
  match ops with
  | [] => dur
  | op :: rest =>
    let st1 := fst (s2_step g acc st op) in
    s2_durable g acc st1 (if s2_flushes op then s2_im st1 else dur) rest
  end.
