(* Flags.v: model of the volume status byte handling of src/fs.rs: FsStatusFlags::{decode,encode},
   FileSystem::set_dirty_flag (with the fix that keeps the unknown bits of the byte read at mount),
   FsIoAdapter::write / File::write (mark dirty around a structural write), unmount. *)
From FatVerif Require Import Model.Base.
Open Scope N_scope.

Record sflags := { sf_dirty : bool; sf_io_error : bool }.

Definition sf_decode (b : N) : sflags := {| sf_dirty := N.odd b; sf_io_error := N.odd (b / 2) |}.
Definition sf_encode (f : sflags) : N := (if sf_dirty f then 1 else 0) + (if sf_io_error f then 2 else 0).
Definition sf_eqb (a b : sflags) : bool := Bool.eqb (sf_dirty a) (sf_dirty b) && Bool.eqb (sf_io_error a) (sf_io_error b).

(* the part of a mounted file system that concerns the status byte *)
Record fstat := { mount_byte : N;          (* bpb.reserved_1 as read at mount *)
                  current : sflags;        (* current_status_flags *)
                  disk_byte : N;           (* the byte on the device *)
                  status_writes : N }.     (* how many times the byte was written *)

Definition st_mount (b : N) : fstat :=
  {| mount_byte := b; current := sf_decode b; disk_byte := b; status_writes := 0 |}.

(* FileSystem::set_dirty_flag *)
Definition set_dirty_flag (s : fstat) (dirty : bool) : fstat :=
  let m := sf_decode (mount_byte s) in
  let fl := {| sf_dirty := sf_dirty m || dirty; sf_io_error := sf_io_error m |} in
  if sf_eqb fl (current s) then s
  else {| mount_byte := mount_byte s; current := fl;
          disk_byte := N.lor (sf_encode fl) ((mount_byte s / 4) * 4);      (* encode() | (reserved_1 & !3) *)
          status_writes := status_writes s + 1 |}.

(* what a session does to the status byte: structural writes mark the volume dirty (FsIoAdapter::write after
   the first successful device write, File::write before it), unmount / drop clears the session's own mark *)
Inductive sev := EvStructural | EvUnmount.
Definition st_step (s : fstat) (e : sev) : fstat :=
  match e with EvStructural => set_dirty_flag s true | EvUnmount => set_dirty_flag s false end.
