(* Format.v: executable model of the format sizing code of rust-fatfs:
     src/boot_sector.rs  estimate_fat_type, determine_bytes_per_cluster, determine_sectors_per_fat,
                         try_fs_layout, determine_root_dir_sectors, determine_fs_layout, format_bpb,
                         format_boot_sector, BiosParameterBlock::{serialize,deserialize,validate*,
                         total_clusters,...}, BootSector::{serialize,deserialize,validate}
     src/fs.rs           FatType::{from_clusters,bits_per_fat_entry,min_clusters,max_clusters},
                         FormatVolumeOptions, the first steps of format_volume
                         (total sector count, format_boot_sector, strict validate -> InvalidInput)
   Arithmetic is the arithmetic of a debug build: every u32/u64 overflow, division by zero,
   failed assert!/debug_assert! is [Panic].  No proofs here. *)
From Coq Require Import NArith List Bool.
From FatVerif Require Import Model.Base.
Import ListNotations.
Open Scope N_scope.

(* ---------------------------------------------------------------- checked arithmetic *)
Definition u64_add (a b : N) : res N := if a + b <=? u64_max then Ok (a + b) else Panic.
Definition u64_mul (a b : N) : res N := if a * b <=? u64_max then Ok (a * b) else Panic.
Definition u64_sub (a b : N) : res N := if b <=? a then Ok (a - b) else Panic.
(* integer division, any width: division by zero panics *)
Definition chk_div (a b : N) : res N := if b =? 0 then Panic else Ok (a / b).
Definition chk_mod (a b : N) : res N := if b =? 0 then Panic else Ok (a mod b).
Definition as_u32 (a : N) : N := a mod two32.

(* uN::is_power_of_two (exactly one bit set) *)
Definition fmt_is_pow2 (n : N) : bool := (0 <? n) && (n =? 2 ^ N.log2 n).

(* u64::next_power_of_two: smallest power of two >= n (1 for 0); debug build panics when it
   does not fit in 64 bits *)
Definition next_power_of_two_u64 (n : N) : res N :=
  let p := 2 ^ N.log2_up n in if p <=? u64_max then Ok p else Panic.

(* Ord::clamp: assert!(min <= max) *)
Definition clamp (x lo hi : N) : res N :=
  if hi <? lo then Panic else Ok (if x <? lo then lo else if hi <? x then hi else x).

(* ---------------------------------------------------------------- FatType (fs.rs) *)
Inductive fat_type := Fat12 | Fat16 | Fat32.

Definition fat_type_eqb (a b : fat_type) : bool :=
  match a, b with Fat12, Fat12 | Fat16, Fat16 | Fat32, Fat32 => true | _, _ => false end.

Definition FAT16_MIN_CLUSTERS : N := 4085.
Definition FAT32_MIN_CLUSTERS : N := 65525.
Definition FAT32_MAX_CLUSTERS : N := 268435444.   (* 0x0FFF_FFF4 *)

Definition from_clusters (total_clusters : N) : fat_type :=
  if total_clusters <? 4085 then Fat12 else if total_clusters <? 65525 then Fat16 else Fat32.

Definition bits_per_fat_entry (t : fat_type) : N :=
  match t with Fat12 => 12 | Fat16 => 16 | Fat32 => 32 end.

Definition min_clusters (t : fat_type) : N :=
  match t with Fat12 => 0 | Fat16 => 4085 | Fat32 => 65525 end.

Definition max_clusters (t : fat_type) : N :=
  match t with Fat12 => 4084 | Fat16 => 65524 | Fat32 => 268435444 end.

(* ---------------------------------------------------------------- FormatVolumeOptions (fs.rs) *)
Record fmt_options := {
  o_bytes_per_sector : N;               (* u16; builder: power of two >= 512 *)
  o_total_sectors : option N;           (* u32 *)
  o_bytes_per_cluster : option N;       (* u32; builder: power of two >= 512 *)
  o_fat_type : option fat_type;
  o_max_root_dir_entries : N;           (* u16 *)
  o_fats : N;                           (* u8; builder: 1..=2 *)
  o_media : N;                          (* u8 *)
  o_sectors_per_track : N;              (* u16 *)
  o_heads : N;                          (* u16 *)
  o_drive_num : option N;               (* u8 *)
  o_volume_id : N;                      (* u32 *)
  o_volume_label : option (list N)      (* [u8; 11] *)
}.

Definition default_options : fmt_options := {|
  o_bytes_per_sector := 512; o_total_sectors := None; o_bytes_per_cluster := None; o_fat_type := None;
  o_max_root_dir_entries := 512; o_fats := 2; o_media := 248; o_sectors_per_track := 32; o_heads := 64;
  o_drive_num := None; o_volume_id := 305419896; o_volume_label := None |}.

(* ---------------------------------------------------------------- BiosParameterBlock / BootSector *)
Record fbpb := {
  fb_bytes_per_sector : N; fb_sectors_per_cluster : N; fb_reserved_sectors : N; fb_fats : N;
  fb_root_entries : N; fb_total_sectors_16 : N; fb_media : N; fb_sectors_per_fat_16 : N;
  fb_sectors_per_track : N; fb_heads : N; fb_hidden_sectors : N; fb_total_sectors_32 : N;
  fb_sectors_per_fat_32 : N; fb_extended_flags : N; fb_fs_version : N; fb_root_dir_first_cluster : N;
  fb_fs_info_sector : N; fb_backup_boot_sector : N; fb_reserved_0 : list N;
  fb_drive_num : N; fb_reserved_1 : N; fb_ext_sig : N; fb_volume_id : N;
  fb_volume_label : list N; fb_fs_type_label : list N }.

Record fboot := {
  fbs_bootjmp : list N; fbs_oem_name : list N; fbs_bpb : fbpb; fbs_boot_code : list N; fbs_boot_sig : list N }.

Definition fb_is_fat32 (b : fbpb) : bool := fb_sectors_per_fat_16 b =? 0.
Definition fb_sectors_per_fat (b : fbpb) : N :=
  if fb_is_fat32 b then fb_sectors_per_fat_32 b else fb_sectors_per_fat_16 b.
Definition fb_total_sectors (b : fbpb) : N :=
  if fb_total_sectors_16 b =? 0 then fb_total_sectors_32 b else fb_total_sectors_16 b.

(* root_dir_sectors: u32 arithmetic *)
Definition fb_root_dir_sectors (b : fbpb) : res N :=
  do root_dir_bytes <- u32_mul (fb_root_entries b) 32;
  do a <- u32_add root_dir_bytes (fb_bytes_per_sector b);
  do a1 <- u32_sub a 1;
  chk_div a1 (fb_bytes_per_sector b).

Definition fb_sectors_per_all_fats (b : fbpb) : res N := u32_mul (fb_fats b) (fb_sectors_per_fat b).

Definition fb_first_data_sector (b : fbpb) : res N :=
  do root_dir_sectors <- fb_root_dir_sectors b;
  do fat_sectors <- fb_sectors_per_all_fats b;
  do a <- u32_add (fb_reserved_sectors b) fat_sectors;
  u32_add a root_dir_sectors.

Definition fb_total_clusters (b : fbpb) : res N :=
  do first_data_sector <- fb_first_data_sector b;
  do data_sectors <- u32_sub (fb_total_sectors b) first_data_sector;
  chk_div data_sectors (fb_sectors_per_cluster b).

(* ---------------------------------------------------------------- sizing heuristics *)
Definition KB : N := 1024.
Definition MB : N := 1048576.
Definition GB : N := 1073741824.

Definition estimate_fat_type (total_bytes : N) : fat_type :=
  if total_bytes <? 4300800 (* 4200 KB *) then Fat12
  else if total_bytes <? 536870912 (* 512 MB *) then Fat16
  else Fat32.

(* the match of determine_bytes_per_cluster, before clamping; u64 arithmetic, then `as u32` *)
Definition dbpc_raw (total_bytes : N) (t : fat_type) : res N :=
  match t with
  | Fat12 =>
      do p <- next_power_of_two_u64 total_bytes;
      do m <- u64_mul (p / MB) 512;
      Ok (as_u32 m)
  | Fat16 =>
      if total_bytes <=? 16777216 (* 16 MB *) then Ok 1024
      else if total_bytes <=? 134217728 (* 128 MB *) then Ok 2048
      else do p <- next_power_of_two_u64 total_bytes;
           u32_mul (as_u32 (p / 67108864 (* 64 MB *))) 1024
  | Fat32 =>
      if total_bytes <=? 272629760 (* 260 MB *) then Ok 512
      else if total_bytes <=? 8589934592 (* 8 GB *) then Ok 4096
      else do p <- next_power_of_two_u64 total_bytes;
           u32_mul (as_u32 (p / 2147483648 (* 2 GB *))) 1024
  end.

Definition determine_bytes_per_cluster (total_bytes bytes_per_sector : N) (t : option fat_type) : res N :=
  let t := match t with Some t => t | None => estimate_fat_type total_bytes end in
  do bytes_per_cluster <- dbpc_raw total_bytes t;
  do clamped <- clamp bytes_per_cluster bytes_per_sector 32768;
  if fmt_is_pow2 clamped then Ok clamped else Panic (* debug_assert! *).

Definition determine_sectors_per_fat (total_sectors bytes_per_sector sectors_per_cluster : N) (t : fat_type)
    (reserved_sectors root_dir_sectors fats : N) : res N :=
  do a <- u32_sub total_sectors reserved_sectors;
  do t0 <- u32_sub a root_dir_sectors;
  do two_spc <- u32_mul 2 sectors_per_cluster;
  do t1 <- u64_add t0 two_spc;
  do b <- u32_mul sectors_per_cluster bytes_per_sector;
  do bits_per_cluster <- u32_mul b 8;
  do q <- chk_div bits_per_cluster (bits_per_fat_entry t);
  do t2 <- u32_add q fats;
  do s <- u64_add t1 t2;
  do s1 <- u64_sub s 1;
  do sectors_per_fat <- chk_div s1 t2;
  Ok (as_u32 sectors_per_fat).

(* Result<(u16, u32), Error<()>> *)
Definition try_fs_layout (total_sectors bytes_per_sector sectors_per_cluster : N) (t : fat_type)
    (root_dir_sectors fats : N) : res (N * N) :=
  let reserved_sectors := if fat_type_eqb t Fat32 then 8 else 1 in
  do a <- u32_add reserved_sectors root_dir_sectors;
  do lim <- u32_add a 8;
  if total_sectors <=? lim then Err EInvalidInput else
  do sectors_per_fat <- determine_sectors_per_fat total_sectors bytes_per_sector sectors_per_cluster t
                          reserved_sectors root_dir_sectors fats;
  do d1 <- u32_sub total_sectors reserved_sectors;
  do d2 <- u32_sub d1 root_dir_sectors;
  do all_fats <- u32_mul sectors_per_fat fats;
  do data_sectors <- u32_sub d2 all_fats;
  do total_clusters <- chk_div data_sectors sectors_per_cluster;
  if negb (fat_type_eqb t (from_clusters total_clusters)) then Err EInvalidInput else
  if total_clusters <? min_clusters t then Panic (* debug_assert! *) else
  if max_clusters t <? total_clusters then Err EInvalidInput else
  Ok (reserved_sectors, sectors_per_fat).

Definition determine_root_dir_sectors (root_dir_entries bytes_per_sector : N) (t : fat_type) : res N :=
  if fat_type_eqb t Fat32 then Ok 0 else
  do root_dir_bytes <- u32_mul root_dir_entries 32;
  do a <- u32_add root_dir_bytes bytes_per_sector;
  do a1 <- u32_sub a 1;
  chk_div a1 bytes_per_sector.

Record fs_layout := { l_fat_type : fat_type; l_reserved_sectors : N; l_sectors_per_fat : N; l_sectors_per_cluster : N }.

(* the `for &fat_type in allowed_fat_types` loop: an Err of one candidate is dropped, a panic is not *)
Fixpoint layout_loop (o : fmt_options) (total_sectors sectors_per_cluster : N) (ts : list fat_type) : res fs_layout :=
  match ts with
  | [] => Err EInvalidInput
  | t :: rest =>
      do root_dir_sectors <- determine_root_dir_sectors (o_max_root_dir_entries o) (o_bytes_per_sector o) t;
      match try_fs_layout total_sectors (o_bytes_per_sector o) sectors_per_cluster t root_dir_sectors (o_fats o) with
      | Ok (reserved_sectors, sectors_per_fat) =>
          Ok {| l_fat_type := t; l_reserved_sectors := reserved_sectors; l_sectors_per_fat := sectors_per_fat;
                l_sectors_per_cluster := sectors_per_cluster |}
      | Err _ => layout_loop o total_sectors sectors_per_cluster rest
      | Panic => Panic
      | OutOfFuel => OutOfFuel
      end
  end.

Definition determine_fs_layout (o : fmt_options) (total_sectors : N) : res fs_layout :=
  do bytes_per_cluster <-
    match o_bytes_per_cluster o with
    | Some b => Ok b
    | None => do total_bytes <- u64_mul total_sectors (o_bytes_per_sector o);
              determine_bytes_per_cluster total_bytes (o_bytes_per_sector o) (o_fat_type o)
    end;
  do sectors_per_cluster_32 <- chk_div bytes_per_cluster (o_bytes_per_sector o);
  if 255 <? sectors_per_cluster_32 then Err EInvalidInput (* try_into u8 *) else
  if sectors_per_cluster_32 =? 0 then Err EInvalidInput else
  let allowed := match o_fat_type o with Some t => [t] | None => [Fat32; Fat16; Fat12] end in
  layout_loop o total_sectors sectors_per_cluster_32 allowed.

Definition label_no_name : list N := [78; 79; 32; 78; 65; 77; 69; 32; 32; 32; 32].     (* "NO NAME    " *)
Definition fs_type_label_of (t : fat_type) : list N :=
  match t with
  | Fat12 => [70; 65; 84; 49; 50; 32; 32; 32]
  | Fat16 => [70; 65; 84; 49; 54; 32; 32; 32]
  | Fat32 => [70; 65; 84; 51; 50; 32; 32; 32]
  end.

(* the part of format_bpb after `determine_fs_layout(options, total_sectors)?` *)
Definition format_bpb_with (o : fmt_options) (total_sectors : N) (layout : fs_layout) : res (fbpb * fat_type) :=
  let t := l_fat_type layout in
  let drive_num := match o_drive_num o with Some d => d | None => if fat_type_eqb t Fat12 then 0 else 128 end in
  let volume_label := match o_volume_label o with Some l => l | None => label_no_name end in
  let is_fat32 := fat_type_eqb t Fat32 in
  do sectors_per_fat_16 <-
    (if is_fat32 then Ok 0
     else if u16_max <? l_sectors_per_fat layout then Err EInvalidInput else Ok (l_sectors_per_fat layout));
  let sectors_per_fat_32 := if is_fat32 then l_sectors_per_fat layout else 0 in
  let root_entries := if is_fat32 then 0 else o_max_root_dir_entries o in
  let total_sectors_16 := if is_fat32 then 0 else if u16_max <? total_sectors then 0 else total_sectors in
  let total_sectors_32 := if total_sectors_16 =? 0 then total_sectors else 0 in
  let bpb := {|
    fb_bytes_per_sector := o_bytes_per_sector o;
    fb_sectors_per_cluster := l_sectors_per_cluster layout;
    fb_reserved_sectors := l_reserved_sectors layout;
    fb_fats := o_fats o;
    fb_root_entries := root_entries;
    fb_total_sectors_16 := total_sectors_16;
    fb_media := o_media o;
    fb_sectors_per_fat_16 := sectors_per_fat_16;
    fb_sectors_per_track := o_sectors_per_track o;
    fb_heads := o_heads o;
    fb_hidden_sectors := 0;
    fb_total_sectors_32 := total_sectors_32;
    fb_sectors_per_fat_32 := sectors_per_fat_32;
    fb_extended_flags := 0;
    fb_fs_version := 0;
    fb_root_dir_first_cluster := if is_fat32 then 2 else 0;
    fb_fs_info_sector := if is_fat32 then 1 else 0;
    fb_backup_boot_sector := if is_fat32 then 6 else 0;
    fb_reserved_0 := repeat_N 0 12;
    fb_drive_num := drive_num;
    fb_reserved_1 := 0;
    fb_ext_sig := 41;
    fb_volume_id := o_volume_id o;
    fb_volume_label := volume_label;
    fb_fs_type_label := fs_type_label_of t |} in
  do total_clusters <- fb_total_clusters bpb;
  if negb (fat_type_eqb (from_clusters total_clusters) t) then Err EInvalidInput else
  Ok (bpb, t).

Definition format_bpb (o : fmt_options) (total_sectors : N) : res (fbpb * fat_type) :=
  do layout <- determine_fs_layout o total_sectors;
  format_bpb_with o total_sectors layout.

Definition boot_code_129 : list N := [
  0x0E; 0x1F; 0xBE; 0x77; 0x7C; 0xAC; 0x22; 0xC0; 0x74; 0x0B; 0x56; 0xB4; 0x0E; 0xBB; 0x07; 0x00; 0xCD; 0x10;
  0x5E; 0xEB; 0xF0; 0x32; 0xE4; 0xCD; 0x16; 0xCD; 0x19; 0xEB; 0xFE; 0x54; 0x68; 0x69; 0x73; 0x20; 0x69; 0x73;
  0x20; 0x6E; 0x6F; 0x74; 0x20; 0x61; 0x20; 0x62; 0x6F; 0x6F; 0x74; 0x61; 0x62; 0x6C; 0x65; 0x20; 0x64; 0x69;
  0x73; 0x6B; 0x2E; 0x20; 0x20; 0x50; 0x6C; 0x65; 0x61; 0x73; 0x65; 0x20; 0x69; 0x6E; 0x73; 0x65; 0x72; 0x74;
  0x20; 0x61; 0x20; 0x62; 0x6F; 0x6F; 0x74; 0x61; 0x62; 0x6C; 0x65; 0x20; 0x66; 0x6C; 0x6F; 0x70; 0x70; 0x79;
  0x20; 0x61; 0x6E; 0x64; 0x0D; 0x0A; 0x70; 0x72; 0x65; 0x73; 0x73; 0x20; 0x61; 0x6E; 0x79; 0x20; 0x6B; 0x65;
  0x79; 0x20; 0x74; 0x6F; 0x20; 0x74; 0x72; 0x79; 0x20; 0x61; 0x67; 0x61; 0x69; 0x6E; 0x20; 0x2E; 0x2E; 0x2E;
  0x20; 0x0D; 0x0A ].

Definition oem_name_mswin41 : list N := [77; 83; 87; 73; 78; 52; 46; 49].    (* "MSWIN4.1" *)

Fixpoint set_nth (l : list N) (i : nat) (v : N) : list N :=
  match l, i with
  | [], _ => []
  | _ :: r, O => v :: r
  | x :: r, S k => x :: set_nth r k v
  end.

(* the part of format_boot_sector after `format_bpb(options, total_sectors)?` *)
Definition format_boot_sector_with (bpb : fbpb) (t : fat_type) : fboot :=
  let boot_code := boot_code_129 ++ repeat_N 0 (448 - 129) in
  if negb (fat_type_eqb t Fat32) then
    (* BOOT_CODE_OFFSET = 0x36 + 8 = 0x3E; message_offset_in_sector = 0x3E + 29 + 0x7c00 = 0x7C5B (u16, constants) *)
    let msg := 62 + 29 + 31744 in
    {| fbs_bootjmp := [0xEB; 62 - 2; 0x90]; fbs_oem_name := oem_name_mswin41; fbs_bpb := bpb;
       fbs_boot_code := set_nth (set_nth boot_code 3 (msg mod 256)) 4 ((msg / 256) mod 256);
       fbs_boot_sig := [0x55; 0xAA] |}
  else
    {| fbs_bootjmp := [0xEB; 0x58; 0x90]; fbs_oem_name := oem_name_mswin41; fbs_bpb := bpb;
       fbs_boot_code := boot_code; fbs_boot_sig := [0x55; 0xAA] |}.

Definition format_boot_sector (o : fmt_options) (total_sectors : N) : res (fboot * fat_type) :=
  do bt <- format_bpb o total_sectors;
  Ok (format_boot_sector_with (fst bt) (snd bt), snd bt).

(* ---------------------------------------------------------------- serialization *)
Definition fmt_serialize_bpb (b : fbpb) : list N :=
  le_encode 2 (fb_bytes_per_sector b) ++ le_encode 1 (fb_sectors_per_cluster b) ++
  le_encode 2 (fb_reserved_sectors b) ++ le_encode 1 (fb_fats b) ++ le_encode 2 (fb_root_entries b) ++
  le_encode 2 (fb_total_sectors_16 b) ++ le_encode 1 (fb_media b) ++ le_encode 2 (fb_sectors_per_fat_16 b) ++
  le_encode 2 (fb_sectors_per_track b) ++ le_encode 2 (fb_heads b) ++ le_encode 4 (fb_hidden_sectors b) ++
  le_encode 4 (fb_total_sectors_32 b) ++
  (if fb_is_fat32 b then
     le_encode 4 (fb_sectors_per_fat_32 b) ++ le_encode 2 (fb_extended_flags b) ++ le_encode 2 (fb_fs_version b) ++
     le_encode 4 (fb_root_dir_first_cluster b) ++ le_encode 2 (fb_fs_info_sector b) ++
     le_encode 2 (fb_backup_boot_sector b) ++ fb_reserved_0 b
   else []) ++
  le_encode 1 (fb_drive_num b) ++ le_encode 1 (fb_reserved_1 b) ++ le_encode 1 (fb_ext_sig b) ++
  le_encode 4 (fb_volume_id b) ++ fb_volume_label b ++ fb_fs_type_label b.

Definition fmt_serialize_boot (s : fboot) : list N :=
  fbs_bootjmp s ++ fbs_oem_name s ++ fmt_serialize_bpb (fbs_bpb s) ++
  firstn (if fb_is_fat32 (fbs_bpb s) then 420 else 448) (fbs_boot_code s) ++ fbs_boot_sig s.

(* deserialization of a 512-byte sector (BootSector::deserialize); missing bytes read as 0 *)
Definition rd8 (l : list N) (i : nat) : N := nth i l 0.
Definition rd16 (l : list N) (i : nat) : N := rd8 l i + 256 * rd8 l (S i).
Definition rd32 (l : list N) (i : nat) : N := rd16 l i + 65536 * rd16 l (S (S i)).
Definition slice (l : list N) (i n : nat) : list N := firstn n (skipn i l).

Definition fmt_deserialize_boot (l : list N) : fboot :=
  let spf16 := rd16 l 22 in
  let f32 := spf16 =? 0 in
  let off := if f32 then 64%nat else 36%nat in
  let ext_sig := rd8 l (off + 2) in
  let sig_ok := ext_sig =? 41 in
  let bpb := {|
    fb_bytes_per_sector := rd16 l 11; fb_sectors_per_cluster := rd8 l 13; fb_reserved_sectors := rd16 l 14;
    fb_fats := rd8 l 16; fb_root_entries := rd16 l 17; fb_total_sectors_16 := rd16 l 19; fb_media := rd8 l 21;
    fb_sectors_per_fat_16 := spf16; fb_sectors_per_track := rd16 l 24; fb_heads := rd16 l 26;
    fb_hidden_sectors := rd32 l 28; fb_total_sectors_32 := rd32 l 32;
    fb_sectors_per_fat_32 := if f32 then rd32 l 36 else 0;
    fb_extended_flags := if f32 then rd16 l 40 else 0;
    fb_fs_version := if f32 then rd16 l 42 else 0;
    fb_root_dir_first_cluster := if f32 then rd32 l 44 else 0;
    fb_fs_info_sector := if f32 then rd16 l 48 else 0;
    fb_backup_boot_sector := if f32 then rd16 l 50 else 0;
    fb_reserved_0 := if f32 then slice l 52 12 else repeat_N 0 12;
    fb_drive_num := rd8 l off; fb_reserved_1 := rd8 l (off + 1); fb_ext_sig := ext_sig;
    fb_volume_id := if sig_ok then rd32 l (off + 3) else 0;
    fb_volume_label := if sig_ok then slice l (off + 7) 11 else repeat_N 0 11;
    fb_fs_type_label := if sig_ok then slice l (off + 18) 8 else repeat_N 0 8 |} in
  let nbc := if f32 then 420%nat else 448%nat in
  {| fbs_bootjmp := slice l 0 3; fbs_oem_name := slice l 3 8; fbs_bpb := bpb;
     fbs_boot_code := slice l (off + 26) nbc ++ repeat_N 0 (448 - nbc); fbs_boot_sig := slice l 510 2 |}.

(* ---------------------------------------------------------------- validation (the part format_volume uses)
   BiosParameterBlock::validate*, BootSector::validate(strict = true).  Every rejection is
   Err ECorruptedFileSystem; the arithmetic is u32/u64 as written. *)
Definition corrupted {A} : res A := Err ECorruptedFileSystem.

Definition fmt_validate_bytes_per_sector (b : fbpb) : res unit :=
  if negb (fmt_is_pow2 (fb_bytes_per_sector b)) then corrupted else
  if (fb_bytes_per_sector b <? 512) || (4096 <? fb_bytes_per_sector b) then corrupted else Ok tt.

Definition fmt_validate_sectors_per_cluster (b : fbpb) : res unit :=
  if negb (fmt_is_pow2 (fb_sectors_per_cluster b)) then corrupted else
  do _ <- u32_mul (fb_bytes_per_sector b) (fb_sectors_per_cluster b);
  Ok tt.

Definition fmt_validate_reserved_sectors (b : fbpb) : res unit :=
  let is_fat32 := fb_is_fat32 b in
  if fb_reserved_sectors b <? 1 then corrupted else
  if is_fat32 && (fb_reserved_sectors b <=? fb_backup_boot_sector b) then corrupted else
  if is_fat32 && (fb_reserved_sectors b <=? fb_fs_info_sector b) then corrupted else Ok tt.

Definition fmt_validate_fats (b : fbpb) : res unit :=
  if fb_fats b =? 0 then corrupted else Ok tt.

Definition fmt_validate_root_entries (b : fbpb) : res unit :=
  let is_fat32 := fb_is_fat32 b in
  if is_fat32 && negb (fb_root_entries b =? 0) then corrupted else
  if negb is_fat32 && (fb_root_entries b =? 0) then corrupted else
  do m <- u32_mul (fb_root_entries b) 32;
  do _ <- chk_mod m (fb_bytes_per_sector b);
  Ok tt.

Definition fmt_validate_total_sectors (b : fbpb) : res unit :=
  let is_fat32 := fb_is_fat32 b in
  if is_fat32 && negb (fb_total_sectors_16 b =? 0) then corrupted else
  if (fb_total_sectors_16 b =? 0) && (fb_total_sectors_32 b =? 0) then corrupted else
  if negb (fb_total_sectors_16 b =? 0) && negb (fb_total_sectors_32 b =? 0)
     && negb (fb_total_sectors_16 b =? fb_total_sectors_32 b) then corrupted else
  let total_sectors := fb_total_sectors b in
  do rds <- fb_root_dir_sectors b;
  (* u64: cannot overflow for u16/u8/u32 operands *)
  let first_data_sector_64 := fb_reserved_sectors b + fb_fats b * fb_sectors_per_fat b + rds in
  if total_sectors <=? first_data_sector_64 then corrupted else
  do first_data_sector <- fb_first_data_sector b;
  if total_sectors <=? first_data_sector then corrupted else Ok tt.

Definition fmt_validate_sectors_per_fat (b : fbpb) : res unit :=
  if fb_is_fat32 b && (fb_sectors_per_fat_32 b =? 0) then corrupted else Ok tt.

Definition fmt_validate_total_clusters (b : fbpb) : res unit :=
  let is_fat32 := fb_is_fat32 b in
  do total_clusters <- fb_total_clusters b;
  let t := from_clusters total_clusters in
  if negb (Bool.eqb is_fat32 (fat_type_eqb t Fat32)) then corrupted else
  if fat_type_eqb t Fat32 && (268435455 <? total_clusters) then corrupted else
  if fat_type_eqb t Fat32 && ((fb_root_dir_first_cluster b <? 2) || (total_clusters <=? fb_root_dir_first_cluster b - 2))
  then corrupted else
  (* the "FAT is too small" comparison only warns; u64 arithmetic without overflow *)
  Ok tt.

Definition fmt_validate_bpb (b : fbpb) : res unit :=
  if negb (fb_fs_version b =? 0) then corrupted else
  do _ <- fmt_validate_bytes_per_sector b;
  do _ <- fmt_validate_sectors_per_cluster b;
  do _ <- fmt_validate_reserved_sectors b;
  do _ <- fmt_validate_fats b;
  do _ <- fmt_validate_root_entries b;
  do _ <- fmt_validate_total_sectors b;
  do _ <- fmt_validate_sectors_per_fat b;
  fmt_validate_total_clusters b.

Definition list_N_eqb (a b : list N) : bool :=
  Nat.eqb (length a) (length b) && forallb (fun p => fst p =? snd p) (combine a b).

(* BootSector::validate(strict = true) *)
Definition fmt_validate (s : fboot) : res unit :=
  if negb (list_N_eqb (fbs_boot_sig s) [0x55; 0xAA]) then corrupted else
  fmt_validate_bpb (fbs_bpb s).

(* ---------------------------------------------------------------- format_volume, up to the first write *)
(* total sector count: option, or device size / sector size (u64 division), > u32::MAX -> InvalidInput *)
Definition fmt_total_sectors (o : fmt_options) (device_bytes : N) : res N :=
  match o_total_sectors o with
  | Some n => Ok n
  | None =>
      do n <- chk_div device_bytes (o_bytes_per_sector o);
      if u32_max <? n then Err EInvalidInput else Ok n
  end.

(* `format_boot_sector(&options, total_sectors)?; if boot.validate(true).is_err() { return Err(InvalidInput) }` *)
Definition format_boot_sector_validated (o : fmt_options) (total_sectors : N) : res (fboot * fat_type) :=
  do bt <- format_boot_sector o total_sectors;
  match fmt_validate (fst bt) with
  | Ok _ => Ok bt
  | Err _ => Err EInvalidInput
  | Panic => Panic
  | OutOfFuel => OutOfFuel
  end.

(* what the hook verif_hooks::format_boot_sector_bytes returns: 512 bytes and the FAT width *)
Definition format_boot_sector_bytes (o : fmt_options) (total_sectors : N) : res (list N * N) :=
  do bt <- format_boot_sector_validated o total_sectors;
  Ok (firstn 512 (fmt_serialize_boot (fst bt)), bits_per_fat_entry (snd bt)).
