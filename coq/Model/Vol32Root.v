(* Vol32Root.v: the ROOT DIRECTORY OF A FAT32 VOLUME inside whole device images.
   src/fs.rs root_dir(): on FAT32 the root is  DirRawStream::File(File::new(Some(root_cluster), None, fs))  - a File over the
   cluster chain that starts at BPB_RootClus (bytes 44..47 of the boot sector), WITHOUT a directory entry of its own (the
   [None]: no editor, nothing is written back when the Dir is dropped: no modification stamp, no size) and, unlike every
   sub-directory, without "." / ".." entries.  Everything else is the chain-backed directory of Model/VolChainDir.v: the same
   slot-layer functions with kind [Chained (cluster_slots g)], slots written back cluster by cluster; create_sfn_entry gets
   [fat32 = true] ([is_fat32 im]) so that the first cluster of an entry is stored in BOTH 16-bit words (bytes 26-27 low,
   20-21 high: src/dir_entry.rs set_first_cluster) and read back from both (first_cluster).

   [root32_chain im] is the chain the independent decoder follows (Abs.root_slots); the library follows the same FAT links
   (ClusterIterator over the active FAT: Model/Table.v, C03 codec theorems).  A broken root chain (None) is outside the model:
   FileSystem::new does not check it, the library fails or stops at the first bad link while reading.
   As in Model/VolChainDir.v the functions answer None when the slot layer would have to GROW the directory (growth:
   [vol32_root_create_grow], re-using Model/VolChainGrow.v).  No proofs here. *)
From Coq Require Import NArith List Bool.
From FatVerif Require Import Model.Base Model.Str Model.Slot Model.Time Model.Name Model.ShortName Model.DirSlots
  Spec.Image Spec.Abs Model.VolChainDir Model.FileM Model.VolSession Model.Table Model.VolFile Model.VolChainGrow.
From FatVerif Require Model.Lfn.
Import ListNotations.
Open Scope N_scope.

(* the root chain as the decoder reads it from the (active) FAT *)
Definition root32_chain (im : image) : option (list N) :=
  let g := parse_geom im in Abs.chain_from g im (g_root_cluster g) (Abs.chain_fuel g).

(* The WRITE-BACK of the directory entry of a file that lives in the root (src/dir_entry.rs DirEntryEditor::flush, called by
   File::flush / File::drop when the editor is dirty): the 32 bytes of the DirFileEntryData the library holds are serialised at
   the entry's position - slot [k] of the root chain.  The record is Model/VolSession.sess_entry: the slot as it was read when
   the file was opened, with set_first_cluster(editor's first cluster, fat_type) and set_size(editor's size) applied.  On FAT32
   set_first_cluster writes BOTH 16-bit words: low word at bytes 26-27, high word at bytes 20-21 - also when the new value is
   None or below 0x10000 (the high word is then written as 0).  None: slot [k] is a long-name slot / the root chain is broken
   (not a state the library reaches with a file handle). *)
Definition flushed_entry (g : geom) (se : sfn_entry) (first : option N) (size : N) : sfn_entry :=
  sfn_set_size (sfn_set_first (is32 g) se first) size.

Definition vol32_root_flush_entry (im : image) (k : N) (h : fhandle) : option image :=
  match root32_chain im with
  | Some l =>
    let g := parse_geom im in
    let ss := chain_dir_slots g im l in
    match slot_decode (nth (N.to_nat k) ss []) with
    | SFile e =>
      Some (put_chain_slots g im l
              (set_nth (N.to_nat k) (sfn_encode (sess_entry g h {| en_slot := k; en_data := e; en_tdirty := false |})) ss))
    | SLfn _ => None
    end
  | None => None
  end.

Section Vol.
  Variable upper : N -> list N.     (* char_to_uppercase *)
  Variable oem : N -> N.            (* OemCpConverter::decode *)

  (* fs.root_dir().create_file(name), one component *)
  Definition vol32_root_create (im : image) (name : str) (now : datetime) : option (res (option (N * N)) * image) :=
    match root32_chain im with
    | Some l => vol_create_empty_file_chain upper oem im l name now
    | None => None
    end.

  (* fs.root_dir().remove(name) of a file without clusters (both first-cluster words zero) *)
  Definition vol32_root_remove (im : image) (name : str) : option (res unit * image) :=
    match root32_chain im with
    | Some l => vol_remove_empty_file_chain upper oem im l name
    | None => None
    end.

  (* fs.root_dir().rename(src, &fs.root_dir(), dst) of a file *)
  Definition vol32_root_rename (im : image) (src dst : str) : option (res unit * image) :=
    match root32_chain im with
    | Some l => vol_rename_in_chain upper oem im l src dst
    | None => None
    end.

  (* fs.root_dir().create_file(name) INCLUDING the growth of the root: Model/VolChainGrow.vol_create_file_grow (written for any
     FAT width: allocation through the byte-level FAT store of the image with all mirrored copies, zero fill of the new cluster,
     the slots written one by one) on the root chain; [fi] is the FileSystem's FS-info latch.  The result carries the image, the
     latch and the root chain afterwards.  (Theorems: Proofs/VolChainGrowProofs.v is proved for FAT12/16 geometries only; for
     the FAT32 root this function is validated by examples and by the correspondence stream - DESIGN.md section 9.) *)
  Definition vol32_root_create_grow (im : image) (fi : fsinfo) (name : str) (now : datetime)
    : option (res (option (N * N)) * gstate) :=
    match root32_chain im with
    | Some l => Some (vol_create_file_grow upper oem im fi l name now)
    | None => None
    end.

  (* the creates of [reqs] (name, clock value) one after the other; None as soon as one does not create a new entry inside the
     slots the root chain has (as Proofs/VolDirProofs.vol_create_many for the fixed root) *)
  Fixpoint vol32_root_create_many (im : image) (reqs : list (str * datetime)) : option image :=
    match reqs with
    | [] => Some im
    | q :: r =>
      match vol32_root_create im (fst q) (snd q) with
      | Some (Ok (Some _), im') => vol32_root_create_many im' r
      | _ => None
      end
    end.
End Vol.
