(* VolFsInfo.v: the FS-INFORMATION SECTOR and the FAT32 STATUS BYTE (boot sector offset 0x41) inside the image model, between
   mount and unmount of a FAT32 volume - src/fs.rs read line by line:

   - FileSystem::new [vol32_mount]: BootSector::deserialize + validate (Model/Bpb.v), then for FAT32
       disk.seek(bpb.bytes_from_sectors(bpb.fs_info_sector())); FsInfoSector::deserialize   (Bpb.fsinfo_deserialize: the three
       signatures are checked; free count 0xFFFFFFFF -> None; next free 0xFFFFFFFF, 0, 1 -> None)
       if bpb.status_flags().dirty { fs_info.free_cluster_count = None }     <- a DIRTY mount byte DISCARDS the stored count
       fs_info.validate_and_fix(total_clusters)            (count > total -> None; next free > total + 2 -> None)
       current_status_flags = bpb.status_flags() = decode(reserved_1)        (reserved_1 = byte 0x41 in the FAT32 layout)
     The in-memory FsInfoSector is Model/Table.v [fsinfo] (free, next, dirty := false); the status latch is Model/Flags.v [fstat].
   - FileSystem::alloc_cluster(prev, zero = false) [vol32_alloc] = Table.fs_alloc on the FAT slice of the image
     (VolFile.store_of): the latch is updated exactly there (set_next_free_cluster, map_free_clusters(n.checked_sub(1)) - a stored
     count of 0 is FORGOTTEN, not decremented -, dirty = true);
     the FAT entries are written through FsIoAdapter::write, which passes set_dirty_flag(true) after the first device write:
     a successful allocation marks the volume dirty, a refused one (NotEnoughSpace: nothing written) does not.
   - FileSystem::free_cluster_chain(first) [vol32_free_chain] = VolRemove.vol_free_chain (Table.fs_free_chain:
     map_free_clusters(n.checked_add(freed))); at least the first entry is rewritten: marked.
   - the calls on a file handle [CFile]: VolStatus.vols_step = VolFile.vol_step (Table's latch handling inside FileM) plus the mark.
   - FileSystem::stats [vol32_stats] = Table.fs_stats: the latched count if there is one; otherwise count_free_clusters over the
     FAT slice (reads only), and the result is LATCHED with set_free_cluster_count: fs_info.dirty = true.  No device write, no
     status mark.  Returns FileSystemStats { cluster_size, total_clusters, free_clusters }.
   - FileSystem::flush_fs_info [vol32_flush_fs_info]: if fat_type == Fat32 && fs_info.dirty { disk.seek(offset_from_sector(
     fs_info_sector)); fs_info.serialize(disk); fs_info.dirty = false }.  FsInfoSector::serialize writes ALL 512 bytes:
     lead signature, 480 ZERO bytes, structure signature, free count or 0xFFFFFFFF, next free or 0xFFFFFFFF, 12 ZERO bytes, trail
     signature (FormatImage.fsinfo_bytes) - the reserved bytes of the sector are not preserved but zeroed; bytes of the logical
     sector behind the first 512 are left.  The write goes to fs.disk directly, not through FsIoAdapter: NO status mark.
   - FileSystem::unmount / Drop [vol32_unmount]: unmount_internal = flush_fs_info()? ; set_dirty_flag(false)? - in this order.
     [vol32_unmount_writes] is the list of device writes it issues (offset, bytes), [apply_writes] their effect on the image.
   State of a mounted volume between calls = the image, the FS-info latch, the status latch (and the handle of the one open file
   of [v32_step]).  Executable; extracted (model runner mode cfsinfo).  No proofs here. *)
From Coq Require Import NArith List Bool.
From FatVerif Require Import Model.Base Model.Table Model.Fat Model.FileM Model.Flags Model.FormatImage Model.VolFile
  Model.VolRemove Model.VolStatus Spec.Image Spec.Abs.
From FatVerif Require Model.Bpb.
Import ListNotations.
Open Scope N_scope.

Definition UNKNOWN32 : N := 4294967295.   (* 0xFFFFFFFF *)

(* ---------------------------------------------------------------- the sector *)
(* offset_from_sector(fs_info_sector) = bytes_from_sectors(fs_info_sector): u64 product of a u16 and a u16 *)
Definition fsi_off (g : geom) : N := g_fsinfo_sector g * g_bps g.
Definition fsi_free_word (g : geom) (im : image) : N := img_u32 im (fsi_off g + 488).
Definition fsi_next_word (g : geom) (im : image) : N := img_u32 im (fsi_off g + 492).

Definition word_of (o : option N) : N := match o with Some n => n | None => UNKNOWN32 end.

(* FsInfoSector::serialize *)
Definition fsinfo_sector_bytes (fi : fsinfo) : list N := fsinfo_bytes (word_of (fi_free fi)) (word_of (fi_next fi)).

(* the executable form of Proofs/VolFsInfoProofs.v [Vol32]: VolFile.vgeom_okb, the FAT32 width, an FS-info sector inside the
   reserved sectors that is not the boot sector itself *)
Definition vol32b (g : geom) : bool :=
  vgeom_okb g && (g_bits g =? 32) && (1 <=? g_fsinfo_sector g) && (g_fsinfo_sector g <? g_reserved g) && (512 <=? g_bps g).

(* ---------------------------------------------------------------- FileSystem::new *)
Definition vol32_mount (strict : bool) (im : image) : res (fsinfo * fstat) :=
  let bs := img_read im 0 512 in
  do m <- Bpb.mount Bpb.Debug bs (img_read im (Bpb.fsinfo_offset bs) 512) strict;
  Ok ({| fi_free := Bpb.m_free m; fi_next := Bpb.m_next m; fi_dirty := false |},
      st_mount (Bpb.reserved_1 (Bpb.bpb_deserialize bs))).

(* ---------------------------------------------------------------- stats *)
Definition vol32_stats (g : geom) (im : image) (fi : fsinfo) : res (fsinfo * (N * N * N)) :=
  do (fi', n) <- fs_stats fstore (fat_get (ft_of g)) (store_of g im) fi (g_clusters g);
  Ok (fi', (g_cluster_size g, g_clusters g, n)).

(* ---------------------------------------------------------------- alloc_cluster(prev, false) / free_cluster_chain(first) *)
Definition vol32_alloc (g : geom) (im : image) (fi : fsinfo) (s : fstat) (prev : option N)
  : res N * image * fsinfo * fstat :=
  match fs_alloc fstore (fat_get (ft_of g)) (fat_set (ft_of g)) (store_of g im) fi prev (g_clusters g) with
  | Ok (t', fi', c) => let '(im2, s2) := marked g true (fs_img t') s in (Ok c, im2, fi', s2)
  | Err e => (Err e, im, fi, s)
  | Panic => (Panic, im, fi, s)
  | OutOfFuel => (OutOfFuel, im, fi, s)
  end.

(* a failing chain walk (the code returns the error with the table partly rewritten) keeps the state here: excluded by the
   theorems' premise that the decoder walks the chain (as in Model/VolRemove.v) *)
Definition vol32_free_chain (g : geom) (im : image) (fi : fsinfo) (s : fstat) (first : N)
  : res unit * image * fsinfo * fstat :=
  match vol_free_chain g im fi first with
  | Ok (im1, fi1) => let '(im2, s2) := marked g (negb (first =? 0)) im1 s in (Ok tt, im2, fi1, s2)
  | Err e => (Err e, im, fi, s)
  | Panic => (Panic, im, fi, s)
  | OutOfFuel => (OutOfFuel, im, fi, s)
  end.

(* ---------------------------------------------------------------- flush_fs_info / unmount *)
Definition fi_clean (fi : fsinfo) : fsinfo := {| fi_free := fi_free fi; fi_next := fi_next fi; fi_dirty := false |}.

Definition flushes (g : geom) (fi : fsinfo) : bool := (g_bits g =? 32) && fi_dirty fi.

Definition vol32_flush_fs_info (g : geom) (im : image) (fi : fsinfo) : image * fsinfo :=
  if flushes g fi then (img_write im (fsi_off g) (fsinfo_sector_bytes fi), fi_clean fi) else (im, fi).

Definition vol32_unmount (g : geom) (im : image) (fi : fsinfo) (s : fstat) : image * fsinfo * fstat :=
  let '(im1, fi1) := vol32_flush_fs_info g im fi in
  let '(im2, s2) := vol_set_dirty_flag g im1 s false in (im2, fi1, s2).

(* the device writes of unmount_internal, in order *)
Definition vol32_unmount_writes (g : geom) (fi : fsinfo) (s : fstat) : list (N * list N) :=
  (if flushes g fi then [(fsi_off g, fsinfo_sector_bytes fi)] else []) ++
  (if flags_change s false then [(g_status_off g, [status_value (mount_byte s) false])] else []).

Definition apply_writes (im : image) (ws : list (N * list N)) : image :=
  fold_left (fun i w => img_write i (fst w) (snd w)) ws im.

(* ---------------------------------------------------------------- a mounted session with one open file *)
Inductive v32call :=
| CStats                        (* fs.stats() *)
| CAlloc (prev : option N)      (* fs.alloc_cluster(prev, false) *)
| CFree (first : N)             (* fs.free_cluster_chain(first) *)
| CFile (o : fop).              (* read / write / seek / truncate on the handle *)

Inductive v32res :=
| RStats (r : res (N * N * N)) | RAlloc (r : res N) | RFree (r : res unit) | RFile (r : fresult).

Record v32state := { v_im : image; v_fi : fsinfo; v_h : fhandle; v_s : fstat }.

Definition v32_step (g : geom) (st : v32state) (c : v32call) : v32state * v32res :=
  match c with
  | CStats =>
    match vol32_stats g (v_im st) (v_fi st) with
    | Ok (fi', r) => ({| v_im := v_im st; v_fi := fi'; v_h := v_h st; v_s := v_s st |}, RStats (Ok r))
    | Err e => (st, RStats (Err e))
    | Panic => (st, RStats Panic)
    | OutOfFuel => (st, RStats OutOfFuel)
    end
  | CAlloc prev =>
    let '(r, im', fi', s') := vol32_alloc g (v_im st) (v_fi st) (v_s st) prev in
    ({| v_im := im'; v_fi := fi'; v_h := v_h st; v_s := s' |}, RAlloc r)
  | CFree first =>
    let '(r, im', fi', s') := vol32_free_chain g (v_im st) (v_fi st) (v_s st) first in
    ({| v_im := im'; v_fi := fi'; v_h := v_h st; v_s := s' |}, RFree r)
  | CFile o =>
    let '((im', fi', h'), s', r) := vols_step g (v_im st, v_fi st, v_h st) (v_s st) o in
    ({| v_im := im'; v_fi := fi'; v_h := h'; v_s := s' |}, RFile r)
  end.

Fixpoint v32_run (g : geom) (st : v32state) (cs : list v32call) : v32state * list v32res :=
  match cs with
  | [] => (st, [])
  | c :: rest => let '(st1, r) := v32_step g st c in
                 let '(st2, rs) := v32_run g st1 rest in (st2, r :: rs)
  end.

(* mount ; calls on a fresh handle ; unmount.  The geometry is the decoder's reading of the image at mount. *)
Definition fresh_handle : fhandle :=
  file_new None (Some {| ed_first := None; ed_size := Some 0; ed_dirty := false |}).

Definition vol32_session (strict : bool) (im : image) (cs : list v32call) : res (image * list v32res) :=
  let g := parse_geom im in
  do (fi, s) <- vol32_mount strict im;
  let '(st, rs) := v32_run g {| v_im := im; v_fi := fi; v_h := fresh_handle; v_s := s |} cs in
  let '(im', _, _) := vol32_unmount g (v_im st) (v_fi st) (v_s st) in
  Ok (im', rs).

(* the calls of a read-only session: statistics, reads, seeks *)
Definition read_only_call (c : v32call) : bool :=
  match c with
  | CStats => true
  | CFile (FRead _) | CFile (FSeek _) => true
  | _ => false
  end.

(* ---------------------------------------------------------------- the classes of C13 *)
(* [b] the status byte at mount, [w] the stored free-count word, [total] the number of data clusters.
   the property's exception: the sector lacks a (usable) count *)
Definition lacks_count (w total : N) : bool := (w =? UNKNOWN32) || (total <? w).
(* the known finding D16 (dirty-mount-stats-writes-fsinfo): the sector HAS a usable count but the volume is mounted dirty *)
Definition d16_class (b w total : N) : bool := N.odd b && negb (lacks_count w total).
