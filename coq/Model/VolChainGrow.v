(* VolChainGrow.v: create_file in a CHAIN-BACKED directory on a whole device image INCLUDING the growth of the directory
   (Model/VolChainDir.v is the same directory without growth: it answers None as soon as a write would cross the end of the chain).

   src/dir.rs  Dir::create_file(name), one path component, on a Dir whose stream is DirRawStream::File(File):
     check_for_existence(name, Some(false))          reads the directory only                       [DirSlots.check_for_existence]
     create_sfn_entry(alias, attrs 0, None)          the stamps of the time provider's [now]         [DirSlots.create_sfn_entry]
     write_entry:  validate_long_name ; find_free_entries(num) - for a File stream never NotEnoughSpace: the answer may be the
                   position at the END of the stream (or in the free tail of the last cluster) - ; then every slot of the run
                   (long-name slots, then the short slot) is serialised through the stream, one after the other.
   src/file.rs  File::write (the stream below): a write whose position is a multiple of the cluster size asks the cluster iterator for
     the next cluster; at the end of the chain
         let new_cluster = self.fs.alloc_cluster(self.current_cluster, self.is_dir())?;          is_dir() = true for a directory
   src/fs.rs  FileSystem::alloc_cluster(prev, zero = true), in this order:
         hint = fs_info.next_free_cluster ; table::alloc_cluster(fat, prev, hint, total)   find a free entry (from the hint, wrapping),
                                                                                           write EndOfChain into it, link prev -> new
         if zero { seek(offset_from_cluster(cluster)) ; write_zeros(cluster_size) }        the WHOLE new cluster is zeroed
         fs_info.set_next_free_cluster(cluster + 1 or 2) ; map_free_clusters(|n| n - 1)    the FS-info latch
     A failing search (NotEnoughSpace) has written nothing; the error travels up through serialize / write_entry / create_file with
     `?`: the long-name slots serialised BEFORE stay on the device (known class "nospace-during-entry-write").
   At the moment a write crosses the end, File.current_cluster is the LAST cluster of the chain: find_free_entries has read the
   stream to its end (or seeked back into the last cluster), and the slots are written in ascending order.

   [vol_alloc_dir_cluster] is fs.alloc_cluster(Some(prev), true) on the image: Model/Table.fs_alloc (table::alloc_cluster + the latch,
   the function C05_alloc_accounting is about) instantiated at the byte-level store of the image exactly as Model/VolFile.v does
   ([store_of]: the FAT DiskSlice with all mirrored copies), then the zero fill at [g_cluster_off].  (fs_alloc bundles the latch update
   with the table update; the zero fill lies between them in the code.  The three touch disjoint state, and the only failure of the
   latch update - the debug-build underflow panic of `n - 1` - is a Panic here too, with the state before the call: the state after
   a panic is not modelled anywhere in this development.)
   [vol_write_run]: the slots of the run written one by one at their DEVICE offsets (32 bytes each at
   g_cluster_off(cluster number i / k of the chain) + 32 * (i mod k), k = slots per cluster - DirEntryData::serialize writes the 32
   bytes of one slot; cluster sizes are multiples of 32, so a slot never straddles two clusters); a slot index at the end of the
   chain first allocates.  State between slots = (image, FS-info latch, chain).  An error leaves the state as it is at that moment.
   NOT part of these functions: as in Model/VolChainDir.v the write-back of the directory's OWN entry in its parent (File::drop of
   the directory stream: modification stamp), the dirty flag and the device flush.  No proofs here (Proofs/VolChainGrowProofs.v). *)
From Coq Require Import NArith List Bool.
From FatVerif Require Import Model.Base Model.Str Model.Slot Model.Time Model.Name Model.ShortName Model.Table Model.Fat
  Model.DirSlots Model.VolFile Model.VolChainDir Spec.Image Spec.Abs.
From FatVerif Require Model.Lfn.
Import ListNotations.
Open Scope N_scope.

(* image, FS-info latch (FsInfoSector in memory), the directory's chain *)
Definition gstate : Type := (image * fsinfo * list N)%type.

(* FileSystem::alloc_cluster(Some(prev), zero = true) *)
Definition vol_alloc_dir_cluster (g : geom) (im : image) (fi : fsinfo) (prev : N) : res (image * fsinfo * N) :=
  do (s', fi', c) <- fs_alloc fstore (fat_get (ft_of g)) (fat_set (ft_of g)) (store_of g im) fi (Some prev) (g_clusters g);
  Ok (img_write (fs_img s') (g_cluster_off g c) (repeat_N 0 (N.to_nat (g_cluster_size g))), fi', c).

(* device offset of slot number [i] of the directory with chain [l] *)
Definition slot_off (g : geom) (l : list N) (i : nat) : N :=
  g_cluster_off g (nth (Nat.div i (cluster_slots g)) l 0) + 32 * N.of_nat (Nat.modulo i (cluster_slots g)).

(* the slots of [run] serialised from stream position [i] (in slots) on *)
Fixpoint vol_write_run (g : geom) (im : image) (fi : fsinfo) (l : list N) (i : nat) (run : slots) : res unit * gstate :=
  match run with
  | [] => (Ok tt, (im, fi, l))
  | s :: r =>
    if Nat.ltb i (cluster_slots g * length l) then vol_write_run g (img_write im (slot_off g l i) s) fi l (S i) r
    else
      (* the write position is the end of the chain: File::write allocates, linked behind the last cluster *)
      match vol_alloc_dir_cluster g im fi (last l 0) with
      | Ok (im1, fi1, c) => vol_write_run g (img_write im1 (slot_off g (l ++ [c]) i) s) fi1 (l ++ [c]) (S i) r
      | Err e => (Err e, (im, fi, l))
      | Panic => (Panic, (im, fi, l))
      | OutOfFuel => (OutOfFuel, (im, fi, l))
      end
  end.

(* `?` on a computation that touches nothing *)
Definition glift {A B} (r : res A) (st : gstate) (f : A -> res B * gstate) : res B * gstate :=
  match r with
  | Ok a => f a
  | Err e => (Err e, st)
  | Panic => (Panic, st)
  | OutOfFuel => (OutOfFuel, st)
  end.

(* Dir::write_entry on the directory with chain [l] (compare Model/DirSlots.write_entry: the same, with the stream below replaced
   by the device) *)
Definition vol_write_entry_grow (g : geom) (im : image) (fi : fsinfo) (l : list N) (name : str) (e : sfn_entry)
  : res (N * N) * gstate :=
  glift (validate_long_name name) (im, fi, l) (fun _ =>
    let run := entry_run name e in
    glift (find_free_entries (Chained (cluster_slots g)) (chain_dir_slots g im l) (len_N run)) (im, fi, l) (fun p =>
      let '(r, st) := vol_write_run g im fi l (N.to_nat p) run in
      ((do _ <- r; Ok (p, p + len_N run)), st))).

Section Grow.
  Variable upper : N -> list N.     (* char_to_uppercase *)
  Variable oem : N -> N.            (* OemCpConverter::decode *)

  (* dir.create_file(name), one component, the directory's chain being [l]; the latch [fi] is the FileSystem's FsInfoSector.
     Ok (Some (p, q)): a new entry in slots p .. q-1; Ok None: the file existed (nothing written).  The resulting state carries
     the chain afterwards (longer when the directory grew). *)
  Definition vol_create_file_grow (im : image) (fi : fsinfo) (l : list N) (name : str) (now : datetime)
    : res (option (N * N)) * gstate :=
    let g := parse_geom im in
    glift (check_for_existence upper oem (chain_dir_slots g im l) name (Some false)) (im, fi, l) (fun r =>
      match r with
      | Exists _ => (Ok None, (im, fi, l))
      | Fresh a =>
        glift (stamp_create now) (im, fi, l) (fun st =>
          let '(w, s') := vol_write_entry_grow g im fi l name (create_sfn_entry (is_fat32 im) a 0 None st) in
          ((do range <- w; Ok (Some range)), s'))
      end).
End Grow.
