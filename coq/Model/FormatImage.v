(* FormatImage.v: executable model of the WRITES of src/fs.rs format_volume, i.e. everything after the sizing code of
   Model/Format.v: the device image after a successful (or failed) call, as a function of the request and of the
   device's initial content.
     src/fs.rs     format_volume (from `boot.serialize(storage)` to the end), write_zeros,
                   write_zeros_until_end_of_sector, fat_slice / DiskSlice::from_sectors, FsInfoSector::serialize
     src/table.rs  format_fat, write_fat, alloc_cluster (Model/Table.v) over the byte stores of Model/Fat.v
     src/dir_entry.rs  DirFileEntryData::new / serialize (Model/Slot.v sfn_encode)
   The device is an unbounded sparse image (Spec/Image.v): device-size errors are not modelled (the checks format
   devices at least as large as the requested volume).  Arithmetic is the arithmetic of a debug build: u32 overflow,
   division by zero and failed assert! are [Panic].  u64 products of a u32 and a u16 (bytes_from_sectors) cannot
   overflow and are written as plain products.  No proofs here. *)
From Coq Require Import NArith List Bool.
From FatVerif Require Import Model.Base Model.Slot Model.Table Spec.Image Model.Fat Model.Format.
Import ListNotations.
Open Scope N_scope.

(* ---------------------------------------------------------------- zero fill *)
Definition zeros (n : N) : list N := repeat_N 0 (N.to_nat n).

(* write_zeros(disk, len) at stream position [pos]: 512-byte chunks, same final content as one write *)
Definition write_zeros (im : image) (pos len : N) : image := img_write im pos (zeros len).

(* write_zeros_until_end_of_sector at stream position [pos] *)
Definition zeros_to_sector_end (im : image) (pos bps : N) : res image :=
  do r <- chk_mod pos bps;                        (* pos % u64::from(bytes_per_sector) *)
  let n := bps - r in
  Ok (if n =? bps then im else write_zeros im pos n).

(* boot.serialize(storage) at [pos] followed by write_zeros_until_end_of_sector *)
Definition write_boot_sector (im : image) (pos bps : N) (boot : fboot) : res image :=
  let bytes := fmt_serialize_boot boot in
  zeros_to_sector_end (img_write im pos bytes) (pos + len_N bytes) bps.

(* ---------------------------------------------------------------- fat_slice (fs.rs) *)
Definition to_fat_type (t : Format.fat_type) : Fat.fat_type :=
  match t with Format.Fat12 => Fat.Fat12 | Format.Fat16 => Fat.Fat16 | Format.Fat32 => Fat.Fat32 end.

(* mirroring_enabled: extended_flags & 0x80 == 0; active_fat: extended_flags & 0x0F *)
Definition fmt_fat_slice (b : fbpb) (im : image) : res fstore :=
  let spf := fb_sectors_per_fat b in
  let bps := fb_bytes_per_sector b in
  if N.land (fb_extended_flags b) 128 =? 0 then
    Ok {| fs_img := im; fs_base := fb_reserved_sectors b * bps; fs_size := spf * bps;
          fs_mirrors := N.to_nat (fb_fats b) |}
  else
    do a <- u32_mul ((fb_extended_flags b) mod 16) spf;
    do first <- u32_add (fb_reserved_sectors b) a;
    Ok {| fs_img := im; fs_base := first * bps; fs_size := spf * bps; fs_mirrors := 1 |}.

(* ---------------------------------------------------------------- format_fat (table.rs) *)
(* `for cluster in c .. c + n { write_fat(fat, fat_type, cluster, v)? }` *)
Fixpoint fill_entries (ft : Fat.fat_type) (s : fstore) (c : N) (n : nat) (v : fatv) : res fstore :=
  match n with
  | O => Ok s
  | S k => do s1 <- fat_set ft s c v; fill_entries ft s1 (c + 1) k v
  end.

(* the two reserved entries are written as raw little-endian integers through the slice, which starts at offset 0 *)
Definition write_reserved_entries (t : Format.fat_type) (s : fstore) (media : N) : res fstore :=
  match t with
  | Format.Fat12 =>
      do s1 <- slice_write s 0 [media];                               (* write_u8(media) *)
      slice_write s1 1 (u16_bytes 65535)                              (* write_u16_le(0xFFFF) *)
  | Format.Fat16 =>
      do s1 <- slice_write s 0 (u16_bytes (N.lor media 65280));       (* u16::from(media) | 0xFF00 *)
      slice_write s1 2 (u16_bytes 65535)
  | Format.Fat32 =>
      do s1 <- slice_write s 0 (u32_bytes (N.lor media 268435200));   (* u32::from(media) | 0xFFF_FF00 *)
      slice_write s1 4 (u32_bytes 4294967295)
  end.

Definition BAD_RANGE_START : N := 268435440.   (* 0x0FFF_FFF0 *)
Definition BAD_RANGE_END : N := 268435456.     (* 0x0FFF_FFFF + 1 *)

Definition format_fat (s : fstore) (t : Format.fat_type) (media bytes_per_fat total_clusters : N) : res fstore :=
  do s1 <- write_reserved_entries t s media;
  do start_cluster <- u32_add total_clusters RESERVED_FAT_ENTRIES;
  (* (bytes_per_fat * 8 / bits) as u32; the u64 product cannot overflow *)
  let end_cluster := as_u32 (bytes_per_fat * 8 / bits_per_fat_entry t) in
  do s2 <- fill_entries (to_fat_type t) s1 start_cluster (N.to_nat (end_cluster - start_cluster)) Eoc;
  if BAD_RANGE_START <? end_cluster then
    let end_bad := N.min BAD_RANGE_END end_cluster in
    fill_entries (to_fat_type t) s2 BAD_RANGE_START (N.to_nat (end_bad - BAD_RANGE_START)) Bad
  else Ok s2.

(* ---------------------------------------------------------------- FsInfoSector::serialize *)
Definition fsinfo_bytes (free next : N) : list N :=
  u32_bytes 1096897106 (* LEAD_SIG 0x41615252 *) ++ repeat_N 0 480 ++
  u32_bytes 1631679090 (* STRUC_SIG 0x61417272 *) ++ u32_bytes free ++ u32_bytes next ++ repeat_N 0 12 ++
  u32_bytes 2857697280 (* TRAIL_SIG 0xAA550000 *).

(* DirFileEntryData::new(volume_label, FileAttributes::VOLUME_ID): every other field is Default (zero) *)
Definition label_entry (label : list N) : sfn_entry :=
  {| se_name := label; se_attrs := ATTR_VOLUME_ID; se_reserved_0 := 0; se_create_time_0 := 0; se_create_time_1 := 0;
     se_create_date := 0; se_access_date := 0; se_first_cluster_hi := 0; se_modify_time := 0; se_modify_date := 0;
     se_first_cluster_lo := 0; se_size := 0 |}.

(* ---------------------------------------------------------------- the FAT32 part of "init root directory" *)
Definition format_fat32_root (b : fbpb) (im : image)
    (reserved_sectors sectors_per_all_fats root_dir_sectors : N) : res image :=
  let bps := fb_bytes_per_sector b in
  do s <- fmt_fat_slice b im;
  (* this branch runs when fat_type == FatType::Fat32 *)
  do sc <- alloc_cluster fstore (fat_get Fat.Fat32) (fat_set Fat.Fat32) s None None 1;
  let '(s1, root_dir_first_cluster) := sc in
  if negb (root_dir_first_cluster =? fb_root_dir_first_cluster b) then Panic (* assert! *) else
  do a <- u32_add reserved_sectors sectors_per_all_fats;
  do first_data_sector <- u32_add a root_dir_sectors;
  do k <- u32_sub root_dir_first_cluster RESERVED_FAT_ENTRIES;
  do data_sectors_before_root_dir <- u32_mul k (fb_sectors_per_cluster b);
  do fat32_root_dir_first_sector <- u32_add first_data_sector data_sectors_before_root_dir;
  do cluster_size <- u32_mul (fb_sectors_per_cluster b) bps;
  let im1 := write_zeros (fs_img s1) (fat32_root_dir_first_sector * bps) cluster_size in
  (* unusable_clusters = (bpb.total_clusters() + RESERVED_FAT_ENTRIES).saturating_sub(0x0FFF_FFF0): the addition is a
     checked u32 addition, the subtraction saturates at 0 (N subtraction) *)
  do total_clusters_a <- fb_total_clusters b;
  do end_cluster <- u32_add total_clusters_a RESERVED_FAT_ENTRIES;
  let unusable_clusters := end_cluster - BAD_RANGE_START in
  (* free_cluster_count = bpb.total_clusters() - 1 - unusable_clusters: two checked u32 subtractions *)
  do total_clusters <- fb_total_clusters b;
  do all_but_root <- u32_sub total_clusters 1;
  do free_cluster_count <- u32_sub all_but_root unusable_clusters;
  do next_free <- u32_add root_dir_first_cluster 1;
  let fsi_pos := fb_fs_info_sector b * bps in
  let fsi := fsinfo_bytes free_cluster_count next_free in
  zeros_to_sector_end (img_write im1 fsi_pos fsi) (fsi_pos + len_N fsi) bps.

(* ---------------------------------------------------------------- format_volume after validation *)
Definition format_image_with (o : fmt_options) (boot : fboot) (t : Format.fat_type) (im0 : image) : res image :=
  let b := fbs_bpb boot in
  let bps := fb_bytes_per_sector b in
  (* boot sector, whole logical sector *)
  do im1 <- write_boot_sector im0 0 bps boot;
  (* FAT32: backup boot sector *)
  do im2 <- (if fb_is_fat32 b then write_boot_sector im1 (fb_backup_boot_sector b * bps) bps boot else Ok im1);
  (* File Allocation Tables *)
  let reserved_sectors := fb_reserved_sectors b in
  let fat_pos := reserved_sectors * bps in
  do sectors_per_all_fats <- fb_sectors_per_all_fats b;
  let im3 := write_zeros im2 fat_pos (sectors_per_all_fats * bps) in
  do s <- fmt_fat_slice b im3;
  do total_clusters <- fb_total_clusters b;
  do s1 <- format_fat s t (fb_media b) (fb_sectors_per_fat b * bps) total_clusters;
  let im4 := fs_img s1 in
  (* root directory *)
  do root_dir_first_sector <- u32_add reserved_sectors sectors_per_all_fats;
  do root_dir_sectors <- fb_root_dir_sectors b;
  let root_dir_pos := root_dir_first_sector * bps in
  let im5 := write_zeros im4 root_dir_pos (root_dir_sectors * bps) in
  do im6 <- (if fat_type_eqb t Format.Fat32
             then format_fat32_root b im5 reserved_sectors sectors_per_all_fats root_dir_sectors
             else Ok im5);
  (* volume label entry *)
  Ok (match o_volume_label o with
      | Some l => img_write im6 root_dir_pos (sfn_encode (label_entry l))
      | None => im6
      end).

(* format_volume with `total_sectors` known (given by the caller or computed from the device size by
   Format.fmt_total_sectors): the image the device holds afterwards.  A request that is refused is refused before
   the first write. *)
Definition format_image (o : fmt_options) (ts : N) (im0 : image) : res image :=
  do bt <- format_boot_sector_validated o ts;
  format_image_with o (fst bt) (snd bt) im0.

(* ---------------------------------------------------------------- helpers for the model runner (ocaml/m_c06.ml) *)
Definition img_bindings (im : image) : list (positive * N) := FMapPositive.PositiveMap.elements (img_map im).
Definition img_fillrange (im : image) (off len b : N) : image := img_write im off (repeat_N b (N.to_nat len)).
