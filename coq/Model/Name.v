(* Name.v: long-name validation, the long-name slot writer (LfnEntriesGenerator), the reader-side
   assembly of a long name (LongNameBuilder, `alloc` variant: the buffer is a Vec<u16>), ShortName::new
   and the name comparison DirEntry::eq_name of src/dir.rs / src/dir_entry.rs.  No proofs here. *)
From FatVerif Require Import Model.Base Model.Str Model.Slot.
Open Scope N_scope.

Definition MAX_LONG_NAME_LEN : N := 255.
Definition MAX_LONG_DIR_ENTRIES : N := 20.   (* (255 + 13 - 1) / 13 *)
Definition LFN_PADDING : N := 65535.
Definition SFN_PADDING : N := 32.

(* ---------- validate_long_name ------------------------------------------------------------ *)

(* the match arm of validate_long_name: 'a'..='z' | 'A'..='Z' | '0'..='9' | '\u{80}'..='\u{FFFF}' | listed punctuation *)
Definition lfn_punct : list N :=
  [36; 37; 39; 45; 95; 64; 126; 96; 33; 40; 41; 123; 125; 46; 32; 43; 44; 59; 61; 91; 93; 94; 35; 38].
Definition lfn_char_ok (c : N) : bool :=
  ((97 <=? c) && (c <=? 122)) || ((65 <=? c) && (c <=? 90)) || ((48 <=? c) && (c <=? 57))
  || ((128 <=? c) && (c <=? 65535)) || existsb (N.eqb c) lfn_punct.

Fixpoint validate_chars (s : str) : res unit :=
  match s with
  | [] => Ok tt
  | c :: r => if lfn_char_ok c then validate_chars r else Err EUnsupportedFileNameCharacter
  end.

(* name.is_empty(), then name.len() (UTF-8 bytes) > 255, then the characters *)
Definition validate_long_name (s : str) : res unit :=
  if utf8_len s =? 0 then Err EInvalidFileNameLength
  else if MAX_LONG_NAME_LEN <? utf8_len s then Err EInvalidFileNameLength
  else validate_chars s.

(* ---------- LfnEntriesGenerator ----------------------------------------------------------- *)

(* slice::chunks(13); fuel = number of units *)
Fixpoint chunks_fuel (fuel : nat) (u : list N) : list (list N) :=
  match fuel with
  | O => []
  | S f => match u with [] => [] | _ => firstn 13 u :: chunks_fuel f (skipn 13 u) end
  end.
Definition chunks13 (u : list N) : list (list N) := chunks_fuel (length u) u.

(* lfn_part = [LFN_PADDING; 13]; copy the chunk; NUL terminator only when the chunk is short *)
Definition lfn_part (c : list N) : list N :=
  if len_N c <? LFN_PART_LEN
  then c ++ 0 :: repeat_N LFN_PADDING (12 - length c)
  else c.

(* Iterator::next of the generator: [parts] is what is left of the reversed chunk iterator,
   [num] the total number of entries, [index] the number already emitted *)
Fixpoint lfn_gen (parts : list (list N)) (num index ck : N) : list lfn_entry :=
  match parts with
  | [] => []
  | p :: r =>
    let lfn_index := num - index in
    let order0 := lfn_index mod 256 in                                (* as u8 *)
    let order := if index =? 0 then N.lor order0 LFN_LAST_FLAG else order0 in
    lfn_new order ck (lfn_part p) :: lfn_gen r num (index + 1) ck
  end.

Definition lfn_entries (u : list N) (ck : N) : list lfn_entry :=
  let num := (len_N u + LFN_PART_LEN - 1) / LFN_PART_LEN in
  lfn_gen (rev (chunks13 u)) num 0 ck.

(* ---------- LongNameBuilder (alloc variant) ----------------------------------------------- *)

Record lnb := { lb_buf : list N; lb_chksum : N; lb_index : N }.
Definition lnb_new : lnb := {| lb_buf := []; lb_chksum := 0; lb_index := 0 |}.
Definition lnb_clear (b : lnb) : lnb := {| lb_buf := []; lb_chksum := lb_chksum b; lb_index := 0 |}.

(* Vec::resize(len, 0) *)
Definition vec_resize (l : list N) (n : nat) : list N := firstn n l ++ repeat_N 0 (n - length l).

(* buf[pos..pos+13].copy_from_slice(part): slicing panics when the range is out of bounds *)
Definition vec_write13 (l : list N) (pos : nat) (part : list N) : res (list N) :=
  if Nat.leb (pos + 13)%nat (length l) then Ok (firstn pos l ++ firstn 13 part ++ skipn (pos + 13)%nat l) else Panic.

Definition lnb_process (b : lnb) (e : lfn_entry) : res lnb :=
  let order := le_order e in
  let is_last := negb ((order / 64) mod 2 =? 0) in        (* order & 0x40 != 0 *)
  let index := order mod 32 in                              (* order & 0x1F *)
  if (index =? 0) || (MAX_LONG_DIR_ENTRIES <? index) then Ok (lnb_clear b)
  else
    let write (b' : lnb) : res lnb :=
      do buf <- vec_write13 (lb_buf b') (N.to_nat (LFN_PART_LEN * (index - 1))) (le_name e);
      Ok {| lb_buf := buf; lb_chksum := lb_chksum b'; lb_index := lb_index b' |} in
    if is_last then
      write {| lb_buf := vec_resize (lb_buf b) (N.to_nat (index * LFN_PART_LEN));
               lb_chksum := le_checksum e; lb_index := index |}
    else if (lb_index b =? 0) || negb (index =? lb_index b - 1) || negb (le_checksum e =? lb_chksum b)
    then Ok (lnb_clear b)
    else write {| lb_buf := lb_buf b; lb_chksum := lb_chksum b; lb_index := lb_index b - 1 |}.

Definition lnb_validate_chksum (b : lnb) (short_name : list N) : lnb :=
  if lb_index b =? 0 then b
  else if lfn_checksum short_name =? lb_chksum b then b else lnb_clear b.

(* position of the first NUL unit, or the length *)
Fixpoint nul_position (l : list N) : nat :=
  match l with [] => O | x :: r => if x =? 0 then O else S (nul_position r) end.

Definition lnb_truncate (b : lnb) : lnb :=
  let new_len := nul_position (lb_buf b) in
  if MAX_LONG_NAME_LEN <? N.of_nat new_len then lnb_clear b
  else {| lb_buf := vec_resize (lb_buf b) new_len; lb_chksum := lb_chksum b; lb_index := lb_index b |}.

Definition lnb_into_buf (b : lnb) : list N :=
  if lb_index b =? 1 then lb_buf (lnb_truncate b)
  else if negb (lb_index b =? 0) then lb_buf (lnb_clear b)
  else lb_buf b.

Fixpoint lnb_process_all (b : lnb) (es : list lfn_entry) : res lnb :=
  match es with
  | [] => Ok b
  | e :: r => do b' <- lnb_process b e; lnb_process_all b' r
  end.

(* DirIter::read_dir_entry on a run of long-name slots followed by the short entry [short_name] *)
Definition lfn_assemble (es : list lfn_entry) (short_name : list N) : res (list N) :=
  do b <- lnb_process_all lnb_new es;
  Ok (lnb_into_buf (lnb_validate_chksum b short_name)).

(* ---------- ShortName::new ---------------------------------------------------------------- *)

(* rposition(|x| *x != ' ').map_or(0, |p| p + 1) *)
Fixpoint rtrim_len (l : list N) : nat :=
  match l with
  | [] => O
  | x :: r => match rtrim_len r with
              | O => if x =? SFN_PADDING then O else 1%nat
              | S k => S (S k)
              end
  end.

Definition short_name_string (raw : list N) : list N :=
  let name_len := rtrim_len (firstn 8 raw) in
  let ext_len := rtrim_len (firstn 3 (skipn 8 raw)) in
  let s := firstn name_len raw ++
           (match ext_len with O => [] | _ => 46 :: firstn ext_len (skipn 8 raw) end) in
  match s with
  | 5 :: r => 229 :: r           (* DIR_ENTRY_REALLY_E5_FLAG *)
  | _ => s
  end.

(* ---------- DirEntry::eq_name ------------------------------------------------------------- *)

(* LossyOemCpConverter::decode *)
Definition oem_decode_lossy (b : N) : N := if b <=? 127 then b else 65533.

Section EqName.
  Variable upper : N -> list N.         (* char_to_uppercase: char::to_uppercase or once(to_ascii_uppercase) *)
  Variable oem_decode : N -> N.         (* OemCpConverter::decode *)

  Definition fold_upper (s : str) : list N := flat_map upper s.

  (* `for x in l { if Some(x) != other.next() { return false } }`: Some rest, or None for "return false" *)
  Fixpoint take_prefix (l other : list N) : option (list N) :=
    match l with
    | [] => Some other
    | x :: r => match other with
                | y :: o' => if x =? y then take_prefix r o' else None
                | [] => None
                end
    end.

  Fixpoint eq_lfn_loop (dec : list (option N)) (other : list N) : bool :=
    match dec with
    | [] => match other with [] => true | _ => false end
    | Some c :: r => match take_prefix (upper c) other with
                     | Some o' => eq_lfn_loop r o'
                     | None => false
                     end
    | None :: _ => false
    end.

  (* long_file_name_as_ucs2_units() is None for an empty buffer *)
  Definition eq_name_lfn (lfn : list N) (name : str) : bool :=
    match lfn with
    | [] => false
    | _ => eq_lfn_loop (utf16_decode lfn) (fold_upper name)
    end.

  Definition short_name_chars (raw : list N) : str := map oem_decode (short_name_string raw).

  Definition eq_ignore_case (raw : list N) (name : str) : bool :=
    str_eqb (fold_upper (short_name_chars raw)) (fold_upper name).

  Definition eq_name (lfn : list N) (raw : list N) (name : str) : bool :=
    if eq_name_lfn lfn name then true else eq_ignore_case raw name.
End EqName.

(* the two instances of char_to_uppercase that do not need a table *)
Definition upper_ascii (c : N) : list N := [ascii_upper c].

(* ---------- Dir::write_entry: which long-name slots precede the short entry --------------- *)

(* `if name == "." || name == ".."` the entry gets no long-name slots (alloc_sfn_entry), otherwise the run generated
   from the UTF-16 encoding of the name and the checksum of the short name *)
Definition is_dot_name (n : str) : bool := str_eqb n [46] || str_eqb n [46; 46].
Definition write_entry_lfn_slots (n : str) (short_name : list N) : list lfn_entry :=
  if is_dot_name n then [] else lfn_entries (utf16_encode n) (lfn_checksum short_name).
