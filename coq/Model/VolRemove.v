(* VolRemove.v: root_dir().remove(name) of a FILE THAT OWNS CLUSTERS, on a whole device image of a FAT12/FAT16 volume
   (src/dir.rs Dir::remove with a one-component path on fs.root_dir()):

     let e = self.find_entry(name, None, None)?;                 [root_lookup]: an error is the call's error, nothing written
     if e.is_dir() && (short name is "." or "..") -> InvalidInput ; if e.is_dir() && !is_empty -> DirectoryIsNotEmpty
                                                                 directories: outside this model (None)
     if let Some(n) = e.first_cluster() { self.fs.free_cluster_chain(n)?; }
         FileSystem::free_cluster_chain = ClusterIterator::free on the FAT slice (every entry of the chain set to Free,
         walking by get_next_cluster first) then fs_info.map_free_clusters(|c| c + num_free):
         Model/Table.v [fs_free_chain] - the function C05_remove_reclaims_all is about - instantiated at the byte-level
         store of the image ([VolFile.store_of]: the FAT DiskSlice, all mirrored copies), as Model/VolFile.v does.
         first_cluster() on FAT12/16 is the low word of the slot; 0 = None.
     then the deletion loop over the entry's slots (read slot, set_deleted, seek back, rewrite): [DirSlots.delete_entry] of
         the entry found at the beginning, on the root region ([VolDir.put_root_slots]).
   Order of device writes as in the code: the FAT entries first, then the directory slots.  The fuel of the chain walk
   (a `while` loop in the code) is [FileM.chain_fuel] as in File::truncate; the theorems show it suffices.
   A failing chain walk (a link that leaves the table of a corrupt volume: the code returns the error with the table
   partly rewritten) is answered None - the partly rewritten table is not represented; excluded by well-formedness.
   NOT part of this function (Model/VolStatus.v): the dirty flag of the status byte.  Executable; extracted (csess). *)
From Coq Require Import NArith List Bool.
From FatVerif Require Import Model.Base Model.Str Model.Slot Model.Time Model.Table Model.Fat Model.FileM Model.DirSlots
  Model.VolDir Model.VolFile Model.VolSession Spec.Image Spec.Abs.
From FatVerif Require Model.Lfn.
Import ListNotations.
Open Scope N_scope.

Section VolRemove.
  Variable upper : N -> list N.     (* char_to_uppercase *)
  Variable oem : N -> N.            (* OemCpConverter::decode *)

  (* FileSystem::free_cluster_chain(first) on the FAT store of the image; 0 = the entry has no first cluster *)
  Definition vol_free_chain (g : geom) (im : image) (fi : fsinfo) (first : N) : res (image * fsinfo) :=
    if first =? 0 then Ok (im, fi)
    else do (s', fi') <- fs_free_chain fstore (fat_get (ft_of g)) (fat_set (ft_of g)) (store_of g im) fi first
                           (FileM.chain_fuel (g_clusters g));
         Ok (fs_img s', fi').

  (* root_dir().remove(name).  Some (Ok tt, im', fi'): removed.  Some (e, im, fi): the lookup failed, nothing written.
     None: the name is a directory / the chain walk failed (see above). *)
  Definition vol_remove_file_root (im : image) (fi : fsinfo) (name : str) : option (res unit * image * fsinfo) :=
    let g := parse_geom im in
    match root_lookup upper oem im name with
    | Ok ev =>
      if Lfn.ev_is_dir ev then None
      else match vol_free_chain g im fi (root_entry_cluster ev) with
           | Ok (im1, fi') =>
             Some (Ok tt, put_root_slots g im1 (delete_entry (root_region_slots g im1) ev), fi')
           | _ => None
           end
    | Err e => Some (Err e, im, fi)
    | Panic => Some (Panic, im, fi)
    | OutOfFuel => Some (OutOfFuel, im, fi)
    end.

  (* ---- fill / delete cycles: create_file(name) ; calls on the handle ; flush (drop) ; remove(name) *)
  Record cycle := { cy_name : str; cy_now : datetime; cy_ops : list (fop * datetime) }.

  Definition vol_cycle (acc : bool) (im : image) (fi : fsinfo) (c : cycle) : option (image * fsinfo) :=
    match vol_session upper oem acc im fi (cy_name c) (cy_now c) (cy_ops c) with
    | Some (st, _) =>
      match vol_remove_file_root (s_im st) (s_fi st) (cy_name c) with
      | Some (Ok tt, im', fi') => Some (im', fi')
      | _ => None
      end
    | None => None
    end.

  Fixpoint vol_cycles (acc : bool) (im : image) (fi : fsinfo) (cs : list cycle) : option (image * fsinfo) :=
    match cs with
    | [] => Some (im, fi)
    | c :: r => match vol_cycle acc im fi c with Some (im1, fi1) => vol_cycles acc im1 fi1 r | None => None end
    end.
End VolRemove.
