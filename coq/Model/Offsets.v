(* Offsets.v: the address arithmetic of src/fs.rs and src/boot_sector.rs as coded (u32 sector numbers,
   u64 byte offsets): sector_from_cluster, offset_from_cluster, bytes_from_sectors, the FAT entry offsets of
   src/table.rs (cluster*2, cluster*4, cluster + cluster/2 in u32). Overflow in a debug build = Panic. *)
From FatVerif Require Import Model.Base.
Open Scope N_scope.

Record ogeom := { o_bps : N; o_spc : N; o_first_data : N; o_total_sectors : N; o_clusters : N }.

Definition sectors_from_clusters (g : ogeom) (n : N) : res N := u32_mul n (o_spc g).
Definition sector_from_cluster (g : ogeom) (c : N) : res N :=
  do d <- u32_sub c 2; do s <- sectors_from_clusters g d; u32_add (o_first_data g) s.
Definition bytes_from_sectors (g : ogeom) (s : N) : res N :=
  if s * o_bps g <=? u64_max then Ok (s * o_bps g) else Panic.
Definition offset_from_cluster (g : ogeom) (c : N) : res N :=
  do s <- sector_from_cluster g c; bytes_from_sectors g s.
Definition cluster_size (g : ogeom) : N := o_spc g * o_bps g.

Definition fat16_entry_offset (c : N) : res N := u32_mul c 2.
Definition fat32_entry_offset (c : N) : res N := u32_mul c 4.
Definition fat12_entry_offset (c : N) : res N := u32_add c (c / 2).

(* what mount guarantees about an accepted volume (Proofs/BpbProofs: C07_mount_ok_coherent) *)
Definition ogeom_ok (g : ogeom) : Prop :=
  512 <= o_bps g <= 4096 /\ 1 <= o_spc g <= 128 /\ o_total_sectors g < two32 /\
  o_first_data g + o_clusters g * o_spc g <= o_total_sectors g /\ o_clusters g <= 268435455.
