(* ShortName.v: the 8.3 alias generator (ShortNameGenerator of src/dir.rs) and the loop of
   Dir::check_for_existence that drives it.  Bytes and bitmaps are N.  No proofs here. *)
From FatVerif Require Import Model.Base Model.Str Model.Slot Model.Name.
Open Scope N_scope.

(* ---------- &str helpers: byte indices, slicing panics off a char boundary --------------- *)

(* str::rfind(c): byte offset of the last occurrence; [off] = byte offset of the head of [s] *)
Fixpoint str_rfind_from (s : str) (c : N) (off : N) : option N :=
  match s with
  | [] => None
  | x :: r => match str_rfind_from r c (off + utf8_char_len x) with
              | Some i => Some i
              | None => if x =? c then Some off else None
              end
  end.
Definition str_rfind (s : str) (c : N) : option N := str_rfind_from s c 0.

(* (&s[..i], &s[i..]) for a byte index i; Panic when i is not on a char boundary or past the end *)
Fixpoint str_split_at (s : str) (i : N) : res (str * str) :=
  if i =? 0 then Ok ([], s)
  else match s with
       | [] => Panic
       | x :: r => if i <? utf8_char_len x then Panic
                   else do ab <- str_split_at r (i - utf8_char_len x); Ok (x :: fst ab, snd ab)
       end.

(* ---------- generator state ------------------------------------------------------------------ *)

Record sng := {
  g_chksum : N;            (* u16 *)
  g_long_bitmap : N;       (* u16: long_prefix_bitmap *)
  g_chk_bitmap : N;        (* u16: prefix_chksum_bitmap *)
  g_name_fits : bool;
  g_lossy : bool;
  g_exact : bool;
  g_basename_len : N;
  g_short : list N }.      (* [u8; 11] *)

(* characters copied unchanged by copy_short_name_part *)
Definition sfn_punct : list N := [33; 35; 36; 37; 38; 39; 40; 41; 45; 64; 94; 95; 96; 123; 125; 126].
Definition sfn_char_ok (c : N) : bool :=
  ((65 <=? c) && (c <=? 90)) || ((97 <=? c) && (c <=? 122)) || ((48 <=? c) && (c <=? 57))
  || existsb (N.eqb c) sfn_punct.

(* copy_short_name_part: [room] = dst.len() - dst_pos.  Returns (bytes written, fits, lossy). *)
Fixpoint copy_part (room : nat) (src : str) (lossy : bool) : list N * bool * bool :=
  match src with
  | [] => ([], true, lossy)
  | c :: r =>
    match room with
    | O => ([], false, lossy)                                  (* result buffer is full *)
    | S room' =>
      if (c =? 32) || (c =? 46) then copy_part room r true     (* strip spaces and dots *)
      else
        let fixed := if sfn_char_ok c then c else 95 in
        let lossy' := lossy || negb (fixed =? c) in
        let '(bs, fits, l) := copy_part room' r lossy' in
        ((ascii_upper fixed) mod 256 :: bs, fits, l)
    end
  end.

Definition pad_to (n : nat) (l : list N) : list N := l ++ repeat_N SFN_PADDING (n - length l).

(* BSD checksum over the chars, each cast to u16 *)
Definition sng_checksum (name : str) : N :=
  fold_left (fun ck c => (ck / 2 + (ck * 32768) mod 65536 + c mod 65536) mod 65536) name 0.

Definition sng_new (name : str) : res sng :=
  let dot := match str_rfind name 46 with
             | Some i => if 0 <? i then Some i else None
             | None => None
             end in
  do base_src <- match dot with
                 | Some i => do ab <- str_split_at name i; Ok (fst ab)
                 | None => Ok name
                 end;
  let '(bb, bfits, blossy) := copy_part 8 base_src false in
  do ext <- match dot with
            | Some i => do ab <- str_split_at name (i + 1); Ok (Some (copy_part 3 (snd ab) false))
            | None => Ok None
            end;
  let '(eb, fits, lossy) := match ext with
                            | Some (eb, efits, elossy) => (eb, bfits && efits, blossy || elossy)
                            | None => ([], bfits, blossy)
                            end in
  Ok {| g_chksum := sng_checksum name; g_long_bitmap := 0; g_chk_bitmap := 0;
        g_name_fits := fits; g_lossy := lossy; g_exact := false;
        g_basename_len := len_N bb; g_short := pad_to 8 bb ++ pad_to 3 eb |}.

(* ---------- add_existing -------------------------------------------------------------------- *)

(* char::from(b).to_digit(10) *)
Definition to_digit10 (b : N) : option N := if (48 <=? b) && (b <=? 57) then Some (b - 48) else None.
(* (b as char).to_digit(16) for an ASCII byte *)
Definition to_digit16 (b : N) : option N :=
  if (48 <=? b) && (b <=? 57) then Some (b - 48)
  else if (65 <=? b) && (b <=? 70) then Some (b - 55)
  else if (97 <=? b) && (b <=? 102) then Some (b - 87)
  else None.

Fixpoint hex_digits (bs : list N) (acc : N) : option N :=
  match bs with
  | [] => Some acc
  | b :: r => match to_digit16 b with Some d => hex_digits r (acc * 16 + d) | None => None end
  end.

(* str::from_utf8(4 bytes).map(|s| u16::from_str_radix(s, 16)) == Ok(Ok(v)):
   a byte >= 0x80 either makes from_utf8 fail or is a non-digit char; a leading '+' is accepted by
   from_str_radix when digits follow; at most 4 hex digits cannot overflow a u16 *)
Definition parse_hex4 (bs : list N) : option N :=
  match bs with
  | [] => None                                                   (* from_str_radix(""): Empty *)
  | b :: r =>
    if (b =? 43) && negb (match r with [] => true | _ => false end)
    then hex_digits r 0                                          (* '+' followed by at least one more byte *)
    else hex_digits bs 0
  end.

Definition sub (l : list N) (from len : nat) : list N := firstn len (skipn from l).
Definition byte_nth (l : list N) (i : nat) : N := nth i l 0.
Definition set_bit (bm d : N) : N := N.lor bm (2 ^ d).

Definition check_long (g : sng) (sn : list N) : sng :=
  let lp := N.to_nat (N.min 6 (g_basename_len g)) in
  if negb (byte_nth sn lp =? 126) then g
  else match to_digit10 (byte_nth sn (lp + 1)) with
       | None => g
       | Some d =>
         if str_eqb (firstn lp sn) (firstn lp (g_short g)) && str_eqb (skipn 8 sn) (skipn 8 (g_short g))
         then {| g_chksum := g_chksum g; g_long_bitmap := set_bit (g_long_bitmap g) d;
                 g_chk_bitmap := g_chk_bitmap g; g_name_fits := g_name_fits g; g_lossy := g_lossy g;
                 g_exact := g_exact g; g_basename_len := g_basename_len g; g_short := g_short g |}
         else g
       end.

Definition check_short (g : sng) (sn : list N) : sng :=
  let sp := N.to_nat (N.min 2 (g_basename_len g)) in
  if negb (byte_nth sn (sp + 4) =? 126) then g
  else match to_digit10 (byte_nth sn (sp + 5)) with
       | None => g
       | Some d =>
         if str_eqb (firstn sp sn) (firstn sp (g_short g)) && str_eqb (skipn 8 sn) (skipn 8 (g_short g))
         then match parse_hex4 (sub sn sp 4) with
              | Some v =>
                if v =? g_chksum g
                then {| g_chksum := g_chksum g; g_long_bitmap := g_long_bitmap g;
                        g_chk_bitmap := set_bit (g_chk_bitmap g) d; g_name_fits := g_name_fits g;
                        g_lossy := g_lossy g; g_exact := g_exact g; g_basename_len := g_basename_len g;
                        g_short := g_short g |}
                else g
              | None => g
              end
         else g
       end.

Definition add_existing (g : sng) (sn : list N) : sng :=
  let g1 := if str_eqb sn (g_short g)
            then {| g_chksum := g_chksum g; g_long_bitmap := g_long_bitmap g; g_chk_bitmap := g_chk_bitmap g;
                    g_name_fits := g_name_fits g; g_lossy := g_lossy g; g_exact := true;
                    g_basename_len := g_basename_len g; g_short := g_short g |}
            else g in
  check_short (check_long g1 sn) sn.

(* ---------- generate ------------------------------------------------------------------------ *)

Definition hex_digit (d : N) : N := if d <? 10 then 48 + d else 55 + d.    (* from_digit(d,16) upper-cased *)
Definition u16_to_hex (x : N) : list N :=
  [hex_digit ((x / 4096) mod 16); hex_digit ((x / 256) mod 16); hex_digit ((x / 16) mod 16); hex_digit (x mod 16)].

Definition build_prefixed_name (g : sng) (num : N) (with_chksum : bool) : list N :=
  let base :=
    if with_chksum
    then firstn (N.to_nat (N.min 2 (g_basename_len g))) (g_short g) ++ u16_to_hex (g_chksum g)
    else firstn (N.to_nat (N.min 6 (g_basename_len g))) (g_short g) in
  pad_to 8 (base ++ [126; 48 + num]) ++ skipn 8 (g_short g).

Definition first_free (bm : N) (cands : list N) : option N := find (fun i => negb (N.testbit bm i)) cands.

(* Some alias, or None for Err(AlreadyExists) *)
Definition sng_generate (g : sng) : option (list N) :=
  if negb (g_lossy g) && g_name_fits g && negb (g_exact g) then Some (g_short g)
  else match first_free (g_long_bitmap g) [1; 2; 3; 4] with
       | Some i => Some (build_prefixed_name g i false)
       | None =>
         match first_free (g_chk_bitmap g) [1; 2; 3; 4; 5; 6; 7; 8; 9] with
         | Some i => Some (build_prefixed_name g i true)
         | None => None
         end
       end.

Definition next_iteration (g : sng) : sng :=
  {| g_chksum := (g_chksum g + 1) mod 65536; g_long_bitmap := 0; g_chk_bitmap := 0;
     g_name_fits := g_name_fits g; g_lossy := g_lossy g; g_exact := g_exact g;
     g_basename_len := g_basename_len g; g_short := g_short g |}.

(* ---------- the loop of check_for_existence ---------------------------------------------- *)

(* find_entry visits every entry of the directory (none matched the name) and feeds its raw short name to
   add_existing; then generate; on failure next_iteration and the same scan again *)
Fixpoint alias_loop (g : sng) (existing : list (list N)) (fuel : nat) : res (list N) :=
  match fuel with
  | O => OutOfFuel
  | S f =>
    let g' := fold_left add_existing existing g in
    match sng_generate g' with
    | Some a => Ok a
    | None => alias_loop (next_iteration g') existing f
    end
  end.

Definition alias_for (name : str) (existing : list (list N)) (fuel : nat) : res (list N) :=
  do _ <- validate_long_name name;
  do g <- sng_new name;
  alias_loop g existing fuel.

(* ---------- legality of a raw 8.3 name as the property C16 states it ---------------------- *)

(* a non-space byte legal in a short name: upper-case letter, digit or the listed punctuation
   (includes '_' and '~'); no lower case, no '.', no space, nothing >= 0x80 *)
Definition sfn_byte_ok (b : N) : bool :=
  ((65 <=? b) && (b <=? 90)) || ((48 <=? b) && (b <=? 57)) || existsb (N.eqb b) sfn_punct.

(* legal bytes, then only padding spaces (no embedded space) *)
Fixpoint sfn_part_ok (l : list N) : bool :=
  match l with
  | [] => true
  | b :: r => if b =? SFN_PADDING then forallb (N.eqb SFN_PADDING) r else sfn_byte_ok b && sfn_part_ok r
  end.

(* 11 bytes; base and extension are each a run of legal bytes followed by padding; the base is not empty
   (its first byte is not a space) *)
Definition sfn_legal_b (a : list N) : bool :=
  Nat.eqb (length a) 11 && sfn_part_ok (firstn 8 a) && sfn_part_ok (skipn 8 a)
  && negb (byte_nth a 0 =? SFN_PADDING).
