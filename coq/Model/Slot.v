(* Slot.v: the 32-byte directory slot codec of src/dir_entry.rs (DirFileEntryData, DirLfnEntryData,
   DirEntryData::{serialize,deserialize}).  A slot is a list of 32 bytes (N < 256). *)
From FatVerif Require Import Model.Base.
Open Scope N_scope.

Definition ATTR_READ_ONLY : N := 1.
Definition ATTR_HIDDEN    : N := 2.
Definition ATTR_SYSTEM    : N := 4.
Definition ATTR_VOLUME_ID : N := 8.
Definition ATTR_DIRECTORY : N := 16.
Definition ATTR_ARCHIVE   : N := 32.
Definition ATTR_LFN       : N := 15.
Definition DIR_ENTRY_SIZE : N := 32.
Definition DELETED_FLAG   : N := 229.  (* 0xE5 *)
Definition LFN_LAST_FLAG  : N := 64.   (* 0x40 *)
Definition LFN_PART_LEN   : N := 13.

(* short (8.3) entry: DirFileEntryData *)
Record sfn_entry := {
  se_name : list N;            (* 11 bytes *)
  se_attrs : N;                (* after FileAttributes::from_bits_truncate: bits 0-5 only *)
  se_reserved_0 : N;
  se_create_time_0 : N; se_create_time_1 : N; se_create_date : N; se_access_date : N;
  se_first_cluster_hi : N; se_modify_time : N; se_modify_date : N; se_first_cluster_lo : N;
  se_size : N }.

(* long-name entry: DirLfnEntryData *)
Record lfn_entry := {
  le_order : N;
  le_name : list N;            (* 13 UTF-16 units: name_0 ++ name_1 ++ name_2 *)
  le_attrs : N;
  le_entry_type : N;
  le_checksum : N;
  le_reserved_0 : N }.

Inductive slot := SFile (e : sfn_entry) | SLfn (e : lfn_entry).

Definition byte_at (bs : list N) (i : nat) : N := nth i bs 0.
Definition u16_at (bs : list N) (i : nat) : N := byte_at bs i + 256 * byte_at bs (S i).
Definition u32_at (bs : list N) (i : nat) : N := u16_at bs i + 65536 * u16_at bs (S (S i)).
Definition u16_bytes (v : N) : list N := [v mod 256; (v / 256) mod 256].
Definition u32_bytes (v : N) : list N := [v mod 256; (v / 256) mod 256; (v / 65536) mod 256; (v / 16777216) mod 256].

(* FileAttributes::from_bits_truncate keeps the six defined bits *)
Definition attrs_truncate (a : N) : N := a mod 64.

(* DirEntryData::deserialize on a full 32-byte slot *)
Definition slot_decode (bs : list N) : slot :=
  let attrs := attrs_truncate (byte_at bs 11) in
  if N.land attrs ATTR_LFN =? ATTR_LFN then
    SLfn {| le_order := byte_at bs 0;
            le_name := [u16_at bs 1; u16_at bs 3; u16_at bs 5; u16_at bs 7; u16_at bs 9;
                        u16_at bs 14; u16_at bs 16; u16_at bs 18; u16_at bs 20; u16_at bs 22; u16_at bs 24;
                        u16_at bs 28; u16_at bs 30];
            le_attrs := attrs; le_entry_type := byte_at bs 12; le_checksum := byte_at bs 13;
            le_reserved_0 := u16_at bs 26 |}
  else
    SFile {| se_name := firstn 11 bs; se_attrs := attrs; se_reserved_0 := byte_at bs 12;
             se_create_time_0 := byte_at bs 13; se_create_time_1 := u16_at bs 14; se_create_date := u16_at bs 16;
             se_access_date := u16_at bs 18; se_first_cluster_hi := u16_at bs 20; se_modify_time := u16_at bs 22;
             se_modify_date := u16_at bs 24; se_first_cluster_lo := u16_at bs 26; se_size := u32_at bs 28 |}.

Definition sfn_encode (e : sfn_entry) : list N :=
  se_name e ++ [se_attrs e; se_reserved_0 e; se_create_time_0 e] ++ u16_bytes (se_create_time_1 e)
  ++ u16_bytes (se_create_date e) ++ u16_bytes (se_access_date e) ++ u16_bytes (se_first_cluster_hi e)
  ++ u16_bytes (se_modify_time e) ++ u16_bytes (se_modify_date e) ++ u16_bytes (se_first_cluster_lo e)
  ++ u32_bytes (se_size e).

Definition lfn_encode (e : lfn_entry) : list N :=
  let n := le_name e in
  [le_order e] ++ flat_map u16_bytes (firstn 5 n) ++ [le_attrs e; le_entry_type e; le_checksum e]
  ++ flat_map u16_bytes (firstn 6 (skipn 5 n)) ++ u16_bytes (le_reserved_0 e)
  ++ flat_map u16_bytes (firstn 2 (skipn 11 n)).

Definition slot_encode (s : slot) : list N :=
  match s with SFile e => sfn_encode e | SLfn e => lfn_encode e end.

(* classification used by the directory code *)
Definition slot_first_byte (s : slot) : N :=
  match s with SFile e => nth 0 (se_name e) 0 | SLfn e => le_order e end.
Definition slot_is_end (s : slot) : bool := slot_first_byte s =? 0.
Definition slot_is_deleted (s : slot) : bool := slot_first_byte s =? DELETED_FLAG.
Definition sfn_is_dir (e : sfn_entry) : bool := negb (N.land (se_attrs e) ATTR_DIRECTORY =? 0).
Definition sfn_is_volume (e : sfn_entry) : bool := negb (N.land (se_attrs e) ATTR_VOLUME_ID =? 0).

(* DirFileEntryData::first_cluster / set_first_cluster *)
Definition sfn_first_cluster (e : sfn_entry) (fat32 : bool) : option N :=
  let hi := if fat32 then se_first_cluster_hi e else 0 in
  let n := hi * 65536 + se_first_cluster_lo e in
  if n =? 0 then None else Some n.

(* lfn_checksum over the 11 raw short-name bytes: chksum = (chksum << 7) + (chksum >> 1) + b  (u8 wrapping) *)
Definition lfn_checksum (name : list N) : N :=
  fold_left (fun ck b => (((ck * 128) mod 256) + ck / 2 + b) mod 256) name 0.

(* new DirLfnEntryData for a 13-unit part *)
Definition lfn_new (order cksum : N) (part : list N) : lfn_entry :=
  {| le_order := order; le_name := part; le_attrs := ATTR_LFN; le_entry_type := 0;
     le_checksum := cksum; le_reserved_0 := 0 |}.
