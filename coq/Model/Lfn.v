(* Lfn.v: model of the long-name side of directory reading:
     src/dir.rs      LfnBuffer (BOTH cfg variants), LongNameBuilder, DirIter::{should_skip_entry, read_dir_entry}
     src/dir_entry.rs ShortName::new, DirFileEntryData::lowercase_name, the DirEntry accessors, eq_name.
   Slice-index panics of the Rust are explicit ([Panic]); the directory loop is structural in the slot list.
   No proofs here. *)
From FatVerif Require Import Model.Base Model.Str Model.Slot Model.Time.
Open Scope N_scope.

Inductive variant := VecBuf | FixedBuf.   (* cfg(alloc): Vec<u16>   |   cfg(not(alloc)): [u16; 260] + len *)

Definition MAX_LONG_NAME_LEN : N := 255.
Definition MAX_LONG_DIR_ENTRIES : N := 20.      (* (255 + 13 - 1) / 13 *)
Definition LONG_NAME_BUFFER_LEN : N := 260.     (* 20 * 13 *)

(* ---------------------------------------------------------------- LfnBuffer
   VecBuf:   lb_units = the Vec (its length is the length of the list), lb_len unused (kept 0)
   FixedBuf: lb_units = the array (always 260 units), lb_len = len *)
Record lfn_buf := { lb_units : list N; lb_len : N }.

Definition buf_new (v : variant) : lfn_buf :=
  match v with
  | VecBuf => {| lb_units := []; lb_len := 0 |}
  | FixedBuf => {| lb_units := repeat_N 0 260; lb_len := 0 |}
  end.

(* clear(): Vec::clear  |  array zeroed and len = 0 *)
Definition buf_clear (v : variant) (b : lfn_buf) : lfn_buf := buf_new v.

Definition buf_len (v : variant) (b : lfn_buf) : N :=
  match v with VecBuf => len_N (lb_units b) | FixedBuf => lb_len b end.

(* Vec::resize(n, 0) *)
Definition resize0 (l : list N) (n : nat) : list N := firstn n l ++ repeat_N 0 (n - length l).

(* set_len(len): resize(len, 0)  |  only the len field *)
Definition buf_set_len (v : variant) (b : lfn_buf) (n : N) : lfn_buf :=
  match v with
  | VecBuf => {| lb_units := resize0 (lb_units b) (N.to_nat n); lb_len := 0 |}
  | FixedBuf => {| lb_units := lb_units b; lb_len := n |}
  end.

(* as_ucs2_units(): &vec  |  &array[..len]  (panics when len > 260) *)
Definition buf_as_units (v : variant) (b : lfn_buf) : res (list N) :=
  match v with
  | VecBuf => Ok (lb_units b)
  | FixedBuf => if lb_len b <=? len_N (lb_units b) then Ok (firstn (N.to_nat (lb_len b)) (lb_units b)) else Panic
  end.

(* &mut self.buf.ucs2_units[pos..pos + 13] followed by copy_name_to_slice: the index is checked against the
   Vec's length | the array's length (260), in both variants = the length of lb_units *)
Definition buf_write13 (b : lfn_buf) (pos : N) (part : list N) : res lfn_buf :=
  if pos + 13 <=? len_N (lb_units b)
  then Ok {| lb_units := firstn (N.to_nat pos) (lb_units b) ++ part ++ skipn (N.to_nat pos + 13) (lb_units b);
             lb_len := lb_len b |}
  else Panic.

(* LfnBuffer::from_ucs2_units: collect  |  array[i] = unit for each i (index panic at i = 260), len += 1 *)
Definition buf_from_units (v : variant) (us : list N) : res lfn_buf :=
  match v with
  | VecBuf => Ok {| lb_units := us; lb_len := 0 |}
  | FixedBuf =>
    if len_N us <=? LONG_NAME_BUFFER_LEN
    then Ok {| lb_units := us ++ repeat_N 0 (260 - length us); lb_len := len_N us |}
    else Panic
  end.

(* ---------------------------------------------------------------- LongNameBuilder *)
Record builder := { b_buf : lfn_buf; b_chksum : N; b_index : N }.

Definition builder_new (v : variant) : builder := {| b_buf := buf_new v; b_chksum := 0; b_index := 0 |}.

Definition builder_clear (v : variant) (st : builder) : builder :=
  {| b_buf := buf_clear v (b_buf st); b_chksum := b_chksum st; b_index := 0 |}.

Definition builder_is_empty (st : builder) : bool := b_index st =? 0.

(* order byte: bit 6 = last (physically first) slot of a run, bits 0-4 = index *)
Definition order_is_last (o : N) : bool := (o / 64) mod 2 =? 1.
Definition order_index (o : N) : N := o mod 32.

Definition process (v : variant) (st : builder) (e : lfn_entry) : res builder :=
  let is_last := order_is_last (le_order e) in
  let index := order_index (le_order e) in
  if (index =? 0) || (MAX_LONG_DIR_ENTRIES <? index) then Ok (builder_clear v st)
  else
    let next :=
      if is_last then
        Some {| b_buf := buf_set_len v (b_buf st) (index * LFN_PART_LEN); b_chksum := le_checksum e; b_index := index |}
      else if (b_index st =? 0) || negb (index =? b_index st - 1) || negb (le_checksum e =? b_chksum st) then None
      else Some {| b_buf := b_buf st; b_chksum := b_chksum st; b_index := b_index st - 1 |} in
    match next with
    | None => Ok (builder_clear v st)
    | Some st1 =>
      let pos := LFN_PART_LEN * (index - 1) in
      do b <- buf_write13 (b_buf st1) pos (le_name e);
      Ok {| b_buf := b; b_chksum := b_chksum st1; b_index := b_index st1 |}
    end.

Definition validate_chksum (v : variant) (st : builder) (short_name : list N) : builder :=
  if builder_is_empty st then st
  else if lfn_checksum short_name =? b_chksum st then st
  else builder_clear v st.

(* iter().position(|c| *c == 0) *)
Fixpoint position_zero (l : list N) : option nat :=
  match l with
  | [] => None
  | x :: r => if x =? 0 then Some O else option_map S (position_zero r)
  end.

Definition truncate (v : variant) (st : builder) : res builder :=
  do units <- buf_as_units v (b_buf st);
  let new_len := match position_zero units with Some p => N.of_nat p | None => len_N units end in
  if MAX_LONG_NAME_LEN <? new_len then Ok (builder_clear v st)
  else Ok {| b_buf := buf_set_len v (b_buf st) new_len; b_chksum := b_chksum st; b_index := b_index st |}.

Definition into_buf (v : variant) (st : builder) : res lfn_buf :=
  if b_index st =? 1 then do st' <- truncate v st; Ok (b_buf st')
  else if negb (builder_is_empty st) then Ok (b_buf (builder_clear v st))
  else Ok (b_buf st).

(* DirEntry::long_file_name_as_ucs2_units: None (here: []) when len = 0 *)
Definition buf_long_name (v : variant) (b : lfn_buf) : res (list N) :=
  if 0 <? buf_len v b then buf_as_units v b else Ok [].

(* ---------------------------------------------------------------- short names *)
Definition SFN_PADDING : N := 32.

(* rposition(|x| x != ' ').map_or(0, |p| p + 1): length without trailing spaces *)
Fixpoint trim_len (l : list N) : nat :=
  match l with
  | [] => O
  | x :: r => match trim_len r with
              | O => if x =? SFN_PADDING then O else 1%nat
              | S k => S (S k)
              end
  end.

(* ShortName::new(raw_name).as_bytes() *)
Definition short_name_bytes (raw : list N) : list N :=
  let base := firstn 8 raw in
  let ext := firstn 3 (skipn 8 raw) in
  let name_len := trim_len base in
  let ext_len := trim_len ext in
  let name := if Nat.ltb 0 ext_len then firstn name_len base ++ [46] ++ firstn ext_len ext
              else firstn name_len base in
  match name with
  | c :: r => (if c =? 5 then 229 else c) :: r
  | [] => []
  end.

(* the OEM code page decoder is a parameter of the library; the executor uses LossyOemCpConverter *)
Definition oem_lossy (b : N) : N := if b <=? 127 then b else 65533.

Definition byte_ascii_lower (c : N) : N := if (65 <=? c) && (c <=? 90) then c + 32 else c.

(* DirFileEntryData::lowercase_name *)
Definition lowercase_name_bytes (e : sfn_entry) : list N :=
  let raw := se_name e in
  let lb := (se_reserved_0 e / 8) mod 2 =? 1 in
  let le := (se_reserved_0 e / 16) mod 2 =? 1 in
  let base := firstn 8 raw in
  let ext := skipn 8 raw in
  short_name_bytes ((if lb then map byte_ascii_lower base else base) ++ (if le then map byte_ascii_lower ext else ext)).

(* ---------------------------------------------------------------- what a DirEntry shows *)
Record entry_view := {
  ev_lfn : list N;               (* long_file_name_as_ucs2_units, [] = None *)
  ev_raw_name : list N;          (* the 11 raw short-name bytes *)
  ev_short : list N;             (* short_file_name_as_bytes *)
  ev_attrs : N;
  ev_size : N;                   (* len() *)
  ev_cluster_hi : N; ev_cluster_lo : N;
  ev_created : datetime; ev_modified : datetime; ev_accessed : date;
  ev_is_dir : bool;
  ev_file_name : str;            (* file_name() *)
  ev_short_file_name : str;      (* short_file_name() *)
  ev_begin : N; ev_end : N       (* offset_range *)
}.

Definition mk_view (oem : N -> N) (e : sfn_entry) (lfn : list N) (begin_off end_off : N) : entry_view :=
  {| ev_lfn := lfn;
     ev_raw_name := se_name e;
     ev_short := short_name_bytes (se_name e);
     ev_attrs := se_attrs e;
     ev_size := se_size e;
     ev_cluster_hi := se_first_cluster_hi e; ev_cluster_lo := se_first_cluster_lo e;
     ev_created := datetime_decode (se_create_date e) (se_create_time_1 e) (se_create_time_0 e);
     ev_modified := datetime_decode (se_modify_date e) (se_modify_time e) 0;
     ev_accessed := date_decode (se_access_date e);
     ev_is_dir := sfn_is_dir e;
     ev_file_name := match lfn with
                     | [] => map oem (lowercase_name_bytes e)
                     | _ => utf16_decode_lossy lfn
                     end;
     ev_short_file_name := map oem (short_name_bytes (se_name e));
     ev_begin := begin_off; ev_end := end_off |}.

(* ---------------------------------------------------------------- DirIter *)
Definition should_skip (skip_volume : bool) (s : slot) : bool :=
  slot_is_deleted s || match s with SFile e => skip_volume && sfn_is_volume e | SLfn _ => false end.

(* All entries of a directory whose content is the given slots (each a list of 32 bytes, any values),
   i.e. repeated DirIter::next until None.  [st], [begin_off], [off] are the locals of read_dir_entry;
   a returned entry restarts them (new builder, begin = current offset). A slot list that runs out
   is the UnexpectedEof case of DirEntryData::deserialize (all-zero entry = end). *)
Fixpoint read_dir_go (v : variant) (oem : N -> N) (skip_volume : bool) (slots : list (list N))
         (st : builder) (begin_off off : N) : res (list entry_view) :=
  match slots with
  | [] => Ok []
  | bs :: rest =>
    let raw := slot_decode bs in
    let off' := off + DIR_ENTRY_SIZE in
    if slot_is_end raw then Ok []
    else if should_skip skip_volume raw then
      read_dir_go v oem skip_volume rest (builder_clear v st) off' off'
    else
      match raw with
      | SFile e =>
        let st1 := validate_chksum v st (se_name e) in
        do buf <- into_buf v st1;
        do lfn <- buf_long_name v buf;
        do more <- read_dir_go v oem skip_volume rest (builder_new v) off' off';
        Ok (mk_view oem e lfn begin_off off' :: more)
      | SLfn e =>
        do st' <- process v st e;
        read_dir_go v oem skip_volume rest st' begin_off off'
      end
  end.

Definition read_dir (v : variant) (oem : N -> N) (skip_volume : bool) (slots : list (list N)) : res (list entry_view) :=
  read_dir_go v oem skip_volume slots (builder_new v) 0 0.

(* ---------------------------------------------------------------- name matching (eq_name)
   [upper] is char_to_uppercase: char::to_uppercase (feature unicode) or [to_ascii_uppercase] (without). *)
Definition fold_eq (upper : N -> list N) (a b : str) : bool := str_eqb (flat_map upper a) (flat_map upper b).

Definition upper_ascii (c : N) : list N := [ascii_upper c].

(* eq_name_lfn: false on an undecodable unit or without a long name *)
Definition eq_name_lfn (upper : N -> list N) (lfn : list N) (name : str) : bool :=
  match lfn with
  | [] => false
  | _ => let dec := utf16_decode lfn in
         forallb (fun o => match o with Some _ => true | None => false end) dec
         && fold_eq upper (flat_map (fun o => match o with Some c => [c] | None => [] end) dec) name
  end.

Definition eq_name (upper : N -> list N) (oem : N -> N) (ev : entry_view) (name : str) : bool :=
  eq_name_lfn upper (ev_lfn ev) name || fold_eq upper (map oem (ev_short ev)) name.
