(* Base.v: shared conventions for the executable model of rust-fatfs.
   Numbers are N.  Rust fixed-width arithmetic is written out explicitly:
   shifts are multiplications/divisions by powers of two, `as uK` is `mod 2^K`,
   `|` is N.lor, `&` with a low mask is `mod`.  No proofs here. *)
From Coq Require Export NArith List Bool.
Export ListNotations.
Open Scope N_scope.

Definition u8_max  : N := 255.
Definition u16_max : N := 65535.
Definition u32_max : N := 4294967295.
Definition u64_max : N := 18446744073709551615.
Definition two8  : N := 256.
Definition two16 : N := 65536.
Definition two32 : N := 4294967296.
Definition two64 : N := 18446744073709551616.

(* Outcome of running a piece of the library.  [Panic] is a Rust panic (overflow in a debug
   build, slice index out of range, unwrap on None, explicit panic!/assert!).  [OutOfFuel] is
   the model's own loop bound being exhausted (a theorem must exclude it by proving a bound). *)
Inductive error :=
| EIo | EUnexpectedEof | EWriteZero | EInvalidInput | ENotFound | EAlreadyExists
| EDirectoryIsNotEmpty | ECorruptedFileSystem | ENotEnoughSpace
| EInvalidFileNameLength | EUnsupportedFileNameCharacter.

Inductive res (A : Type) :=
| Ok (a : A) | Err (e : error) | Panic | OutOfFuel.
Arguments Ok {A} a.
Arguments Err {A} e.
Arguments Panic {A}.
Arguments OutOfFuel {A}.

Definition bind {A B} (r : res A) (f : A -> res B) : res B :=
  match r with Ok a => f a | Err e => Err e | Panic => Panic | OutOfFuel => OutOfFuel end.
Notation "'do' x <- r ; k" := (bind r (fun x => k)) (at level 200, x pattern, r at level 100, k at level 200).

Definition error_eqb (a b : error) : bool :=
  match a, b with
  | EIo, EIo | EUnexpectedEof, EUnexpectedEof | EWriteZero, EWriteZero | EInvalidInput, EInvalidInput
  | ENotFound, ENotFound | EAlreadyExists, EAlreadyExists | EDirectoryIsNotEmpty, EDirectoryIsNotEmpty
  | ECorruptedFileSystem, ECorruptedFileSystem | ENotEnoughSpace, ENotEnoughSpace
  | EInvalidFileNameLength, EInvalidFileNameLength
  | EUnsupportedFileNameCharacter, EUnsupportedFileNameCharacter => true
  | _, _ => false
  end.

(* checked u32 arithmetic of a debug build: overflow panics *)
Definition u32_add (a b : N) : res N := if a + b <=? u32_max then Ok (a + b) else Panic.
Definition u32_mul (a b : N) : res N := if a * b <=? u32_max then Ok (a * b) else Panic.
Definition u32_sub (a b : N) : res N := if b <=? a then Ok (a - b) else Panic.
(* wrapping u32 arithmetic of a release build *)
Definition w32_add (a b : N) : N := (a + b) mod two32.
Definition w32_mul (a b : N) : N := (a * b) mod two32.
Definition w32_sub (a b : N) : N := (a + two32 - b mod two32) mod two32.

(* little-endian helpers over byte lists (bytes are N < 256) *)
Fixpoint le_decode (bs : list N) : N :=
  match bs with [] => 0 | b :: r => b + 256 * le_decode r end.
Fixpoint le_encode (n : nat) (v : N) : list N :=
  match n with O => [] | S k => (v mod 256) :: le_encode k (v / 256) end.

Definition is_pow2 (n : N) : bool := (0 <? n) && (N.land n (n - 1) =? 0).

Definition nth_N {A} (l : list A) (i : N) (d : A) : A := nth (N.to_nat i) l d.
Definition len_N {A} (l : list A) : N := N.of_nat (length l).

Fixpoint repeat_N {A} (x : A) (n : nat) : list A := match n with O => [] | S k => x :: repeat_N x k end.
