(* VolDir.v: the directory SLOT layer (Model/DirSlots.v) embedded into whole device IMAGES (Spec/Image.v), for the FIXED ROOT
   directory of a FAT12/FAT16 volume - src/dir.rs  Dir::create_file / Dir::remove / Dir::rename called on fs.root_dir() with
   a one-component path, where the directory's stream is DirRawStream::Root(DiskSlice) (src/fs.rs root_dir(): the slice
   starts at sector reserved + fats * sectors_per_fat and is root_dir_sectors * bytes_per_sector long; no cluster chain).

   Each operation is: read the root region of the image as 32-byte slots, run the EXISTING slot-layer function of
   Model/DirSlots.v with kind [FixedRoot], write the resulting slots back.

   Why this is what the library does to the device.
   - The library never holds the directory in memory: every DirEntryData::deserialize reads 32 bytes through the DiskSlice
     at (slice start + stream position), every serialize writes the fields of one slot there.  Model/DirSlots.v is the
     effect of these reads and writes on the list of slots; Proofs/DirSlotsProofs.v and the byte-exact stream
     tools/props/cdir_corr.py tie it to the code.  The only thing added here is WHERE the slots live on the device.
   - The library writes only the slots it changes (the new run; the 0xE5 rewrite of the deleted run).  [put_root_slots]
     rewrites ALL slots of the region, the unchanged ones with the bytes they already hold.  On an image that is the same
     thing: Proofs/VolDirProofs.put_root_slots_get / put_root_slots_changes - a byte of [put_root_slots g im ss] differs
     from the byte of [im] only inside a slot that differs from the slot [root_region_slots g im] holds at that index, and
     nothing outside the region changes.  (The sequence of device writes - C09/C11/C14 matters - is NOT modelled here.)
   - Geometry: the region is taken where the independent decoder reads it ([Abs.parse_geom], [Abs.g_root_off],
     [g_root_entries] slots = what [Abs.root_slots] reads when the FAT width is not 32).  The library's slice is
     root_dir_sectors * bytes_per_sector bytes long, i.e. it also covers the slack of a root whose entry count does not
     fill its last sector (the library then uses the slack slots, the decoder does not look at them: DESIGN.md section 1,
     observations).  The two regions coincide exactly when [root_fills_sectors g]; the theorems are stated for such
     geometries ([Proofs/VolDirProofs.fixed_root_geom]) - every volume formatted with the default 512 root entries, or any
     multiple of bytes_per_sector / 32.
   - Time stamps: create_sfn_entry stamps the new entry with the time provider's [now] (Model/Time.v stamp_create), as
     Model/DirSlots.create_entry models it; [now] is an argument.
   - NOT part of these functions (other layers): the dirty flag - the first write of a session through FsIoAdapter sets bit 0
     of the status byte at 0x25, unmount clears it again (Model/Flags.v, C12): between the two the device differs from the
     image computed here in exactly that bit; the flush of the device; the File handle create_file returns (dropping it
     unwritten writes nothing: its editor is clean).
   - Scope of remove / rename: only calls that touch nothing but the directory region.  Dir::remove of an entry that owns
     a cluster chain frees the chain in the FAT first, a directory is first opened and scanned; Dir::rename of a directory
     additionally looks at its ".." entry.  These answer [None] here ("outside this model"); a FILE is renamed with its
     cluster and size untouched (rename never touches the FAT).
   No proofs here. *)
From Coq Require Import NArith List Bool.
From FatVerif Require Import Model.Base Model.Str Model.Slot Model.Time Model.Name Model.ShortName Model.DirSlots
  Spec.Image Spec.Abs.
From FatVerif Require Model.Lfn.
Import ListNotations.
Open Scope N_scope.

(* ---------------------------------------------------------------- the root region as slots, and back *)
Definition root_bytes (g : geom) : N := g_root_entries g * 32.

(* the slots Abs.root_slots decodes on a FAT12/16 volume *)
Definition root_region_slots (g : geom) (im : image) : slots :=
  slots_of (img_read im (g_root_off g) (N.to_nat (root_bytes g))).

Definition put_root_slots (g : geom) (im : image) (ss : slots) : image :=
  img_write im (g_root_off g) (concat ss).

(* the root region covers whole sectors: the decoder's region is the library's DiskSlice *)
Definition root_fills_sectors (g : geom) : Prop := (g_root_entries g * 32) mod g_bps g = 0.

(* run a slot-layer function on the root directory of the volume held by [im] *)
Definition vol_root_apply {A} (im : image) (f : slots -> dres A) : res A * image :=
  let g := parse_geom im in
  let r := f (root_region_slots g im) in
  (fst r, put_root_slots g im (snd r)).

Section Vol.
  Variable upper : N -> list N.     (* char_to_uppercase *)
  Variable oem : N -> N.            (* OemCpConverter::decode *)

  (* root_dir().create_file(name) for a one-component name: check_for_existence(name, Some(false)); an existing file is
     opened (Ok None: nothing is written), a directory of that name is InvalidInput; otherwise
     create_sfn_entry(alias, attributes 0, no first cluster, stamps of [now]) and write_entry.
     Ok (Some (p, q)): the slot range of the new entry. *)
  Definition vol_create_empty_file_root (im : image) (name : str) (now : datetime) : res (option (N * N)) * image :=
    vol_root_apply im (fun ss => create_entry upper oem false FixedRoot 0 ss name 0 None now false).

  (* what Dir::remove / Dir::rename_internal look at before they write: the entry the name resolves to *)
  Definition root_lookup (im : image) (name : str) : res Lfn.entry_view :=
    find_entry upper oem (root_region_slots (parse_geom im) im) name None.

  (* first_cluster() of a listed entry on a FAT12/16 volume (the high word of the slot is ignored) *)
  Definition root_entry_cluster (ev : Lfn.entry_view) : N := Lfn.ev_cluster_lo ev.

  (* root_dir().remove(name) of a FILE WITHOUT CLUSTERS: find_entry, nothing to free, the deletion loop.
     None: the name resolves to a directory or to an entry that owns clusters (the library goes on to the FAT / to another
     directory: outside this model).  A lookup that fails is the call's error; nothing is written. *)
  Definition vol_remove_empty_file_root (im : image) (name : str) : option (res unit * image) :=
    let go := vol_root_apply im (fun ss => remove_entry upper oem ss name false) in
    match root_lookup im name with
    | Ok ev => if Lfn.ev_is_dir ev || negb (root_entry_cluster ev =? 0) then None else Some go
    | _ => Some go
    end.

  (* root_dir().rename(src, &root_dir(), dst) of a FILE (with or without clusters): find the source, check the destination,
     write the new entry, delete the source's slots (Model/DirSlots.rename_in_dir).  None: the source is a directory. *)
  Definition vol_rename_in_root (im : image) (src dst : str) : option (res unit * image) :=
    let go := vol_root_apply im (fun ss => rename_in_dir upper oem FixedRoot 0 ss src dst) in
    match root_lookup im src with
    | Ok ev => if Lfn.ev_is_dir ev then None else Some go
    | _ => Some go
    end.
End Vol.
