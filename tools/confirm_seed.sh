#!/bin/sh
# usage: tools/confirm_seed.sh <ID> <name>   confirms an adversarial change in /tmp/mut/<ID>: existing tests unchanged, demo fails with / passes without
ID="$1"; D=/tmp/mut/$ID; lc=$(echo $ID | tr A-Z a-z)
cd $D || exit 2
export CARGO_NET_OFFLINE=true
echo "--- with change: existing tests"
cargo test --offline --no-fail-fast 2>&1 | grep -E "^test result" | tr '\n' ';'; echo
echo "--- with change: demo"
cargo test --offline --test demo_$lc 2>&1 | grep -E "^test result|panicked" | head -3
git stash push -q -- src
echo "--- original: demo"
cargo test --offline --test demo_$lc 2>&1 | grep -E "^test result|panicked" | head -3
git stash pop -q
git diff --stat -- src | tail -1
