#!/bin/sh
# usage: tools/confirm_seed.sh <ID>   confirms an adversarial change in /tmp/mut/<ID>: existing tests unchanged, demo fails with / passes without
# (no git stash: the stash is shared by all worktrees of a repository)
ID="$1"; D=/tmp/mut/$ID; lc=$(echo $ID | tr A-Z a-z)
cd $D || exit 2
export CARGO_NET_OFFLINE=true
git diff -- src > /tmp/mut/$ID.confirm.diff
echo "--- with change: existing tests"
cargo test --offline --no-fail-fast 2>&1 | grep -E "^test result" | tr '\n' ';'; echo
echo "--- with change: demo"
cargo test --offline --test demo_$lc 2>&1 | grep -E "^test result" | head -3
git checkout -- src
echo "--- original: demo"
cargo test --offline --test demo_$lc 2>&1 | grep -E "^test result" | head -3
git apply /tmp/mut/$ID.confirm.diff
git diff --stat -- src | tail -1
