#!/bin/sh
# development aid: every stored seeded change is applied to a scratch tree of the library (never to /repo) and the checks named
# in its meta.json (caught_by) are run against it; prints one line per seed: which of them reported a VIOLATION.
# usage: tools/seedcheck_all.sh [name-prefix]
cd /verif
T=/tmp/mut/S
for d in seeded/${1:-}*/; do
  n=$(basename $d)
  git -C /repo worktree remove --force $T >/dev/null 2>&1; git -C /repo worktree prune
  git -C /repo worktree add --detach $T >/dev/null 2>&1 || { echo "$n: cannot create scratch tree"; continue; }
  if ! git -C $T apply $PWD/$d/patch.diff 2>/dev/null; then echo "$n: PATCH DOES NOT APPLY to the current tree"; continue; fi
  ids=$(python3 -c "import json; print(' '.join(json.load(open('$d/meta.json'))['caught_by']))")
  res=""
  for id in $ids; do
    if VERIF_ALT_REPO=$T ./check $id --tier quick 2>&1 | grep -q "^VIOLATION"; then res="$res $id:caught"; else res="$res $id:MISSED"; fi
    git checkout -- evidence/$id.json 2>/dev/null; rm -f replays/$id-*.json
  done
  echo "$n:$res"
done
git -C /repo worktree remove --force $T >/dev/null 2>&1; git -C /repo worktree prune
