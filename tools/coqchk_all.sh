#!/bin/sh
# development aid: the independent checker coqchk over the property files whose dependencies contain vm_compute examples on large
# images (C01, C03, C04: about 40 minutes; the thorough tier runs coqchk itself for all other properties).
# usage: tools/coqchk_all.sh [module ...]   appends to coq/COQCHK_REPORT.txt
# the check rebuilds Props/*.vo on every run, so coqchk works on a private copy of the compiled files
rm -rf /tmp/wk/coqchk_copy; mkdir -p /tmp/wk; cp -r /verif/coq /tmp/wk/coqchk_copy || exit 2
cd /tmp/wk/coqchk_copy || exit 2
MODS="${*:-FatVerif.Props.C01 FatVerif.Props.C03 FatVerif.Props.C04}"
s=$(date +%s)
out=$(coqchk -silent -o -Q . FatVerif $MODS 2>&1 | tail -25)
e=$(date +%s)
cd /verif/coq; rm -rf /tmp/wk/coqchk_copy
{ echo "== $(date -u +%Y-%m-%dT%H:%MZ) coqchk -silent -o -Q . FatVerif $MODS  ($((e-s)) s)"; echo "$out"; } >> COQCHK_REPORT.txt
