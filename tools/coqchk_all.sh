#!/bin/sh
# development aid: the independent checker coqchk over the property files whose dependencies contain vm_compute examples on large
# images (C01, C03, C04: more than an hour; the thorough tier runs coqchk itself for all other properties).
# usage: tools/coqchk_all.sh [module ...]   appends to coq/COQCHK_REPORT.txt
cd /verif/coq || exit 2
MODS="${*:-FatVerif.Props.C01 FatVerif.Props.C03 FatVerif.Props.C04}"
s=$(date +%s)
out=$(coqchk -silent -o -Q . FatVerif $MODS 2>&1 | tail -25)
e=$(date +%s)
{ echo "== $(date -u +%Y-%m-%dT%H:%MZ) coqchk -silent -o -Q . FatVerif $MODS  ($((e-s)) s)"; echo "$out"; } >> COQCHK_REPORT.txt
