#!/bin/sh
# merges an agent branch, resolving the additive conflicts in the three registry files by union
B="$1"
git merge --no-edit "$B" >/dev/null 2>&1
python3 - <<'PY'
import re,subprocess,os
def union(path):
    if not os.path.exists(path): return
    s=open(path).read()
    if "<<<<<<<" not in s: return
    s2=re.sub(r"<<<<<<< HEAD\n(.*?)=======\n(.*?)>>>>>>> [^\n]*\n", lambda m: m.group(1)+"".join(l+"\n" for l in m.group(2).split("\n")[:-1] if l+"\n" not in m.group(1) or not l.strip()), s, flags=re.S)
    open(path,'w').write(s2)
for p in ["coq/_CoqProject","ocaml/main.ml","harness/PROTOCOL.md","harness/src/sweeps.rs","harness/src/main.rs","harness/src/dev.rs"]:
    union("/verif/"+p)
PY
git diff --name-only --diff-filter=U
