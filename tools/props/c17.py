"""C17 - directory decoding is total on arbitrary slot contents.
Proof (Props/C17.v over Model/Lfn.v + Spec/LfnSpec.v) + correspondence of the model's two buffer variants with the
real library built with and without `alloc` on crafted directory regions + direct evaluation of the property
(no panic / hang, names <= 255 units, name listed = extracted lfn_spec on the same slots)."""
import vlib
from fatimg import Geom

PROP_FILES = ["Props/C17.v"]
VARIANTS = ["default", "noalloc"]
MODEL_OF = {"default": "vec", "noalloc": "fixed"}
REGION_SLOTS = 64

ORDERS = [0x41, 0x42, 0x43, 0x01, 0x02, 0x03, 0x00, 0x14, 0x54, 0x55, 0x7f, 0xe5]


# ---------------------------------------------------------------- slot construction
def cks(name11):
    s = 0
    for b in name11:
        s = (((s << 7) & 0xFF) + (s >> 1) + b) & 0xFF
    return s


def sfn(name=b"FILE    TXT", attr=0x20, res=0, ct0=0, ct=0, cd=0, ad=0, hi=0, mt=0, md=0, lo=0, size=0):
    assert len(name) == 11
    b = bytes(name) + bytes([attr, res, ct0])
    for v in (ct, cd, ad, hi, mt, md, lo):
        b += v.to_bytes(2, "little")
    return b + size.to_bytes(4, "little")


def lfn(order, units, ck, attr=0x0F, typ=0, res=0):
    assert len(units) == 13
    u = [x.to_bytes(2, "little") for x in units]
    return bytes([order]) + b"".join(u[0:5]) + bytes([attr, typ, ck]) + b"".join(u[5:11]) + res.to_bytes(2, "little") + b"".join(u[11:13])


def name_parts(units):
    """13-unit parts of a name as a conforming writer stores them (NUL then 0xFFFF padding)."""
    u = list(units)
    if len(u) % 13:
        u.append(0)
        while len(u) % 13:
            u.append(0xFFFF)
    return [u[i:i + 13] for i in range(0, len(u), 13)]


def good_run(units, name11, bad_ck_at=None):
    ps = name_parts(units)
    n = len(ps)
    ck = cks(name11)
    out = []
    for i in range(n, 0, -1):
        c = ck if bad_ck_at != i else (ck ^ 0x5A)
        out.append(lfn(i | (0x40 if i == n else 0), ps[i - 1], c))
    return out


DEL_SFN = sfn(b"\xe5ELETED TXT")
VOL = sfn(b"VOLLABEL   ", attr=0x08)
END = bytes(32)


def part(ch, nul_at=None):
    p = [ch] * 13
    if nul_at is not None:
        p[nul_at] = 0
        for j in range(nul_at + 1, 13):
            p[j] = 0xFFFF
    return p


# ---------------------------------------------------------------- case generators: each yields (tag, [slot bytes])
def gen_patterns(rng, tier):
    """order/flag/checksum patterns for runs of up to 3 long-name slots before one short entry."""
    name = b"PATTERN BIN"
    ck = cks(name)
    short = sfn(name, size=7)
    choices = [(o, good) for o in ORDERS for good in (True, False)]
    def mk(combo, nul, sep=None, sep_pos=0, prefix=None):
        slots = list(prefix or [])
        for j, (o, good) in enumerate(combo):
            if sep is not None and sep_pos == j:
                slots.append(sep)
            slots.append(lfn(o, part(0x61 + j, 5 if (nul and j == len(combo) - 1) else None), ck if good else ck ^ 0x33))
        if sep is not None and sep_pos == len(combo):
            slots.append(sep)
        slots.append(short)
        # a second, regular entry after it: must always be listed with its own name
        slots += good_run([0x74, 0x61, 0x69, 0x6c], b"TAIL       ") + [sfn(b"TAIL       ", attr=0x10)]
        return slots
    combos = [(a,) for a in choices] + [(a, b) for a in choices for b in choices]
    c3 = [(a, b, c) for a in choices for b in choices for c in choices]
    if tier == "quick":
        rng.shuffle(c3)
        c3 = c3[:4000]
    for combo in combos + c3:
        for nul in ((False, True) if (tier != "quick" or len(combo) < 3) else (rng.chance(1, 2),)):
            yield ("pattern", mk(combo, nul))
    # separators (deleted short, deleted long, volume label) at every gap, orphan runs in front
    seps = [DEL_SFN, lfn(0xE5, part(0x7A), ck), VOL]
    prefixes = [[lfn(0x43, part(0x41), ck)], [lfn(0x43, part(0x41), ck), lfn(0x02, part(0x42), ck)],
                [lfn(0x42, part(0x41), ck ^ 1)], [lfn(0x54, part(0x41), ck)], [lfn(0x41, part(0x41), ck), lfn(0x41, part(0x42), ck)],
                [lfn(0x42, part(0x41), ck), lfn(0x42, part(0x42), ck)]]
    base = combos if tier != "quick" else [c for c in combos if rng.chance(1, 4)]
    for combo in base:
        for sep in seps:
            for pos in range(len(combo) + 1):
                yield ("separator", mk(combo, False, sep, pos))
        for pf in prefixes:
            yield ("orphan-prefix", mk(combo, False, None, 0, pf))
    c3s = c3 if tier == "quick" else c3[::3]
    for combo in c3s[:(300 if tier == "quick" else len(c3s))]:
        yield ("separator", mk(combo, False, rng.choice(seps), rng.range(0, 3)))
        yield ("orphan-prefix", mk(combo, False, None, 0, rng.choice(prefixes)))


def gen_single_bytes(rng, tier):
    """every value of each single byte of a short slot and of a long-name slot (inside a complete 2-slot run)."""
    name = b"BYTES   DAT"
    units = [0x62] * 20
    run = good_run(units, name)
    short = sfn(name, attr=0x20, res=0x18, ct0=123, ct=0x6b2f, cd=0x5345, ad=0x5346, hi=0, mt=0x7a31, md=0x5347, lo=3, size=1234)
    step = 1 if tier != "quick" else 5
    for pos in range(32):
        for v in range(0, 256, 1) if (tier != "quick" or pos in (0, 11, 12, 13)) else range(pos % step, 256, step):
            s = bytearray(short); s[pos] = v
            yield ("short-byte", run + [bytes(s)] + [sfn(b"AFTER      ")])
    for which in (0, 1):
        for pos in range(32):
            for v in range(0, 256, 1) if (tier != "quick" or pos in (0, 11, 13)) else range((pos + which) % step, 256, step):
                r = [bytearray(x) for x in run]; r[which][pos] = v
                yield ("lfn-byte", [bytes(x) for x in r] + [short] + [sfn(b"AFTER      ")])


def gen_long(rng, tier):
    """runs of 19, 20 and 21 slots (247..273 units), NUL positions around 255, index 20/21 flags."""
    name = b"LONGNAMEBIN"
    ck = cks(name)
    short = sfn(name)
    for n in (1, 2, 13, 19, 20, 21, 31):
        for nulpos in (None, 0, 1, 12, 13, 254, 255, 256, 259):
            units = [0x30 + (i % 40) for i in range(13 * n)]
            if nulpos is not None and nulpos < len(units):
                units[nulpos] = 0
            ps = [units[i:i + 13] for i in range(0, len(units), 13)]
            slots = [lfn((i & 0x1F) | (0x40 if i == n else 0), ps[i - 1], ck) for i in range(n, 0, -1)]
            yield ("long-run", slots + [short, sfn(b"AFTER      ")])
            # preceded by an abandoned 20-slot run of other text (stale buffer content)
            stale = [lfn(20 | 0x40, part(0x58), ck)] + [lfn(i, part(0x58), ck) for i in range(19, 1, -1)]
            yield ("long-run-after-orphan", stale + slots + [short])
    # exactly 255 units without terminator is impossible (255 = 19*13 + 8): 255 units + NUL
    units = [0x41 + (i % 26) for i in range(255)]
    yield ("long-run", good_run(units, name) + [short])
    units = [0x41 + (i % 26) for i in range(247)]
    yield ("long-run", good_run(units, name) + [short])
    # a directory completely full of slots (no end marker): long-name slots at the very end
    full = []
    for i in range(REGION_SLOTS // 2 - 1):
        nm = b"F%07dTXT" % i
        full += good_run([0x66, 0x30 + i % 10], nm) + [sfn(nm)]
    full += [lfn(0x42, part(0x71), 0), lfn(0x01, part(0x72), 0)]
    yield ("full-directory", full)
    full2 = full[:-2] + good_run([0x6c, 0x61, 0x73, 0x74], b"LAST       ") + [sfn(b"LAST       ")]
    yield ("full-directory", full2)


def gen_interrupted(rng, tier):
    """what an interrupted remove / rename leaves (slots are marked 0xE5 head first) and what a re-used hole can hold: a complete
    n-slot run whose first k slots carry 0xE5 in byte 0 (the deletion mark READS like order 5 + last-flag), k = 1..n, for every
    n = 1..20; the same with the deleted head replaced by a deleted slot of another name with the same checksum byte; deleted
    slots between the live ones"""
    for n in range(1, 21):
        name = (b"N%02dSLOTS" % n)[:8].ljust(8) + b"BIN"
        ck = cks(name)
        units = [0x61 + (i % 26) for i in range(13 * n - (n % 3))]
        run = good_run(units, name)
        short = sfn(name)
        for k in range(1, n + 1):
            dead = [b"\xe5" + x[1:] for x in run[:k]]
            yield ("interrupted-remove", dead + run[k:] + [short, sfn(b"AFTER      ")])
        foreign = b"\xe5" + lfn(0x41, [0x46, 0x4f, 0x52, 0x45, 0x49, 0x47, 0x4e, 0x2d, 0x54, 0x41, 0x49, 0x4c, 0x21], ck)[1:]
        yield ("interrupted-remove", [foreign] + run[1:] + [short])
        yield ("interrupted-remove", [foreign, foreign] + run[1:] + [short])
        if n >= 3:
            yield ("interrupted-remove", run[:1] + [b"\xe5" + run[1][1:]] + run[2:] + [short])
            yield ("interrupted-remove", run[:2] + [DEL_SFN] + run[2:] + [short])
        # the short entry deleted, the run alive, another short entry with the same checksum behind it
        yield ("interrupted-remove", run + [b"\xe5" + short[1:], short])


def gen_content(rng, tier):
    """unpaired surrogates, 0x05 lead byte, lowercase flags, illegal characters, out-of-range dates/times."""
    name = b"CONTENT TXT"
    for units in ([0xD800], [0xDC00], [0xD800, 0x41], [0xDC00, 0xD800], [0xD83D, 0xDE00], [0xD800, 0xD800, 0xDC00], [0x41, 0xDFFF],
                  [0xFFFF], [0xFFFE, 0xFFFF], [0x41, 0xFFFF, 0xFFFF], [0x2F, 0x5C, 0x3A, 0x2A, 0x3F, 0x22, 0x3C, 0x3E, 0x7C], [0x01, 0x1F, 0x7F],
                  [0x2E], [0x2E, 0x2E], [0x20, 0x20], [0x41] * 13, [0x41] * 26, [0xD800] * 13, [0xDBFF, 0xDFFF] * 6 + [0xDBFF]):
        yield ("units", good_run(units, name) + [sfn(name)])
    for raw in (b"\x05BCDEFGHTXT", b"\x05          ", b"        TXT", b"           ", b"A       B  ", b"A B C D E F", b"\xe5\xe5\xe5\xe5\xe5\xe5\xe5\xe5\xe5\xe5\xe5"[:0] + b"X\xe5\xe5\xe5\xe5\xe5\xe5\xe5\xe5\xe5\xe5",
                b"\xff\xfe\x80\x81\x9a\xa0\xb0\xc0\xd0\xe0\xf0", b"abcdefghijk", b"A.B.C.D.E.F", b"\x7f\x01\x02\x03\x04\x06\x07\x08\x09\x0a\x0b",
                b".          ", b"..         ", b"NAME    E  ", b"       AEXT"):
        for res in (0, 0x08, 0x10, 0x18, 0xFF):
            yield ("short-name", [sfn(raw, res=res)])
            yield ("short-name", good_run([0x6c, 0x6e], raw) + [sfn(raw, res=res)])
    for w in (0, 1, 0x001F, 0x0020, 0x01E0, 0x01FF, 0x0200, 0x21, 0x1A0, 0x1BF, 0xFE00, 0xFFFF, 0xFF9F, 0x7FFF, 0x8000):
        for t in (0, 0x001F, 0x07E0, 0xF800, 0xBF7D, 0xC000, 0xFFFF, 0x07FF):
            for h in (0, 99, 100, 199, 200, 255):
                yield ("stamps", [sfn(b"STAMPS  BIN", ct0=h, ct=t, cd=w, ad=w, mt=t, md=w)])
    for attr in range(256):
        yield ("attr", good_run([0x61, 0x74], b"ATTR    BIN") + [sfn(b"ATTR    BIN", attr=attr, hi=0xFFFF, lo=0xFFFF, size=0xFFFFFFFF), sfn(b"NEXT       ")])
        yield ("attr", [lfn(0x41, part(0x61, 2), cks(b"ATTR    BIN"), attr=attr), sfn(b"ATTR    BIN")])


def gen_soup(rng, tier):
    n = 1500 if tier == "quick" else 20000
    for i in range(n):
        k = rng.range(1, 40)
        slots = []
        name = bytes([rng.choice(b"ABCDEFGHIJKLMNOPQRSTUVWXYZ0123456789 \x05\xe5a.\x80")] * 1) + bytes(rng.choice(b"ABC 12") for _ in range(10))
        for _ in range(k):
            r = rng.below(100)
            if r < 12:
                slots.append(bytes(rng.below(256) for _ in range(32)))
            elif r < 22:
                # random bytes but LFN attribute and plausible order
                b = bytearray(rng.below(256) for _ in range(32)); b[11] = 0x0F; b[0] = rng.choice(ORDERS + [0x44, 0x04, 0x05, 0x45])
                slots.append(bytes(b))
            elif r < 70:
                o = rng.choice([1, 2, 3, 4, 5, 0x41, 0x42, 0x43, 0x44, 0x45, 0x54, 0x14, 0x13, 0x15, 0x55, 0x60, 0x40, 0x81, 0xC1, 0x21, 0x61])
                ck = cks(name) if rng.chance(4, 5) else rng.below(256)
                p = [rng.choice([0x41, 0x62, 0, 0xFFFF, 0xD800, 0xDC00, 0x20AC, 0x2E]) if rng.chance(1, 6) else 0x61 + rng.below(26) for _ in range(13)]
                slots.append(lfn(o, p, ck))
            elif r < 76:
                slots.append(rng.choice([DEL_SFN, VOL, lfn(0xE5, part(0x7A), cks(name))]))
            elif r < 78 and tier != "quick":
                slots.append(END)
            else:
                slots.append(sfn(name, attr=rng.choice([0x20, 0x10, 0x00, 0x27, 0x08, 0x0E, 0x4F, 0x8F]), res=rng.choice([0, 8, 16, 24]),
                                 ct0=rng.below(256), ct=rng.below(65536), cd=rng.below(65536), ad=rng.below(65536), mt=rng.below(65536),
                                 md=rng.below(65536), hi=rng.below(65536), lo=rng.below(65536), size=rng.below(2 ** 32)))
                if rng.chance(1, 2):
                    name = bytes(rng.choice(b"ABCDEFGHIJ KLMNOP0123\x05") for _ in range(11))
        # well-formed runs generated in sequence most of the time: 1..20 slots, sometimes one defect
        if rng.chance(1, 2):
            n2 = rng.range(1, 20)
            units = [0x61 + rng.below(26) for _ in range(rng.range(13 * (n2 - 1) + 1, 13 * n2))]
            run = good_run(units, name, bad_ck_at=(rng.range(1, n2) if rng.chance(1, 5) else None))
            if rng.chance(1, 5):
                j = rng.below(len(run)); run.pop(j)
            elif rng.chance(1, 5):
                j = rng.below(len(run)); a = rng.below(len(run)); run[j], run[a] = run[a], run[j]
            slots += run + [sfn(name)]
        yield ("soup", slots[:REGION_SLOTS])


# ---------------------------------------------------------------- volumes
def volumes():
    """(tag, setup lines, dir handle, pre-commands that need the geometry -> filled by prepare())"""
    return [
        ("fat12-root", ["dev 1048576 0", "wlog 0", "format - - - 12 %d - - - -" % REGION_SLOTS]),
        ("fat32-root-chain", ["dev 41943040 0", "wlog 0", "format - - 512 32 - - - - -"]),
        ("fat12-subdir-chain", ["dev 1048576 0", "wlog 0", "format - - - 12 - - - - -"]),
    ]


def prepare(tag, setup, variant):
    """returns (setup lines incl. mount and chain construction, region offset, dir handle)"""
    res = vlib.run_scripts([setup + ["dump 0 512"]], variant)[0]
    assert all(r.kind == "ok" for r in res), res
    g = Geom(bytes.fromhex(res[-1].payload))
    nclus = REGION_SLOTS * 32 // g.cluster_size
    if tag == "fat12-root":
        assert g.root_entries == REGION_SLOTS and g.bits == 12
        return setup + ["mount 1 0 lossy"], g.root_off, 0
    if tag == "fat32-root-chain":
        assert g.bits == 32 and g.root_cluster == 2 and g.cluster_size == 512
        fat = b""
        for c in range(2, 2 + nclus):
            fat += ((c + 1) if c < 1 + nclus else 0x0FFFFFFF).to_bytes(4, "little")
        return setup + ["poke %d %s" % (g.fat_off + 8, fat.hex()), "mount 1 0 lossy"], g.cluster_off(2), 0
    if tag == "fat12-subdir-chain":
        assert g.bits == 12 and g.cluster_size == 512
        pre = vlib.run_scripts([setup + ["mount 1 0 lossy", "create_dir 0 %s 1" % vlib.hexs("D"), "drop_all", "unmount", "dump %d 128" % g.root_off]], variant)[0]
        assert all(r.kind == "ok" for r in pre), pre
        raw = bytes.fromhex(pre[-1].payload)
        ent = next(raw[k:k + 32] for k in range(0, 128, 32) if raw[k:k + 11] == b"D          " and raw[k + 11] == 0x10)
        c0 = ent[26] | (ent[27] << 8)
        assert ent[:11] == b"D          " and c0 >= 2
        # FAT12 chain c0 -> c0+1 -> ... (clusters after c0 are free on the fresh volume); rewrite the packed entries
        vals = {c0 + i: (c0 + i + 1 if i < nclus - 1 else 0xFFF) for i in range(nclus)}
        first = c0 - (c0 % 2)
        fat = b""
        for c in range(first, c0 + nclus + 1, 2):
            a = vals.get(c, 0xFFF if c < c0 else 0); b = vals.get(c + 1, 0)
            fat += bytes([a & 0xFF, (a >> 8) | ((b & 0xF) << 4), b >> 4])
        lines = setup + ["mount 1 0 lossy", "create_dir 0 %s 1" % vlib.hexs("D"), "drop_all", "unmount",
                         "poke %d %s" % (g.fat_off + first * 3 // 2, fat.hex()), "mount 1 0 lossy", "open_dir 0 %s 1" % vlib.hexs("D")]
        return lines, g.cluster_off(c0), 1
    raise ValueError(tag)


def run_cases(cases, variant, prep, chunk=400):
    """-> list of ("ok", [entry token lists]) | (kind, payload) per case, plus the script that reproduces each"""
    lines0, off, handle = prep
    out = [None] * len(cases)
    scripts = [None] * len(cases)
    todo = list(range(len(cases)))
    while todo:
        batch = [todo[i:i + chunk] for i in range(0, len(todo), chunk)]
        scs = []
        for b in batch:
            sc = list(lines0) + ["budget 20000000"]
            for i in b:
                data = b"".join(cases[i][1])
                if len(cases[i][1]) < REGION_SLOTS:
                    data += END
                sc += ["poke %d %s" % (off, data.hex()), "list %d" % handle]
            scs.append(sc)
        res = vlib.run_scripts(scs, variant)
        todo = []
        for b, sc, rs in zip(batch, scs, res):
            base = len(lines0) + 1
            if not all(r.kind == "ok" for r in rs[:base]):
                raise RuntimeError("volume setup failed: %r" % [r for r in rs[:base] if r.kind != "ok"][:2])
            dead = False
            for k, i in enumerate(b):
                if dead:
                    todo.append(i); continue
                r = rs[base + 2 * k + 1]
                scripts[i] = list(lines0) + sc[base + 2 * k: base + 2 * k + 2]
                if r.kind == "ok":
                    out[i] = ("ok", r.extra)
                else:
                    out[i] = (r.kind, r.payload)
                    if r.kind in ("panic", "hang"):
                        dead = True
    return out, scripts


def norm_impl(ents, variant):
    n = 10 if variant == "default" else 8
    return [e[:n] for e in ents]


def norm_model(line, variant):
    if line == "-":
        return []
    n = 10 if variant == "default" else 8
    return [e.split(" ")[:n] for e in line.split("|")]


def run(rep, tier, seed):
    rng = vlib.Rng(seed)
    cases = []
    for g in (gen_patterns, gen_single_bytes, gen_long, gen_interrupted, gen_content, gen_soup):
        cases += list(g(rng, tier))
    dist = {}
    for tag, _ in cases:
        dist[tag] = dist.get(tag, 0) + 1
    # ---- model (both variants) and spec on every case
    minp = []
    for tag, slots in cases:
        hx = b"".join(slots).hex()
        minp += ["vec " + hx, "fixed " + hx, "spec " + hx]
    mout = vlib.model_run("c17", "\n".join(minp) + "\n")
    assert len(mout) == len(minp)
    model = {"vec": mout[0::3], "fixed": mout[1::3], "spec": mout[2::3]}
    nmodel = 0
    for i, (tag, slots) in enumerate(cases):
        for w in ("vec", "fixed"):
            if nmodel >= 2:
                break
            if model[w][i] in ("panic", "fuel") or model[w][i].startswith("err"):
                nmodel += 1
                rep.violation("model (%s buffer) is not total on a %s case: %s" % (w, tag, model[w][i]),
                              {"theorem": "C17_read_dir_total", "slots_hex": b"".join(slots).hex()}, nofail=True)
            elif model[w][i] != model["spec"][i]:
                nmodel += 1
                rep.violation("model (%s buffer) differs from lfn_spec on a %s case" % (w, tag),
                              {"theorem": "C17_lfn_sound", "slots_hex": b"".join(slots).hex(), "model": model[w][i][:600], "spec": model["spec"][i][:600]}, nofail=True)
    # ---- implementation, both builds, three directory kinds
    vols = volumes()
    nfail = 0
    stats = {"entries_listed": 0, "with_long_name": 0, "fallback_to_short": 0, "max_units": 0}
    for vi, (vtag, setup) in enumerate(vols):
        # the fixed root sees every case; the chain-backed directories a deterministic subset in the quick tier
        idx = list(range(len(cases))) if (vi == 0 or tier != "quick") else [i for i in range(len(cases)) if i % 2 == vi - 1 or cases[i][0] in ("long-run", "full-directory", "long-run-after-orphan", "interrupted-remove")]
        sub = [cases[i] for i in idx]
        for variant in VARIANTS:
            prep = prepare(vtag, setup, variant)
            outs, scripts = run_cases(sub, variant, prep)
            for j, i in enumerate(idx):
                tag, slots = cases[i]
                rep.count()
                kind, val = outs[j]
                if kind != "ok":
                    nfail += 1
                    if nfail <= 3:
                        what = bytes.fromhex(val).decode("utf-8", "replace")[:200] if kind == "panic" and val not in ("", "-") else val
                        rep.violation("listing a crafted directory (%s, %s build, case %s) ended with %s: %s" % (vtag, variant, tag, kind, what),
                                      {"script": scripts[j]}, nofail=(kind not in ("panic", "hang")))
                    continue
                got = norm_impl(val, variant)
                exp_spec = norm_model(model["spec"][i], variant)
                exp_model = norm_model(model[MODEL_OF[variant]][i], variant)
                stats["entries_listed"] += len(got)
                for e in got:
                    nu = 0 if e[0] == "-" else len(e[0]) // 4
                    stats["max_units"] = max(stats["max_units"], nu)
                    stats["with_long_name" if nu else "fallback_to_short"] += 1
                    if nu > 255:
                        nfail += 1
                        if nfail <= 3:
                            rep.violation("a long name of %d UTF-16 units was returned (%s, %s build, case %s)" % (nu, vtag, variant, tag), {"script": scripts[j]})
                if got != exp_spec:
                    nfail += 1
                    if nfail <= 3:
                        d = next((k for k in range(max(len(got), len(exp_spec))) if k >= len(got) or k >= len(exp_spec) or got[k] != exp_spec[k]), 0)
                        rep.violation("listing differs from the specification (lfn_spec) on the same slots (%s, %s build, case %s): entry %d listed %s, expected %s"
                                      % (vtag, variant, tag, d, got[d] if d < len(got) else None, exp_spec[d] if d < len(exp_spec) else None),
                                      {"script": scripts[j]})
                elif got != exp_model:
                    nfail += 1
                    if nfail <= 3:
                        rep.violation("correspondence Model/Lfn.v (%s) vs implementation (%s build) broken on %s case" % (MODEL_OF[variant], variant, tag),
                                      {"script": scripts[j], "theorem": "correspondence read_dir", "model": exp_model[:4], "impl": got[:4]}, nofail=True)
                else:
                    rep.distinct((vtag, variant, i))
                    rep.cov["traces_validated_against_impl"] += 1
            if vi == 0 and variant == "default":
                for i in (0, len(cases) // 2, len(cases) - 1):
                    rep.sample({"case": cases[i][0], "slots_hex": b"".join(cases[i][1]).hex()[:400], "listed": [e[:3] for e in outs[idx.index(i)][1][:3]] if outs[idx.index(i)][0] == "ok" else outs[idx.index(i)]})
    rep.cov["distribution"] = {"cases_by_kind": dist, "slots_per_case_max": max(len(s) for _, s in cases), **stats}
    rep.cov["rule"] = ("a case is a crafted directory region (list of 32-byte slots) placed into the fixed FAT12 root, a FAT32 root cluster chain and a FAT12 "
                       "sub-directory chain and listed with every accessor by the alloc and the fixed-buffer build; counted distinct when (volume kind, build, case) "
                       "listed without panic and equal to both the extracted lfn_spec and the model variant; cases are distinct by construction "
                       "(order/flag/checksum pattern, byte position x value, run length, content class, or seeded soup)")


def replay(rj):
    """./check C17 --replay file: runs the failing script under both builds and prints what is listed"""
    import json
    r = rj.get("replay", {})
    sc = r.get("script")
    print(rj.get("what", "")[:1000])
    if sc:
        for v in VARIANTS:
            vlib.harness_build(v)
            res = vlib.run_scripts([sc], v)[0]
            print("== %s build" % v)
            for x in res[-2:]:
                print(x.line[:120], "->", x.kind, x.payload[:200])
                for e in x.extra:
                    print("   e", " ".join(e)[:400])
    else:
        print(json.dumps(r, indent=1)[:3000])
    return 0
