"""C05 - free-space accounting is exact and space is fully reclaimed: `stats` is compared with the number of free entries
the independent decoder counts in the raw table, the FS-info sector after unmount with the same count and an in-range hint,
out-of-space errors with the raw free count, and fill/delete cycles with the initial capacity."""
import vlib, sessions
from vlib import hexs
from props import sess_common as sc
from props import csess_corr
from props import cfsinfo_corr

PROP_FILES = ["Props/C05.v"]
FILL_TAG = "fill0_".encode().hex()        # names are hex-encoded in script lines

def fill_cycle_session(rng, conf, cycles):
    label, size, fmt = conf
    toks = fmt.split()
    bps = 512 if toks[1] == "-" else int(toks[1])
    cs = bps if toks[3] == "-" else int(toks[3])
    head = ["dev %d 0" % size, "wlog 0", fmt, "pages", "wlog 1", "mount 1 0 lossy", "stats"]
    lines = []
    h = 1
    for c in range(cycles):
        names = []
        k = 0
        # fill: files of assorted sizes until the volume is full
        for k in range(rng.range(3, 7)):
            nm = "fill%d_%d.dat" % (c, k)
            names.append(nm)
            lines += ["create_file 0 %s %d" % (hexs(nm), h)]
            big = rng.chance(1, 3)
            nbytes = (size if big else rng.range(0, 6) * cs + rng.range(0, cs))
            lines += ["write_pat %d %d %d" % (h, min(nbytes, 250000), rng.below(256)), "drop_file %d" % h, "stats"]
            h += 1
        if rng.chance(1, 2):
            lines += ["create_dir 0 %s 0" % hexs("d%d" % c), "create_file 0 %s 0" % hexs("d%d/inner with long name.txt" % c), "stats"]
            names += ["d%d/inner with long name.txt" % c, "d%d" % c]
        if rng.chance(1, 2) and names:
            # truncate one of them in the middle
            nm = names[0]
            lines += ["open_file 0 %s %d" % (hexs(nm), h), "seek %d start %d" % (h, rng.range(0, 3 * cs)), "truncate %d" % h,
                      "drop_file %d" % h, "stats"]
            h += 1
        for nm in names:
            lines += ["remove 0 %s" % hexs(nm), "stats"]
    lines += ["drop_all", "unmount", "mount 1 0 lossy", "stats", "unmount"]
    return head + lines

_geom_cache = {}
def geom_of(conf):
    """geometry of a freshly formatted volume of this configuration (from its boot sector)"""
    import fatimg
    if conf[0] not in _geom_cache:
        r = vlib.run_scripts([["dev %d 0" % conf[1], "wlog 0", conf[2], "dump 0 512"]])[0]
        _geom_cache[conf[0]] = fatimg.Geom(bytes.fromhex(r[-1].payload))
    return _geom_cache[conf[0]]

def hint_session(rng, conf, idx=None):
    """FAT32: the next-free hint of the FS-info sector placed at / around the last cluster before mounting"""
    g = geom_of(conf)
    last = g.clusters + 1
    hints = [last, last - 1, last + 1, last - 2, 2, 0xFFFFFFFF, 3, 0, 1, last + 2]
    hint = hints[idx % len(hints)] if idx is not None else rng.choice(hints)
    fsi = g.bps * 1
    head = ["dev %d 0" % conf[1], "wlog 0", conf[2], "poke %d %s" % (fsi + 492, hint.to_bytes(4, "little").hex()), "pages", "wlog 1",
            "mount 1 0 lossy", "stats"]
    lines = []
    # when the hint is j clusters before the last one, allocate exactly j+1 clusters so that the very last
    # cluster is the most recent allocation when the volume is unmounted
    nalloc = (last - hint + 1) if last - 2 <= hint <= last else rng.range(1, 3)
    for k in range(nalloc):
        lines += ["create_file 0 %s %d" % (hexs("h%d.bin" % k), k + 1), "write_pat %d %d %d" % (k + 1, rng.range(1, g.cluster_size), k),
                  "drop_file %d" % (k + 1), "stats"]
    if not (last - 2 <= hint <= last) and rng.chance(1, 2):
        lines += ["create_dir 0 %s 0" % hexs("hd"), "stats"]
    lines += ["drop_all", rng.choice(["unmount", "dropfs"]), "mount 1 0 lossy", "stats", "unmount"]
    return head + lines

def free_only_session(rng, conf):
    """a mount session that only allocates, then one that only frees (remove / truncate), each ended by unmount:
    the FS-info sector written by the second one must carry the grown count"""
    g = geom_of(conf)
    head = ["dev %d 0" % conf[1], "wlog 0", conf[2], "pages", "wlog 1", "mount 1 0 lossy", "stats"]
    lines = []
    names = []
    for k in range(rng.range(2, 4)):
        nm = "keep%d.bin" % k; names.append(nm)
        lines += ["create_file 0 %s %d" % (hexs(nm), k + 1), "write_pat %d %d %d" % (k + 1, rng.range(2, 12) * g.cluster_size + rng.range(0, 9), k),
                  "drop_file %d" % (k + 1)]
    lines += ["stats", "drop_all", "unmount", "mount 1 0 lossy"]
    how = rng.below(3)
    if how == 0:
        lines += ["remove 0 %s" % hexs(names[0])]
    elif how == 1:
        lines += ["open_file 0 %s 9" % hexs(names[0]), "seek 9 start %d" % rng.range(0, g.cluster_size), "truncate 9", "drop_file 9"]
    else:
        lines += ["remove 0 %s" % hexs(n) for n in names]
    lines += ["drop_all", rng.choice(["unmount", "dropfs"]), "mount 1 0 lossy", "stats", "unmount"]
    return head + lines

def _unused():
    lines = []
    if rng.chance(1, 2):
        lines += ["create_dir 0 %s 0" % hexs("hd"), "stats"]
    lines += ["drop_all", rng.choice(["unmount", "dropfs"]), "mount 1 0 lossy", "stats", "unmount"]
    return head + lines

def run(rep, tier, seed):
    rng = vlib.Rng(seed)
    confs = sessions.configs(tier)
    small = [c for c in confs if not c[0].startswith("fat32") and c[0] not in ("fat16-c2k-1fat",)]
    n = 40 if tier == "quick" else 600
    scripts = []
    for i in range(n):
        if i % 5 == 4:
            conf = [c for c in confs if c[0].startswith("fat32")][(i // 5) % 2]
            scripts.append(fill_cycle_session(rng, conf, 1) if i % 10 == 9 else sessions.gen_session(rng, conf, 30) + ["stats", "drop_all", "unmount"])
        elif i % 2:
            scripts.append(fill_cycle_session(rng, small[i % len(small)], rng.range(1, 3)))
        else:
            s = sessions.gen_session(rng, small[i % len(small)], 40)
            # sprinkle stats
            out = s[:6]
            for l in s[6:]:
                out.append(l)
                if rng.chance(1, 4): out.append("stats")
            scripts.append(out + ["stats", "drop_all", "unmount"])
    for i in range(12 if tier == "quick" else 120):
        scripts.append(hint_session(rng, [c for c in confs if c[0].startswith("fat32")][i % 2], i // 2))
    for i in range(6 if tier == "quick" else 80):
        scripts.append(free_only_session(rng, [c for c in confs if c[0].startswith("fat32")][i % 2]))
    for i in range(6 if tier == "quick" else 100):
        scripts.append(sessions.full_dir_session(rng, "root" if i % 3 else "chain"))
    # volumes whose FAT has no spare entry behind the last cluster: filling them up makes the free-cluster scan reach the
    # very end of the table; NotEnoughSpace must come exactly when nothing is free
    for (bits, bpc, start) in ((32, 512, 66600), (16, 512, 4400), (12, 512, 300)):
        ts = vlib.exact_fit_sectors(512, bpc, start, bits)
        if ts is not None:
            conf = ("fat%d-exactfit" % bits, ts * 512, "format 512 %d %d %d %s 2 - - -" % (ts, bpc, bits, "-" if bits == 32 else "32"))
            if bits == 32:
                # too large to fill byte by byte: the hint of the FS-info sector is put at / around the last cluster instead
                for k in range(4 if tier == "quick" else 10):
                    scripts.append(hint_session(rng, conf, k))
            else:
                for k in range(1 if tier == "quick" else 6):
                    scripts.append(fill_cycle_session(rng, conf, 2))
    # maximal-size FAT12/16 volumes with only the last clusters free: fill / delete cycles through the top cluster numbers
    for bits in (12, 16):
        t = sessions.topfree_volume(bits, keep=14)
        if t is not None:
            label, head, cs, keep = t
            for k in range(1 if tier == "quick" else 6):
                lines = ["stats"]
                for c in range(3):
                    lines += ["create_file 0 %s 1" % hexs("fill0_%d.bin" % c), "write_pat 1 %d %d" % (keep * cs + 5, c), "drop_file 1", "stats",
                              "create_file 0 %s 2" % hexs("fill0_more%d.bin" % c), "write_pat 2 %d %d" % (cs, c), "drop_file 2", "stats",
                              "remove 0 %s" % hexs("fill0_%d.bin" % c), "stats", "remove 0 %s" % hexs("fill0_more%d.bin" % c), "stats"]
                scripts.append(head + lines + ["drop_all", "unmount", "mount 1 0 lossy", "stats", "unmount"])
    # the same volumes filled to the very top by ordinary writes (chains END in the highest cluster number), removed, truncated, re-filled
    for bits in ((12,) if tier == "quick" else (12, 16)):
        scripts += sessions.top_fill_sessions(bits)
    scripts += [sc_ for _, sc_ in sessions.matrix_sessions(rng, tier)]        # the standard script (stats at several points) on every boundary volume
    judged = sessions.run_judged(scripts, flags=("infos",), shards=16)
    nstats = 0; nnospace = 0; nunmount32 = 0; ncreate_nospace = 0
    for jd in judged:
        rep.count()
        f = sc.Findings(jd)
        ok = sc.report(rep, jd, f, (), "C05")     # crashes only
        upto = f.stop_at if f.stop_at is not None else len(jd.ops)
        initial_free = None
        for oi, o in enumerate(jd.ops[:upto]):
            info = jd.info.get(oi)
            if info is None:
                continue
            name = sc.opname(o)
            if name == "stats" and o.kind == "ok":
                nstats += 1
                cs, total, free = o.payload.split(" ")
                if initial_free is None:
                    initial_free = int(free)
                if int(free) != int(info["free"]) or int(total) != int(info["clusters"]):
                    ok = False
                    rep.violation("[C05] stats reports %s free of %s clusters, the raw allocation table has %s free entries of %s (after %s)"
                                  % (free, total, info["free"], info["clusters"], sc.short(jd.ops[oi - 1].line, 60)),
                                  {"script": sc.script_prefix(jd, oi)})
                    break
            if o.kind == "err" and o.payload.split(" ")[0] == "NotEnoughSpace":
                nnospace += 1
                if name in ("create_file", "create_dir", "rename"):
                    ncreate_nospace += 1
                    msg = sc.unjustified_nospace(jd, oi, o)
                    if msg:
                        ok = False
                        rep.violation("[C05] " + msg, {"script": sc.script_prefix(jd, oi)})
                        break
                if name in ("write", "write_all", "write_pat") and int(info["free"]) != 0:
                    ok = False
                    rep.violation("[C05] %s -> NotEnoughSpace although the raw table still has %s free clusters" % (sc.short(o.line, 60), info["free"]),
                                  {"script": sc.script_prefix(jd, oi)})
                    break
            if name in ("unmount", "dropfs") and o.kind == "ok" and info["bits"] == "32":
                nunmount32 += 1
                fsfree = int(info["fsfree"]); fsnext = int(info["fsnext"]); total = int(info["clusters"])
                wrote = any(e[0] == "w" and int(e[1]) // 512 >= 1 and int(e[1]) < 2 * 4096 for e in o.events)
                if fsfree != 0xFFFFFFFF and fsfree != int(info["free"]):
                    ok = False
                    rep.violation("[C05] FS-info sector after %s carries free count %d, the raw table has %s free entries" % (name, fsfree, info["free"]),
                                  {"script": sc.script_prefix(jd, oi)})
                    break
                if fsnext != 0xFFFFFFFF and not (2 <= fsnext <= total + 1):
                    ok = False
                    rep.violation("[C05] FS-info sector after %s carries next-free hint %d outside 2..%d" % (name, fsnext, total + 1),
                                  {"script": sc.script_prefix(jd, oi)})
                    break
        # full reclamation: after everything was removed the free count is back to the initial one
        if ok and f.stop_at is None and any(FILL_TAG in l for l in jd.script):
            st = [o for o in jd.ops if sc.opname(o) == "stats" and o.kind == "ok"]
            if len(st) >= 2 and initial_free is not None:
                last_free = int(st[-1].payload.split(" ")[2])
                if last_free != initial_free:
                    lost_known = any(k for (_, _, _, k) in f.items if k)
                    if not lost_known:
                        ok = False
                        rep.violation("[C05] after removing every file the volume has %d free clusters, it had %d when empty (capacity shrank)"
                                      % (last_free, initial_free), {"script": jd.script})
        if ok:
            rep.distinct(tuple(jd.script[6:]))
    rep.cov["stats_compared"] = nstats
    rep.cov["nospace_outcomes"] = nnospace
    rep.cov["nospace_on_create_or_rename_judged"] = ncreate_nospace
    rep.cov["fat32_unmounts_checked"] = nunmount32
    rep.cov["traces_validated_against_impl"] = len(judged)
    sessions.run_crash_continue(rep, "C05", rng, tier, "capacity")
    rep.cov["distribution"] = sc.distribution(judged)
    rep.cov["rule"] = ("fill-to-full / truncate / delete-all cycles on volumes of 30-2000 clusters and random histories with stats at random "
                       "points, FAT12/16 (lazily computed count) and FAT32 (FS-info counter), ending in unmount + remount + stats; compared: "
                       "reported free count vs free entries counted by the independent decoder in the raw table, FS-info words after unmount, "
                       "NotEnoughSpace vs raw free count, capacity after deleting everything; distinct = distinct op sequences without finding")
    rep.sample({"config": scripts[1][2], "ops": [sc.short(l, 80) for l in scripts[1][6:18]]})
    # image level (Model/VolRemove.v, C05_vol_remove_reclaims_all / C05_vol_cycles_keep_capacity): create ; calls ; flush / drop ;
    # remove - whole device against the extracted model after every call, Spec/Abs + Spec/Wf on the device after every remove
    csess_corr.stream(rep, tier, vlib.Rng(seed * 7919 + 5), "C05", n=12 if tier == "quick" else 240)
    # the FS-info sector and the FAT32 status byte inside the image model (Model/VolFsInfo.v) against the library on FAT32 devices
    cfsinfo_corr.stream(rep, tier, vlib.Rng(seed * 4447 + 505), "C05", n=10 if tier == "quick" else 280)
