"""C01 - directory-tree operations behave like a case-insensitive in-memory tree: every outcome of every namespace
call is checked by the extracted abstract tree machine (Spec/Tree.v tree_step), and after every call the tree decoded
from the raw image (Spec/Abs.v) must equal the abstract tree (names, kinds, sizes, contents)."""
import vlib, sessions
from vlib import hexs
from props import sess_common as sc

PROP_FILES = ["Props/C01.v"]

def exhaustive_scripts(conf, maxlen):
    """every op sequence up to maxlen over a small alphabet of names/paths on two directories (thorough tier)"""
    names = ["a", "B", "a-long-name.x"]
    ops = []
    for n in names:
        ops += ["create_file 0 %s 0" % hexs(n), "create_dir 0 %s 0" % hexs(n), "remove 0 %s" % hexs(n),
                "create_file 0 %s 0" % hexs("a/" + n), "remove 0 %s" % hexs("a/" + n)]
        for m in names:
            if m != n:
                ops += ["rename 0 %s 0 %s" % (hexs(n), hexs(m)), "rename 0 %s 0 %s" % (hexs(n), hexs("a/" + m))]
    ops += ["list 0", "open_dir 0 %s 0" % hexs("A"), "open_file 0 %s 0" % hexs("b")]
    head = ["dev %d 0" % conf[1], "wlog 0", conf[2], "pages", "wlog 1", "mount 1 0 lossy"]
    out = []
    def rec(prefix, depth):
        if depth == 0:
            return
        for o in ops:
            out.append(head + prefix + [o, "list 0"])
            rec(prefix + [o], depth - 1)
    rec([], maxlen)
    return out

class _Buffered:
    """collects what a helper stream reports while it runs in its own thread; replayed into the report afterwards"""
    def __init__(self):
        self.cov = {}; self.calls = []
    def count(self): self.calls.append(("count",))
    def distinct(self, k): self.calls.append(("distinct", k))
    def sample(self, x): self.calls.append(("sample", x))
    def violation(self, text, replay, nofail=False): self.calls.append(("violation", text, replay, nofail))
    def replay(self, rep):
        for c in self.calls:
            if c[0] == "count": rep.count()
            elif c[0] == "distinct": rep.distinct(c[1])
            elif c[0] == "sample": rep.sample(c[1])
            else: rep.violation(c[1], c[2], nofail=c[3])
        rep.cov.update(self.cov)


def _cvol_stream(buf, tier, seed):
    # extra stream: WHOLE-DEVICE correspondence of the fixed root directory operations embedded into images (Model/VolDir.v,
    # theorems C01_vol_*) with src/dir.rs + src/fs.rs; runs beside the judged sessions (own executor / model processes)
    try:
        from props import cvol_corr
        cvol_corr.run_stream(buf, tier, seed)
    except Exception as e:
        import traceback
        buf.violation("whole-device root directory correspondence stream crashed: %s" % e,
                      {"theorem_or_correspondence": "tools/props/cvol_corr.py", "traceback": traceback.format_exc()[-2000:]}, nofail=True)


def run(rep, tier, seed):
    import threading
    cvol_buf = _Buffered()
    cvol_thread = threading.Thread(target=_cvol_stream, args=(cvol_buf, tier, seed))
    cvol_thread.start()
    rng = vlib.Rng(seed)
    confs = sessions.configs(tier)
    n = 70 if tier == "quick" else 1200
    scripts = []
    for i in range(n):
        conf = confs[i % len(confs)]
        if conf[0].startswith("fat32") and tier == "quick" and i % 3:
            conf = confs[rng.below(7)]
        scripts.append(sessions.gen_session(rng, conf, 50, file_io=(i % 4 == 0)))
    if tier == "thorough":
        ex = exhaustive_scripts(confs[1], 2) + exhaustive_scripts(confs[0], 2)
        rep.cov["bounded_exhaustive_scripts"] = len(ex)
        scripts += ex
    for i in range(6 if tier == "quick" else 100):
        scripts.append(sessions.full_dir_session(rng, "root" if i % 3 else "chain"))
    # directories of several dozen slots on volumes with larger sectors / clusters (a new directory cluster has to be cleared
    # completely, whatever the sector size; the devices are stale in half of the runs)
    big = [c for c in confs if c[0] in ("fat12-s1k", "fat12-s4k", "fat12-c2k", "fat16-c2k-1fat")]
    for i in range(4 if tier == "quick" else 60):
        scripts.append(sessions.dir_heavy_session(rng, big[i % len(big)], nfiles=rng.range(8, 16), fill=(209, 65, 229, 0)[(i // 4) % 4]))
    # the same on 512-byte clusters (16 slots): most entries straddle or touch a cluster boundary, the directory's clusters are
    # not adjacent, and every entry is finally removed / moved / renamed
    small = [c for c in confs if c[0] in ("fat12-small", "fat12-1fat", "fat16-min")]
    for i in range(3 if tier == "quick" else 40):
        scripts.append(sessions.dir_heavy_session(rng, small[i % len(small)], nfiles=rng.range(8, 16)))
    # the standard script on every boundary volume (exact-fit tables, width boundaries, maximal volumes with only the top clusters
    # free, FAT32 above cluster 0xFFFF, large sectors on stale devices, tiny root)
    scripts += [sc_ for _, sc_ in sessions.matrix_sessions(rng, tier)]
    judged = sessions.run_judged(scripts, flags=("tree", "infos"), shards=16)
    nospace_judged = 0
    for jd in judged:
        f = sc.Findings(jd)
        rep.count()
        ok = sc.report(rep, jd, f, ("tree", "match"), "C01")
        # "one of the documented error kinds that applies": the abstract tree admits NotEnoughSpace anywhere; whether it
        # applied is decided on the raw image (free clusters, room in the fixed root)
        upto = f.stop_at if f.stop_at is not None else len(jd.ops)
        for oi, o in enumerate(jd.ops[:upto]):
            if o.kind == "err" and o.payload.startswith("NotEnoughSpace"):
                nospace_judged += 1
                msg = sc.unjustified_nospace(jd, oi, o)
                if msg:
                    ok = False
                    rep.violation("[C01] " + msg, {"script": sc.script_prefix(jd, oi), "op_index": oi})
                    break
        if ok:
            rep.distinct(tuple(jd.script[6:]))
    rep.cov["nospace_outcomes_judged"] = nospace_judged
    rep.cov["traces_validated_against_impl"] = len(judged)
    rep.cov["distribution"] = sc.distribution(judged)
    rep.cov["rule"] = ("seeded random admissible namespace histories (60% valid ops, rest error-provoking: missing parents, wrong kinds, "
                       "duplicates by case, invalid names, non-empty directories, rename onto self / into other directories / into itself, "
                       "several live handles, decorated paths) on 11 volume configurations; every outcome judged by tree_step and the decoded "
                       "image compared with the abstract tree after every op; thorough adds all op sequences of length <= 2 over a 3-name "
                       "alphabet x 2 directories; distinct = distinct op sequences without unlisted finding")
    rep.sample({"config": scripts[0][2], "ops": [sc.short(l, 80) for l in scripts[0][6:16]]})
    # extra stream: byte-level correspondence of the directory slot layer (Model/DirSlots.v) with src/dir.rs
    try:
        from props import cdir_corr
        cdir_corr.run_stream(rep, tier, seed)
    except Exception as e:
        import traceback
        rep.violation("directory slot layer correspondence stream crashed: %s" % e,
                      {"theorem_or_correspondence": "tools/props/cdir_corr.py", "traceback": traceback.format_exc()[-2000:]}, nofail=True)
    cvol_thread.join()
    cvol_buf.replay(rep)
