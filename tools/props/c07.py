"""C07 - mounting is total: garbage is rejected, never trusted, never a panic.

Three parts (DESIGN.md section 5):
 1. proofs: Props/C07.v over Model/Bpb.v and Spec/BpbSpec.v (built by ./check before this module runs);
 2. correspondence: the real library (executor bulk mode `c07`: FileSystem::new on a copy of a formatted template
    image with poked boot-sector / FS-info bytes) against the extracted model (`mount`, debug and release profile);
 3. direct evaluation of the property on what the real library did, with the extracted *specification*
    (`coherentb`, `spec_geometry` of Spec/BpbSpec.v - not a python re-implementation): a panic/hang, an accepted
    volume that is not coherent, or accepted geometry different from the independent parse is a failing input.
"""
import concurrent.futures, os
import vlib
import fatimg

PROP_FILES = ["Props/C07.v"]
VARIANTS = ["default", "release"]
DEVLEN = 1 << 44          # sparse: every offset a mutated BPB can point at exists (reads deliver zeros)
BUDGET = 300000           # device calls per post-mount observation (a free-cluster scan of up to ~150k clusters)
U32 = 0xFFFFFFFF

# name, bytes_per_sector, total_sectors, bytes_per_cluster, fat type
TEMPLATES = [("f12", "-", 2048, "-", "12"), ("f16", "-", 4400, 512, "16"), ("f32", "-", 78125, 512, "32")]
TEMPLATES_MORE = [("f12b", 1024, 4000, 2048, "12"), ("f16b", 2048, 40000, 4096, "16"), ("f32b", 4096, 70000, 4096, "32")]

COMMON = [("bootjmp0", 0, 1), ("bytes_per_sector", 11, 2), ("sectors_per_cluster", 13, 1), ("reserved_sectors", 14, 2),
          ("fats", 16, 1), ("root_entries", 17, 2), ("total_sectors_16", 19, 2), ("media", 21, 1),
          ("sectors_per_fat_16", 22, 2), ("sectors_per_track", 24, 2), ("heads", 26, 2), ("hidden_sectors", 28, 4),
          ("total_sectors_32", 32, 4), ("boot_sig", 510, 2)]
L16 = [("drive_num", 36, 1), ("reserved_1", 37, 1), ("ext_sig", 38, 1), ("volume_id", 39, 4)]
L32 = [("sectors_per_fat_32", 36, 4), ("extended_flags", 40, 2), ("fs_version", 42, 2), ("root_dir_first_cluster", 44, 4),
       ("fs_info_sector", 48, 2), ("backup_boot_sector", 50, 2), ("drive_num", 64, 1), ("reserved_1", 65, 1),
       ("ext_sig", 66, 1), ("volume_id", 67, 4)]
# pokes confined to these boot-sector bytes cannot move or re-type the FAT: status flags must then be equal
NON_GEOM_16 = set([0, 21] + list(range(24, 32)) + list(range(36, 62)) + [510, 511])
NON_GEOM_32 = set([0, 21] + list(range(24, 32)) + list(range(64, 90)) + [510, 511])


class Tmpl:
    def __init__(self, cfg, line):
        self.name, self.bps, self.sectors, self.bpc, self.fat = cfg
        t = line.split(" ")
        assert t[0] == "ok", line[:200]
        self.pages = t[2:]
        self.img = {}
        for c in self.pages:
            off, hx = c.split(":")
            self.img[int(off)] = bytes.fromhex(hx)
        self.bs = self.read(0, 512)
        self.g = fatimg.Geom(self.bs)
        self.is32 = self.fat == "32"
        self.fields = COMMON + (L32 if self.is32 else L16)
        self.fsinfo_off = fatimg.le(self.bs, 48, 2) * self.g.bps if self.is32 else None
        self.total = self.g.clusters

    def read(self, off, n):
        out = bytearray(n)
        for i in range(n):
            pg = (off + i) // 4096 * 4096
            if pg in self.img:
                out[i] = self.img[pg][off + i - pg]
        return bytes(out)

    def tmpl_line(self):
        return "tmpl %d %s %s %s %s" % (DEVLEN, self.bps, self.sectors, self.bpc, self.fat)

    def img_line(self):
        return "img %d %s" % (DEVLEN, " ".join(self.pages))

    def script(self, case):
        """the same experiment as an executor script (replay with ./check C07 --replay <file>)"""
        strict, flags, pokes, devlen = case[0], case[1], case[2], case[3]
        sc = ["dev %d 0" % (DEVLEN if devlen is None else DEVLEN), "wlog 0",
              "format %s %s %s %s - - - - -" % (self.bps, self.sectors, self.bpc, self.fat), "mount 1 0 lossy",
              "create_file 0 %s 1" % vlib.hexs("f"), "write_all 1 78", "flush 1", "drop_file 1", "unmount"]
        if pokes != "-":
            for c in pokes.split(","):
                off, hx = c.split(":")
                sc.append("poke %s %s" % (off, hx))
        if devlen is not None:
            sc.append("# device cut to %d bytes (bulk mode flag t=%d; the script mode has no such command)" % (devlen, devlen))
        sc += ["budget %d" % BUDGET, "mount %d 0 lossy" % strict, "stats"]
        return sc


def make_templates(cfgs, variant):
    text = "".join("tmpl %d %s %s %s %s\n" % (DEVLEN, c[1], c[2], c[3], c[4]) for c in cfgs)
    out = vlib.exec_raw(["c07"], text, variant).split("\n")
    return [Tmpl(c, l) for c, l in zip(cfgs, out)]


def le_hex(v, n):
    return (v & ((1 << (8 * n)) - 1)).to_bytes(n, "little").hex()


def poke1(off, size, v):
    return "%d:%s" % (off, le_hex(v, size))


# ------------------------------------------------------------------ value sets
def pow2pm(bits):
    s = set()
    for k in range(bits + 1):
        for d in (-1, 0, 1):
            v = (1 << k) + d
            if 0 <= v < (1 << bits):
                s.add(v)
    s.update([0, (1 << bits) - 1, (1 << bits) - 2])
    return s


def rnd_u(rng, bits):
    # half uniform, half log-uniform (so that small and huge values both occur)
    if rng.chance(1, 2):
        return rng.below(1 << bits)
    k = rng.range(0, bits)
    return rng.below(1 << k) if k else 0


def values32(t, name, rng, nrand):
    g = t.g
    s = pow2pm(32)
    orig = None
    for (n, off, sz) in t.fields:
        if n == name:
            orig = fatimg.le(t.bs, off, sz)
    for d in range(-3, 4):
        s.add((orig + d) & U32)
    if name == "total_sectors_32":
        for c in (0, 1, 2, 4084, 4085, 4086, 65524, 65525, 65526, 0x0FFFFFF4, 0x0FFFFFF5, 0x0FFFFFF6, 0x0FFFFFFE, 0x0FFFFFFF,
                  0x10000000, 0x10000001):
            for d in (-1, 0, 1, g.spc - 1, g.spc):
                s.add((g.first_data + c * g.spc + d) & U32)
    if name == "sectors_per_fat_32":
        room = g.total_sectors - g.reserved - g.root_sectors
        for d in range(-3, 4):
            s.add((room // max(g.fats, 1) + d) & U32)
        s.update([1 << 25, (1 << 25) + 1, (1 << 31), U32 // 2, U32 // 255, U32 // 255 + 1])
    if name == "root_dir_first_cluster":
        for d in range(-3, 5):
            s.add((g.clusters + d) & U32)
        s.update([0x0FFFFFF7, 0x0FFFFFF8, 0x0FFFFFFF, 0x10000000, 70000])
    for _ in range(nrand):
        s.add(rnd_u(rng, 32))
    return sorted(s)


def values16(t, name, off, rng, nrand):
    s = pow2pm(16)
    orig = fatimg.le(t.bs, off, 2)
    for d in range(-3, 4):
        s.add((orig + d) & 0xFFFF)
    s.update(range(0, 8))
    if name == "boot_sig":
        s.update([0xAA55, 0x55AA, 0xAA54, 0xAB55, 0x0055, 0xAA00])
    for _ in range(nrand):
        s.add(rnd_u(rng, 16))
    return sorted(s)


PLAUSIBLE = {
    "bytes_per_sector": [512, 1024, 2048, 4096, 0, 256, 8192, 513, 0xFFFF, 32768],
    "sectors_per_cluster": [1, 2, 4, 8, 16, 32, 64, 128, 0, 3, 255],
    "reserved_sectors": [0, 1, 2, 7, 8, 9, 32, 0xFFFF],
    "fats": [0, 1, 2, 3, 4, 255],
    "root_entries": [0, 1, 15, 16, 512, 0xFFFF],
    "total_sectors_16": [0, 1, 0xFFFF, 2048, 4400],
    "sectors_per_fat_16": [0, 1, 6, 17, 0xFFFF],
    "total_sectors_32": [0, 1, 2048, 4400, 78125, 70000, 1 << 20, 1 << 28, (1 << 28) + 2000, U32],
    "sectors_per_fat_32": [0, 1, 601, 1 << 25, U32],
    "fs_version": [0, 1, 0x100],
    "root_dir_first_cluster": [0, 1, 2, 3, 76916, 76917, 0x0FFFFFFF, U32],
    "fs_info_sector": [0, 1, 2, 6, 7, 8, 0xFFFF],
    "backup_boot_sector": [0, 1, 6, 7, 8, 0xFFFF],
    "reserved_1": [0, 1, 2, 3, 4, 0xFF],
    "ext_sig": [0x29, 0x28, 0],
    "boot_sig": [0xAA55, 0x55AA, 0],
}


def combo_value(rng, name, size):
    if name in PLAUSIBLE and rng.chance(2, 3):
        return rng.choice(PLAUSIBLE[name])
    return rnd_u(rng, 8 * size)


# ------------------------------------------------------------------ streams: each yields (label, template, [cases])
# case = (strict, flags, pokes, devlen-or-None)
def stream_single(ts, rng, tier):
    for t in ts:
        exhaustive16 = tier == "thorough" and t.name in ("f12", "f16", "f32")
        for (name, off, size) in t.fields:
            if size == 1:
                vals = range(256)
            elif size == 2:
                vals = range(65536) if exhaustive16 else values16(t, name, off, rng, 1500 if tier == "quick" else 4000)
            else:
                vals = values32(t, name, rng, 1500 if tier == "quick" else 8000)
            for strict in (0, 1):
                yield ("single:%s" % name, t, [(strict, "-", poke1(off, size, v), None) for v in vals])


def stream_combo(ts, rng, n):
    for t in ts:
        allf = COMMON + L16 + L32          # also fields of the other layout: the layout itself is mutated
        cases = []
        for _ in range(n):
            k = rng.choice([2, 2, 3, 3, 4])
            pk = []
            for _ in range(k):
                name, off, size = rng.choice(allf if rng.chance(1, 4) else t.fields)
                pk.append(poke1(off, size, combo_value(rng, name, size)))
            cases.append((rng.below(2), "-", ",".join(pk), None))
        yield ("combo", t, cases)


def stream_cross(ts, rng, n):
    """boot sector of one template on the image of another (layout switch), plus 0-2 field mutations"""
    for t in ts:
        for u in ts:
            if u is t:
                continue
            cases = []
            for i in range(n):
                pk = ["0:" + u.bs.hex()]
                if u.is32 and rng.chance(1, 2):
                    pk.append("%d:%s" % (u.fsinfo_off, u.read(u.fsinfo_off, 512).hex()))
                for _ in range(rng.below(3) if i else 0):
                    name, off, size = rng.choice(u.fields)
                    pk.append(poke1(off, size, combo_value(rng, name, size)))
                cases.append((rng.below(2), "-", ",".join(pk), None))
            yield ("cross:%s-on-%s" % (u.name, t.name), t, cases)


def stream_fsinfo(ts, rng, tier):
    for t in ts:
        if not t.is32:
            continue
        fo = t.fsinfo_off
        tot = t.total
        v = set([0, 1, 2, 3, 4, tot - 1, tot, tot + 1, tot + 2, tot + 3, 0x0FFFFFFF, 0x10000000, U32 - 1, U32])
        big = pow2pm(32)
        vals = sorted(v)
        more = sorted(big - v)
        dirty_on = poke1(65, 1, t.bs[65] | 1)
        cases = []
        for f in vals:
            for n in vals:
                for dirty in (0, 1):
                    pk = [poke1(fo + 488, 4, f), poke1(fo + 492, 4, n)] + ([dirty_on] if dirty else [])
                    cases.append((1, "r", ",".join(pk), None))
        nr = 3000 if tier == "quick" else 30000
        for _ in range(nr):
            f = rng.choice(more) if rng.chance(1, 2) else rnd_u(rng, 32)
            n = rng.choice(more) if rng.chance(1, 2) else rnd_u(rng, 32)
            if rng.chance(1, 3):
                f = rng.range(max(tot - 5, 0), tot + 5)
            if rng.chance(1, 3):
                n = rng.range(max(tot - 5, 0), tot + 5)
            pk = [poke1(fo + 488, 4, f), poke1(fo + 492, 4, n)] + ([dirty_on] if rng.chance(1, 3) else [])
            cases.append((rng.below(2), "r", ",".join(pk), None))
        yield ("fsinfo:values", t, cases)
        # signatures: every signature byte, several values; reserved areas are free-form
        cases = []
        for o in list(range(0, 4)) + list(range(484, 488)) + list(range(508, 512)):
            orig = t.read(fo + o, 1)[0]
            for x in set([0, 0xFF, orig ^ 1, orig ^ 0x80, (orig + 1) & 0xFF]):
                cases.append((rng.below(2), "r", poke1(fo + o, 1, x), None))
        for _ in range(60 if tier == "quick" else 2000):
            o = rng.choice([rng.range(4, 483), rng.range(496, 507)])
            cases.append((rng.below(2), "r", poke1(fo + o, 1, rng.below(256)), None))
        yield ("fsinfo:signatures", t, cases)
        # the sector somewhere else in (or beyond) the reserved area
        cases = []
        fs = t.read(fo, 512).hex()
        for k in range(0, 12):
            cases.append((1, "r", "%d:%s,%s" % (k * t.g.bps, fs, poke1(48, 2, k)), None))
            cases.append((1, "r", poke1(48, 2, k), None))
        for k in (0xFFFF, 0x8000, t.g.reserved - 1, t.g.reserved):
            cases.append((0, "r", "%s,%s" % (poke1(14, 2, 0xFFFF), poke1(48, 2, k)), None))
            cases.append((0, "r", "%d:%s,%s,%s" % (k * t.g.bps, fs, poke1(14, 2, 0xFFFF), poke1(48, 2, k)), None))
        yield ("fsinfo:moved", t, cases)


def stream_fsinfo_high(t, rng):
    """a large FAT32 template: reserved area beyond 32768 sectors with the FS-info sector and the backup boot sector moved
    high into it (sums of the 16-bit sector fields reach 2^16), the FS-info sector planted at its new place; geometry stays
    coherent, so the mount has to go through"""
    fs = t.read(t.fsinfo_off, 512).hex()
    cases = []
    for R in (33000, 34000, 40000, 65535):
        for k in (6, 32767, 32768, R - 2, R - 1):
            for b in (0, 6, 32767, 32768, R - 1, 65535):
                for strict in (0, 1):
                    cases.append((strict, "r", "%d:%s,%s,%s,%s" % (k * t.g.bps, fs, poke1(14, 2, R), poke1(48, 2, k), poke1(50, 2, b)), None))
    for _ in range(300):
        R = rng.range(32769, 65535); k = rng.range(1, R - 1); b = rng.range(0, 65535)
        cases.append((rng.below(2), "r", "%d:%s,%s,%s,%s" % (k * t.g.bps, fs, poke1(14, 2, R), poke1(48, 2, k), poke1(50, 2, b)), None))
    yield ("fsinfo:moved-high", t, cases)


def stream_garbage(ts, rng, n):
    for t in ts:
        cases = []
        for fill in (0x00, 0xFF, 0x55, 0xAA):
            cases.append((0, "-", "0:" + bytes([fill] * 512).hex(), None))
            cases.append((1, "-", "0:" + bytes([fill] * 510).hex() + "55aa", None))
        for _ in range(n):
            b = bytearray(t.bs)
            mode = rng.below(3)
            if mode == 0:       # fully random sector
                b = bytearray(rng.below(256) for _ in range(512))
            elif mode == 1:     # random BPB, valid frame
                for i in range(11, 90):
                    b[i] = rng.below(256)
            else:               # sparse byte noise over the BPB
                for i in range(11, 90):
                    if rng.chance(1, 12):
                        b[i] = rng.below(256)
            cases.append((rng.below(2), "-", "0:" + bytes(b).hex(), None))
        yield ("garbage", t, cases)


def stream_short(ts, rng):
    for t in ts:
        lens = [0, 1, 11, 511, 512, 513, 600, 1023, 1024]
        if t.is32:
            fo = t.fsinfo_off
            lens += [fo + 3, fo + 4, fo + 5, fo + 483, fo + 484, fo + 487, fo + 488, fo + 492, fo + 508, fo + 511, fo + 512, fo + 513]
        cases = []
        for n in sorted(set(lens)):
            for strict in (0, 1):
                cases.append((strict, "t=%d" % n, "-", n))
                if t.is32:
                    cases.append((strict, "t=%d" % n, poke1(t.fsinfo_off, 1, 0), n))    # bad lead signature on a short device
                    cases.append((strict, "t=%d" % n, poke1(t.fsinfo_off + 484, 1, 0), n))
        yield ("short-device", t, cases)


def stream_boundary(ts, rng):
    """total sector counts that put the cluster count on every FAT-width / validity boundary, through whichever of
    total_sectors_16 / total_sectors_32 can hold the value; also with the FAT size field of the other layout"""
    for t in ts:
        g = t.g
        cases = []
        for c in (0, 1, 2, 4083, 4084, 4085, 4086, 65523, 65524, 65525, 65526, 0x0FFFFFF4, 0x0FFFFFF5, 0x0FFFFFFE, 0x0FFFFFFF, 0x10000000):
            for d in (-1, 0, 1, g.spc - 1, g.spc):
                v = g.first_data + c * g.spc + d
                if not 0 <= v <= U32:
                    continue
                for strict in (0, 1):
                    if v <= 0xFFFF:
                        cases.append((strict, "-", poke1(19, 2, v), None))
                        cases.append((strict, "-", "%s,%s" % (poke1(19, 2, v), poke1(32, 4, v)), None))
                    cases.append((strict, "-", "%s,%s" % (poke1(19, 2, 0), poke1(32, 4, v)), None))
                    if not t.is32:
                        # same count under the FAT32 layout: sectors_per_fat_16 = 0, root_entries = 0, FAT32 fields written
                        fat32 = [poke1(22, 2, 0), poke1(17, 2, 0), poke1(19, 2, 0), poke1(36, 4, g.spf), poke1(40, 2, 0), poke1(42, 2, 0),
                                 poke1(44, 4, 2), poke1(48, 2, 0), poke1(50, 2, 0)]
                        v2 = v - g.root_sectors
                        if v2 > 0:
                            cases.append((strict, "-", ",".join(fat32 + [poke1(32, 4, v2)]), None))
        yield ("boundary", t, cases)


def stream_regress(ts, rng):
    for t in ts:
        if not t.is32:
            continue
        cases = []
        for strict in (0, 1):
            cases.append((strict, "-", "%s,%s" % (poke1(16, 1, 255), poke1(36, 4, 1 << 25)), None))      # D7
            for rc in (0, 1, U32, 70000 if t.total < 69998 else t.total + 5, 0x0FFFFFFF, t.total + 2, t.total + 1, 2):
                cases.append((strict, "-", poke1(44, 4, rc), None))                                       # D17
        yield ("regress:D7-D17", t, cases)


# ------------------------------------------------------------------ running one chunk on both sides
def run_chunk(t, cases, variant):
    ex = [t.tmpl_line()]
    mo = [t.img_line()]
    for (strict, flags, pokes, devlen) in cases:
        ex.append("m %d %d %s %s" % (strict, BUDGET, flags, pokes))
        mo.append("p %d %s" % (strict, pokes) + ("" if devlen is None else " %d" % devlen))
    eo = vlib.exec_raw(["c07"], "\n".join(ex) + "\n", variant).split("\n")
    mout = vlib.model_run("c07", "\n".join(mo) + "\n")
    assert eo[0].startswith("ok ") and mout[0] == "ok", (eo[0][:100], mout[0][:100])
    assert len(eo) >= len(cases) + 1 and len(mout) >= len(cases) + 1, (len(eo), len(mout), len(cases))
    return eo[1:len(cases) + 1], mout[1:len(cases) + 1]


def parse_model(line):
    parts = [x.strip() for x in line.split("|")]
    sp = parts[2].split()
    return parts[0].split(), parts[1].split(), (int(sp[0]), int(sp[1]), int(sp[2]), int(sp[3]))


def judge(rep, st, label, t, case, variant, el, ml):
    """el: executor line, ml: model line.  Returns False to stop early for this chunk (first failure is enough)."""
    strict, flags, pokes, devlen = case
    e = el.split(" ")
    md, mr, (coh, sbits, scs, scount) = parse_model(ml)
    m = md if variant == "default" else mr
    rep.count()
    st["cases"][label.split(":")[0]] = st["cases"].get(label.split(":")[0], 0) + 1
    replay = {"script": t.script(case), "bulk": {"template": t.tmpl_line(), "line": "m %d %d %s %s" % (strict, BUDGET, flags, pokes),
                                                 "variant": variant, "executor_says": el[:300], "model_says": ml[:300]}}
    # ---- direct evaluation of the property on the implementation (specification only)
    if e[0] in ("panic", "hang"):
        msg = bytes.fromhex(e[1]).decode("utf-8", "replace") if len(e) > 1 and e[1] != "-" else ""
        rep.violation("%s build: FileSystem::new %s on template %s with %s (strict=%d): %s" % (variant, e[0], t.name, pokes[:80], strict, msg), replay)
        return False
    key = "err:" + e[1].split(":")[0] if e[0] == "err" else "ok:%s" % e[1]
    st["outcomes"][key] = st["outcomes"].get(key, 0) + 1
    if e[0] == "ok":
        bits, cs, total, free, scanned = int(e[1]), int(e[2]), e[3], e[4], e[5]
        sres, rm, fsw = e[9], e[10], e[11]
        if total == "0":
            scanned = "?"      # a scan of zero clusters makes no device call: "came from FS-info" cannot be told apart
            st["accepted_with_zero_clusters"] += 1
        if coh != 1:
            rep.violation("%s build: mount ACCEPTED a volume whose geometry is not coherent (Spec/BpbSpec.v coherentb = false): template %s, %s, "
                          "accepted as FAT%d cluster %d clusters %s; independent parse: FAT%d, %d, %d" % (variant, t.name, pokes[:80], bits, cs, total, sbits, scs, scount), replay)
            return False
        if (bits, cs) != (sbits, scs) or (total != "?" and int(total) != scount):
            rep.violation("%s build: accepted geometry differs from the independent parse: template %s, %s: library FAT%d/%d/%s, "
                          "specification FAT%d/%d/%d" % (variant, t.name, pokes[:80], bits, cs, total, sbits, scs, scount), replay)
            return False
        if sres.startswith("panic"):
            rep.violation("%s build: stats() panicked on a volume mount accepted: template %s, %s: %s" % (
                variant, t.name, pokes[:80], bytes.fromhex(sres[6:]).decode("utf-8", "replace")), replay)
            return False
        if total == "?":
            st["total_unobserved"] += 1
        sk0 = sres if sres in ("ok", "hang") else sres.split(":")[0] + ":" + sres.split(":")[1]
        st["stats_result"][sk0] = st["stats_result"].get(sk0, 0) + 1
        if scanned == "0" and int(free) > int(total):
            rep.violation("%s build: FS-info free count %s > total clusters %s was trusted (%s)" % (variant, free, total, pokes[:80]), replay)
            return False
        if fsw != "-":
            nxt = int(fsw.split(":")[2])
            if nxt != U32 and total != "?" and not (2 <= nxt <= int(total) + 2):
                rep.violation("%s build: FS-info next-free hint %d outside 2..total+2 (total %s) was kept (%s)" % (variant, nxt, total, pokes[:80]), replay)
                return False
            if nxt != U32 and total != "?" and nxt == int(total) + 2:
                st["hint_one_past_last_kept"] += 1
    # ---- correspondence with the model
    def broken(what):
        rep.violation("correspondence Model/Bpb.v (mount, %s profile) vs implementation broken: %s; template %s, %s, strict=%d: library `%s`, model `%s`"
                      % ("Debug" if variant == "default" else "Release", what, t.name, pokes[:80], strict, el[:160], " ".join(m)[:160]),
                      dict(replay, theorem_or_correspondence="mount = FileSystem::new (C07_mount_total / C07_mount_ok_*)"), nofail=True)
        return False
    if e[0] == "err":
        ek = e[1].split(":")[0]
        if m[0] != "err" or m[1] != ek:
            return broken("outcome class")
    else:
        if m[0] != "ok":
            return broken("outcome class")
        mbits, mcs, mtot, mfree, mnext, mdirty, mio, mvol = int(m[1]), int(m[2]), int(m[3]), m[4], m[5], int(m[8]), int(m[9]), int(m[10])
        if (bits, cs) != (mbits, mcs) or (total != "?" and int(total) != mtot):
            return broken("fat type / cluster size / total clusters")
        if int(e[8]) != mvol:
            return broken("volume id (layout-dependent offset)")
        if scanned != "?":
            if (mfree == "-") != (scanned == "1") or (mfree != "-" and int(mfree) != int(free)):
                return broken("FS-info free count kept/dropped")
        if e[6] != "?":
            offs = set()
            if pokes != "-":
                for c in pokes.split(","):
                    o, hx = c.split(":")
                    offs.update(range(int(o), int(o) + len(hx) // 2))
            bsoffs = set(o for o in offs if o < 512)
            quiet = bsoffs <= (NON_GEOM_32 if t.is32 else NON_GEOM_16)
            di, io = int(e[6]), int(e[7])
            if (quiet and (di, io) != (mdirty, mio)) or di < mdirty or io < mio:
                return broken("status flags (reserved_1 at the layout-dependent offset)")
        if "r" in flags and rm == "ok" and bits == 32:
            if fsw == "-":
                return broken("no FS-info write-back after remove+unmount")
            _, wf, wn = fsw.split(":")
            if int(wf) != int(free) + 1 or int(wn) != (U32 if mnext == "-" else int(mnext)):
                return broken("FS-info values held after mount (written back: free %s next %s; stats free %s)" % (wf, wn, free))
            st["fsinfo_writeback_checked"] += 1
        if bits == 32:
            st["accepted_fat32"] += 1
    rep.distinct((t.name, variant, strict, flags, pokes if len(pokes) < 200 else hash(pokes)))
    sk = (label.split(":")[0], e[0])
    if sk not in st["sampled"] and pokes != "-" and len(pokes) < 100 and st["cases"][label.split(":")[0]] > 40:
        st["sampled"].add(sk)
        rep.sample({"template": t.name, "stream": label, "pokes": pokes, "strict": strict, "variant": variant, "library": el[:120],
                    "model": " ".join(m), "spec(coherent,bits,cluster,count)": [coh, sbits, scs, scount]}, cap=10)
    return True


def run(rep, tier, seed):
    rng = vlib.Rng(seed)
    quick = tier == "quick"
    st = {"cases": {}, "outcomes": {}, "total_unobserved": 0, "hint_one_past_last_kept": 0, "fsinfo_writeback_checked": 0,
          "accepted_fat32": 0, "accepted_with_zero_clusters": 0, "sampled": set(), "stats_result": {}, "by_variant": {"default": 0, "release": 0}, "chunks": 0}
    cfgs = TEMPLATES + ([] if quick else TEMPLATES_MORE)
    # a FAT32 template with several sectors per cluster whose data area ends with sectors that do not form a whole cluster
    # (cluster-number bounds and location bounds differ there)
    for cand in (("f32tail", "-", 140001, 1024, "32"), ("f32tail", "-", 140002, 1024, "32"), ("f32tail", "-", 270003, 2048, "32")):
        try:
            tt = make_templates([cand], "default")[0]
        except AssertionError:
            continue
        if tt.g.bits == 32 and (tt.g.total_sectors - tt.g.first_data) % tt.g.spc != 0:
            cfgs = cfgs + [cand]
            break
    ts = make_templates(cfgs, "default")
    for t in ts:
        if t.g.bits != int(t.fat):
            rep.violation("template %s was not formatted as requested" % t.name, {"theorem_or_correspondence": "setup"}, nofail=True)
            return
    base = ts[:3]
    tbig = make_templates([("f32big", "-", 240000, 512, "32")], "default")[0]

    def chunks():
        # (label, template, cases, variant)
        for lab, t, cs in stream_regress(ts, rng):
            yield lab, t, cs, "default"
            yield lab, t, cs, "release"
        for lab, t, cs in stream_boundary(ts, rng):
            yield lab, t, cs, "default"
            yield lab, t, cs, "release"
        for lab, t, cs in stream_single(ts, rng, tier):
            yield lab, t, cs, "default"
            # release subset: every 8-bit and 32-bit sweep, and the 16-bit boundary sets (not the exhaustive ones)
            if len(cs) <= 20000:
                yield lab, t, cs, "release"
        for lab, t, cs in stream_fsinfo(ts, rng, tier):
            yield lab, t, cs, "default"
            yield lab, t, cs, "release"
        for lab, t, cs in stream_fsinfo_high(tbig, rng):
            yield lab, t, cs, "default"
            yield lab, t, cs, "release"
        for lab, t, cs in stream_combo(ts, rng, 25000 if quick else 200000):
            yield lab, t, cs, "default"
            yield lab, t, cs[:len(cs) // 2], "release"
        for lab, t, cs in stream_cross(base if quick else ts, rng, 60 if quick else 1500):
            yield lab, t, cs, "default"
            yield lab, t, cs, "release"
        for lab, t, cs in stream_garbage(ts, rng, 3000 if quick else 40000):
            yield lab, t, cs, "default"
            yield lab, t, cs[:len(cs) // 4], "release"
        for lab, t, cs in stream_short(ts, rng):
            yield lab, t, cs, "default"
            yield lab, t, cs, "release"

    def split(it, n=40000):
        for lab, t, cs, v in it:
            for i in range(0, len(cs), n):
                yield lab, t, cs[i:i + n], v

    workers = max(2, min(14, (os.cpu_count() or 4) - 2))
    stop = False
    with concurrent.futures.ThreadPoolExecutor(max_workers=workers) as pool:
        pending = {}
        it = split(chunks())
        done_iter = False
        while True:
            while not done_iter and not stop and len(pending) < workers * 2:
                try:
                    lab, t, cs, v = next(it)
                except StopIteration:
                    done_iter = True
                    break
                pending[pool.submit(run_chunk, t, cs, v)] = (lab, t, cs, v)
            if not pending:
                break
            done, _ = concurrent.futures.wait(list(pending), return_when=concurrent.futures.FIRST_COMPLETED)
            for f in done:
                lab, t, cs, v = pending.pop(f)
                eo, mo = f.result()
                st["chunks"] += 1
                st["by_variant"][v] += len(cs)
                for case, el, ml in zip(cs, eo, mo):
                    if not judge(rep, st, lab, t, case, v, el, ml):
                        break
                if len(rep.violations) >= 5:
                    stop = True
    rep.cov["traces_validated_against_impl"] = rep.cov["evaluations"]
    rep.cov["distribution"] = {
        "templates": {t.name: {"fat": t.g.bits, "bytes_per_sector": t.g.bps, "cluster_size": t.g.cluster_size, "clusters": t.g.clusters,
                               "device_bytes": DEVLEN} for t in ts},
        "cases_by_stream": st["cases"], "cases_by_executor_variant": st["by_variant"], "library_outcomes": st["outcomes"],
        "accepted_fat32": st["accepted_fat32"], "fsinfo_writeback_checked": st["fsinfo_writeback_checked"],
        "accepted_with_total_clusters_unobserved(stats cut by call budget or failed)": st["total_unobserved"],
        "stats_after_accepted_mount(err:UnexpectedEof = FAT smaller than the cluster count, accepted with a warning only)": st["stats_result"],
        "next_free_hint_equal_total_plus_2_kept(one past the last cluster; documented in C07_fsinfo_bounds)": st["hint_one_past_last_kept"],
        "accepted_with_zero_clusters(coherent by the listed clauses: metadata fits, less than one cluster of data)": st["accepted_with_zero_clusters"],
        "16bit_fields_exhaustive": not quick,
    }
    rep.cov["rule"] = (
        "case = (template image, strict flag, set of poked bytes in the boot sector / FS-info sector / device length); streams: every 8-bit BPB field "
        "exhaustively, every 16-bit field at powers of two +-1, boundaries and random values (thorough: all 65536 values on the three base templates), "
        "32-bit fields at all powers of two +-1, boundaries derived from the template geometry and random values, random 2-4 field combinations "
        "(plausible and random values, fields of both layouts), boot sector of one FAT type on the image of another, FS-info free/next value grid x dirty bit, "
        "FS-info signature bytes, relocated FS-info sector, whole-sector garbage, devices cut short, D7/D17 regression inputs; both strict values; debug executor "
        "on all, release executor on the non-exhaustive part. distinct = distinct (template, variant, strict, flags, pokes) whose library verdict passed the direct "
        "check (no panic/hang; accepted => Spec coherentb and spec_geometry agree; FS-info bounds) and equals the extracted model's verdict "
        "(outcome class, error kind, FAT width, cluster size, total clusters, volume id, status flags, FS-info free/next kept or dropped)")
