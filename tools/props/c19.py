"""C19 - build features change only what they document.
Proof (Props/C19.v) + the same operation histories under the three feature sets (default = alloc+unicode,
noalloc = fixed long-name buffer, nounicode = ASCII-only case folding): pairwise byte-identical final images and
identical observation traces; lookups against the model's eq_name with the matching case mapping."""
import hashlib
import vlib
from vlib import hexs

PROP_FILES = ["Props/C19.v"]
VARIANTS = ["default", "noalloc", "nounicode"]

ASCII_NAME_CHARS = "abcdefghijklmnopqrstuvwxyzABCDEFGHIJKLMNOPQRSTUVWXYZ0123456789$%'-_@~`!(){}.+,;=[]^#& "
LETTERS = "abcdefghijklmnopqrstuvwxyzABCDEFGHIJKLMNOPQRSTUVWXYZ"
NONASCII = "éÉßäÄöÖüÜçÇñÑøØåÅΩωЖжДдŁłÿŸµıİǆǅ中文日本語  ￿ﬁ"
NONBMP = ["\U0001F600", "\U00010400", "\U00010428", "\U0001D11E"]


def units(s):
    return len(s.encode("utf-16-le")) // 2


def u16hex(s):
    b = s.encode("utf-16-le")
    return "".join("%02x%02x" % (b[i + 1], b[i]) for i in range(0, len(b), 2)) or "-"


def is_ascii(s):
    return all(ord(c) < 128 for c in s)


def ascii_swapcase(s, rng):
    return "".join((c.swapcase() if (c in LETTERS and rng.chance(1, 2)) else c) for c in s)


def unicode_casevariant(s, rng):
    """changes the case of at least one non-ASCII character if there is a cased one"""
    out = []
    for c in s:
        if ord(c) >= 128 and (c.upper() != c or c.lower() != c) and rng.chance(3, 4):
            out.append(c.upper() if c.upper() != c else c.lower())
        else:
            out.append(c)
    return "".join(out)


def gen_name(rng, kind):
    """kind: ascii | nonascii"""
    r = rng.below(100)
    if r < 25:
        n = rng.range(1, 8)
        base = "".join(rng.choice(LETTERS + "0123456789_-") for _ in range(n))
        ext = "".join(rng.choice(LETTERS + "0123456789") for _ in range(rng.range(0, 3)))
        s = base + ("." + ext if ext else "")
        if rng.chance(1, 3): s = s.upper()
        elif rng.chance(1, 2): s = s.lower()
    else:
        if r < 45:
            n = 13 * rng.range(1, 19)                                  # exactly 13k units
        elif r < 52:
            n = rng.choice([254, 255, 255])
        elif r < 60:
            n = rng.choice([12, 14, 25, 26, 27, 38, 40, 100, 129, 200, 246, 247, 248, 253])
        else:
            n = rng.range(1, 255)
        s = "".join(rng.choice(ASCII_NAME_CHARS) for _ in range(n))
        s = s.strip(" ").rstrip(".") or "x"
        while len(s) < n:
            s += rng.choice(LETTERS)
    if kind == "nonascii":
        # replace some characters by BMP non-ASCII ones, keeping the UTF-8 length within 255 bytes
        cs = list(s)
        k = max(1, len(cs) // rng.choice([1, 2, 4, 16]))
        for _ in range(k):
            j = rng.below(len(cs)); cs[j] = rng.choice(NONASCII)
        s = "".join(cs)
        while len(s.encode("utf-8")) > 255 and rng.chance(9, 10):
            s = s[:-1]
        s = s.rstrip(" .") or "é"
    return s


def fold_key(s):
    return s.upper()


def gen_history(rng, kind, nops):
    """kind: ascii | nonascii-exact | nonascii-case.  Returns (script lines, per-line tags)."""
    pool = []
    keys = set()
    tries = 0
    while len(pool) < 10 and tries < 200:
        tries += 1
        s = gen_name(rng, "ascii" if kind == "ascii" else ("nonascii" if rng.chance(3, 4) else "ascii"))
        if len(s.encode("utf-8")) > 255 and len(pool) > 7:
            continue
        if fold_key(s) in keys or "/" in s:
            continue
        keys.add(fold_key(s)); pool.append(s)
    dirs = []
    lines, tags = [], []
    h = [10]
    def emit(l, tag="op"):
        lines.append(l); tags.append(tag)
    def variant_of(s):
        """a differently-cased spelling + whether it touches non-ASCII case"""
        if kind == "nonascii-case" and not is_ascii(s) and rng.chance(2, 3):
            v = unicode_casevariant(s, rng)
            if v != s and len(v.encode("utf-8")) <= 255:
                return v, True
        return ascii_swapcase(s, rng), False
    live = []           # (dir index or None, name)
    def path(d, n):
        return n if d is None else dirs[d] + "/" + n
    for _ in range(nops):
        r = rng.below(100)
        if r < 30 or not live:
            n = rng.choice(pool); d = rng.choice([None] + list(range(len(dirs))))
            h[0] += 1
            emit("create_file 0 %s %d" % (hexs(path(d, n)), h[0]))
            data = bytes(rng.below(256) for _ in range(rng.choice([0, 1, 100, 511, 512, 513, 3000])))
            emit("write_all %d %s" % (h[0], data.hex() or "-")); emit("flush %d" % h[0]); emit("drop_file %d" % h[0])
            live.append((d, n))
        elif r < 38 and len(dirs) < 3:
            n = rng.choice(pool)
            h[0] += 1
            emit("create_dir 0 %s %d" % (hexs(n), h[0])); emit("drop_dir %d" % h[0])
            dirs.append(n)
        elif r < 55:
            d, n = rng.choice(live)
            v, na = variant_of(n)
            h[0] += 1
            emit("open_file 0 %s %d" % (hexs(path(d, v)), h[0]), "lookup-nonascii-case" if na else "lookup")
            emit("read_all %d 100000" % h[0], "dep"); emit("drop_file %d" % h[0], "dep")
        elif r < 65:
            d, n = rng.choice(live)
            n2 = rng.choice(pool); d2 = rng.choice([None] + list(range(len(dirs))))
            v, na = variant_of(n)
            # the new name differs from a pool name at most in the case of ASCII letters: a non-ASCII case variant as a
            # stored name would turn every later use of the pool name into a non-ASCII case-insensitive lookup
            v2, na2 = ((ascii_swapcase(n2, rng) if rng.chance(1, 2) else n2), False)
            # destination handle = the directory; paths are relative to the root (handle 0)
            emit("rename 0 %s 0 %s" % (hexs(path(d, v)), hexs(path(d2, v2))), "lookup-nonascii-case" if (na or na2) else "lookup")
            live.append((d2, v2))
        elif r < 75:
            d, n = rng.choice(live)
            v, na = variant_of(n)
            emit("remove 0 %s" % hexs(path(d, v)), "lookup-nonascii-case" if na else "lookup")
        elif r < 80:
            # malformed stream: non-BMP characters, over-long names, empty
            bad = rng.choice([rng.choice(NONBMP) * rng.range(1, 3) + "x", "a" * 256, "é" * 128, "", "a/", "x" * 255 + ".y", "bad:name", "q?"])
            h[0] += 1
            emit("create_file 0 %s %d" % (hexs(bad), h[0]), "malformed"); emit("drop_file %d" % h[0], "dep")
        elif r < 90:
            emit("list 0")
        else:
            if dirs:
                di = rng.below(len(dirs))
                v, na = variant_of(dirs[di])
                h[0] += 1
                emit("open_dir 0 %s %d" % (hexs(v), h[0]), "lookup-nonascii-case" if na else "lookup")
                emit("list %d" % h[0], "dep"); emit("drop_dir %d" % h[0], "dep")
            else:
                emit("list 0")
    emit("list 0")
    for di in range(len(dirs)):
        h[0] += 1
        emit("open_dir 0 %s %d" % (hexs(dirs[di]), h[0])); emit("list %d" % h[0], "dep"); emit("drop_dir %d" % h[0], "dep")
    emit("drop_all"); emit("unmount"); emit("pages")
    return lines, tags, pool


VOLS = {"12": ["dev 1048576 0", "wlog 0", "format - - - 12 - - - - -"],
        "16": ["dev 16777216 0", "wlog 0", "format - - - 16 - - - - -"],
        "32": ["dev 41943040 0", "wlog 0", "format - - 512 32 - - - - -"]}


def observe(r, variant_pair_has_noalloc):
    """what one op showed: kind, payload, listing entries (alloc-only accessors dropped when comparing with noalloc)"""
    n = 8 if variant_pair_has_noalloc else 10
    pay = r.payload
    if r.line.startswith("pages"):
        pay = hashlib.sha256(pay.encode()).hexdigest()
    return (r.kind, pay, tuple(tuple(e[:n]) for e in r.extra))


def run(rep, tier, seed):
    rng = vlib.Rng(seed)
    # ---- the premise of C19_ascii_fold_equiv on the real std: to_uppercase = [to_ascii_uppercase] below 128
    cps = list(range(0, 0x3000)) + list(range(0xFB00, 0xFB10)) + [0xFFFF, 0x10400, 0x10428, 0x4E2D]
    up = {}
    for l in vlib.exec_raw(["upper"], "\n".join(str(c) for c in cps) + "\n", "default").split("\n"):
        t = l.split(" ")
        if len(t) >= 3:
            up[int(t[0])] = (int(t[1]), [int(x) for x in t[2:]])
    for c in range(128):
        rep.count()
        if up[c][1] != [up[c][0]]:
            rep.violation("char::to_uppercase(%d) = %s differs from to_ascii_uppercase = %d: the premise of C19_ascii_fold_equiv fails" % (c, up[c][1], up[c][0]),
                          {"theorem": "C19_ascii_fold_equiv (hypothesis upper_agree)"}, nofail=True)
    # ---- histories
    nh = {"ascii": 60, "nonascii-exact": 40, "nonascii-case": 50} if tier == "quick" else {"ascii": 1500, "nonascii-exact": 1000, "nonascii-case": 1200}
    nops = 45 if tier == "quick" else 60
    hist = []
    for kind, n in nh.items():
        for i in range(n):
            fat = "12" if (tier == "quick" and i % 5) or (tier != "quick" and i % 3 == 0) else ("16" if i % 2 else "32")
            lines, tags, pool = gen_history(rng, kind, nops)
            setup = VOLS[fat] + ["mount 1 0 lossy", "clock 2001 2 3 4 5 6 0"]
            hist.append((kind, fat, setup + lines, ["setup"] * len(setup) + tags, pool))
    res = {v: vlib.run_scripts([h[2] for h in hist], v) for v in VARIANTS}
    dist = {"histories": dict(nh), "ops": 0, "op_kinds": {}, "result_kinds": {}, "name_units": {"1-12": 0, "13-26": 0, "27-128": 0, "129-254": 0, "255": 0, "13k": 0},
            "nonascii_case_lookups": 0, "nonascii_case_lookups_that_differ": 0, "images_compared": 0}
    nfail = 0
    for hi, (kind, fat, script, tags, pool) in enumerate(hist):
        for s in pool:
            u = units(s)
            b = "1-12" if u <= 12 else "13-26" if u <= 26 else "27-128" if u <= 128 else "129-254" if u <= 254 else "255"
            dist["name_units"][b] += 1
            if u % 13 == 0: dist["name_units"]["13k"] += 1
        rd, rn, ru = res["default"][hi], res["noalloc"][hi], res["nounicode"][hi]
        for r in rd:
            k = r.line.split(" ")[0]
            dist["op_kinds"][k] = dist["op_kinds"].get(k, 0) + 1
            rk = r.kind if r.kind != "err" else "err " + r.payload.split(" ")[0]
            dist["result_kinds"][rk] = dist["result_kinds"].get(rk, 0) + 1
        dist["ops"] += len(rd)
        # a panic / hang under any feature set is a failure of the history itself
        for v, rs in (("default", rd), ("noalloc", rn), ("nounicode", ru)):
            bad = next((j for j, r in enumerate(rs) if r.kind in ("panic", "hang")), None)
            if bad is not None and nfail < 3:
                nfail += 1
                rep.violation("%s build: %s ends with %s" % (v, script[bad], rs[bad].kind), {"script": script[:bad + 1], "variant": v})
        # (1) alloc vs fixed buffer: every op, every history
        rep.count()
        okA = True
        for j in range(len(script)):
            if observe(rd[j], True) != observe(rn[j], True):
                okA = False
                if nfail < 3:
                    nfail += 1
                    what = "final image" if script[j] == "pages" else "observation"
                    rep.violation("alloc and no-alloc builds differ (%s) at op %d `%s` of a %s history on FAT%s: %s vs %s"
                                  % (what, j, script[j][:80], kind, fat, str(observe(rd[j], True))[:300], str(observe(rn[j], True))[:300]),
                                  {"script": script[:j + 1] + (["drop_all", "unmount", "pages"] if script[j] != "pages" else []), "variants": ["default", "noalloc"]})
                break
        # (2) unicode vs ASCII folding
        rep.count()
        okU = True
        for j in range(len(script)):
            if observe(rd[j], False) != observe(ru[j], False):
                if tags[j] == "lookup-nonascii-case":
                    dist["nonascii_case_lookups_that_differ"] += 1       # the documented difference; later state may legitimately differ
                else:
                    okU = False
                    if nfail < 3:
                        nfail += 1
                        rep.violation("unicode and no-unicode builds differ at op %d `%s` (%s) of a %s history on FAT%s, which is not a case-insensitive lookup of a non-ASCII name: %s vs %s"
                                      % (j, script[j][:80], tags[j], kind, fat, str(observe(rd[j], False))[:300], str(observe(ru[j], False))[:300]),
                                      {"script": script[:j + 1], "variants": ["default", "nounicode"]})
                break
        dist["nonascii_case_lookups"] += sum(1 for t in tags if t == "lookup-nonascii-case")
        if okA and okU:
            dist["images_compared"] += 1
            rep.distinct(("hist", hi))
            rep.cov["traces_validated_against_impl"] += 1
        if hi < 2:
            rep.sample({"history_kind": kind, "fat": fat, "ops": len(script), "first_names": pool[:2], "final_image_sha": observe(rd[-1], False)[1][:16]})
    # ---- listed units = from_ucs2_units model (both variants) for every created name that exists afterwards
    names = []
    for _ in range(300 if tier == "quick" else 3000):
        names.append(gen_name(rng, "ascii" if rng.chance(1, 2) else "nonascii"))
    for n in (1, 12, 13, 14, 26, 39, 247, 254, 255):
        names.append("".join(LETTERS[(i * 7 + n) % 52] for i in range(n)))
    names = [n for i, n in enumerate(names) if len(n.encode("utf-8")) <= 255 and "/" not in n and fold_key(n) not in set(fold_key(m) for m in names[:i])]
    minp = []
    for n in names:
        minp += ["vec " + u16hex(n), "fixed " + u16hex(n)]
    mout = vlib.model_run("c17u", "\n".join(minp) + "\n")
    scripts = []
    per = 12
    groups = [names[i:i + per] for i in range(0, len(names), per)]
    for g in groups:
        sc = VOLS["16"] + ["mount 1 0 lossy"]
        for k, n in enumerate(g):
            sc += ["create_file 0 %s %d" % (hexs(n), 20 + k), "drop_file %d" % (20 + k)]
        sc += ["list 0"]
        scripts.append(sc)
    for variant, w in (("default", 0), ("noalloc", 1)):
        rs = vlib.run_scripts(scripts, variant)
        ni = 0
        for g, sc, r in zip(groups, scripts, rs):
            listed = [e[0] for e in r[-1].extra] if r[-1].kind == "ok" else None
            for k, n in enumerate(g):
                rep.count()
                m = mout[2 * ni + w].split(" "); ni += 1
                exp = u16hex(n)
                cr = r[4 + 2 * k]
                if m[0] != "ok" or m[2] != exp or int(m[1]) != units(n):
                    rep.violation("model from_ucs2_units (%s) does not hold the units of a %d-unit name: %s" % (variant, units(n), " ".join(m)[:200]),
                                  {"theorem": "C19_from_units_equiv", "name_hex": hexs(n)}, nofail=True)
                elif cr.kind == "ok" and (listed is None or exp not in listed) and nfail < 3:
                    nfail += 1
                    rep.violation("%s build: a created %d-unit name is not listed with its own units (model from_ucs2_units = as_ucs2_units = the name)" % (variant, units(n)),
                                  {"script": sc, "variant": variant, "name_hex": hexs(n)})
                elif cr.kind == "ok":
                    rep.distinct(("units", variant, n))
    # ---- lookups against the model's eq_name with the matching case mapping
    lookups(rep, tier, rng, up, dist)
    # ---- C19_builder_equiv on malformed directories: the crafted regions of C17, listed by all three builds
    crafted(rep, tier, rng, dist)
    foreign_sfn_renames(rep, dist)
    rep.cov["distribution"] = dist
    rep.cov["rule"] = ("a history = ~%d seeded ops (create/write/rename/remove/list/open by differently-cased names, malformed names) on FAT12/16/32, run under the "
                       "three feature sets; counted when alloc vs no-alloc agree on every observation and on the final image AND unicode vs no-unicode agree "
                       "everywhere except at case-insensitive lookups of non-ASCII names; plus names whose listed units equal the model's from_ucs2_units in both "
                       "buffer variants; plus lookups whose found/not-found outcome equals the model's eq_name with the build's case mapping" % nops)


def crafted(rep, tier, rng, dist):
    from props import c17
    cases = []
    for g in (c17.gen_patterns, c17.gen_long, c17.gen_content, c17.gen_soup):
        cs = list(g(rng, tier))
        cases += cs if tier != "quick" else [c for i, c in enumerate(cs) if i % 4 == 0 or c[0].startswith("long")]
    vtag, setup = c17.volumes()[0]
    outs = {}
    for v in VARIANTS:
        outs[v], scripts = c17.run_cases(cases, v, c17.prepare(vtag, setup, v))
    nbad = 0
    for i, (tag, slots) in enumerate(cases):
        rep.count()
        a, b, c = outs["default"][i], outs["noalloc"][i], outs["nounicode"][i]
        na = (a[0], [e[:8] for e in a[1]] if a[0] == "ok" else a[1])
        nb = (b[0], [e[:8] for e in b[1]] if b[0] == "ok" else b[1])
        if na != nb or a != c:
            nbad += 1
            if nbad <= 3:
                rep.violation("the builds list a crafted directory (%s) differently: default %s | noalloc %s | nounicode %s"
                              % (tag, str(na)[:300], str(nb)[:300], str(c)[:300]), {"script": scripts[i], "variants": VARIANTS})
        else:
            rep.distinct(("crafted", i))
    dist["crafted_directories"] = len(cases)


def foreign_sfn_renames(rep, dist):
    """short-name-only entries as Windows NT / Linux vfat store all-lowercase 8.3 names (no long-name slots, the lowercase flags
    0x08 / 0x10 in byte 12) - this library never writes them - then same-directory renames onto every spelling of the own
    name (the flag-applied one, the raw upper-case one, a mixed one) and onto new names; ASCII only: every build must show the
    same observations and leave the same image"""
    import namelib
    from props import c17
    su = VOLS["12"] + ["dump 0 512"]
    g = namelib.geom_of(vlib.run_scripts([su], "default")[0][3].payload)
    ents = [(b"README  TXT", 0x18), (b"NOTES   TXT", 0x18), (b"PLAIN   TXT", 0x00), (b"BASELOW BIN", 0x08), (b"EXTLOW  BIN", 0x10), (b"NOEXT      ", 0x08)]
    pokes = ["poke %d %s" % (g.root_off + 32 * i, c17.sfn(n, 0x20, res=fl).hex()) for i, (n, fl) in enumerate(ents)]
    sc = VOLS["12"] + pokes + ["mount 1 0 lossy", "list 0"]
    for a_, b_ in [("readme.txt", "readme.txt"), ("notes.txt", "NOTES.TXT"), ("PLAIN.TXT", "PLAIN.TXT"), ("plain.txt", "Plain.Txt"), ("baselow.BIN", "baselow.BIN"),
                   ("EXTLOW.bin", "extlow.bin"), ("noext", "noext"), ("NOEXT", "NoExt"), ("readme.txt", "README.TXT"), ("notes.txt", "notes2.txt"), ("BASELOW.BIN", "baselow.bin")]:
        sc += ["rename 0 %s 0 %s" % (hexs(a_), hexs(b_)), "list 0"]
    sc += ["open_file 0 %s 9" % hexs("ReadMe.TXT"), "drop_all", "unmount", "mount 1 0 lossy", "list 0", "unmount", "pages"]
    obs = {}
    for v in VARIANTS:
        rs = vlib.run_scripts([sc], v)[0]
        obs[v] = [observe(r, True) for r in rs]
        bad = [r for r in rs if r.kind in ("panic", "hang", "bad")]
        if bad:
            rep.violation("%s build: %r on short-name-only entries with lowercase flags" % (v, bad[0]), {"script": sc, "variant": v}); return
    rep.count()
    for v in VARIANTS[1:]:
        if obs[v] != obs["default"]:
            k = next(i for i in range(len(sc)) if obs[v][i] != obs["default"][i])
            rep.violation("the default and the %s build differ at %r on a volume holding short-name-only entries with lowercase flags (ASCII names only): %s | %s"
                          % (v, sc[k][:60], str(obs["default"][k])[:200], str(obs[v][k])[:200]), {"script": sc[:k + 1], "variants": ["default", v]})
            return
    rep.distinct(("foreign-sfn-renames",))
    dist["foreign_sfn_rename_ops"] = 11


def lookups(rep, tier, rng, up, dist):
    nd = 25 if tier == "quick" else 600
    dirs = []
    for d in range(nd):
        pool, keys = [], set()
        while len(pool) < 8:
            s = gen_name(rng, "nonascii" if rng.chance(2, 3) else "ascii")
            if len(s.encode("utf-8")) > 255 or "/" in s or fold_key(s) in keys or units(s) > 60:
                continue
            keys.add(fold_key(s)); pool.append(s)
        qs = []
        for s in pool:
            qs += [s, ascii_swapcase(s, rng), unicode_casevariant(s, rng), s.upper(), s.lower(), s + "x", s[:-1] or "y"]
        qs = [q for q in qs if q and len(q.encode("utf-8")) <= 255 and not any(ord(c) > 0xFFFF for c in q)]
        sc = VOLS["12"] + ["mount 1 0 lossy"]
        for k, n in enumerate(pool):
            sc += ["create_file 0 %s %d" % (hexs(n), 20 + k), "drop_file %d" % (20 + k)]
        sc += ["list 0"]
        base = len(sc)
        for k, q in enumerate(qs):
            sc += ["open_file 0 %s %d" % (hexs(q), 100 + k), "drop_file %d" % (100 + k)]
        dirs.append((pool, qs, sc, base))
    # deterministic directory: ASCII punctuation that differs from another legal character only in bit 5 (the "case bit" of
    # letters): ^ ~   @ `   [ {   ] }  - in long names, in lossless 8.3 names and in generated aliases (NAME~1)
    def twin(q):
        m = {"^": "~", "~": "^", "@": "`", "`": "@", "[": "{", "{": "[", "]": "}", "}": "]"}
        return "".join(m.get(c, c) for c in q)
    pool = ["report 2024.txt", "a{b}.txt", "x`y", "p@q.dat", "m^n.c", "tilde~name.longer ext", "K[1].TXT", "plain.txt"]
    qs = []
    for s_ in pool:
        qs += [s_, twin(s_), twin(s_).upper(), ascii_swapcase(twin(s_), rng)]
    qs += ["report~1.txt", "report^1.txt", "REPORT^1.TXT", "tilde~1.lon", "tilde^1.lon", "k_1_~1.txt", "k_1_^1.txt", "K{1}.TXT", "a[b].txt", "x@y", "p`q.dat", "m~n.c"]
    sc = VOLS["12"] + ["mount 1 0 lossy"]
    for k, n in enumerate(pool):
        sc += ["create_file 0 %s %d" % (hexs(n), 20 + k), "drop_file %d" % (20 + k)]
    sc += ["list 0"]
    base = len(sc)
    for k, q in enumerate(qs):
        sc += ["open_file 0 %s %d" % (hexs(q), 100 + k), "drop_file %d" % (100 + k)]
    dirs.append((pool, qs, sc, base))
    table = "".join("U %d %s\n" % (c, " ".join(str(x) for x in u[1])) for c, u in up.items() if u[1] != [c])
    ntab = table.count("\n")
    nbad = 0
    outcome = {}
    for variant in VARIANTS:
        which = "ascii" if variant == "nounicode" else "table"
        rs = vlib.run_scripts([d[2] for d in dirs], variant)
        for (pool, qs, sc, base), r in zip(dirs, rs):
            ents = r[base - 1].extra
            minp = table
            for q in qs:
                for e in ents:
                    minp += "%s %s %s %s\n" % (which, e[0], e[1], hexs(q))
            mo = vlib.model_run("c17e", minp)[ntab:]
            for k, q in enumerate(qs):
                rep.count()
                o = r[base + 2 * k]
                found_model = any(x == "1" for x in mo[k * len(ents):(k + 1) * len(ents)])
                found_impl = o.kind == "ok"
                outcome[(variant, id(sc), k)] = found_impl
                if o.kind not in ("ok", "err") and nbad < 3:
                    nbad += 1
                    rep.violation("%s build: lookup ended with %s" % (variant, o.kind), {"script": sc[:base + 2 * k + 1], "variant": variant})
                elif found_model != found_impl and nbad < 3:
                    nbad += 1
                    rep.violation("correspondence Model/Lfn.v eq_name (%s mapping) vs %s build broken: lookup of %r among %r: model %s, impl %s"
                                  % (which, variant, q, pool, found_model, o.kind + " " + o.payload),
                                  {"script": sc[:base + 2 * k + 1], "theorem": "C19_eq_name_ascii_equiv (correspondence of eq_name)", "variant": variant}, nofail=True)
                else:
                    rep.distinct(("lookup", variant, q, tuple(pool)))
    # direct statement: builds differ only where a non-ASCII character is involved; alloc never matters
    nd_, diff, ndir = 0, 0, 0
    for (pool, qs, sc, base) in dirs:
        for k, q in enumerate(qs):
            a, b, c = outcome[("default", id(sc), k)], outcome[("noalloc", id(sc), k)], outcome[("nounicode", id(sc), k)]
            nd_ += 1
            if a != b and ndir < 3:
                ndir += 1
                rep.violation("alloc and no-alloc builds disagree on the lookup of %r" % q, {"script": sc[:base + 2 * k + 1], "variants": ["default", "noalloc"]})
            if a != c:
                diff += 1
                if is_ascii(q) and all(is_ascii(p) for p in pool) and ndir < 3:
                    ndir += 1
                    rep.violation("unicode and no-unicode builds disagree on the lookup of the ASCII name %r in a directory of ASCII names" % q,
                                  {"script": sc[:base + 2 * k + 1], "variants": ["default", "nounicode"]})
                elif is_ascii(q) and ndir < 3 and not any((not is_ascii(p)) and fold_key(p) == fold_key(q) for p in pool):
                    ndir += 1
                    rep.violation("unicode and no-unicode builds disagree on the lookup of %r although no non-ASCII name of the directory folds to it" % q,
                                  {"script": sc[:base + 2 * k + 1], "variants": ["default", "nounicode"]})
    dist["lookup_queries"] = nd_
    dist["lookup_queries_where_unicode_matters"] = diff


def replay(rj):
    """./check C19 --replay file: runs the failing script under the builds it names and prints the last observations"""
    import json
    r = rj.get("replay", {})
    sc = r.get("script")
    print(rj.get("what", "")[:1000])
    if sc:
        for v in (r.get("variants") or ([r["variant"]] if r.get("variant") else VARIANTS)):
            vlib.harness_build(v)
            res = vlib.run_scripts([sc], v)[0]
            print("== %s build" % v)
            for x in res[-3:]:
                pay = hashlib.sha256(x.payload.encode()).hexdigest()[:16] if x.line.startswith("pages") else x.payload[:200]
                print(x.line[:120], "->", x.kind, pay)
                for e in x.extra:
                    print("   e", " ".join(e)[:400])
    else:
        print(json.dumps(r, indent=1)[:3000])
    return 0
